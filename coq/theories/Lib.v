(* Shared helpers: integer case codec, list utilities.  Definitions only + small lemmas. *)
From Coq Require Export List ZArith Lia Bool.
Export ListNotations.
Open Scope Z_scope.

(* Cases reach every model as a flat [list Z]; these readers consume a prefix and
   return the rest, [None] on malformed input (the harness never produces one; the
   driver prints "ERR" if it happens). *)
Definition rd1 (l : list Z) : option (Z * list Z) :=
  match l with x :: r => Some (x, r) | [] => None end.

Fixpoint rdn (n : nat) (l : list Z) : option (list Z * list Z) :=
  match n with
  | O => Some ([], l)
  | S n' => match l with
            | x :: r => match rdn n' r with
                        | Some (xs, r') => Some (x :: xs, r')
                        | None => None
                        end
            | [] => None
            end
  end.

(* length-prefixed list *)
Definition rdlist (l : list Z) : option (list Z * list Z) :=
  match l with
  | n :: r => if n <? 0 then None else rdn (Z.to_nat n) r
  | [] => None
  end.

Definition b2z (b : bool) : Z := if b then 1 else 0.
Definition z2b (z : Z) : bool := negb (z =? 0).

Definition zlen {A} (l : list A) : Z := Z.of_nat (length l).

Fixpoint znth {A} (l : list A) (i : nat) (d : A) : A :=
  match l, i with
  | x :: _, O => x
  | _ :: r, S i' => znth r i' d
  | [], _ => d
  end.

Lemma zlen_nonneg {A} (l : list A) : 0 <= zlen l.
Proof. unfold zlen; lia. Qed.

Lemma zlen_app {A} (a b : list A) : zlen (a ++ b) = zlen a + zlen b.
Proof. unfold zlen; rewrite app_length; lia. Qed.

Lemma zlen_cons {A} (x : A) l : zlen (x :: l) = 1 + zlen l.
Proof. unfold zlen; simpl length; lia. Qed.

Definition list_eqb_Z (a b : list Z) : bool :=
  (Nat.eqb (length a) (length b)) && forallb (fun p => fst p =? snd p) (combine a b).

Lemma skipn_skipn {A} : forall (a b : nat) (l : list A), skipn a (skipn b l) = skipn (b + a) l.
Proof.
  intros a b; revert a. induction b as [|b IH]; intros a l; [reflexivity|].
  destruct l as [|x r]; cbn [skipn plus]; [destruct a; reflexivity|apply IH].
Qed.


Lemma nth_firstn' {A} (d : A) : forall (n k : nat) (l : list A),
  nth k (firstn n l) d = if (k <? n)%nat then nth k l d else d.
Proof.
  induction n as [|n IH]; intros k l; [destruct k; reflexivity|].
  destruct l as [|x r]; [cbn [firstn]; destruct k; destruct (Nat.ltb _ _); reflexivity|].
  destruct k as [|k]; [reflexivity|]. cbn [firstn nth]. rewrite IH. reflexivity.
Qed.

Lemma nth_skipn' {A} (d : A) : forall (n k : nat) (l : list A), nth k (skipn n l) d = nth (n + k) l d.
Proof.
  induction n as [|n IH]; intros k l; [reflexivity|]. destruct l as [|x r]; [destruct k; reflexivity|].
  cbn [skipn plus nth]. apply IH.
Qed.

//go:build verif

package verifhook

import (
	"math/rand"
	"strings"

	"github.com/cenkalti/rain/v2/internal/infodownloader"
	"github.com/cenkalti/rain/v2/internal/magnet"
)

type fakeInfoPeer struct {
	size uint32
	reqs []uint32
}

func (p *fakeInfoPeer) MetadataSize() uint32            { return p.size }
func (p *fakeInfoPeer) RequestMetadataPiece(i uint32) { p.reqs = append(p.reqs, i) }

func checksum(b []byte) int64 {
	a := int64(1)
	n := len(b)
	for lo := 0; lo < n; lo += 16384 {
		hi := lo + 16384
		if hi > n {
			hi = n
		}
		a = ((a*256+int64(b[lo]))*256 + int64(b[hi-1])) % 1000003
	}
	return a
}

func runInfoDl(in []int64) []int64 {
	pe := &fakeInfoPeer{size: uint32(in[0])}
	d := infodownloader.New(pe)
	var obs []int64
	ops := in[1:]
	for len(ops) > 0 {
		switch ops[0] {
		case 1:
			pe.reqs = nil
			d.RequestBlocks(int(ops[1]))
			obs = append(obs, int64(len(pe.reqs)))
			for _, r := range pe.reqs {
				obs = append(obs, int64(r))
			}
			ops = ops[2:]
		case 2:
			data := make([]byte, ops[2])
			for i := range data {
				data[i] = byte(ops[3])
			}
			idx := ops[1]
			res := Guard(func() []int64 {
				err := d.GotBlock(uint32(idx), data)
				switch {
				case err == nil:
					return []int64{0}
				case strings.Contains(err.Error(), "invalid metadata piece index"):
					return []int64{1}
				case strings.Contains(err.Error(), "unrequested"):
					return []int64{2}
				case strings.Contains(err.Error(), "invalid size"):
					return []int64{3}
				}
				return []int64{-1}
			})
			obs = append(obs, res[0])
			ops = ops[4:]
		default:
			return obs
		}
		obs = append(obs, b2i(d.Done()), checksum(d.Bytes))
	}
	return obs
}

func genInfoDl(r *rand.Rand, tier string) Case {
	size := pick(r, 0, 1, 100, 16383, 16384, 16385, 32768, 40000, 50000)
	in := []int64{size}
	nb := (size + 16383) / 16384
	n := 3 + r.Intn(10)
	requested := int64(0)
	for i := 0; i < n; i++ {
		if r.Intn(3) == 0 {
			q := pick(r, 0, 1, 2, 10)
			in = append(in, 1, q)
			continue
		}
		idx := int64(r.Intn(int(nb) + 2))
		l := int64(16384)
		if idx == nb-1 && size%16384 != 0 {
			l = size % 16384
		}
		switch r.Intn(6) {
		case 0:
			l = pick(r, 0, 1, l-1, l+1, 16384)
		case 1:
			idx = pick(r, nb, nb+1, 1<<31, 4294967295)
		}
		if l < 0 {
			l = 0
		}
		in = append(in, 2, idx, l, int64(1+r.Intn(200)))
		_ = requested
	}
	obs := Guard(func() []int64 { return runInfoDl(in) })
	return Case{In: in, Obs: obs}
}

func decodeMagnet(in []int64) (*magnet.Magnet, bool) {
	if len(in) < 22 {
		return nil, false
	}
	var m magnet.Magnet
	for i := 0; i < 20; i++ {
		m.InfoHash[i] = byte(in[i])
	}
	in = in[20:]
	var b []byte
	b, in = takeLP(in)
	m.Name = string(b)
	nt := int(in[0])
	in = in[1:]
	for t := 0; t < nt; t++ {
		c := int(in[0])
		in = in[1:]
		var tier []string
		for k := 0; k < c; k++ {
			b, in = takeLP(in)
			tier = append(tier, string(b))
		}
		m.Trackers = append(m.Trackers, tier)
	}
	np := int(in[0])
	in = in[1:]
	for p := 0; p < np; p++ {
		b, in = takeLP(in)
		m.Peers = append(m.Peers, string(b))
	}
	return &m, true
}

func encodeMagnet(m *magnet.Magnet) []int64 {
	var o []int64
	for _, c := range m.InfoHash {
		o = append(o, int64(c))
	}
	o = append(o, lpBytes([]byte(m.Name))...)
	o = append(o, int64(len(m.Trackers)))
	for _, t := range m.Trackers {
		o = append(o, int64(len(t)))
		for _, s := range t {
			o = append(o, lpBytes([]byte(s))...)
		}
	}
	o = append(o, int64(len(m.Peers)))
	for _, p := range m.Peers {
		o = append(o, lpBytes([]byte(p))...)
	}
	return o
}

func runMagnet(in []int64) []int64 {
	m, ok := decodeMagnet(in)
	if !ok {
		return []int64{-1}
	}
	m2, err := magnet.New(m.String())
	if err != nil {
		return []int64{0}
	}
	return append([]int64{1}, encodeMagnet(m2)...)
}

func genMagnetStr(r *rand.Rand) string {
	atoms := []string{"a", "Z", "9", "-", "_", ".", "~", " ", "+", "&", "=", "%", "#", "/", ":", "?", ";", "é", "\xff", "http://t.example/announce", "1.2.3.4:6881", "%41", "x"}
	var s []byte
	for k := 1 + r.Intn(4); k > 0; k-- {
		s = append(s, atoms[r.Intn(len(atoms))]...)
	}
	return string(s)
}

func genMagnet(r *rand.Rand, tier string) Case {
	var m magnet.Magnet
	r.Read(m.InfoHash[:])
	if r.Intn(3) != 0 {
		m.Name = genMagnetStr(r)
	}
	for t := r.Intn(4); t > 0; t-- {
		var ti []string
		for k := 1 + r.Intn(3); k > 0; k-- {
			ti = append(ti, genMagnetStr(r))
		}
		m.Trackers = append(m.Trackers, ti)
	}
	for p := r.Intn(3); p > 0; p-- {
		if r.Intn(2) == 0 {
			m.Peers = append(m.Peers, "10.0.0."+itoa(r.Intn(255))+":"+itoa(1+r.Intn(65535)))
		} else {
			m.Peers = append(m.Peers, genMagnetStr(r))
		}
	}
	in := encodeMagnet(&m)
	return Case{In: in, Obs: Guard(func() []int64 { return runMagnet(in) })}
}

func init() {
	Register(1301, "infodownloader RequestBlocks/GotBlock sequences with a recording peer", genInfoDl)
	RegisterReplay(1301, runInfoDl)
	Register(1302, "magnet.New(m.String()) for generated magnets", genMagnet)
	RegisterReplay(1302, runMagnet)
}

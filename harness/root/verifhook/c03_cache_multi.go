//go:build verif

package verifhook

import (
	"math/rand"
	"time"

	"github.com/cenkalti/rain/v2/internal/cachedpiece"
	"github.com/cenkalti/rain/v2/internal/piececache"
)

// kind 305: many pieces read through ONE read cache (as an uploading torrent does): a block of one
// piece must never be answered from the cached block of another piece.  Twelve or more pieces with
// eleven or more cache blocks each, reads in any order over a warm cache.
// in = [PL npieces nfiles (len pad)* rs cmax nreads (piece off n)*]   obs = per read [count bytes...]

func runCachedMulti(in []int64) []int64 {
	pl, lens, pads, rest := decodeLayout(in)
	_, ps, mems, err := PiecesWithStorage(pl, lens, pads)
	if err != nil {
		return []int64{-700}
	}
	for k, m := range mems {
		for j := range m.B {
			m.B[j] = byte((7*k + 13*j + 1) % 251)
		}
	}
	rs, cmax, nr := rest[0], rest[1], int(rest[2])
	rest = rest[3:]
	cache := piececache.New(cmax, time.Hour, 4)
	defer cache.Close()
	var peerID [20]byte
	cps := make([]*cachedpiece.CachedPiece, len(ps))
	for i := range ps {
		cps[i] = cachedpiece.New(&ps[i], cache, rs, peerID)
	}
	var obs []int64
	for i := 0; i < nr; i++ {
		pi, off, n := rest[3*i], rest[3*i+1], rest[3*i+2]
		b := make([]byte, n)
		k, err := cps[pi].ReadAt(b, off)
		if err != nil {
			obs = append(obs, -1)
			continue
		}
		obs = append(obs, int64(k))
		for _, c := range b[:k] {
			obs = append(obs, int64(c))
		}
	}
	return obs
}

func genCachedMulti(r *rand.Rand, tier string) Case {
	rs := pick(r, 1, 2, 3, 4)
	blocks := int64(11 + r.Intn(16))
	pl := rs * blocks
	np := int64(12 + r.Intn(14))
	tot := pl*(np-1) + 1 + r.Int63n(pl)
	in := []int64{pl, np, 1, tot, 0}
	cmax := pick(r, 1<<20, 1<<20, rs*40)
	var reads [][3]int64
	add := func(pi, blk int64) {
		if pi >= np {
			return
		}
		plen := pl
		if pi == np-1 {
			plen = tot - pl*(np-1)
		}
		off := blk * rs
		if off >= plen {
			return
		}
		n := 1 + r.Int63n(min64(rs, plen-off))
		reads = append(reads, [3]int64{pi, off, n})
	}
	for k := 0; k < 6+r.Intn(10); k++ {
		if r.Intn(2) == 0 {
			// two (piece, block) pairs whose decimal digits concatenate to the same string
			d := int64(r.Intn(10))
			a, b := int64(1+r.Intn(2)), int64(r.Intn(10))
			add(a, 10*b+d)   // "a" ++ "bd"
			add(10*a+b, d)   // "ab" ++ "d"
		} else {
			add(r.Int63n(np), r.Int63n(blocks))
		}
	}
	if len(reads) == 0 {
		add(0, 0)
	}
	in = append(in, rs, cmax, int64(len(reads)))
	for _, x := range reads {
		in = append(in, x[0], x[1], x[2])
	}
	return Case{In: in, Obs: Guard(func() []int64 { return runCachedMulti(in) })}
}

func init() {
	Register(305, "cachedpiece.ReadAt over many pieces sharing one read cache", genCachedMulti)
	RegisterReplay(305, runCachedMulti)
}

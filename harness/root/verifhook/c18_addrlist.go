//go:build verif

package verifhook

import (
	"fmt"
	"math/rand"
	"net"
	"strings"

	"github.com/cenkalti/rain/v2/internal/addrlist"
	"github.com/cenkalti/rain/v2/internal/blocklist"
	"github.com/cenkalti/rain/v2/internal/peerpriority"
	"github.com/cenkalti/rain/v2/internal/peersource"
)

func ip4(v int64) net.IP { return net.IPv4(byte(v>>24), byte(v>>16), byte(v>>8), byte(v)) }
func ipInt(ip net.IP) int64 {
	b := ip.To4()
	return int64(b[0])<<24 | int64(b[1])<<16 | int64(b[2])<<8 | int64(b[3])
}

type alCfg struct {
	max, port int64
	cip       int64
	ranges    [][2]int64
	hasBL     bool
}

func decodeALCfg(in []int64) (alCfg, []int64) {
	c := alCfg{max: in[0], port: in[1], cip: in[2]}
	nr := in[3]
	in = in[4:]
	if nr >= 0 {
		c.hasBL = true
		for i := int64(0); i < nr; i++ {
			c.ranges = append(c.ranges, [2]int64{in[0], in[1]})
			in = in[2:]
		}
	}
	return c, in
}

func (c alCfg) clientAddr() *net.TCPAddr {
	ip := net.IPv4(0, 0, 0, 0)
	if c.cip >= 0 {
		ip = ip4(c.cip)
	}
	return &net.TCPAddr{IP: ip, Port: int(c.port)}
}

func runAddrList(in []int64) []int64 {
	c, ops := decodeALCfg(in)
	var bl *blocklist.Blocklist
	if c.hasBL {
		bl = blocklist.New()
		var sb strings.Builder
		for _, r := range c.ranges { // ranges are CIDR blocks [a, b]
			size := r[1] - r[0] + 1
			k := 32
			for s := int64(1); s < size; s <<= 1 {
				k--
			}
			fmt.Fprintf(&sb, "%s/%d\n", ip4(r[0]).String(), k)
		}
		if len(c.ranges) > 0 {
			if _, err := bl.Reload(strings.NewReader(sb.String())); err != nil {
				return []int64{-705}
			}
		}
	}
	var cip net.IP
	if c.cip >= 0 {
		cip = ip4(c.cip)
	}
	al := addrlist.New(int(c.max), bl, int(c.port), &cip)
	var obs []int64
	state := func() {
		obs = append(obs, int64(al.Len()))
		for s := 0; s < 5; s++ {
			obs = append(obs, int64(al.LenSource(peersource.Source(s))))
		}
	}
	for len(ops) > 0 {
		switch ops[0] {
		case 0:
			src, n := ops[1], int(ops[2])
			ops = ops[3:]
			var addrs []*net.TCPAddr
			for i := 0; i < n; i++ {
				addrs = append(addrs, &net.TCPAddr{IP: ip4(ops[0]), Port: int(ops[1])})
				ops = ops[3:]
			}
			al.Push(addrs, peersource.Source(src))
			state()
		case 1:
			ops = ops[1:]
			a, s := al.Pop()
			if a == nil {
				obs = append(obs, -1, -1, -1)
			} else {
				obs = append(obs, ipInt(a.IP), int64(a.Port), int64(s))
			}
			state()
		case 2:
			ops = ops[1:]
			al.Reset()
			state()
		default:
			return obs
		}
	}
	return obs
}

func genAddrList(r *rand.Rand, tier string) Case {
	c := alCfg{max: int64(r.Intn(7)), port: 6881, cip: -1}
	if r.Intn(2) == 0 {
		c.cip = pick(r, 0x05060708, 0x7F000001, 0x0A000005)
	}
	in := []int64{c.max, c.port, c.cip}
	if r.Intn(2) == 0 {
		c.hasBL = true
		nr := r.Intn(3)
		in = append(in, int64(nr))
		for i := 0; i < nr; i++ {
			k := uint(8 + r.Intn(25))
			size := int64(1) << (32 - k)
			base := pick(r, 0x01020000, 0x05060000, 0x0A000000) / size * size
			c.ranges = append(c.ranges, [2]int64{base, base + size - 1})
			in = append(in, base, base+size-1)
		}
	} else {
		in = append(in, -1)
	}
	ca := c.clientAddr()
	pool := []int64{0x01020304, 0x01020305, 0x01020204, 0x05060708, 0x05060709, 0x7F000001, 0x7F000002, 0x0A000005, 0x0A000006, 0x08080808, 0xC0A80101, 0x01020000, 0x050600FF}
	nops := 3 + r.Intn(8)
	for o := 0; o < nops; o++ {
		switch x := r.Intn(10); {
		case x < 6:
			n := r.Intn(5)
			if int(c.max)+n > 11 { // keep the time-sorted slice short enough for a stable sort (<= 12)
				n = 11 - int(c.max)
			}
			in = append(in, 0, int64(r.Intn(5)), int64(n))
			for i := 0; i < n; i++ {
				ip := pool[r.Intn(len(pool))]
				if r.Intn(6) == 0 {
					ip = int64(r.Uint32())
				}
				port := pick(r, 6881, 0, 1, 51413, 6882)
				prio := int64(peerpriority.Calculate(&net.TCPAddr{IP: ip4(ip), Port: int(port)}, ca))
				in = append(in, ip, port, prio)
			}
		case x < 9:
			in = append(in, 1)
		default:
			in = append(in, 2)
		}
	}
	return Case{In: in, Obs: Guard(func() []int64 { return runAddrList(in) })}
}

func init() {
	Register(1803, "addrlist Push/Pop/Reset sequences with real peerpriority and blocklist", genAddrList)
	RegisterReplay(1803, runAddrList)
}

(* C10 — downloads complete whenever an honest full source is reachable (partial: see MANIFEST note). *)
From RainV Require Import Lib Geometry PieceDl Leech LeechProofs.

(* "No idle, unchoked peer holding a needed and unrequested piece is left without a request":
   [elig s p] says exactly that peer p is open, idle, unchoking us and holds a piece that is neither
   done nor being written nor downloaded by anybody.  After every handler of a history whose
   observed choices were all accepted by the model ([s_bad = 0], which the correspondence check
   establishes for the real event loop on every generated history), no peer is in that situation. *)
Theorem C10_no_idle_unchoked_peer : forall fixed s ev bits asg,
  let s' := fst (lstep fixed s ev bits asg) in
  s_bad s' = 0 -> forall p, elig s' p = false.
Proof. intros fixed s ev bits asg s' H. apply (step_no_idle fixed s ev bits asg H). Qed.
Print Assumptions C10_no_idle_unchoked_peer.

(* the acceptance flag is sticky: an accepted last state means every earlier step was accepted too *)
Theorem C10_acceptance_is_sticky : forall fixed s ev bits asg, s_bad (fst (lstep fixed s ev bits asg)) = 0 -> s_bad s = 0.
Proof. exact bad_sticky. Qed.
Print Assumptions C10_acceptance_is_sticky.

(* the pinned event loop did not re-run the picker when a downloading peer was closed: in the
   model of the pinned code ([fixed = false]) a full seed is left idle for ever (fix D20);
   the replay is the history below: peer 1 downloads the only piece, peer 0 (a seed, unchoking)
   is idle because the end-game limit is 1, peer 1 disconnects. *)
Definition d20_state : lst :=
  let q0 := {| q_present := true; q_closed := false; q_choking := false; q_fast := false; q_has := [true]; q_af := [];
               q_dl := None; q_int := true; q_reqq := -1; q_frames := [] |} in
  let q1 := {| q_present := true; q_closed := false; q_choking := false; q_fast := false; q_has := [true]; q_af := [];
               q_dl := Some {| l_idx := 0; l_af := false; l_pd := pdl_new [{| bbeg := 0; blen := 4004 |}] 0 false false;
                               l_good := true; l_hist := [] |}; q_int := true; q_reqq := -1; q_frames := [] |} in
  {| s_blocks := [[{| bbeg := 0; blen := 4004 |}]]; s_secs := [[]]; s_done := [false]; s_writing := [false];
     s_peers := [q0; q1]; s_inflight := None; s_banned := []; s_completed := false; s_q := 1; s_maxdup := 1;
     s_stopped := false; s_inhist := []; s_written := []; s_bad := 0 |}.
Theorem C10_refuted_on_pinned_code :
  elig d20_state 0 = false /\
  elig (fst (dispatch false d20_state 11 1 0 0 0 0 [])) 0 = true /\
  snd (dispatch false d20_state 11 1 0 0 0 0 []) = [] /\
  snd (dispatch true d20_state 11 1 0 0 0 0 []) = [0].
Proof. vm_compute. repeat split; reflexivity. Qed.
Print Assumptions C10_refuted_on_pinned_code.

(* progress of the block pipeline inside one download is C01's piece-downloader model (kind 102);
   completion with correct files when the last piece is written is C01_session_integrity + C02. *)

(* ---- the picker never leaves an idle holder without a piece (Picker.v / PickerWs.v, kinds 901 / 903) ---- *)
From RainV Require Import Picker PickerProofs PickerWs PickerWsProofs.
(* whenever the loop asks the picker for a peer that is idle and unchoking us and holds a piece that
   is neither done, being written nor requested, the picker has a piece for it (any end-game limit
   of at least 1, both modes, any state): "no piece" is not an answer it may give *)
Theorem C10_idle_holder_always_gets_a_piece : forall s pe i, 1 <= maxdup s ->
  let P := get_peer (peers s) pe in let p := get_piece s i in
  pe_downloading P = false -> pe_choking P = false ->
  in_range s i = true -> p_done p = false -> p_writing p = false -> In pe (p_having p) -> p_req p = [] ->
  pick_possible s (fst (find_piece s pe)) = true /\ pick_check s pe None = None.
Proof. intros s pe i H P p H1 H2 H3 H4 H5 H6 H7. split; [eapply idle_holder_gets_a_pick|eapply no_pick_is_illegal]; eauto. Qed.
Print Assumptions C10_idle_holder_always_gets_a_piece.

(* the same while a web seed is downloading, for a piece that is not reserved for a web seed *)
Theorem C10_idle_holder_gets_a_piece_in_webseed_mode : forall s pe i, downloading_ws s = true ->
  let P := get_peer (peers (base s)) pe in let p := get_piece (base s) i in
  pe_downloading P = false -> pe_choking P = false ->
  in_range (base s) i = true -> avail_ws s i = true -> In pe (p_having p) -> p_req p = [] ->
  wpick_check s pe None = None.
Proof. exact ws_idle_holder_gets_a_pick. Qed.
Print Assumptions C10_idle_holder_gets_a_piece_in_webseed_mode.

(* with an end-game limit of 0 the first statement is false (configuration note in DESIGN) *)
Theorem C10_endgame_limit_zero_starves : exists s pe, pe_downloading (get_peer (peers s) pe) = false /\
  pe_choking (get_peer (peers s) pe) = false /\ In pe (p_having (get_piece s 0)) /\ p_req (get_piece s 0) = [] /\
  p_done (get_piece s 0) = false /\ pick_possible s (fst (find_piece s pe)) = false.
Proof.
  exists {| pieces := [{| p_done := false; p_writing := false; p_having := [7]; p_req := []; p_snub := []; p_chok := []; p_head := false; p_tail := false |}];
            peers := [(7, {| pe_choking := false; pe_downloading := false; pe_af := []; pe_piece := None |})];
            avail := 1; endgame := true; sequential := false; maxdup := 0 |}, 7.
  vm_compute. repeat split; auto.
Qed.
Print Assumptions C10_endgame_limit_zero_starves.

(* ... and for a piece that IS reserved for a web seed but lies beyond the piece the web seed is working
   on: the idle holder steals it (so the only needed pieces an idle holder is not given are the ones a
   web seed is fetching at this moment) *)
Theorem C10_idle_holder_steals_from_a_webseed : forall s pe i k d, downloading_ws s = true ->
  let P := get_peer (peers (base s)) pe in let p := get_piece (base s) i in
  pe_downloading P = false -> pe_choking P = false ->
  0 <= k < zlen (srcs s) -> get_src s k = Some d -> remaining d <> 0 -> d_cur d < i < d_end d ->
  p_done p = false -> p_writing p = false -> In pe (p_having p) -> p_req p = [] ->
  wpick_check s pe None = None.
Proof. exact ws_idle_holder_can_steal. Qed.
Print Assumptions C10_idle_holder_steals_from_a_webseed.

//go:build verif

package verifhook

import (
	"bytes"
	"math/rand"
	"net"
	"net/http"
	"time"

	"github.com/cenkalti/rain/v2/internal/peersource"
	"github.com/cenkalti/rain/v2/torrent"
)

// kind 105: a download whose honest source is a web seed (a local HTTP server with range support),
// alone or next to a peer that has everything, unchokes, takes the requests and never delivers.
// The honest source is served in full, so the download must complete with files equal to the content.
// in  = [variant npieces]   variant 0: web seed only | 1: web seed and a stalling peer | 2: web seed and an honest peer that is choking
// obs = [completed, stored bytes equal the content]
func genWebseed(r *rand.Rand, tier string) Case {
	variant := int64(r.Intn(3))
	pl := int64(16384) * int64(1+r.Intn(2))
	np := 2 + r.Intn(5)
	total := pl*int64(np-1) + 1 + r.Int63n(pl)
	l := vLayout{PL: pl, Name: "w", Lens: []int64{total}, Pads: []bool{false}, Total: total}
	content := l.Content(r.Int63())
	in := []int64{variant, int64(np)}
	ln, err := net.Listen("tcp", "127.0.0.1:0")
	if err != nil {
		return Case{In: in, Obs: []int64{-710}}
	}
	srv := &http.Server{Handler: http.HandlerFunc(func(w http.ResponseWriter, req *http.Request) {
		http.ServeContent(w, req, "w", time.Unix(0, 0), bytes.NewReader(content))
	})}
	go srv.Serve(ln)
	defer srv.Close()
	info := l.InfoBytes(content, -1)
	// a single-file torrent: the url names the file itself
	tf := torrent.BuildTorrentFile(info, []string{"http://" + ln.Addr().String() + "/w/f0"})
	v, err := torrent.NewVLoop(torrent.VLoopOpts{TorrentFile: tf, Tune: func(c *torrent.Config) {
		c.UnchokedPeers = 0
		c.OptimisticUnchokedPeers = 0
		c.RequestTimeout = time.Hour
		c.WebseedRetryInterval = time.Hour
	}})
	if err != nil {
		return Case{In: in, Obs: []int64{-711}, Note: err.Error()}
	}
	defer v.Close()
	v.Truth, v.PL = content, pl
	v.Start()
	if e := v.PumpEx(10*time.Second, torrent.ClsAlloc); e.Code != torrent.EvAllocDone {
		return Case{In: in, Obs: []int64{-712}}
	}
	if variant > 0 {
		vp, err := v.AddPeer(r.Intn(2) == 0, false, peersource.Incoming)
		if err == nil {
			bits := make([]byte, (np+7)/8)
			for i := 0; i < np; i++ {
				bits[i/8] |= 0x80 >> uint(i%8)
			}
			_ = vp.Send(5, bits)
			if variant == 1 {
				_ = vp.Send(1, nil) // unchoke, then silence
			}
		}
	}
	deadline := time.Now().Add(30 * time.Second)
	for time.Now().Before(deadline) && !v.Snapshot().Completed && v.Crash == "" {
		v.Pump(100 * time.Millisecond)
	}
	s := v.Snapshot()
	// let a write that is still in flight land
	for i := 0; i < 50 && v.WriteInFlight(); i++ {
		v.Pump(100 * time.Millisecond)
	}
	f, ok := v.Sto.Files[l.FileName(0)]
	same := ok && bytes.Equal(f.B, content)
	note := s.Status
	if v.Crash != "" {
		note += " crash: " + v.Crash
	}
	return Case{In: in, Obs: []int64{b2i(s.Completed), b2i(same)}, Note: note}
}

func init() {
	Register(105, "download from a web seed alone or next to a stalling / choking peer: completes with the content", genWebseed)
}

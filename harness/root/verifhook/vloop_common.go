//go:build verif

package verifhook

import (
	"crypto/sha1"
	"math/rand"
	"strconv"
	"time"

	"github.com/cenkalti/rain/v2/torrent"
	"github.com/zeebo/bencode"
)

// Scenario content: deterministic bytes per absolute position; padding files are zeros.
type vLayout struct {
	PL    int64
	Lens  []int64
	Pads  []bool
	Name  string
	Total int64
}

func (l vLayout) NumPieces() int { return int((l.Total + l.PL - 1) / l.PL) }

func (l vLayout) PieceLen(i int) int64 {
	if i == l.NumPieces()-1 {
		return l.Total - l.PL*int64(l.NumPieces()-1)
	}
	return l.PL
}

// Content returns the concatenation of all files (padding = zeros).
func (l vLayout) Content(seed int64) []byte {
	b := make([]byte, l.Total)
	r := rand.New(rand.NewSource(seed))
	r.Read(b)
	var off int64
	for i, n := range l.Lens {
		if l.Pads[i] {
			for k := off; k < off+n; k++ {
				b[k] = 0
			}
		}
		off += n
	}
	return b
}

func (l vLayout) FileName(i int) string { return l.Name + "/f" + strconv.Itoa(i) }

func (l vLayout) InfoBytes(content []byte, private int64) []byte {
	np := l.NumPieces()
	hashes := make([]byte, 0, 20*np)
	for i := 0; i < np; i++ {
		lo := int64(i) * l.PL
		hi := lo + l.PieceLen(i)
		h := sha1.Sum(content[lo:hi])
		hashes = append(hashes, h[:]...)
	}
	fs := make([]benFile, len(l.Lens))
	for i := range l.Lens {
		fs[i] = benFile{Length: l.Lens[i], Path: []string{"f" + strconv.Itoa(i)}}
		if l.Pads[i] {
			fs[i].Attr = "p"
		}
	}
	d := map[string]any{"name": l.Name, "piece length": l.PL, "pieces": string(hashes), "files": fs}
	if private >= 0 {
		d["private"] = private
	}
	b, err := bencode.EncodeBytes(d)
	if err != nil {
		panic(err)
	}
	return b
}

// Preload returns the storage image holding the given content (padding files are not stored).
func (l vLayout) Preload(content []byte) map[string][]byte {
	m := map[string][]byte{}
	var off int64
	for i, n := range l.Lens {
		if !l.Pads[i] {
			m[l.FileName(i)] = append([]byte{}, content[off:off+n]...)
		}
		off += n
	}
	return m
}

func genVLayout(r *rand.Rand, maxPieces int) vLayout {
	pl := int64(16384) * int64(1+r.Intn(2))
	if r.Intn(4) == 0 {
		pl = 16384 + int64(r.Intn(16384))
	}
	np := 1 + r.Intn(maxPieces)
	total := pl*int64(np-1) + 1 + r.Int63n(pl)
	nf := 1 + r.Intn(3)
	l := vLayout{PL: pl, Name: "t", Total: total}
	rem := total
	for i := 0; i < nf-1; i++ {
		x := r.Int63n(rem + 1)
		if r.Intn(4) == 0 {
			x = 0
		}
		l.Lens = append(l.Lens, x)
		l.Pads = append(l.Pads, r.Intn(5) == 0 && x > 0 && x < total)
		rem -= x
	}
	l.Lens = append(l.Lens, rem)
	l.Pads = append(l.Pads, false)
	return l
}

const vQuiet = 25 * time.Millisecond

// startSeeding creates a loop with all data present and brings it to Seeding.
func startLoop(l vLayout, content []byte, image map[string][]byte, tune func(*torrent.Config), seq bool) (*torrent.VLoop, error) {
	info := l.InfoBytes(content, -1)
	v, err := torrent.NewVLoop(torrent.VLoopOpts{TorrentFile: torrent.BuildTorrentFile(info, nil), Preload: image, Tune: tune, Sequential: seq})
	if err != nil {
		return nil, err
	}
	v.Start()
	for i := 0; i < 200; i++ {
		v.Settle(vQuiet)
		st := v.Snapshot().Status
		if st == "Seeding" || st == "Downloading" || st == "Stopped" {
			break
		}
	}
	return v, nil
}

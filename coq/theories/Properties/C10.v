(* C10 — downloads complete whenever an honest full source is reachable (partial: see MANIFEST note). *)
From RainV Require Import Lib Geometry PieceDl Leech LeechProofs.

(* "No idle, unchoked peer holding a needed and unrequested piece is left without a request":
   [elig s p] says exactly that peer p is open, idle, unchoking us and holds a piece that is neither
   done nor being written nor downloaded by anybody.  After every handler of a history whose
   observed choices were all accepted by the model ([s_bad = 0], which the correspondence check
   establishes for the real event loop on every generated history), no peer is in that situation. *)
Theorem C10_no_idle_unchoked_peer : forall fixed s ev bits asg,
  let s' := fst (lstep fixed s ev bits asg) in
  s_bad s' = 0 -> forall p, elig s' p = false.
Proof. intros fixed s ev bits asg s' H. apply (step_no_idle fixed s ev bits asg H). Qed.
Print Assumptions C10_no_idle_unchoked_peer.

(* the acceptance flag is sticky: an accepted last state means every earlier step was accepted too *)
Theorem C10_acceptance_is_sticky : forall fixed s ev bits asg, s_bad (fst (lstep fixed s ev bits asg)) = 0 -> s_bad s = 0.
Proof. exact bad_sticky. Qed.
Print Assumptions C10_acceptance_is_sticky.

(* the pinned event loop did not re-run the picker when a downloading peer was closed: in the
   model of the pinned code ([fixed = false]) a full seed is left idle for ever (fix D20);
   the replay is the history below: peer 1 downloads the only piece, peer 0 (a seed, unchoking)
   is idle because the end-game limit is 1, peer 1 disconnects. *)
Definition d20_state : lst :=
  let q0 := {| q_present := true; q_closed := false; q_choking := false; q_fast := false; q_has := [true]; q_af := [];
               q_dl := None; q_int := true; q_reqq := -1; q_frames := [] |} in
  let q1 := {| q_present := true; q_closed := false; q_choking := false; q_fast := false; q_has := [true]; q_af := [];
               q_dl := Some {| l_idx := 0; l_af := false; l_pd := pdl_new [{| bbeg := 0; blen := 4004 |}] 0 false false;
                               l_good := true; l_hist := [] |}; q_int := true; q_reqq := -1; q_frames := [] |} in
  {| s_blocks := [[{| bbeg := 0; blen := 4004 |}]]; s_secs := [[]]; s_done := [false]; s_writing := [false];
     s_peers := [q0; q1]; s_inflight := None; s_banned := []; s_completed := false; s_q := 1; s_maxdup := 1;
     s_stopped := false; s_inhist := []; s_written := []; s_bad := 0 |}.
Theorem C10_refuted_on_pinned_code :
  elig d20_state 0 = false /\
  elig (fst (dispatch false d20_state 11 1 0 0 0 0 [])) 0 = true /\
  snd (dispatch false d20_state 11 1 0 0 0 0 []) = [] /\
  snd (dispatch true d20_state 11 1 0 0 0 0 []) = [0].
Proof. vm_compute. repeat split; reflexivity. Qed.
Print Assumptions C10_refuted_on_pinned_code.

(* progress of the block pipeline inside one download is C01's piece-downloader model (kind 102);
   completion with correct files when the last piece is written is C01_session_integrity + C02. *)

//go:build verif

package metainfo

// CleanName exposes cleanName.
func CleanName(s string) string { return cleanName(s) }

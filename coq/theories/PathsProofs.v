(* Path confinement proofs over the component-level model of Clean/Join. *)
From RainV Require Import Lib Paths.
From Coq Require Import ZifyBool.

Lemma str_eqb_eq : forall a b, str_eqb a b = true <-> a = b.
Proof.
  induction a as [|x r IH]; intros [|y r']; cbn [str_eqb]; split; intros H; try reflexivity; try discriminate.
  - apply andb_prop in H as [H1 H2]. apply IH in H2. f_equal; [lia|assumption].
  - inversion H; subst. rewrite Z.eqb_refl. cbn. apply IH. reflexivity.
Qed.

Definition no_slash (s : str) : Prop := Forall (fun b => b <> slash) s.

(* a component Clean keeps: not "", ".", "..", and slash-free *)
Definition normal (c : str) : Prop :=
  is_empty c = false /\ is_dot c = false /\ is_dotdot c = false /\ no_slash c.

(* ---------- split / intercalate ---------- *)
Lemma split_go_noslash : forall a cur, no_slash a -> split_go cur a = [rev cur ++ a].
Proof.
  induction a as [|b r IH]; intros cur H; cbn [split_go]; [rewrite app_nil_r; reflexivity|].
  inversion H as [|? ? Hb Hr]; subst. destruct (b =? slash) eqn:E; [lia|].
  rewrite IH by assumption. cbn [rev]. rewrite <- app_assoc. reflexivity.
Qed.

Lemma split_go_nonempty : forall a cur, split_go cur a <> [].
Proof. induction a as [|x r IH]; intros cur; cbn [split_go]; [discriminate|]. destruct (x =? slash); [discriminate|apply IH]. Qed.

Lemma split_go_app : forall a cur b, split_go cur (a ++ slash :: b) =
  removelast (split_go cur a) ++ [last (split_go cur a) []] ++ split_go [] b.
Proof.
  induction a as [|x r IH]; intros cur b; cbn [app split_go].
  - rewrite Z.eqb_refl. reflexivity.
  - destruct (x =? slash) eqn:E.
    + rewrite IH. destruct (split_go [] r) eqn:Es.
      * exfalso. eapply split_go_nonempty; eauto.
      * cbn [removelast last app]. reflexivity.
    + apply IH.
Qed.

Lemma comps_app a b : comps (a ++ slash :: b) = comps a ++ comps b.
Proof.
  unfold comps. rewrite split_go_app. cbn [app].
  rewrite (app_removelast_last [] (split_go_nonempty a [])) at 3.
  rewrite <- app_assoc. reflexivity.
Qed.

Lemma comps_noslash a : no_slash a -> comps a = [a].
Proof. intros H. unfold comps. rewrite split_go_noslash by assumption. reflexivity. Qed.

Lemma comps_intercalate : forall l, l <> [] -> Forall no_slash l -> comps (intercalate l) = l.
Proof.
  induction l as [|x r IH]; intros Hne H; [congruence|]. inversion H as [|? ? Hx Hr]; subst.
  destruct r as [|y r']; cbn [intercalate]; [apply comps_noslash; assumption|].
  rewrite comps_app, comps_noslash by assumption. cbn [app]. f_equal. apply IH; [discriminate|assumption].
Qed.

(* ---------- clean_go without ".." ---------- *)
Definition kept (c : str) : bool := negb (is_empty c || is_dot c).

Lemma clean_go_nodotdot rooted : forall cs stack, Forall (fun c => is_dotdot c = false) cs ->
  clean_go rooted stack cs = rev stack ++ filter kept cs.
Proof.
  induction cs as [|c r IH]; intros stack H; cbn [clean_go filter]; [rewrite app_nil_r; reflexivity|].
  inversion H as [|? ? Hc Hr]; subst. unfold kept at 1.
  destruct (is_empty c || is_dot c) eqn:E; cbn [negb]; [apply IH; assumption|].
  rewrite Hc. rewrite IH by assumption. cbn [rev]. rewrite <- app_assoc. reflexivity.
Qed.

Lemma normal_kept c : normal c -> kept c = true.
Proof. intros (H1 & H2 & _). unfold kept. rewrite H1, H2. reflexivity. Qed.

Lemma filter_kept_normal l : Forall normal l -> filter kept l = l.
Proof.
  induction 1 as [|c r Hc Hr IH]; [reflexivity|]. cbn [filter]. rewrite normal_kept, IH by assumption. reflexivity.
Qed.

Lemma normal_nodotdot l : Forall normal l -> Forall (fun c => is_dotdot c = false) l.
Proof. apply Forall_impl. intros c (_ & _ & H & _). exact H. Qed.

Lemma normal_noslash l : Forall normal l -> Forall no_slash l.
Proof. apply Forall_impl. intros c (_ & _ & _ & H). exact H. Qed.

Lemma is_rooted_intercalate_normal x r : normal x -> is_rooted (intercalate (x :: r)) = false.
Proof.
  intros (He & _ & _ & Hs). destruct x as [|b x']; [discriminate|].
  inversion Hs; subst. destruct r; cbn [intercalate app is_rooted]; lia.
Qed.

(* Clean of a relative path made of normal components is the path itself *)
Lemma clean_render_rel l : Forall normal l -> clean (render false l) = render false l.
Proof.
  intros H. destruct l as [|x r].
  - reflexivity.
  - inversion H as [|? ? Hx Hr]; subst. unfold clean. cbn [render].
    rewrite (is_rooted_intercalate_normal x r Hx).
    rewrite comps_intercalate by (try discriminate; apply normal_noslash; assumption).
    rewrite clean_go_nodotdot by (apply normal_nodotdot; assumption).
    cbn [rev app]. rewrite filter_kept_normal by assumption. reflexivity.
Qed.

(* Join(dest, rel) for an absolute clean dest and a clean ..-free relative path *)
Lemma comps_render_true l : Forall no_slash l -> l <> [] -> comps (render true l) = [] :: l.
Proof.
  intros H Hne. cbn [render]. change (slash :: intercalate l) with ([] ++ slash :: intercalate l).
  rewrite comps_app. rewrite comps_intercalate by assumption. reflexivity.
Qed.

Lemma intercalate_cons x l : l <> [] -> intercalate (x :: l) = x ++ slash :: intercalate l.
Proof. destruct l; [congruence|reflexivity]. Qed.

Lemma intercalate_app a b : a <> [] -> b <> [] ->
  intercalate (a ++ b) = intercalate a ++ slash :: intercalate b.
Proof.
  induction a as [|x r IH]; intros Ha Hb; [congruence|].
  destruct r as [|y r'].
  - cbn [app]. rewrite intercalate_cons by assumption. reflexivity.
  - rewrite <- app_comm_cons. rewrite intercalate_cons by (cbn [app]; discriminate).
    rewrite IH by (try discriminate; assumption).
    rewrite (intercalate_cons x (y :: r')) by discriminate. rewrite <- app_assoc. reflexivity.
Qed.

Lemma comps_render_true_kept rs : Forall normal rs ->
  filter kept (comps (render true rs)) = rs /\ Forall (fun c => is_dotdot c = false) (comps (render true rs)).
Proof.
  intros H. destruct rs as [|r0 rs'].
  - cbn. split; [reflexivity|repeat constructor].
  - rewrite comps_render_true by (try discriminate; apply normal_noslash; assumption).
    change (filter kept ([] :: r0 :: rs')) with (filter kept (r0 :: rs')).
    rewrite filter_kept_normal by assumption.
    split; [reflexivity|]. constructor; [reflexivity|apply normal_nodotdot; assumption].
Qed.

Lemma comps_render_false_kept l : Forall normal l ->
  filter kept (comps (render false l)) = l /\ Forall (fun c => is_dotdot c = false) (comps (render false l)).
Proof.
  intros H. destruct l as [|l0 l'].
  - cbn. split; [reflexivity|repeat constructor].
  - cbn [render]. rewrite comps_intercalate by (try discriminate; apply normal_noslash; assumption).
    rewrite filter_kept_normal by assumption. split; [reflexivity|apply normal_nodotdot; assumption].
Qed.

Lemma render_false_nonempty l : Forall normal l -> is_empty (render false l) = false.
Proof.
  intros Hl. destruct l as [|x r]; [reflexivity|]. inversion Hl as [|? ? (He & _) _]; subst.
  cbn [render]. destruct x; [discriminate|]. destruct r; reflexivity.
Qed.

Theorem open_path_confined rs l : Forall normal rs -> Forall normal l ->
  open_path (render true rs) (render false l) = render true (rs ++ l).
Proof.
  intros Hrs Hl. unfold open_path. rewrite clean_render_rel by assumption.
  pose proof (render_false_nonempty l Hl) as He2.
  destruct (comps_render_true_kept rs Hrs) as [Hk1 Hd1].
  destruct (comps_render_false_kept l Hl) as [Hk2 Hd2].
  remember (render false l) as j eqn:Ej.
  unfold join. cbn [filter].
  assert (He1 : is_empty (render true rs) = false) by reflexivity.
  rewrite He1, He2. cbn [negb].
  assert (Hi : intercalate [render true rs; j] = render true rs ++ slash :: j).
  { apply intercalate_cons. discriminate. }
  rewrite Hi. unfold clean.
  assert (Hr : is_rooted (render true rs ++ slash :: j) = true).
  { cbn [render app is_rooted]. apply Z.eqb_refl. }
  rewrite Hr, comps_app.
  rewrite clean_go_nodotdot by (apply Forall_app; split; assumption).
  cbn [rev app]. rewrite filter_app, Hk1, Hk2. reflexivity.
Qed.

Lemma has_prefix_app p s : has_prefix p (p ++ s) = true.
Proof. induction p as [|x r IH]; cbn [has_prefix app]; [reflexivity|]. rewrite Z.eqb_refl. exact IH. Qed.

Lemma has_prefix_inv : forall p s, has_prefix p s = true -> exists rest, s = p ++ rest.
Proof.
  induction p as [|x r IH]; intros s H; [exists s; reflexivity|].
  destruct s as [|y s']; cbn [has_prefix] in H; [discriminate|].
  apply andb_prop in H as [H1 H2]. apply IH in H2 as (rest & ->). exists rest. cbn [app]. f_equal. lia.
Qed.

(* string-level form: the opened path lies strictly below dest *)
Corollary open_path_prefix rs l : Forall normal rs -> Forall normal l -> rs <> [] -> l <> [] ->
  has_prefix (render true rs ++ [slash]) (open_path (render true rs) (render false l)) = true.
Proof.
  intros Hrs Hl Hr Hne. rewrite open_path_confined by assumption. cbn [render].
  rewrite intercalate_app by assumption. 
  change (slash :: intercalate rs ++ slash :: intercalate l) with ((slash :: intercalate rs) ++ [slash] ++ intercalate l).
  rewrite app_assoc. apply has_prefix_app.
Qed.

(* distinct relative paths open distinct files *)
Theorem open_path_injective rs l1 l2 : Forall normal rs -> Forall normal l1 -> Forall normal l2 ->
  open_path (render true rs) (render false l1) = open_path (render true rs) (render false l2) -> l1 = l2.
Proof.
  intros Hrs H1 H2 E. rewrite !open_path_confined in E by assumption.
  destruct (rs ++ l1) as [|a r] eqn:E1, (rs ++ l2) as [|b r'] eqn:E2.
  - apply app_eq_nil in E1 as [_ ->]. apply app_eq_nil in E2 as [_ ->]. reflexivity.
  - exfalso. cbn [render intercalate] in E. destruct r'; cbn in E; [destruct b|]; try discriminate.
    + assert (Hb : In [] (rs ++ l2)) by (rewrite E2; left; reflexivity).
      apply in_app_or in Hb as [Hb|Hb]; [rewrite Forall_forall in Hrs; destruct (Hrs _ Hb) as (Hx & _)|rewrite Forall_forall in H2; destruct (H2 _ Hb) as (Hx & _)]; discriminate.
    + destruct b; discriminate.
  - exfalso. cbn [render intercalate] in E. destruct r; cbn in E; [destruct a|]; try discriminate.
    + assert (Hb : In [] (rs ++ l1)) by (rewrite E1; left; reflexivity).
      apply in_app_or in Hb as [Hb|Hb]; [rewrite Forall_forall in Hrs; destruct (Hrs _ Hb) as (Hx & _)|rewrite Forall_forall in H1; destruct (H1 _ Hb) as (Hx & _)]; discriminate.
    + destruct a; discriminate.
  - assert (Hn1 : Forall no_slash (a :: r)) by (rewrite <- E1; apply normal_noslash, Forall_app; split; assumption).
    assert (Hn2 : Forall no_slash (b :: r')) by (rewrite <- E2; apply normal_noslash, Forall_app; split; assumption).
    assert (Hc : comps (render true (a :: r)) = comps (render true (b :: r'))) by (rewrite E; reflexivity).
    rewrite !comps_render_true in Hc by (try discriminate; assumption).
    assert (Happ : a :: r = b :: r') by (injection Hc as -> ->; reflexivity).
    rewrite <- E1, <- E2 in Happ. apply app_inv_head in Happ. exact Happ.
Qed.

(* ---------- what NewInfo's joined paths look like ---------- *)
Lemma replace_sep_noslash s : no_slash (replace_sep s).
Proof.
  unfold no_slash, replace_sep. induction s as [|b r IH]; cbn [map]; constructor; [|exact IH].
  destruct (b =? slash) eqn:E; unfold slash in *; lia.
Qed.

Lemma clean_name_noslash s : no_slash (clean_name s).
Proof. unfold clean_name, clean_name_n. apply replace_sep_noslash. Qed.

Lemma is_rooted_intercalate x r : is_empty x = false -> no_slash x -> is_rooted (intercalate (x :: r)) = false.
Proof.
  intros He Hs. destruct x as [|b x']; [discriminate|].
  inversion Hs; subst. destruct r; cbn [intercalate app is_rooted]; lia.
Qed.

Lemma filter_kept_nonempty parts :
  filter kept (filter (fun p => negb (is_empty p)) parts) = filter kept parts.
Proof.
  induction parts as [|p r IH]; [reflexivity|]. cbn [filter].
  destruct (is_empty p) eqn:E; cbn [negb filter].
  - unfold kept at 2. rewrite E. cbn. exact IH.
  - rewrite IH. reflexivity.
Qed.

Lemma existsb_false_forall {A} (f : A -> bool) l : existsb f l = false -> Forall (fun x => f x = false) l.
Proof.
  induction l as [|x r IH]; cbn [existsb]; intros H; [constructor|].
  apply orb_false_elim in H as [H1 H2]. constructor; auto.
Qed.

(* shape of a joined path: a ".."-free relative path of kept components, or "" *)
Definition rel_confined (j : str) : Prop :=
  exists l, Forall normal l /\ (j = render false l \/ (j = [] /\ l = [])).

Lemma join_normal parts : Forall no_slash parts -> existsb is_dotdot parts = false ->
  rel_confined (join parts).
Proof.
  intros Hns Hdd. apply existsb_false_forall in Hdd.
  exists (filter kept parts). split.
  - rewrite Forall_forall in *. intros c Hc. apply filter_In in Hc as [Hin Hk].
    unfold kept in Hk. apply negb_true_iff, orb_false_elim in Hk as [H1 H2].
    repeat split; auto.
  - unfold join. destruct (filter (fun p => negb (is_empty p)) parts) as [|x r] eqn:Ef.
    + right. split; [reflexivity|]. rewrite <- filter_kept_nonempty, Ef. reflexivity.
    + left. assert (Hx : In x (filter (fun p => negb (is_empty p)) parts)) by (rewrite Ef; left; reflexivity).
      apply filter_In in Hx as [Hxin Hxe]. apply negb_true_iff in Hxe.
      assert (Hnsf : Forall no_slash (x :: r)).
      { rewrite <- Ef. rewrite Forall_forall in *. intros c Hc. apply filter_In in Hc as [Hc _]. auto. }
      assert (Hddf : Forall (fun c => is_dotdot c = false) (x :: r)).
      { rewrite <- Ef. rewrite Forall_forall in *. intros c Hc. apply filter_In in Hc as [Hc _]. auto. }
      unfold clean. rewrite is_rooted_intercalate by (auto; inversion Hnsf; assumption).
      rewrite comps_intercalate by (try discriminate; assumption).
      rewrite clean_go_nodotdot by assumption. cbn [rev app].
      rewrite <- Ef, filter_kept_nonempty. reflexivity.
Qed.

Lemma file_parts_noslash name path : Forall no_slash (file_parts name path).
Proof.
  unfold file_parts. constructor; [apply clean_name_noslash|].
  rewrite Forall_map. apply Forall_forall. intros; apply clean_name_noslash.
Qed.

Lemma build_files_confined name : forall files seen js,
  build_files true name files seen = Some js -> Forall rel_confined js.
Proof.
  induction files as [|[path padding] r IH]; intros seen js H; cbn [build_files] in H.
  - inversion H; constructor.
  - cbn [andb] in H. destruct (existsb is_dotdot (file_parts name path)) eqn:Ed; [discriminate|].
    destruct (negb padding && mem_str (join (file_parts name path)) seen); [discriminate|].
    destruct (build_files true name r _) as [js'|] eqn:Eb; [|discriminate].
    inversion H; subst. constructor; [|eapply IH; eauto].
    apply join_normal; [apply file_parts_noslash|assumption].
Qed.

Theorem accepted_paths_confined name files js :
  accept_paths true name files = Some js -> Forall rel_confined js.
Proof.
  unfold accept_paths. destruct (existsb _ files); [discriminate|].
  destruct files as [|f r].
  - cbn [andb]. destruct (is_dotdot (clean_name name)) eqn:Ed; [discriminate|].
    intros H; inversion H; subst. constructor; [|constructor].
    pose proof (clean_name_noslash name) as Hns. set (j := clean_name name) in *.
    destruct (is_empty j) eqn:Ee.
    + exists []. split; [constructor|]. right. destruct j; [auto|discriminate].
    + destruct (is_dot j) eqn:Edot.
      * exists []. split; [constructor|]. left. apply str_eqb_eq in Edot. rewrite Edot. reflexivity.
      * exists [j]. split; [repeat constructor; auto|]. left. reflexivity.
  - apply build_files_confined.
Qed.

(* the empty joined path opens the data directory itself *)
Lemma open_path_empty rs : Forall normal rs -> open_path (render true rs) [] = render true rs.
Proof.
  intros Hrs. change ([] : str) with ([] : list Z).
  assert (Hc : clean [] = render false []) by reflexivity.
  unfold open_path. rewrite Hc. fold (open_path (render true rs) (render false [])).
  rewrite <- (clean_render_rel []) at 1 by constructor.
  fold (open_path (render true rs) (render false [])).
  rewrite open_path_confined by (auto; constructor). rewrite app_nil_r. reflexivity.
Qed.

(* C07 core: every file of an accepted torrent opens at or below the data directory, with no
   ".." component in the opened path *)
Theorem accepted_files_stay_below name files js rs :
  accept_paths true name files = Some js -> Forall normal rs ->
  Forall (fun j => exists l, Forall normal l /\ open_path (render true rs) j = render true (rs ++ l)) js.
Proof.
  intros H Hrs. apply accepted_paths_confined in H.
  eapply Forall_impl; [|exact H]. intros j (l & Hl & [->|[-> ->]]).
  - exists l. split; [assumption|]. apply open_path_confined; assumption.
  - exists []. split; [constructor|]. rewrite app_nil_r. apply open_path_empty. assumption.
Qed.

(* ---------- duplicate detection ---------- *)
Lemma mem_str_in x l : mem_str x l = true <-> In x l.
Proof.
  induction l as [|y r IH]; cbn [mem_str In]; [split; [discriminate|tauto]|].
  rewrite orb_true_iff, IH, str_eqb_eq. split; intros [H|H]; auto.
Qed.

Fixpoint nonpad_paths (js : list str) (files : list (list str * bool)) : list str :=
  match js, files with
  | j :: js', (_, pad) :: fs' => if pad then nonpad_paths js' fs' else j :: nonpad_paths js' fs'
  | _, _ => []
  end.

Lemma build_files_distinct fixed name : forall files seen js,
  build_files fixed name files seen = Some js ->
  NoDup (nonpad_paths js files) /\ forall j, In j (nonpad_paths js files) -> ~ In j seen.
Proof.
  induction files as [|[path padding] r IH]; intros seen js H; cbn [build_files] in H.
  - inversion H; subst. cbn. split; [constructor|tauto].
  - destruct (fixed && existsb is_dotdot (file_parts name path)); [discriminate|].
    set (j := join (file_parts name path)) in *.
    destruct (negb padding && mem_str j seen) eqn:Em; [discriminate|].
    destruct (build_files fixed name r _) as [js'|] eqn:Eb; [|discriminate].
    inversion H; subst. cbn [nonpad_paths]. apply IH in Eb as [Hnd Hns].
    destruct padding; cbn [negb andb] in *.
    + split; assumption.
    + split.
      * constructor; [|assumption]. intros Hin. apply (Hns _ Hin). left; reflexivity.
      * intros j' [<-|Hin] Hs.
        -- apply mem_str_in in Hs. congruence.
        -- apply (Hns _ Hin). right; assumption.
Qed.

(* two different non-padding files of an accepted multi-file torrent never share a path *)
Theorem accepted_paths_distinct name f fs js :
  accept_paths true name (f :: fs) = Some js -> NoDup (nonpad_paths js (f :: fs)).
Proof.
  unfold accept_paths. destruct (existsb _ (f :: fs)); [discriminate|].
  intros H. apply build_files_distinct in H. tauto.
Qed.

(* ---------- tar entries ---------- *)
Lemma split_go_all_noslash : forall s cur, no_slash (rev cur) -> Forall no_slash (split_go cur s).
Proof.
  induction s as [|b r IH]; intros cur H; cbn [split_go]; [repeat constructor; assumption|].
  destruct (b =? slash) eqn:E.
  - constructor; [assumption|]. apply IH. constructor.
  - apply IH. cbn [rev]. unfold no_slash in *. apply Forall_app. split; [assumption|].
    repeat constructor. lia.
Qed.

Lemma comps_all_noslash s : Forall no_slash (comps s).
Proof. apply split_go_all_noslash. constructor. Qed.

Lemma clean_go_rooted_normal : forall cs stack, Forall normal stack -> Forall no_slash cs ->
  Forall normal (clean_go true stack cs).
Proof.
  induction cs as [|c r IH]; intros stack Hst Hns; cbn [clean_go].
  - apply Forall_rev. assumption.
  - inversion Hns as [|? ? Hc Hr]; subst.
    destruct (is_empty c || is_dot c) eqn:E1; [apply IH; assumption|].
    apply orb_false_elim in E1 as [Ee Ed].
    destruct (is_dotdot c) eqn:E2.
    + destruct stack as [|top rest]; [apply IH; assumption|].
      inversion Hst as [|? ? Htop Hrest]; subst. destruct Htop as (_ & _ & Hdd & _). rewrite Hdd.
      apply IH; assumption.
    + apply IH; [|assumption]. constructor; [|assumption]. repeat split; assumption.
Qed.

Lemma clean_rooted s : is_rooted s = true ->
  exists k, clean s = render true k /\ Forall normal k.
Proof.
  intros H. unfold clean. rewrite H. eexists; split; [reflexivity|].
  apply clean_go_rooted_normal; [constructor|apply comps_all_noslash].
Qed.

Lemma render_true_rooted k : is_rooted (render true k) = true.
Proof. reflexivity. Qed.

Lemma is_rooted_app a b : is_rooted a = true -> is_rooted (a ++ b) = true.
Proof. destruct a; [discriminate|]. cbn. auto. Qed.

Theorem tar_confined dir e t : is_rooted dir = true -> tar_target dir e = Some t ->
  exists k0 l, clean dir = render true k0 /\ t = render true (k0 ++ l) /\
               Forall normal (k0 ++ l) /\ l <> [].
Proof.
  intros Hr H. unfold tar_target in H.
  destruct (clean_rooted dir Hr) as (k0 & Hd & Hk0). rewrite Hd in H.
  set (d := render true k0) in *.
  destruct (has_prefix (d ++ [slash]) (join [d; e])) eqn:Hp; [|discriminate].
  inversion H; subst t. clear H.
  (* the joined name is a cleaned rooted path *)
  assert (Hname : exists k, join [d; e] = render true k /\ Forall normal k).
  { unfold join. cbn [filter]. assert (He1 : is_empty d = false) by reflexivity. rewrite He1. cbn [negb].
    destruct (is_empty e); cbn [negb].
    - apply clean_rooted. cbn [intercalate]. apply render_true_rooted.
    - apply clean_rooted. rewrite intercalate_cons by discriminate. apply is_rooted_app, render_true_rooted. }
  destruct Hname as (k & Hn & Hk). rewrite Hn in *.
  apply has_prefix_inv in Hp as (rest & Hrest).
  exists k0, (comps rest).
  assert (Hcomps : comps (render true k) = comps d ++ comps rest).
  { rewrite Hrest, <- app_assoc. cbn [app]. apply comps_app. }
  destruct k0 as [|a0 k0'].
  - (* d = "/": the prefix "//" cannot occur in a cleaned path *)
    exfalso. unfold d in Hrest. cbn [render intercalate app] in Hrest.
    destruct k as [|x r]; cbn [render intercalate] in Hrest; [discriminate|].
    inversion Hk as [|? ? (He & _ & _ & Hs) _]; subst.
    destruct x as [|b x']; [discriminate|]. inversion Hs; subst.
    destruct r; cbn [intercalate app] in Hrest; inversion Hrest; unfold slash in *; lia.
  - destruct k as [|x r].
    + exfalso. unfold d in Hrest. cbn [render intercalate app] in Hrest. inversion Hrest as [Hx].
      symmetry in Hx. apply app_eq_nil in Hx as [Hx _]. apply app_eq_nil in Hx as [_ Hx]. discriminate.
    + unfold d in Hcomps. rewrite !comps_render_true in Hcomps by (try discriminate; apply normal_noslash; assumption).
      assert (Hkk : x :: r = (a0 :: k0') ++ comps rest) by (inversion Hcomps; reflexivity).
      split; [exact Hd|]. split; [rewrite Hkk; reflexivity|]. split; [rewrite <- Hkk; assumption|].
      apply split_go_nonempty.
Qed.

(* non-vacuity *)
Example accept_paths_example :
  accept_paths true [97] [([[98]; [46]; [99]], false); ([[98]; [100]], false)] = Some [[97;47;98;47;99]; [97;47;98;47;100]].
Proof. vm_compute. reflexivity. Qed.
Example accept_paths_dotdot_rejected : accept_paths true dotdot [([[98]], false)] = None.
Proof. vm_compute. reflexivity. Qed.
Example accept_paths_dotdot_pinned : accept_paths false dotdot [([[98]], false)] = Some [[46;46;47;98]].
Proof. vm_compute. reflexivity. Qed.

//go:build verif

package torrent

// VLoop: a torrent whose event loop is driven step by step by the verification harness.
//
// A real Session and a real torrent are created through the public API.  The torrent's own run()
// goroutine is then parked: every channel its select statement listens on (except closeC) is
// replaced by a fresh one, so run() stays blocked on channels nobody writes to, and the harness
// receives from the new channels and calls the very same handler functions run() would call.
// Exactly one event is handled at a time, in an order the harness chooses: a schedule of the real
// program is a sequence of Pump calls.

import (
	"bytes"
	"crypto/sha1"
	"encoding/binary"
	"errors"
	"fmt"
	"io"
	"net"
	"os"
	"sort"
	"sync"
	"time"

	"github.com/cenkalti/rain/v2/internal/allocator"
	"github.com/cenkalti/rain/v2/internal/handshaker/incominghandshaker"
	"github.com/cenkalti/rain/v2/internal/handshaker/outgoinghandshaker"
	"github.com/cenkalti/rain/v2/internal/infodownloader"
	"github.com/cenkalti/rain/v2/internal/mse"
	"github.com/cenkalti/rain/v2/internal/peer"
	"github.com/cenkalti/rain/v2/internal/peerprotocol"
	"github.com/cenkalti/rain/v2/internal/peersource"
	"github.com/cenkalti/rain/v2/internal/piecewriter"
	"github.com/cenkalti/rain/v2/internal/storage"
	"github.com/cenkalti/rain/v2/internal/suspendchan"
	"github.com/cenkalti/rain/v2/internal/tracker"
	"github.com/cenkalti/rain/v2/internal/urldownloader"
	"github.com/cenkalti/rain/v2/internal/verifier"
	"github.com/cenkalti/rain/v2/internal/webseedsource"
	"github.com/zeebo/bencode"
	"sync/atomic"
	"syscall"
)

// ---- in-memory storage ----

type VFile struct {
	mu   *sync.Mutex
	B    []byte
	log  *[]VWrite
	name string
	sto  *VStorage
}

type VWrite struct {
	Name string
	Off  int64
	Data []byte
}

func (f *VFile) ReadAt(p []byte, off int64) (int, error) {
	f.mu.Lock()
	defer f.mu.Unlock()
	if off >= int64(len(f.B)) {
		return 0, io.EOF
	}
	n := copy(p, f.B[off:])
	if n < len(p) {
		return n, io.EOF
	}
	return n, nil
}
func (f *VFile) WriteAt(p []byte, off int64) (int, error) {
	if f.sto != nil && f.sto.OnWrite != nil {
		f.sto.OnWrite(false)
		defer f.sto.OnWrite(true)
	}
	return f.writeAt(p, off)
}
func (f *VFile) writeAt(p []byte, off int64) (int, error) {
	f.mu.Lock()
	defer f.mu.Unlock()
	if off+int64(len(p)) > int64(len(f.B)) {
		return 0, io.ErrShortWrite
	}
	if f.sto != nil && f.sto.FailNext {
		f.sto.FailNext = false
		return 0, errors.New("injected write error")
	}
	*f.log = append(*f.log, VWrite{Name: f.name, Off: off, Data: append([]byte{}, p...)})
	return copy(f.B[off:], p), nil
}
func (f *VFile) Close() error {
	f.mu.Lock()
	if f.sto != nil {
		f.sto.Closes++
	}
	f.mu.Unlock()
	return nil
}

// vHandle is one open of a file: with StrictHandles the storage behaves like os.File, reads and
// writes through a handle that was closed fail with os.ErrClosed.
type vHandle struct {
	f      *VFile
	closed bool
}

func (h *vHandle) isClosed() bool {
	h.f.mu.Lock()
	defer h.f.mu.Unlock()
	return h.closed
}
func (h *vHandle) ReadAt(p []byte, off int64) (int, error) {
	if h.isClosed() {
		return 0, os.ErrClosed
	}
	return h.f.ReadAt(p, off)
}
func (h *vHandle) WriteAt(p []byte, off int64) (int, error) {
	if h.f.sto != nil && h.f.sto.OnWrite != nil {
		h.f.sto.OnWrite(false)
		defer h.f.sto.OnWrite(true)
	}
	if h.isClosed() {
		return 0, os.ErrClosed
	}
	return h.f.writeAt(p, off)
}
func (h *vHandle) Close() error {
	h.f.mu.Lock()
	h.closed = true
	h.f.mu.Unlock()
	return h.f.Close()
}

type VStorage struct {
	StrictHandles bool // Open returns a fresh handle each time; a closed handle refuses reads and writes
	mu       sync.Mutex
	Files    map[string]*VFile
	Writes   []VWrite
	FailNext bool // the next WriteAt fails (once), like a full or failing disk
	Opens    int
	Closes   int
	OnWrite  func(exit bool) // called at the entry and at the exit of every WriteAt, outside the lock
}

func NewVStorage() *VStorage { return &VStorage{Files: map[string]*VFile{}} }

func (s *VStorage) Open(name string, size int64) (storage.File, bool, error) {
	s.mu.Lock()
	defer s.mu.Unlock()
	s.Opens++
	if f, ok := s.Files[name]; ok {
		if int64(len(f.B)) != size {
			nb := make([]byte, size)
			copy(nb, f.B)
			f.B = nb
		}
		if s.StrictHandles {
			return &vHandle{f: f}, true, nil
		}
		return f, true, nil
	}
	f := &VFile{mu: &s.mu, B: make([]byte, size), log: &s.Writes, name: name, sto: s}
	s.Files[name] = f
	if s.StrictHandles {
		return &vHandle{f: f}, false, nil
	}
	return f, false, nil
}
func (s *VStorage) RootDir() string { return "/vstorage" }

// Delete removes a file (an external change made while the torrent is stopped).
func (s *VStorage) Delete(name string) {
	s.mu.Lock()
	delete(s.Files, name)
	s.mu.Unlock()
}

// Handles returns the number of files opened and not closed.
func (s *VStorage) Handles() int {
	s.mu.Lock()
	defer s.mu.Unlock()
	return s.Opens - s.Closes
}

// Clone copies the storage image (a crash snapshot).
func (s *VStorage) Clone() *VStorage {
	s.mu.Lock()
	defer s.mu.Unlock()
	c := NewVStorage()
	for n, f := range s.Files {
		c.Files[n] = &VFile{mu: &c.mu, B: append([]byte{}, f.B...), log: &c.Writes, name: n, sto: c}
	}
	return c
}

// ArmWriteError makes the next WriteAt fail.
func (s *VStorage) ArmWriteError() {
	s.mu.Lock()
	s.FailNext = true
	s.mu.Unlock()
}

// Preload sets the content of a file before the torrent is started.
func (s *VStorage) Preload(name string, b []byte) {
	s.mu.Lock()
	defer s.mu.Unlock()
	s.Files[name] = &VFile{mu: &s.mu, B: append([]byte{}, b...), log: &s.Writes, name: name, sto: s}
}

type vProvider struct{ s *VStorage }

func (p vProvider) GetStorage(string) (storage.Storage, error) { return p.s, nil }

// ---- scripted peer endpoint ----

type VFrame struct {
	ID      int // -1 keep-alive
	Payload []byte
}

type VPeer struct {
	Conn    net.Conn // harness side
	Pe      *peer.Peer
	mu      sync.Mutex
	frames  []VFrame
	closed  bool
	markers int
	Gone    bool // the harness closed its end
}

func (p *VPeer) readLoop() {
	for {
		var hdr [4]byte
		if _, err := io.ReadFull(p.Conn, hdr[:]); err != nil {
			p.mu.Lock()
			p.closed = true
			p.mu.Unlock()
			return
		}
		n := binary.BigEndian.Uint32(hdr[:])
		if n == 0 {
			p.mu.Lock()
			p.frames = append(p.frames, VFrame{ID: -1})
			p.mu.Unlock()
			continue
		}
		b := make([]byte, n)
		if _, err := io.ReadFull(p.Conn, b); err != nil {
			p.mu.Lock()
			p.closed = true
			p.mu.Unlock()
			return
		}
		p.mu.Lock()
		if b[0] == 9 && len(b) == 3 && b[1] == 0xBE && b[2] == 0xEF {
			p.markers++ // barrier marker injected by VLoop.Barrier
		} else {
			p.frames = append(p.frames, VFrame{ID: int(b[0]), Payload: b[1:]})
		}
		p.mu.Unlock()
	}
}

// Barrier makes sure every frame the client has queued for its open peers so far has reached the
// scripted peers: a marker message is pushed through each peer's own writer queue (FIFO) and
// awaited at the receiving end.
func (v *VLoop) Barrier() {
	for _, p := range v.Peers {
		if p.Pe.Closed && !p.Gone {
			// the client closed this connection: what it had written before is still on its way;
			// wait for the end of the stream so that those frames are counted with this event
			v.awaitEOF(p)
			continue
		}
		if p.Gone || p.Pe.Closed {
			continue
		}
		p.mu.Lock()
		n0, cl := p.markers, p.closed
		p.mu.Unlock()
		if cl {
			continue
		}
		p.Pe.SendMessage(peerprotocol.PortMessage{Port: 0xBEEF})
		// the deadline only matters when the client's writer is stuck; it is generous because a loaded
		// machine can take long to schedule the writer and reader goroutines
		deadline := time.Now().Add(15 * time.Second)
		ok := false
		for !ok && time.Now().Before(deadline) {
			p.mu.Lock()
			ok = p.markers > n0 || p.closed
			p.mu.Unlock()
			if !ok {
				time.Sleep(50 * time.Microsecond)
			}
		}
		if !ok {
			v.BarrierTimeouts++
		}
	}
}

func (v *VLoop) awaitEOF(p *VPeer) {
	deadline := time.Now().Add(15 * time.Second)
	for time.Now().Before(deadline) {
		p.mu.Lock()
		cl := p.closed
		p.mu.Unlock()
		if cl {
			return
		}
		time.Sleep(50 * time.Microsecond)
	}
	v.BarrierTimeouts++
}

// BarrierPumping is Barrier for a seeding torrent: while the markers travel, upload notifications
// (BlockUploaded) that the peer writers hand to the loop are handled, otherwise a writer would
// block on them and never reach the marker.
func (v *VLoop) BarrierPumping() (handled int) {
	type w struct {
		p  *VPeer
		n0 int
	}
	var ws []w
	for _, p := range v.Peers {
		if p.Pe.Closed && !p.Gone {
			v.awaitEOF(p)
			continue
		}
		if p.Gone || p.Pe.Closed {
			continue
		}
		p.mu.Lock()
		n0, cl := p.markers, p.closed
		p.mu.Unlock()
		if cl {
			continue
		}
		p.Pe.SendMessage(peerprotocol.PortMessage{Port: 0xBEEF})
		ws = append(ws, w{p, n0})
	}
	deadline := time.Now().Add(15 * time.Second)
	for time.Now().Before(deadline) {
		done := true
		for _, x := range ws {
			x.p.mu.Lock()
			ok := x.p.markers > x.n0 || x.p.closed
			x.p.mu.Unlock()
			if !ok {
				done = false
			}
		}
		if done {
			return
		}
		if e := v.PumpEx(200*time.Microsecond, ClsMsg); e.Code != EvNone {
			handled++
		}
	}
	v.BarrierTimeouts++
	return
}

// Take returns and clears the frames received so far; closed tells whether the client closed the connection.
func (p *VPeer) Take() (fs []VFrame, closed bool) {
	p.mu.Lock()
	defer p.mu.Unlock()
	fs, p.frames = p.frames, nil
	return fs, p.closed
}

// Send writes one framed message (id, payload) to the client.
func (p *VPeer) Send(id byte, payload []byte) error {
	b := make([]byte, 4, 5+len(payload))
	binary.BigEndian.PutUint32(b, uint32(1+len(payload)))
	b = append(b, id)
	b = append(b, payload...)
	_ = p.Conn.SetWriteDeadline(time.Now().Add(30 * time.Second))
	_, err := p.Conn.Write(b)
	return err
}

// ---- the loop ----

type VLoop struct {
	S               *Session
	Tor             *Torrent
	T               *torrent
	Sto             *VStorage
	Peers           []*VPeer
	dir             string
	ln              net.Listener
	Crash           string
	Truth           []byte // ground-truth content (concatenated files) for judging received blocks
	PL              int64
	TruthInfo       []byte          // the info dictionary behind a magnet link
	BarrierTimeouts int             // barriers that gave up waiting (reported in the case note)
	parkC           chan chan error // run() is blocked sending on this channel until Close
}

type VLoopOpts struct {
	TorrentFile []byte // bencoded metainfo (with "info")
	Magnet      string
	Sequential  bool
	Tune        func(*Config)
	Preload     map[string][]byte
	StrictHandles bool // storage handles behave like os.File after Close
}

// freeTCPPort hands out a port for a session's single torrent.  Concurrently running harness processes
// (several checks at once) must not fight over ports -- a torrent that cannot listen just goes on without an
// acceptor -- and the kernel's ephemeral range is used by every scripted listener and dialer.  Each process
// therefore claims a slot of 1000 ports below that range with a file lock it holds until it exits, and
// walks through its slot.
var (
	portSlotOnce sync.Once
	portSlotBase int
	portSlotFile *os.File
	portNext     uint32
)

func freeTCPPort() uint16 {
	portSlotOnce.Do(func() {
		for k := 0; k < 22; k++ {
			f, err := os.OpenFile(fmt.Sprintf("/verif/.work/portslot-%d", k), os.O_CREATE|os.O_RDWR, 0o644)
			if err != nil {
				continue
			}
			if syscall.Flock(int(f.Fd()), syscall.LOCK_EX|syscall.LOCK_NB) == nil {
				portSlotBase, portSlotFile = 10000+1000*k, f
				return
			}
			f.Close()
		}
		portSlotBase = 10000 + 1000*(os.Getpid()%22)
	})
	for try := 0; try < 1000; try++ {
		p := portSlotBase + int(atomic.AddUint32(&portNext, 1)%1000)
		l, err := net.Listen("tcp4", fmt.Sprintf("127.0.0.1:%d", p))
		if err == nil {
			l.Close()
			return uint16(p)
		}
	}
	return uint16(portSlotBase)
}

// BuildTorrentFile creates a metainfo file for the given info dictionary bytes.
func BuildTorrentFile(info []byte, urlList []string) []byte {
	d := map[string]any{"info": bencode.RawMessage(info)}
	if len(urlList) > 0 {
		d["url-list"] = urlList
	}
	b, err := bencode.EncodeBytes(d)
	if err != nil {
		panic(err)
	}
	return b
}

func NewVLoop(o VLoopOpts) (*VLoop, error) {
	dir, err := os.MkdirTemp("/verif/.work", "vloop")
	if err != nil {
		return nil, err
	}
	cfg := DefaultConfig
	cfg.Database = dir + "/session.db"
	cfg.DataDir = dir + "/data"
	cfg.DataDirIncludesTorrentID = true
	cfg.DHTEnabled = false
	cfg.RPCEnabled = false
	cfg.PEXEnabled = true
	cfg.HealthCheckInterval = time.Hour
	cfg.ResumeWriteInterval = time.Hour
	// one torrent per session: one port, free a moment ago (sessions of concurrently running checks must
	// not fight over a common range: a torrent that cannot listen just goes on without an acceptor)
	cfg.PortBegin = freeTCPPort()
	cfg.PortEnd = cfg.PortBegin + 1
	cfg.Host = "127.0.0.1"
	cfg.TrackerStopTimeout = time.Second
	sto := NewVStorage()
	sto.StrictHandles = o.StrictHandles
	for n, b := range o.Preload {
		sto.Preload(n, b)
	}
	cfg.CustomStorage = vProvider{sto}
	if o.Tune != nil {
		o.Tune(&cfg)
	}
	s, err := NewSession(cfg)
	if err != nil {
		os.RemoveAll(dir)
		return nil, err
	}
	v := &VLoop{S: s, Sto: sto, dir: dir}
	var tor *Torrent
	if o.Magnet != "" {
		tor, err = s.AddURI(o.Magnet, &AddTorrentOptions{Stopped: true, Sequential: o.Sequential})
	} else {
		tor, err = s.AddTorrent(bytes.NewReader(o.TorrentFile), &AddTorrentOptions{Stopped: true, Sequential: o.Sequential})
	}
	if err != nil {
		s.Close()
		os.RemoveAll(dir)
		return nil, err
	}
	v.Tor = tor
	v.T = tor.torrent
	v.hijack()
	ln, err := net.Listen("tcp", "127.0.0.1:0")
	if err != nil {
		v.Close()
		return nil, err
	}
	v.ln = ln
	return v, nil
}

// DBPath is the session's resume database file.
func (v *VLoop) DBPath() string { return v.dir + "/session.db" }

// OpenVLoop starts a new session on a copy of a resume database and a storage image (a restart
// after a crash); the torrent found there is wrapped, not started.
func OpenVLoop(db []byte, sto *VStorage, tune func(*Config)) (*VLoop, error) {
	dir, err := os.MkdirTemp("/verif/.work", "vloop")
	if err != nil {
		return nil, err
	}
	if err := os.WriteFile(dir+"/session.db", db, 0o600); err != nil {
		os.RemoveAll(dir)
		return nil, err
	}
	cfg := DefaultConfig
	cfg.Database = dir + "/session.db"
	cfg.DataDir = dir + "/data"
	cfg.DataDirIncludesTorrentID = true
	cfg.DHTEnabled = false
	cfg.RPCEnabled = false
	cfg.ResumeOnStartup = false
	cfg.HealthCheckInterval = time.Hour
	cfg.ResumeWriteInterval = time.Hour
	// one torrent per session: one port, free a moment ago (sessions of concurrently running checks must
	// not fight over a common range: a torrent that cannot listen just goes on without an acceptor)
	cfg.PortBegin = freeTCPPort()
	cfg.PortEnd = cfg.PortBegin + 1
	cfg.Host = "127.0.0.1"
	cfg.TrackerStopTimeout = time.Second
	cfg.CustomStorage = vProvider{sto}
	if tune != nil {
		tune(&cfg)
	}
	s, err := NewSession(cfg)
	if err != nil {
		os.RemoveAll(dir)
		return nil, err
	}
	ts := s.ListTorrents()
	if len(ts) != 1 {
		s.Close()
		os.RemoveAll(dir)
		return nil, fmt.Errorf("expected one torrent in the resume database, found %d", len(ts))
	}
	v := &VLoop{S: s, Sto: sto, dir: dir, Tor: ts[0], T: ts[0].torrent}
	v.hijack()
	ln, err := net.Listen("tcp", "127.0.0.1:0")
	if err != nil {
		v.Close()
		return nil, err
	}
	v.ln = ln
	return v, nil
}

// hijack parks the torrent's own run() goroutine and takes over its channels.
func (v *VLoop) hijack() {
	t := v.T
	// Park run() where it cannot look at any channel: it takes a notify-error command and then blocks in
	// the handler, sending the answer on a channel nobody receives from until Close.  (Waiting for it to
	// re-enter its select and then swapping the channels under it was a race: a tick of one of its
	// tickers, or a slow scheduler, let it come round again and pick up the new channels, after which it
	// handled events behind the harness's back.)
	v.parkC = make(chan chan error)
	t.notifyErrorCommandC <- notifyErrorCommand{errCC: v.parkC}
	t.seedDurationTicker.Stop()
	t.unchokeTicker.Stop()
	t.startCommandC = make(chan struct{})
	t.stopCommandC = make(chan struct{})
	t.announceCommandC = make(chan struct{})
	t.verifyCommandC = make(chan struct{})
	t.announcersStoppedC = make(chan struct{})
	t.notifyErrorCommandC = make(chan notifyErrorCommand)
	t.notifyListenCommandC = make(chan notifyListenCommand)
	t.statsCommandC = make(chan statsRequest)
	t.trackersCommandC = make(chan trackersRequest)
	t.peersCommandC = make(chan peersRequest)
	t.webseedsCommandC = make(chan webseedsRequest)
	t.allocatorProgressC = make(chan allocator.Progress)
	t.allocatorResultC = make(chan *allocator.Allocator)
	t.verifierProgressC = make(chan verifier.Progress)
	t.verifierResultC = make(chan *verifier.Verifier)
	t.ramNotifyC = make(chan *peer.Peer)
	t.addrsFromTrackers = make(chan []*net.TCPAddr)
	t.addPeersCommandC = make(chan []*net.TCPAddr)
	t.dhtPeersC = make(chan []*net.TCPAddr, 1)
	t.addTrackersCommandC = make(chan []tracker.Tracker)
	t.incomingConnC = make(chan net.Conn)
	t.webseedPieceResultC = suspendchan.New[*urldownloader.PieceResult](0)
	t.webseedRetryC = make(chan *webseedsource.WebseedSource)
	t.pieceWriterResultC = make(chan *piecewriter.PieceWriter)
	t.peerSnubbedC = make(chan *peer.Peer)
	t.incomingHandshakerResultC = make(chan *incominghandshaker.IncomingHandshaker)
	t.outgoingHandshakerResultC = make(chan *outgoinghandshaker.OutgoingHandshaker)
	t.peerDisconnectedC = make(chan *peer.Peer)
	t.pieceMessagesC = suspendchan.New[peer.PieceMessage](0)
	t.messages = make(chan peer.Message)
	t.infoDownloaderResultC = make(chan *infodownloader.InfoDownloader)
}

func (v *VLoop) Close() {
	if v.ln != nil {
		v.ln.Close()
	}
	for _, p := range v.Peers {
		p.Conn.Close()
	}
	// let run() out of the handler it was parked in: it goes back to its select and sees closeC
	if v.parkC != nil {
		select {
		case <-v.parkC:
		case <-time.After(2 * time.Second):
		}
		v.parkC = nil
	}
	done := make(chan struct{})
	go func() { v.S.Close(); close(done) }()
	select {
	case <-done:
	case <-time.After(5 * time.Second):
	}
	os.RemoveAll(v.dir)
}

// guard runs a handler and turns t.crash() / any panic into a recorded crash.
func (v *VLoop) guard(f func()) {
	defer func() {
		if e := recover(); e != nil {
			if v.Crash == "" {
				v.Crash = fmt.Sprint(e)
			}
		}
	}()
	f()
}

// Event codes returned by Pump.
const (
	EvNone = iota
	EvAllocDone
	EvVerifyDone
	EvRamNotify
	EvWebseedResult
	EvWebseedRetry
	EvWriteDone
	EvSnubbed
	EvDisconnected
	EvPieceMsg
	EvPeerMsg
	EvAnnouncersStopped
	EvProgress
)

// Pump handles at most one pending event, waiting up to d for one to arrive.
func (v *VLoop) Pump(d time.Duration) (ev int) {
	t := v.T
	timer := time.NewTimer(d)
	defer timer.Stop()
	select {
	case p := <-t.allocatorProgressC:
		t.vCaseAllocatorProgressC(p)
		return EvProgress
	case al := <-t.allocatorResultC:
		v.guard(func() { t.vCaseAllocatorResultC(al) })
		return EvAllocDone
	case p := <-t.verifierProgressC:
		t.vCaseVerifierProgressC(p)
		return EvProgress
	case ve := <-t.verifierResultC:
		v.guard(func() { t.vCaseVerifierResultC(ve) })
		return EvVerifyDone
	case data := <-t.ramNotifyC:
		v.guard(func() { t.vCaseRamNotifyC(data) })
		return EvRamNotify
	case res := <-t.webseedPieceResultC.ReceiveC():
		v.guard(func() { t.vCaseWebseedPieceResultC(res) })
		return EvWebseedResult
	case src := <-t.webseedRetryC:
		v.guard(func() { t.vCaseWebseedRetryC(src) })
		return EvWebseedRetry
	case pw := <-t.pieceWriterResultC:
		v.guard(func() { t.vCasePieceWriterResultC(pw) })
		return EvWriteDone
	case pe := <-t.peerSnubbedC:
		v.guard(func() { t.vCasePeerSnubbedC(pe) })
		return EvSnubbed
	case pe := <-t.peerDisconnectedC:
		v.guard(func() { t.vCasePeerDisconnectedC(pe) })
		return EvDisconnected
	case pm := <-t.pieceMessagesC.ReceiveC():
		v.guard(func() { t.vCasePieceMessagesC(pm) })
		return EvPieceMsg
	case pm := <-t.messages:
		v.guard(func() { t.vCaseMessages(pm) })
		return EvPeerMsg
	case <-t.announcersStoppedC:
		v.guard(func() { t.vCaseAnnouncersStoppedC() })
		return EvAnnouncersStopped
	case <-t.addrsFromTrackers:
		return EvProgress
	case <-timer.C:
		return EvNone
	}
}

// VEvent describes one handled event (what the loop received, before the handler ran).
type VEvent struct {
	Code   int
	Peer   int // index into v.Peers, -1 unknown
	MsgID  int // wire id of a peer message, -1 other
	Index  uint32
	Begin  uint32
	Len    uint32
	Good   bool   // piece data equals the ground truth bytes of that range
	Bits   []bool // bitfield message
	BadLen bool   // bitfield of the wrong length
	HashOK bool   // write result
	WErr   bool
	A, B   int64 // extension handshake: metadata_size, has ut_metadata; metadata message: msg_type, total_size
}

// Classes of events PumpEx may take.
const (
	ClsWrite = 1 << iota
	ClsPiece
	ClsMsg
	ClsDisc
	ClsSnub
	ClsRam
	ClsOther
	ClsAlloc
	ClsVerify
	ClsStopped
	ClsAll = ClsWrite | ClsPiece | ClsMsg | ClsDisc | ClsSnub | ClsRam | ClsOther
)

// PumpEx handles at most one pending event of the allowed classes and reports what it was.
func (v *VLoop) PumpEx(d time.Duration, cls int) (e VEvent) {
	t := v.T
	e.Peer, e.MsgID = -1, -1
	timer := time.NewTimer(d)
	defer timer.Stop()
	var writeC chan *piecewriter.PieceWriter
	var pieceC chan peer.PieceMessage
	var msgC chan peer.Message
	var discC, snubC, ramC chan *peer.Peer
	if cls&ClsWrite != 0 {
		writeC = t.pieceWriterResultC
	}
	if cls&ClsPiece != 0 {
		pieceC = t.pieceMessagesC.ReceiveC()
	}
	if cls&ClsMsg != 0 {
		msgC = t.messages
	}
	if cls&ClsDisc != 0 {
		discC = t.peerDisconnectedC
	}
	if cls&ClsSnub != 0 {
		snubC = t.peerSnubbedC
	}
	if cls&ClsRam != 0 {
		ramC = t.ramNotifyC
	}
	var allocC chan *allocator.Allocator
	var allocP chan allocator.Progress
	var verC chan *verifier.Verifier
	var verP chan verifier.Progress
	var stoppedC chan struct{}
	if cls&ClsAlloc != 0 {
		allocC, allocP = t.allocatorResultC, t.allocatorProgressC
	}
	if cls&ClsVerify != 0 {
		verC, verP = t.verifierResultC, t.verifierProgressC
	}
	if cls&ClsStopped != 0 {
		stoppedC = t.announcersStoppedC
	}
again:
	select {
	case p := <-allocP:
		t.vCaseAllocatorProgressC(p)
		goto again
	case p := <-verP:
		t.vCaseVerifierProgressC(p)
		goto again
	case al := <-allocC:
		e.Code = EvAllocDone
		v.guard(func() { t.vCaseAllocatorResultC(al) })
	case ve := <-verC:
		e.Code = EvVerifyDone
		v.guard(func() { t.vCaseVerifierResultC(ve) })
	case <-stoppedC:
		e.Code = EvAnnouncersStopped
		v.guard(func() { t.vCaseAnnouncersStoppedC() })
	case pw := <-writeC:
		e.Code, e.Index, e.HashOK, e.WErr = EvWriteDone, pw.Piece.Index, pw.HashOK, pw.Error != nil
		if pe, ok := pw.Source.(*peer.Peer); ok {
			e.Peer = v.peerIndex(pe)
		}
		v.guard(func() { t.vCasePieceWriterResultC(pw) })
	case pm := <-pieceC:
		e.Code, e.Peer, e.MsgID = EvPieceMsg, v.peerIndex(pm.Peer), 7
		e.Index, e.Begin, e.Len = pm.Piece.Index, pm.Piece.Begin, uint32(len(pm.Piece.Buffer.Data))
		lo := int64(pm.Piece.Index)*v.PL + int64(pm.Piece.Begin)
		hi := lo + int64(e.Len)
		e.Good = hi <= int64(len(v.Truth)) && bytes.Equal(pm.Piece.Buffer.Data, v.Truth[lo:hi])
		v.guard(func() { t.vCasePieceMessagesC(pm) })
	case pm := <-msgC:
		e.Code, e.Peer = EvPeerMsg, v.peerIndex(pm.Peer)
		switch m := pm.Message.(type) {
		case peerprotocol.ChokeMessage:
			e.MsgID = 0
		case peerprotocol.UnchokeMessage:
			e.MsgID = 1
		case peerprotocol.InterestedMessage:
			e.MsgID = 2
		case peerprotocol.NotInterestedMessage:
			e.MsgID = 3
		case peerprotocol.HaveMessage:
			e.MsgID, e.Index = 4, m.Index
		case peerprotocol.BitfieldMessage:
			e.MsgID = 5
			e.Len = uint32(len(m.Data))
			np := len(t.pieces)
			e.BadLen = len(m.Data) != (np+7)/8
			for i := 0; i < np && i/8 < len(m.Data); i++ {
				e.Bits = append(e.Bits, m.Data[i/8]&(0x80>>uint(i%8)) != 0)
			}
		case peerprotocol.RequestMessage:
			e.MsgID, e.Index, e.Begin, e.Len = 6, m.Index, m.Begin, m.Length
		case peerprotocol.CancelMessage:
			e.MsgID, e.Index, e.Begin, e.Len = 8, m.Index, m.Begin, m.Length
		case peerprotocol.HaveAllMessage:
			e.MsgID = 14
		case peerprotocol.HaveNoneMessage:
			e.MsgID = 15
		case peerprotocol.RejectMessage:
			e.MsgID, e.Index, e.Begin, e.Len = 16, m.Index, m.Begin, m.Length
		case peerprotocol.AllowedFastMessage:
			e.MsgID, e.Index = 17, m.Index
		case peerprotocol.ExtensionHandshakeMessage:
			e.MsgID = 20
			if m.RequestQueue > 0 && m.RequestQueue < 1<<30 {
				e.Index = uint32(m.RequestQueue)
			}
			e.A = int64(m.MetadataSize)
			if _, ok := m.M[peerprotocol.ExtensionKeyMetadata]; ok {
				e.B = 1
			}
		case peerprotocol.ExtensionMetadataMessage:
			e.MsgID = 21
			e.A, e.B = int64(m.Type), int64(m.TotalSize)
			e.Index, e.Len = m.Piece, uint32(len(m.Data))
			lo := int64(m.Piece) * 16384
			hi := lo + int64(len(m.Data))
			e.Good = hi <= int64(len(v.TruthInfo)) && bytes.Equal(m.Data, v.TruthInfo[lo:hi])
		}
		v.guard(func() { t.vCaseMessages(pm) })
	case pe := <-discC:
		e.Code, e.Peer = EvDisconnected, v.peerIndex(pe)
		v.guard(func() { t.vCasePeerDisconnectedC(pe) })
	case pe := <-snubC:
		e.Code, e.Peer = EvSnubbed, v.peerIndex(pe)
		v.guard(func() { t.vCasePeerSnubbedC(pe) })
	case pe := <-ramC:
		e.Code, e.Peer = EvRamNotify, v.peerIndex(pe)
		v.guard(func() { t.vCaseRamNotifyC(pe) })
	case <-timer.C:
		e.Code = EvNone
	}
	return
}

// SnubEx delivers a snub-timer event for the peer and reports it like PumpEx.
func (v *VLoop) SnubEx(p *VPeer) VEvent {
	v.Snub(p)
	return VEvent{Code: EvSnubbed, Peer: v.peerIndex(p.Pe), MsgID: -1}
}

// WriteInFlight tells whether a piece write has been started and its result not yet handled.
func (v *VLoop) WriteInFlight() bool {
	for i := range v.T.pieces {
		if v.T.pieces[i].Writing {
			return true
		}
	}
	return false
}

// Settle pumps until no event arrives for quiet; returns the events handled.
func (v *VLoop) Settle(quiet time.Duration) (evs []int) {
	for i := 0; i < 100000; i++ {
		ev := v.Pump(quiet)
		if ev == EvNone {
			return
		}
		if ev != EvProgress {
			evs = append(evs, ev)
		}
	}
	return
}

// Start issues the start command (as the loop would on startCommandC).
func (v *VLoop) Start() { v.guard(func() { v.T.vCaseStartCommandC() }) }

// Stop issues the stop command.
func (v *VLoop) Stop() { v.guard(func() { v.T.vCaseStopCommandC() }) }

// PersistNow runs the periodic resume write of the session (the ResumeWriteInterval ticker).
func (v *VLoop) PersistNow() { v.S.updateStats() }

// Verify issues the verify command.
func (v *VLoop) Verify() { v.guard(func() { v.T.vCaseVerifyCommandC() }) }

// PersistedBitfield reads the bitfield stored in the resume database (nil when there is none).
func (v *VLoop) PersistedBitfield(np int) []bool {
	spec, err := v.S.resumer.Read(v.T.id)
	if err != nil || spec == nil || len(spec.Bitfield) == 0 {
		return nil
	}
	bits := make([]bool, np)
	for i := 0; i < np && i/8 < len(spec.Bitfield); i++ {
		bits[i] = spec.Bitfield[i/8]&(0x80>>uint(i%8)) != 0
	}
	return bits
}

// Snub delivers a snub-timer event for the peer.
func (v *VLoop) Snub(p *VPeer) { v.guard(func() { v.T.vCasePeerSnubbedC(p.Pe) }) }

// AddPeer connects a scripted peer, bypassing the handshake (the handshake is covered elsewhere).
func (v *VLoop) AddPeer(fast, ext bool, source peersource.Source) (*VPeer, error) {
	type res struct {
		c   net.Conn
		err error
	}
	ch := make(chan res, 1)
	go func() {
		c, err := v.ln.Accept()
		ch <- res{c, err}
	}()
	// scripted peers use distinct loopback source addresses so the client's per-IP bookkeeping works
	local := &net.TCPAddr{IP: net.IPv4(127, 0, 0, byte(2+len(v.Peers)))}
	dl := net.Dialer{LocalAddr: local, Timeout: 20 * time.Second}
	hc, err := dl.Dial("tcp", v.ln.Addr().String())
	if err != nil {
		return nil, err
	}
	r := <-ch
	if r.err != nil {
		hc.Close()
		return nil, r.err
	}
	clientSide := r.c
	var ext8 [8]byte
	if fast {
		ext8[7] |= 0x04
	}
	if ext {
		ext8[5] |= 0x10
	}
	var id [20]byte
	copy(id[:], fmt.Sprintf("-VP%04d-verifpeer0000", len(v.Peers)))
	t := v.T
	vp := &VPeer{Conn: hc}
	v.guard(func() {
		t.connectedPeerIPs[clientSide.RemoteAddr().(*net.TCPAddr).IP.String()] = struct{}{}
		peers := t.incomingPeers
		if source != peersource.Incoming {
			peers = t.outgoingPeers
		}
		t.startPeer(clientSide, source, peers, id, ext8, mse.PlainText)
	})
	for pe := range t.peers {
		if pe.ID == id {
			vp.Pe = pe
		}
	}
	if vp.Pe == nil {
		hc.Close()
		return nil, errors.New("peer was not started")
	}
	go vp.readLoop()
	v.Peers = append(v.Peers, vp)
	return vp, nil
}

// ---- snapshots ----

type VPeerState struct {
	Closed, ClientChoking, ClientInterested, PeerChoking, PeerInterested, Downloading, Snubbed, FastEnabled bool
	SentAllowedFast                                                                                         []int
	DownloadPiece                                                                                           int // -1 none
	DownloadAF                                                                                              bool
}

type VSnapshot struct {
	Status      string
	Have        []bool // nil when no bitfield
	Done        []bool
	Writing     []bool
	Peers       []VPeerState
	Requested   [][]int // per piece: indexes into v.Peers
	Available   int
	Banned      int
	RamObjects  int
	NumPeers    int
	Completed   bool
	Downloaders int
	Suspended   bool
	Pending     []int // per peer: pending request count of its downloader (-1 none)
	HasInfo     bool
	DoVerify    bool
	HasPieces   bool
	Started     bool
	InfoDl      []bool // per peer: has an info downloader
	InfoSnubbed []bool
}

func (v *VLoop) peerIndex(pe *peer.Peer) int {
	for i, p := range v.Peers {
		if p.Pe == pe {
			return i
		}
	}
	return -1
}

func (v *VLoop) Snapshot() VSnapshot {
	t := v.T
	var s VSnapshot
	s.Status = t.status().String()
	if t.bitfield != nil {
		for i := uint32(0); i < t.bitfield.Len(); i++ {
			s.Have = append(s.Have, t.bitfield.Test(i))
		}
	}
	for i := range t.pieces {
		s.Done = append(s.Done, t.pieces[i].Done)
		s.Writing = append(s.Writing, t.pieces[i].Writing)
	}
	for _, p := range v.Peers {
		pe := p.Pe
		ps := VPeerState{Closed: pe.Closed, ClientChoking: pe.ClientChoking, ClientInterested: pe.ClientInterested,
			PeerChoking: pe.PeerChoking, PeerInterested: pe.PeerInterested, Downloading: pe.Downloading, Snubbed: pe.Snubbed,
			FastEnabled: pe.FastEnabled, DownloadPiece: -1}
		for _, pi := range pe.SentAllowedFast.Items {
			ps.SentAllowedFast = append(ps.SentAllowedFast, int(pi.Index))
		}
		sort.Ints(ps.SentAllowedFast)
		pend := -1
		if pd, ok := t.pieceDownloaders[pe]; ok {
			ps.DownloadPiece = int(pd.Piece.Index)
			ps.DownloadAF = pd.AllowedFast
			pend = pd.PendingLen()
		}
		s.Pending = append(s.Pending, pend)
		_, idl := t.infoDownloaders[pe]
		_, isn := t.infoDownloadersSnubbed[pe]
		s.InfoDl = append(s.InfoDl, idl)
		s.InfoSnubbed = append(s.InfoSnubbed, isn)
		s.Peers = append(s.Peers, ps)
	}
	if t.piecePicker != nil {
		s.Available = int(t.piecePicker.Available())
	}
	for i := range t.pieces {
		var l []int
		if t.piecePicker != nil {
			for _, pe := range t.piecePicker.RequestedPeers(uint32(i)) {
				l = append(l, v.peerIndex(pe))
			}
		}
		sort.Ints(l)
		s.Requested = append(s.Requested, l)
	}
	s.Banned = len(t.bannedPeerIPs)
	s.NumPeers = len(t.peers)
	s.Completed = t.completed
	s.Downloaders = len(t.pieceDownloaders)
	s.HasInfo = t.info != nil
	s.DoVerify = t.doVerify
	s.HasPieces = t.pieces != nil
	s.Started = t.errC != nil
	s.Suspended = t.pieceMessagesC.ReceiveC() == nil
	if t.session.ram != nil {
		s.RamObjects = t.session.ram.Stats().AllocatedObjects
	}
	return s
}

// PieceData returns the ground-truth bytes of piece i for content made by MakeContent.
func InfoHashOf(info []byte) [20]byte { return sha1.Sum(info) }

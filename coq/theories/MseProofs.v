(* Proofs about Mse.v (property C12). *)
From RainV Require Import Lib Mse.
From Coq Require Import ZifyBool.

(* ---- lists of integers ---- *)
Lemma list_eqb_Z_refl l : list_eqb_Z l l = true.
Proof.
  unfold list_eqb_Z. rewrite Nat.eqb_refl. cbn [andb].
  induction l as [|x r IH]; [reflexivity|]. cbn [combine forallb fst snd]. rewrite Z.eqb_refl. exact IH.
Qed.

Lemma list_eqb_Z_eq a : forall b, list_eqb_Z a b = true -> a = b.
Proof.
  unfold list_eqb_Z. induction a as [|x r IH]; intros [|y r'] H; cbn in H; try discriminate; [reflexivity|].
  apply andb_true_iff in H. destruct H as [H1 H2]. apply andb_true_iff in H2. destruct H2 as [H2 H3].
  apply Z.eqb_eq in H2. subst. f_equal. apply IH. rewrite H1, H3. reflexivity.
Qed.

Lemma list_eqb_Z_neq a b : a <> b -> list_eqb_Z a b = false.
Proof. intro H. destruct (list_eqb_Z a b) eqn:E; [|reflexivity]. apply list_eqb_Z_eq in E. contradiction. Qed.

Lemma zlen_firstn {A} (l : list A) n : 0 <= n <= zlen l -> zlen (firstn (Z.to_nat n) l) = n.
Proof. unfold zlen. intro H. rewrite firstn_length. lia. Qed.

Lemma take_app a b : take (zlen a) (a ++ b) = Some (a, b).
Proof.
  unfold take. rewrite zlen_app. pose proof (zlen_nonneg b).
  destruct (zlen a + zlen b <? zlen a) eqn:E; [lia|]. unfold zlen. rewrite Nat2Z.id.
  rewrite firstn_app, Nat.sub_diag, firstn_all, app_nil_r. rewrite skipn_app, Nat.sub_diag, skipn_all. reflexivity.
Qed.

Lemma take_app' n a b : n = zlen a -> take n (a ++ b) = Some (a, b).
Proof. intros ->. apply take_app. Qed.

Lemma take_short n s : zlen s < n -> take n s = None.
Proof. intro H. unfold take. destruct (zlen s <? n) eqn:E; [reflexivity|lia]. Qed.

(* ---- RC4 as a stream cipher: what matters is that the key stream does not depend on the data ---- *)
Lemma rc4_xor_len st : forall d, length (fst (rc4_xor st d)) = length d.
Proof.
  intro d. revert st. induction d as [|x r IH]; intro st; [reflexivity|]. cbn [rc4_xor].
  destruct (rc4_step st) as [k st1]. specialize (IH st1). destruct (rc4_xor st1 r) as [o st2]. cbn in *. lia.
Qed.

Lemma rc4_xor_zlen st d : zlen (fst (rc4_xor st d)) = zlen d.
Proof. unfold zlen. rewrite rc4_xor_len. reflexivity. Qed.

Lemma rc4_xor_app st : forall a b,
  rc4_xor st (a ++ b) = (fst (rc4_xor st a) ++ fst (rc4_xor (snd (rc4_xor st a)) b), snd (rc4_xor (snd (rc4_xor st a)) b)).
Proof.
  intros a. revert st. induction a as [|x r IH]; intros st b.
  - cbn. destruct (rc4_xor st b); reflexivity.
  - cbn [app rc4_xor]. destruct (rc4_step st) as [k st1]. rewrite IH.
    destruct (rc4_xor st1 r) as [o st2]. cbn [fst snd]. destruct (rc4_xor st2 b) as [o' st3]. reflexivity.
Qed.

(* decrypting with the same state gives the plain text back and leaves the same state *)
Lemma rc4_xor_inv st : forall d, rc4_xor st (fst (rc4_xor st d)) = (d, snd (rc4_xor st d)).
Proof.
  intro d. revert st. induction d as [|x r IH]; intro st; [reflexivity|]. cbn [rc4_xor].
  destruct (rc4_step st) as [k st1] eqn:E. specialize (IH st1). destruct (rc4_xor st1 r) as [o st2] eqn:E2.
  cbn [fst snd] in *. cbn [rc4_xor]. rewrite E, IH. rewrite Z.lxor_assoc, Z.lxor_nilpotent, Z.lxor_0_r. reflexivity.
Qed.

Lemma cxor_inv c d : cxor c (fst (cxor c d)) = (d, snd (cxor c d)).
Proof.
  destruct c as [st|]; [|reflexivity]. cbn [cxor].
  destruct (rc4_xor st d) as [o st'] eqn:E. cbn [fst snd].
  pose proof (rc4_xor_inv st d) as H. rewrite E in H. cbn [fst snd] in H. rewrite H. reflexivity.
Qed.

(* ---- big-endian fields ---- *)
Lemma of_be_be16 n : 0 <= n < 65536 -> of_be (be16 n) = n.
Proof. intro H. unfold of_be, be16. cbn [fold_left]. Z.div_mod_to_equations. lia. Qed.

Lemma of_be_be32 n : 0 <= n < 4294967296 -> of_be (be32 n) = n.
Proof. intro H. unfold of_be, be32. cbn [fold_left]. Z.div_mod_to_equations. lia. Qed.

Lemma zlen_be16 n : zlen (be16 n) = 2. Proof. reflexivity. Qed.
Lemma zlen_be32 n : zlen (be32 n) = 4. Proof. reflexivity. Qed.
Lemma zlen_vc : zlen vc = 8. Proof. reflexivity. Qed.
Lemma zlen_zeros n : 0 <= n -> zlen (zeros n) = n.
Proof. intro H. unfold zlen, zeros. rewrite repeat_length. lia. Qed.

(* ---- the synchronisation scan ---- *)
(* no window of the stream before position |pre| is the key *)
Definition no_early (key pre : list Z) : Prop :=
  forall k, (k < length pre)%nat -> firstn (length key) (skipn k (pre ++ key)) <> key.

Lemma firstn_app_l {A} (a b : list A) n : (n <= length a)%nat -> firstn n (a ++ b) = firstn n a.
Proof. intro H. rewrite firstn_app. replace (n - length a)%nat with O by lia. cbn. apply app_nil_r. Qed.

Lemma window_shift (s : list Z) b (r : list Z) n : (n <= length r)%nat -> (0 < n)%nat ->
  tl (firstn n (b :: r)) ++ [nth (n - 1) r 0] = firstn n r.
Proof.
  intros H Hn. destruct n as [|n]; [lia|]. cbn [firstn tl]. replace (S n - 1)%nat with n by lia.
  clear Hn. revert r H. induction n as [|n IH]; intros r H.
  - destruct r; [cbn in H; lia|reflexivity].
  - destruct r as [|x r]; [cbn in H; lia|]. cbn [firstn app nth]. f_equal. apply IH. cbn in H. lia.
Qed.

Lemma sync_found key : (0 < length key)%nat -> forall pre X max,
  no_early key pre -> Z.of_nat (length pre) <= max ->
  let s := pre ++ key ++ X in
  sync_loop key (firstn (length key) s) max (skipn (length key) s) = Some X.
Proof.
  intros Hk. induction pre as [|b pre IH]; intros X max Hne Hmax; cbv zeta.
  - cbn [app]. rewrite firstn_app_l by lia. rewrite firstn_all. rewrite skipn_app, skipn_all, Nat.sub_diag. cbn [skipn app].
    destruct X; cbn [sync_loop]; rewrite list_eqb_Z_refl; reflexivity.
  - set (n := length key) in *.
    assert (W : firstn n ((b :: pre) ++ key ++ X) <> key).
    { intro E. apply (Hne O); [cbn; lia|]. cbn [skipn]. rewrite app_assoc in E.
      rewrite (firstn_app_l ((b :: pre) ++ key) X) in E; [exact E|]. rewrite app_length. fold n. cbn. lia. }
    assert (L : (n <= length (pre ++ key ++ X))%nat) by (rewrite !app_length; fold n; lia).
    cbn [app] in *. remember (skipn n (b :: pre ++ key ++ X)) as rest eqn:Er.
    assert (Er' : rest = skipn (n - 1) (pre ++ key ++ X)).
    { subst rest. destruct n as [|m]; [lia|]. cbn [skipn]. replace (S m - 1)%nat with m by lia. reflexivity. }
    assert (Hl : (length (pre ++ key ++ X) = (n - 1) + length rest)%nat).
    { subst rest. rewrite Er'. rewrite skipn_length. lia. }
    destruct rest as [|c rest'].
    { cbn in Hl. rewrite !app_length in Hl. fold n in Hl. cbn in Hmax. lia. }
    cbn [sync_loop]. rewrite (list_eqb_Z_neq _ _ W).
    cbn [length] in Hmax. destruct (max <=? 0) eqn:Em; [lia|].
    assert (Hc : c = nth (n - 1) (pre ++ key ++ X) 0).
    { rewrite <- (firstn_skipn (n - 1) (pre ++ key ++ X)) at 1. rewrite <- Er'. rewrite app_nth2; rewrite firstn_length; [|lia].
      replace (n - 1 - Nat.min (n - 1) (length (pre ++ key ++ X)))%nat with O by lia. reflexivity. }
    rewrite Hc. rewrite (window_shift (pre ++ key ++ X) b (pre ++ key ++ X) n L Hk).
    assert (Hr : rest' = skipn n (pre ++ key ++ X)).
    { change rest' with (skipn 1 (c :: rest')). rewrite Er'. rewrite skipn_skipn. f_equal. lia. }
    rewrite Hr. apply IH; [|lia].
    intros k Hklt. specialize (Hne (S k)). cbn [skipn app length] in Hne. apply Hne. lia.
Qed.

Lemma read_sync_found key pre X max : (0 < length key)%nat -> no_early key pre ->
  Z.of_nat (length pre) + zlen key <= max -> read_sync key max (pre ++ key ++ X) = Some X.
Proof.
  intros Hk Hne Hmax. unfold read_sync, take.
  assert (L : zlen key <= zlen (pre ++ key ++ X)) by (rewrite !zlen_app; pose proof (zlen_nonneg pre); pose proof (zlen_nonneg X); lia).
  destruct (zlen (pre ++ key ++ X) <? zlen key) eqn:E; [lia|].
  replace (Z.to_nat (zlen key)) with (length key) by (unfold zlen; lia).
  apply sync_found; [exact Hk|exact Hne|unfold zlen in *; lia].
Qed.

(* the key is not found in a stream that ends before it *)
Lemma sync_not_found key : (0 < length key)%nat -> forall pre max,
  no_early key pre -> (length key <= length pre)%nat ->
  sync_loop key (firstn (length key) pre) max (skipn (length key) pre) = None.
Proof.
  intros Hk. induction pre as [|b pre IH]; intros max Hne Hl; [cbn in Hl; lia|].
  set (n := length key) in *.
  assert (W : firstn n (b :: pre) <> key).
  { intro E. apply (Hne O); [cbn; lia|]. cbn [skipn]. rewrite firstn_app_l by (cbn [length] in *; lia). exact E. }
  remember (skipn n (b :: pre)) as rest eqn:Er.
  assert (Er' : rest = skipn (n - 1) pre).
  { subst rest. destruct n as [|m]; [lia|]. cbn [skipn]. replace (S m - 1)%nat with m by lia. reflexivity. }
  destruct rest as [|c rest'].
  { cbn [sync_loop]. rewrite (list_eqb_Z_neq _ _ W). destruct (max <=? 0); reflexivity. }
  cbn [sync_loop]. rewrite (list_eqb_Z_neq _ _ W). destruct (max <=? 0); [reflexivity|].
  assert (Hlen : (length pre = (n - 1) + S (length rest'))%nat).
  { pose proof (skipn_length (n - 1) pre) as Hs. rewrite <- Er' in Hs. cbn [length] in Hs. cbn [length] in Hl. lia. }
  assert (L : (n <= length pre)%nat) by lia.
  assert (Hc : c = nth (n - 1) pre 0).
  { rewrite <- (firstn_skipn (n - 1) pre) at 1. rewrite <- Er'. rewrite app_nth2; rewrite firstn_length; [|lia].
    replace (n - 1 - Nat.min (n - 1) (length pre))%nat with O by lia. reflexivity. }
  rewrite Hc. rewrite (window_shift pre b pre n L Hk).
  assert (Hr : rest' = skipn n pre).
  { change rest' with (skipn 1 (c :: rest')). rewrite Er'. rewrite skipn_skipn. f_equal. lia. }
  rewrite Hr. apply IH; [|exact L].
  intros k Hklt. specialize (Hne (S k)). cbn [skipn app length] in Hne. apply Hne. lia.
Qed.

Lemma read_sync_not_found key pre max : (0 < length key)%nat -> no_early key pre -> read_sync key max pre = None.
Proof.
  intros Hk Hne. unfold read_sync, take. destruct (zlen pre <? zlen key) eqn:E; [reflexivity|].
  replace (Z.to_nat (zlen key)) with (length key) by (unfold zlen; lia).
  apply sync_not_found; [exact Hk|exact Hne|unfold zlen in E; lia].
Qed.

Lemma sync_err_of_none key : forall rest win max, sync_loop key win max rest = None -> sync_loop_err key win max rest <> 0.
Proof.
  induction rest as [|b r IH]; intros win max H; cbn [sync_loop sync_loop_err] in *;
    destruct (list_eqb_Z win key); try discriminate; destruct (max <=? 0); try lia.
  apply IH. exact H.
Qed.

Lemma read_sync_err_of_none key max s : read_sync key max s = None -> read_sync_err key max s <> 0.
Proof.
  unfold read_sync, read_sync_err. destruct (take (zlen key) s) as [[w rest]|]; [apply sync_err_of_none|lia].
Qed.

(* ---- the encryption policy ---- *)
Lemma sel_policy_forced k provided : sel_policy 1 k provided = 0 \/ sel_policy 1 k provided = 2.
Proof. unfold sel_policy. cbn. destruct (negb (Z.land provided 2 =? 0)); [right|left]; [reflexivity|]. rewrite andb_false_r. reflexivity. Qed.

Lemma accept_forced has_skey plain e s : accept_policy true has_skey plain e s = 0 \/ accept_policy true has_skey plain e s = 2.
Proof. unfold accept_policy. destruct plain, has_skey, (e =? 0), (s =? 2); cbn; auto. Qed.

(* with encryption enabled and forced only RC4 is offered, no clear-text connection is attempted, and the
   connection is used only when RC4 was selected (the initiator accepts only what it offered) *)
Lemma dial_forced_offer : dial_provide true = 2.
Proof. reflexivity. Qed.
Lemma dial_forced_no_clear e s plain_ok : snd (dial_policy true true e s plain_ok) = false.
Proof. unfold dial_policy. cbn. destruct (e =? 0); [destruct (s =? 2)|]; reflexivity. Qed.
Lemma sel_valid_forced_not_plain sel : sel_valid sel 2 = true -> sel <> 1.
Proof. intros H ->. discriminate H. Qed.

(* ---- the two parties on the streams an honest peer sends ---- *)
Definition xor20 (a b : list Z) : list Z := map (fun p => Z.lxor (fst p) (snd p)) (combine a b).
Definition hs3 (provide lenC : Z) (ia : list Z) : list Z := vc ++ be32 provide ++ be16 lenC ++ zeros lenC ++ be16 (zlen ia) ++ ia.
Definition hs4 (sel lenD : Z) : list Z := vc ++ be32 sel ++ be16 lenD ++ zeros lenD.

Lemma xor20_inv : forall a b, length a = length b -> xor20 (xor20 a b) b = a.
Proof.
  unfold xor20. induction a as [|x r IH]; intros [|y r'] H; cbn in *; try discriminate; [reflexivity|].
  rewrite Z.lxor_assoc, Z.lxor_nilpotent, Z.lxor_0_r. f_equal. apply IH. lia.
Qed.

Lemma xor20_len : forall a b, length a = length b -> length (xor20 a b) = length a.
Proof. unfold xor20. intros a b H. rewrite map_length, combine_length. lia. Qed.

Lemma skipn_app_le {A} (a b : list A) n : (n <= length a)%nat -> skipn n (a ++ b) = skipn n a ++ b.
Proof. intro H. rewrite skipn_app. replace (n - length a)%nat with O by lia. reflexivity. Qed.

(* taking the encryption of a prefix off an encrypted stream, and decrypting it *)
Lemma dec_take st P1 P2 R n : n = zlen P1 ->
  take n (fst (rc4_xor st (P1 ++ P2)) ++ R) =
  Some (fst (rc4_xor st P1), fst (rc4_xor (snd (rc4_xor st P1)) P2) ++ R).
Proof.
  intros ->. rewrite rc4_xor_app. cbn [fst]. rewrite <- app_assoc. rewrite <- (rc4_xor_zlen st P1). apply take_app.
Qed.

Lemma dec_take_last st P1 R n : n = zlen P1 ->
  take n (fst (rc4_xor st P1) ++ R) = Some (fst (rc4_xor st P1), R).
Proof. intros ->. rewrite <- (rc4_xor_zlen st P1). apply take_app. Qed.

Lemma first_read_ge chunks : forall acc f, first_read chunks acc = Some f -> 96 <= f.
Proof.
  induction chunks as [|c r IH]; intros acc f H; cbn [first_read] in H; destruct (96 <=? acc) eqn:E; try discriminate.
  - injection H as <-. lia.
  - injection H as <-. lia.
  - eapply IH. exact H.
Qed.

Section Honest.
  Variables (ya padA yb padB ia : list Z) (provide lenC lenD pol polk : Z) (o : oracle) (known : list Z).
  Hypothesis Hya : zlen ya = 96.
  Hypothesis Hyb : zlen yb = 96.
  Hypothesis Hr1 : zlen (o_req1 o) = 20.
  Hypothesis Hr2 : zlen (o_req2 o) = 20.
  Hypothesis Hr3 : zlen (o_req3 o) = 20.
  Hypothesis Hprov : 0 < provide < 4294967296.
  Hypothesis HlenC : 0 <= lenC < 65536.
  Hypothesis HlenD : 0 <= lenD < 65536.
  Hypothesis Hia : zlen ia < 65536.
  Hypothesis Hpolk : 0 <= polk < 4294967296.

  Let P := hs3 provide lenC ia.
  Let stA := rc4_init (o_keyA o).
  Let stB := rc4_init (o_keyB o).
  Let body := fst (rc4_xor stA P).
  Let m1 := ya ++ padA.
  Let m2 := yb ++ padB.
  Let m3 := o_req1 o ++ xor20 (o_req2 o) (o_req3 o) ++ body.
  Let sel := sel_policy pol polk provide.
  Let m4 := fst (rc4_xor stB (hs4 sel lenD)).

  Lemma responder_honest chunks tail f :
    first_read chunks 0 = Some f -> f <= 96 + zlen padA -> zlen padA <= 512 ->
    no_early (o_req1 o) (skipn (Z.to_nat f) m1) ->
    responder yb padB lenD pol polk o known (m1 ++ m3 ++ tail) chunks =
      if negb (list_eqb_Z (o_req2 o) known) then failed m2 [] 3
      else if negb (sel_valid sel provide) then failed m2 [] 6
      else {| p_sent1 := m2; p_sent2 := m4; p_err := 0; p_sel := sel; p_ia := ia; p_rest := tail;
              p_enc := cipher_for sel (snd (rc4_xor stB (hs4 sel lenD)));
              p_dec := cipher_for sel (snd (rc4_xor stA P)) |}.
  Proof.
    intros Hf Hfle Hpad Hne. pose proof (first_read_ge _ _ _ Hf) as Hfge.
    unfold responder. rewrite Hf.
    assert (Lm1 : zlen m1 = 96 + zlen padA) by (unfold m1; rewrite zlen_app; lia).
    rewrite skipn_app_le by (unfold zlen in *; lia).
    unfold m3 at 1. rewrite <- !app_assoc.
    rewrite read_sync_found; [| unfold zlen in Hr1; lia | exact Hne |].
    2:{ rewrite skipn_length. unfold zlen in *. lia. }
    rewrite take_app' by (unfold zlen in *; rewrite xor20_len; lia).
    fold (xor20 (xor20 (o_req2 o) (o_req3 o)) (o_req3 o)). rewrite xor20_inv by (unfold zlen in *; lia).
    destruct (negb (list_eqb_Z (o_req2 o) known)); [reflexivity|].
    fold stA stB. unfold body, P, hs3.
    (* VC *)
    rewrite (dec_take stA vc _ tail 8 eq_refl). rewrite rc4_xor_inv. cbv beta iota. rewrite list_eqb_Z_refl. cbn [negb].
    (* crypto_provide *)
    rewrite (dec_take _ (be32 provide) _ tail 4 eq_refl). rewrite rc4_xor_inv. cbv beta iota. rewrite of_be_be32 by lia.
    destruct (provide =? 0) eqn:Ep; [lia|]. fold sel.
    destruct (negb (sel_valid sel provide)); [reflexivity|].
    (* PadC *)
    rewrite (dec_take _ (be16 lenC) _ tail 2 eq_refl). rewrite rc4_xor_inv. cbv beta iota. rewrite of_be_be16 by lia.
    rewrite (dec_take _ (zeros lenC) _ tail lenC) by (rewrite zlen_zeros; lia). rewrite rc4_xor_inv. cbv beta iota.
    (* IA *)
    rewrite (dec_take _ (be16 (zlen ia)) _ tail 2 eq_refl). rewrite rc4_xor_inv. cbv beta iota.
    rewrite of_be_be16 by (pose proof (zlen_nonneg ia); lia).
    rewrite (dec_take_last _ ia tail (zlen ia) eq_refl). rewrite rc4_xor_inv. cbv beta iota.
    unfold hs4.
    unfold m4, hs4.
    destruct (rc4_xor stB (vc ++ be32 sel ++ be16 lenD ++ zeros lenD)) as [w e1] eqn:E4. cbn [fst snd].
    f_equal. f_equal.
    (* the decryption state: the whole third message was consumed *)
    rewrite !rc4_xor_app. cbn [snd fst]. reflexivity.
  Qed.

  Lemma initiator_honest chunks tail f :
    first_read chunks 0 = Some f -> f <= 96 + zlen padB -> zlen padB <= 512 ->
    no_early (fst (rc4_xor stB vc)) (skipn (Z.to_nat f) m2) ->
    sel_valid sel provide = true ->
    initiator ya padA provide lenC ia o (m2 ++ m4 ++ tail) chunks =
      {| p_sent1 := m1; p_sent2 := m3; p_err := 0; p_sel := sel; p_ia := []; p_rest := tail;
         p_enc := cipher_for sel (snd (rc4_xor stA P));
         p_dec := cipher_for sel (snd (rc4_xor stB (hs4 sel lenD))) |}.
  Proof.
    intros Hf Hfle Hpad Hne Hsel. pose proof (first_read_ge _ _ _ Hf) as Hfge.
    unfold initiator. destruct (provide =? 0) eqn:Ep; [lia|].
    destruct (65535 <? zlen ia) eqn:Ei; [lia|]. rewrite Hf. fold stA stB. fold (hs3 provide lenC ia). fold P.
    destruct (rc4_xor stA P) as [bd e1] eqn:EP.
    destruct (rc4_xor stB vc) as [vcenc d1] eqn:EV. cbn [fst] in Hne.
    assert (Lm2 : zlen m2 = 96 + zlen padB) by (unfold m2; rewrite zlen_app; lia).
    rewrite skipn_app_le by (unfold zlen in *; lia).
    assert (Em4 : m4 = vcenc ++ fst (rc4_xor d1 (be32 sel ++ be16 lenD ++ zeros lenD))).
    { unfold m4, hs4. rewrite rc4_xor_app. rewrite EV. reflexivity. }
    assert (Lv : zlen vcenc = 8) by (pose proof (rc4_xor_zlen stB vc) as X; rewrite EV in X; exact X).
    rewrite Em4. rewrite <- !app_assoc.
    rewrite read_sync_found; [| unfold zlen in Lv; lia | exact Hne |].
    2:{ rewrite skipn_length. unfold zlen in *. lia. }
    rewrite (dec_take d1 (be32 sel) _ tail 4 eq_refl). rewrite rc4_xor_inv. cbv beta iota.
    assert (Hsr : 0 <= sel < 4294967296).
    { unfold sel, sel_policy. destruct (pol =? 2); [exact Hpolk|].
      destruct (negb (Z.land provide 2 =? 0)); [lia|]. destruct (negb (Z.land provide 1 =? 0) && (pol =? 0)); lia. }
    rewrite of_be_be32 by exact Hsr. rewrite Hsel. cbn [negb].
    rewrite (dec_take _ (be16 lenD) _ tail 2 eq_refl). rewrite rc4_xor_inv. cbv beta iota. rewrite of_be_be16 by lia.
    rewrite (dec_take_last _ (zeros lenD) tail lenD) by (rewrite zlen_zeros; lia).
    rewrite rc4_xor_inv. cbv beta iota.
    unfold m3, body. fold (xor20 (o_req2 o) (o_req3 o)).
    f_equal. f_equal. unfold hs4. rewrite !rc4_xor_app. rewrite EV. cbn [fst snd]. reflexivity.
  Qed.
End Honest.


#!/bin/bash
# run every claimed check (quick by default) on the current tree, 4 at a time
cd /verif; tier=${1:-quick}
ids=$(python3 -c "import json;print(' '.join(c['property_id'] for c in json.load(open('MANIFEST.json'))['checks']))")
echo $ids | tr ' ' '\n' | xargs -P 4 -I{} sh -c "bin/check {} $tier > .work/run_{}.log 2>&1; echo {} rc=\$? \$(tail -1 .work/run_{}.log | cut -c1-160)"

(* C15 — announces carry the torrent's true identity and follow the event discipline. *)
From RainV Require Import Lib Wire Tracker TrackerProofs Announcer AnnouncerProofs.

(* the BEP 15 announce datagram carries info-hash, the full 20-byte peer id, counters, event,
   key and port at their protocol offsets, for all field values *)
Theorem C15_udp_fields : forall connid txid r url, length (a_ih r) = 20%nat -> length (a_pid r) = 20%nat ->
  let p := udp_announce true connid txid r url in
  firstn 8 p = be64 connid /\ firstn 4 (skipn 8 p) = be32 1 /\ firstn 4 (skipn 12 p) = be32 (txid mod two32) /\
  firstn 20 (skipn 16 p) = a_ih r /\ firstn 20 (skipn 36 p) = a_pid r /\
  firstn 8 (skipn 56 p) = be64 (a_dl r) /\ firstn 8 (skipn 64 p) = be64 (a_left r) /\
  firstn 8 (skipn 72 p) = be64 (a_ul r) /\ firstn 4 (skipn 80 p) = be32 (a_event r mod two32) /\
  firstn 4 (skipn 88 p) = be32 (pid_key (a_pid r)) /\ firstn 4 (skipn 92 p) = be32 (a_numwant r mod two32) /\
  firstn 2 (skipn 96 p) = be16 (a_port r mod 65536).
Proof. exact udp_fields. Qed.
Print Assumptions C15_udp_fields.

Theorem C15_udp_key_is_peer_id_tail : forall pre a b c d, length pre = 16%nat -> bytes [a; b; c; d] ->
  be32 (pid_key (pre ++ [a; b; c; d])) = [a; b; c; d].
Proof. exact udp_key_is_pid_tail. Qed.
Print Assumptions C15_udp_key_is_peer_id_tail.

Theorem C15_udp_fields_refuted_on_pinned_code : exists connid txid r url,
  length (a_ih r) = 20%nat /\ length (a_pid r) = 20%nat /\
  firstn 20 (skipn 36 (udp_announce false connid txid r url)) <> a_pid r.
Proof. exact udp_fields_refuted_pinned. Qed.
Print Assumptions C15_udp_fields_refuted_on_pinned_code.

(* whatever interval values a reply carries (none, zero, negative included), the next announce
   without an intervening event is not sooner than the tracker's positive interval or the
   minimum interval in force *)
Theorem C15_interval_floor : forall bo a iv mi a' e t, 0 <= minint a ->
  step true bo a (ROk iv mi) [] = (a', Some (e, t)) -> t - now a >= floor_of a iv mi /\ e = 0.
Proof. exact interval_floor. Qed.
Print Assumptions C15_interval_floor.

Theorem C15_interval_floor_refuted_on_pinned_code : forall bo,
  exists a iv mi t e, 0 < minint a /\ snd (step false bo a (ROk iv mi) []) = Some (e, t) /\
    t - now a < Z.min (minint a) (if iv >? 0 then iv else minint a).
Proof. exact interval_floor_refuted_pinned. Qed.
Print Assumptions C15_interval_floor_refuted_on_pinned_code.

(* "completed" at most once per run, never when the run started complete; (the first announce of
   a run is "started" by construction of [start]) *)
Theorem C15_completed_at_most_once : forall bo fixed script a,
  (count_completed (run_script fixed bo a script) <= (if armed a then 1 else 0))%nat.
Proof. exact completed_at_most_once. Qed.
Print Assumptions C15_completed_at_most_once.

Theorem C15_no_completed_when_started_complete : forall bo fixed mi script,
  count_completed (run_script fixed bo (start mi true) script) = 0%nat.
Proof. exact no_completed_when_started_complete. Qed.
Print Assumptions C15_no_completed_when_started_complete.

(* the stopped event is sent only to a tracker that accepted an announce of this run: replies that are
   failure reasons or HTTP errors never make a tracker a recipient (kind 1504) *)
Theorem C15_stopped_only_after_an_accepted_announce : forall rs,
  tracker_accepted rs = true <-> In TAccepted rs.
Proof.
  intros rs. unfold tracker_accepted. rewrite existsb_exists. split.
  - intros (r & Hin & Hr). destruct r; try discriminate. exact Hin.
  - intros Hin. exists TAccepted. split; [exact Hin|reflexivity].
Qed.
Print Assumptions C15_stopped_only_after_an_accepted_announce.

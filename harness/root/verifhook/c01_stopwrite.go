//go:build verif

package verifhook

import (
	"math/rand"
	"time"

	"github.com/cenkalti/rain/v2/internal/peersource"
	"github.com/cenkalti/rain/v2/torrent"
)

// kind 104: a stop command reaches the event loop while a piece that passed its hash check is
// waiting for the disk.  The storage behaves like os.File: the stop closes the files, and the write
// that is let through afterwards is refused (os.ErrClosed).  Whatever the loop does with that
// result, it must not report the piece as downloaded while its bytes are not in the files.
// in  = [variant fast npieces]   variant 0: the write goes through before any command
//                                variant 1: stop, then the write is let through
//                                variant 2: the disk fails the write (no stop)
// obs = [pieces reported after the write result | 1 if the bytes of the missing piece are on disk |
//        1 if every reported piece has its bytes on disk]

func genStopWrite(r *rand.Rand, tier string) Case {
	variant := int64(r.Intn(3))
	fast := r.Intn(2) == 0
	l := vLayout{PL: 16384 * int64(1+r.Intn(2)), Name: "t", Lens: nil, Pads: nil}
	l.Total = l.PL*int64(r.Intn(3)) + 1 + r.Int63n(l.PL) // one to three pieces
	l.Lens, l.Pads = []int64{l.Total}, []bool{false}
	content := l.Content(r.Int63())
	np := l.NumPieces()
	image := l.Preload(content)
	miss := np - 1 // everything but the last piece is on disk
	lo := int64(miss) * l.PL
	for i := lo; i < l.Total; i++ {
		image[l.FileName(0)][i] ^= 0x5a
	}
	in := []int64{variant, b2i(fast), int64(np)}
	info := l.InfoBytes(content, -1)
	v, err := torrent.NewVLoop(torrent.VLoopOpts{TorrentFile: torrent.BuildTorrentFile(info, nil), Preload: image, StrictHandles: true,
		Tune: func(c *torrent.Config) {
			c.UnchokedPeers = 0
			c.OptimisticUnchokedPeers = 0
			c.RequestTimeout = time.Hour
		}})
	if err != nil {
		return Case{In: in, Obs: []int64{-710}}
	}
	defer v.Close()
	v.Start()
	for i := 0; i < 200; i++ {
		v.Settle(vQuiet)
		st := v.Snapshot().Status
		if st == "Seeding" || st == "Downloading" || st == "Stopped" {
			break
		}
	}
	v.Truth, v.PL = content, l.PL
	if v.Snapshot().Status != "Downloading" {
		return Case{In: in, Obs: []int64{-711}, Note: v.Snapshot().Status}
	}
	// the gate: a write waits at the entry of WriteAt until it is let through
	gate := make(chan struct{})
	entered := make(chan struct{}, 16)
	v.Sto.OnWrite = func(exit bool) {
		if !exit {
			entered <- struct{}{}
			<-gate
		}
	}
	released := false
	release := func() {
		if !released {
			released = true
			close(gate)
		}
	}
	defer release()
	bits := make([]byte, (np+7)/8)
	for i := 0; i < np; i++ {
		bits[i/8] |= 0x80 >> uint(i%8)
	}
	vp, err := v.AddPeer(fast, false, peersource.Incoming)
	if err != nil {
		return Case{In: in, Obs: []int64{-712}}
	}
	_ = vp.Send(5, bits)
	v.PumpEx(10*time.Second, torrent.ClsMsg)
	_ = vp.Send(1, nil)
	v.PumpEx(10*time.Second, torrent.ClsMsg)
	for round := 0; round < 8 && !v.WriteInFlight(); round++ {
		v.Barrier()
		fs, _ := vp.Take()
		for _, f := range fs {
			if f.ID != 6 || len(f.Payload) < 12 {
				continue
			}
			idx, begin, n := int64(be32(f.Payload[0:])), int64(be32(f.Payload[4:])), int64(be32(f.Payload[8:]))
			p := idx*l.PL + begin
			_ = vp.Send(7, append(u32s(idx, begin), content[p:p+n]...))
			if e := v.PumpEx(10*time.Second, torrent.ClsPiece); e.Code == torrent.EvNone {
				return Case{In: in, Obs: []int64{-713}}
			}
		}
	}
	if !v.WriteInFlight() {
		return Case{In: in, Obs: []int64{-714}, Note: "no write started"}
	}
	// the piece writer has checked the hash and is now at the disk
	select {
	case <-entered:
	case <-time.After(15 * time.Second):
		return Case{In: in, Obs: []int64{-715}, Note: "the write never reached the storage"}
	}
	switch variant {
	case 1:
		v.Stop() // closes the files under the waiting write
	case 2:
		v.Sto.ArmWriteError()
	}
	release()
	if e := v.PumpEx(15*time.Second, torrent.ClsWrite); e.Code == torrent.EvNone {
		return Case{In: in, Obs: []int64{-716}, Note: "no write result"}
	}
	v.Settle(vQuiet)
	if v.Crash != "" {
		return Case{In: in, Obs: []int64{-777}, Note: v.Crash}
	}
	s := v.Snapshot()
	have := 0
	allOnDisk := true
	disk := v.Sto.Files[l.FileName(0)].B
	pieceOK := func(i int) bool {
		a, b := int64(i)*l.PL, int64(i+1)*l.PL
		if b > l.Total {
			b = l.Total
		}
		for k := a; k < b; k++ {
			if disk[k] != content[k] {
				return false
			}
		}
		return true
	}
	for i, h := range s.Have {
		if h {
			have++
			if !pieceOK(i) {
				allOnDisk = false
			}
		}
	}
	return Case{In: in, Obs: []int64{int64(have), b2i(pieceOK(miss)), b2i(allOnDisk)}, Note: s.Status}
}

func init() {
	Register(104, "a stop (or a disk error) while a verified piece waits for the disk: storage with os.File close semantics", genStopWrite)
}

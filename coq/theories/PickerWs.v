(* Model of the web-seed half of internal/piecepicker (webseed.go, CloseWebseedDownloader,
   WebseedStopAt) on top of the peer half in Picker.v: per-piece web-seed owner, per-source
   downloader [Begin, End) with its current index, findGaps, PickWebseed (largest gap / sequential
   tail-first / steal from the source with most pieces left), PickFor while a web seed is running
   (last piece of the smallest gap, then steal from a web seed), and the caller glue of the
   torrent loop (startWebseedDownloader, the stop-at after a peer completed a piece inside a range,
   the downloader goroutine advancing its current index).  Unstable sorts and rand make the choice
   a relation: the real picker's answer is an input of the step and is validated against the set
   of legal answers.  The three ownership assertions of the Go code ("already downloading from
   webseed url", "invalid source in piece" twice) and out-of-range indexing are the result None.
   Definitions only. *)
From RainV Require Import Lib Picker.

Record wdl := { d_begin : Z; d_end : Z; d_cur : Z }.
Record wpicker := { base : picker; owner : list (option Z); srcs : list (option wdl); maxws : Z }.

Definition get_owner (s : wpicker) (i : Z) : option Z := nth (Z.to_nat i) (owner s) None.
Definition get_src (s : wpicker) (k : Z) : option wdl := nth (Z.to_nat k) (srcs s) None.
Definition src_in_range (s : wpicker) (k : Z) : bool := (0 <=? k) && (k <? zlen (srcs s)).
Definition npieces (s : wpicker) : Z := zlen (pieces (base s)).

Definition with_base (s : wpicker) (b : picker) : wpicker :=
  {| base := b; owner := owner s; srcs := srcs s; maxws := maxws s |}.
Definition with_owner (s : wpicker) (o : list (option Z)) : wpicker :=
  {| base := base s; owner := o; srcs := srcs s; maxws := maxws s |}.
Definition set_src (s : wpicker) (k : Z) (v : option wdl) : wpicker :=
  {| base := base s; owner := owner s; srcs := upd_nth (srcs s) (Z.to_nat k) (fun _ => v); maxws := maxws s |}.

Definition zseq (n : nat) : list Z := map Z.of_nat (seq 0 n).
Definition zrange (b e : Z) : list Z := map (fun k => b + Z.of_nat k) (seq 0 (Z.to_nat (e - b))).

Definition is_none {A} (o : option A) : bool := match o with None => true | Some _ => false end.
Definition oz_eqb (a b : option Z) : bool :=
  match a, b with Some x, Some y => x =? y | None, None => true | _, _ => false end.

(* myPiece.AvailableForWebseed *)
Definition avail_ws (s : wpicker) (i : Z) : bool :=
  open_ (get_piece (base s) i) && is_none (get_owner s i).

(* findGaps: one pass over the pieces in index order *)
Fixpoint gaps_go (s : wpicker) (idx : list Z) (ingap : bool) (b : Z) : list (Z * Z) :=
  match idx with
  | [] => if ingap then [(b, npieces s)] else []
  | i :: r =>
      let a := avail_ws s i in
      if negb ingap then (if a then gaps_go s r true i else gaps_go s r false b)
      else if negb a then (b, i) :: gaps_go s r false b
      else if (i - b =? maxws s) then (b, i) :: gaps_go s r true i
      else gaps_go s r true b
  end.
Definition find_gaps (s : wpicker) : list (Z * Z) := gaps_go s (zseq (length (pieces (base s)))) false 0.
Definition gap_len (g : Z * Z) : Z := snd g - fst g.

(* WebseedSource.Remaining: uint32 arithmetic *)
Definition remaining (d : wdl) : Z := (d_end d - d_cur d - 1) mod 4294967296.

(* sources that are downloading, in the order of p.webseedSources *)
Definition dl_srcs (s : wpicker) : list (Z * wdl) :=
  flat_map (fun kd => match snd kd with Some d => [(fst kd, d)] | None => [] end)
           (combine (zseq (length (srcs s))) (srcs s)).
Definition downloading_ws (s : wpicker) : bool := match dl_srcs s with [] => false | _ => true end.

(* the ownership loops: every piece of [b, e) has owner v; indexing beyond the pieces panics *)
Definition range_owned (s : wpicker) (b e : Z) (v : option Z) : bool :=
  (e <=? b) || ((0 <=? b) && (e <=? zlen (owner s)) && forallb (fun j => oz_eqb (get_owner s j) v) (zrange b e)).
Definition set_owner_range (ow : list (option Z)) (b e : Z) (v : option Z) : list (option Z) :=
  map (fun iv => if (b <=? fst iv) && (fst iv <? e) then v else snd iv) (combine (zseq (length ow)) ow).

(* CloseWebseedDownloader *)
Definition close_ws (s : wpicker) (k : Z) : option wpicker :=
  match get_src s k with
  | None => Some s
  | Some d => if range_owned s (d_begin d) (d_end d) (Some k)
              then Some (set_src (with_owner s (set_owner_range (owner s) (d_begin d) (d_end d) None)) k None)
              else None
  end.

(* WebseedStopAt: result = (state, closed) *)
Definition stop_at (s : wpicker) (k i : Z) : option (wpicker * bool) :=
  match get_src s k with
  | None => None
  | Some d =>
      if range_owned s i (d_end d) (Some k) then
        let s1 := set_src (with_owner s (set_owner_range (owner s) i (d_end d) None)) k
                          (Some {| d_begin := d_begin d; d_end := i; d_cur := d_cur d |}) in
        if d_cur d >=? i then option_map (fun x => (x, true)) (close_ws s1 k) else Some (s1, false)
      else None
  end.

(* ---- PickWebseed ---- *)
Definition steal_begin (d : wdl) : Z := (d_cur d + d_end d + 1) / 2.
Definition max_list (l : list Z) : Z := fold_left Z.max l 0.
Definition first_tail (s : wpicker) : option Z :=
  find (fun i => p_tail (get_piece (base s) i) && avail_ws s i) (zseq (length (pieces (base s)))).

(* findPieceRangeForWebseed with the observed answer: the state afterwards (a steal truncates the
   victim) or None when the answer is not one the code can give *)
Definition ws_check (s : wpicker) (obs : option (Z * Z)) : option wpicker :=
  let gaps := find_gaps s in
  match gaps with
  | [] =>
      let ds := dl_srcs s in
      match ds with
      | [] => match obs with None => Some s | Some _ => None end
      | _ =>
          let m := max_list (map (fun kd => remaining (snd kd)) ds) in
          let top := filter (fun kd => remaining (snd kd) =? m) ds in
          match obs with
          | None => if existsb (fun kd => steal_begin (snd kd) >=? d_end (snd kd)) top then Some s else None
          | Some (b, e) =>
              match find (fun kd => (d_end (snd kd) =? e) && (steal_begin (snd kd) =? b) && (b <? e)) top with
              | Some (k, _) => option_map fst (stop_at s k b)
              | None => None
              end
          end
      end
  | g0 :: _ =>
      match obs with
      | None => None
      | Some (b, e) =>
          if sequential (base s) then
            match first_tail s with
            | Some i => if (b =? i) && (e =? i + 1) then Some s else None
            | None => if (b =? fst g0) && (e =? snd g0) then Some s else None
            end
          else if existsb (fun g => (fst g =? b) && (snd g =? e) && (gap_len g =? max_list (map gap_len gaps))) gaps
               then Some s else None
      end
  end.

(* PickWebseed(src) followed by startWebseedDownloader (glue: only called for an idle source) *)
Definition pick_webseed (s : wpicker) (k : Z) (obs : option (Z * Z)) : option wpicker :=
  if negb (src_in_range s k) then None else
  match get_src s k with
  | Some _ => None
  | None =>
      match ws_check s obs with
      | None => None
      | Some s1 =>
          match obs with
          | None => Some s1
          | Some (b, e) =>
              if (b <? e) && range_owned s1 b e None
              then Some (set_src (with_owner s1 (set_owner_range (owner s1) b e (Some k))) k
                                 (Some {| d_begin := b; d_end := e; d_cur := b |}))
              else None
          end
      end
  end.

(* ---- PickFor while a web seed is downloading ---- *)
Definition peer_cand (s : wpicker) (pe : Z) (i : Z) : bool :=
  let p := get_piece (base s) i in Nat.eqb (length (p_req p)) 0 && mem pe (p_having p).
(* pickLastPieceOfSmallestGap: the candidate of a gap is its highest unrequested piece the peer has *)
Definition gap_cand (s : wpicker) (pe : Z) (g : Z * Z) : option Z :=
  find (peer_cand s pe) (rev (zrange (fst g) (snd g))).
Definition gap_cands (s : wpicker) (pe : Z) : list (Z * Z) :=   (* (gap length, candidate) *)
  flat_map (fun g => match gap_cand s pe g with Some c => [(gap_len g, c)] | None => [] end) (find_gaps s).
Definition ws_gap_legal (s : wpicker) (pe i : Z) : bool :=
  match gap_cands s pe with
  | [] => false
  | x :: r => let m := fold_left Z.min (map fst r) (fst x) in
              existsb (fun lc => (fst lc =? m) && (snd lc =? i)) (x :: r)
  end.

(* peerStealsFromWebseed: sources in order, pieces from End-1 down to current+1 *)
Definition steal_cand (s : wpicker) (pe : Z) (i : Z) : bool :=
  let p := get_piece (base s) i in open_ p && mem pe (p_having p) && Nat.eqb (length (p_req p)) 0.
Fixpoint peer_steal_go (s : wpicker) (pe : Z) (ds : list (Z * wdl)) : option (Z * Z) :=
  match ds with
  | [] => None
  | (k, d) :: r =>
      if remaining d =? 0 then peer_steal_go s pe r else
      match find (steal_cand s pe) (rev (zrange (d_cur d + 1) (d_end d))) with
      | Some i => Some (k, i)
      | None => peer_steal_go s pe r
      end
  end.
Definition peer_steal (s : wpicker) (pe : Z) : option (Z * Z) := peer_steal_go s pe (dl_srcs s).

(* Requested.Add(pe) + glue (pieceDownloaders[pe], pe.Downloading) *)
Definition assign_piece (b : picker) (pe i : Z) (af : bool) : picker :=
  let P := get_peer (peers b) pe in
  let b2 := upd_piece b i (fun p => set_marks p (sadd pe (p_req p)) (p_snub p) (p_chok p)) in
  with_peer b2 pe {| pe_choking := pe_choking P; pe_downloading := true; pe_af := pe_af P; pe_piece := Some (i, af) |}.

Definition none_only (s : wpicker) (obs : option (Z * bool)) : option wpicker :=
  match obs with None => Some s | Some _ => None end.

Definition wpick_check (s : wpicker) (pe : Z) (obs : option (Z * bool)) : option wpicker :=
  if downloading_ws s then
    let P := get_peer (peers (base s)) pe in
    if pe_downloading P then none_only s obs else
    if pe_choking P then none_only s obs else
    match gap_cands s pe with
    | _ :: _ =>
        match obs with
        | Some (i, af) => if ws_gap_legal s pe i && Bool.eqb af (mem i (pe_af P))
                          then Some (with_base s (assign_piece (base s) pe i af)) else None
        | None => None
        end
    | [] =>
        match peer_steal s pe with
        | Some (k, i) =>
            match obs with
            | Some (i', af) =>
                if (i' =? i) && Bool.eqb af (mem i (pe_af P)) then
                  match stop_at s k i with
                  | Some (s1, _) => Some (with_base s1 (assign_piece (base s1) pe i af))
                  | None => None
                  end
                else None
            | None => None
            end
        | None => none_only s obs
        end
    end
  else option_map (with_base s) (pick_check (base s) pe obs).

(* ---- operations ---- *)
Inductive wop :=
| WBase (o : pop)
| WPickWs (k : Z) (obs : option (Z * Z))     (* startPieceDownloaderForWebseed *)
| WAdvance (k : Z)                            (* the downloader goroutine moved on to its next piece *)
| WClose (k : Z)                              (* closeWebseedDownloader *)
| WStopOwner (i : Z).                         (* handlePieceWriteDone: a peer completed piece i inside a range *)

Definition wstep (s : wpicker) (o : wop) : option wpicker :=
  match o with
  | WBase (OPick pe obs) => wpick_check s pe obs
  | WBase o' => option_map (with_base s) (pstep (base s) o')
  | WPickWs k obs => pick_webseed s k obs
  | WAdvance k =>
      if negb (src_in_range s k) then None else
      match get_src s k with
      | Some d => if d_cur d <? d_end d
                  then Some (set_src s k (Some {| d_begin := d_begin d; d_end := d_end d; d_cur := d_cur d + 1 |}))
                  else None
      | None => None
      end
  | WClose k => if negb (src_in_range s k) then None else close_ws s k
  | WStopOwner i =>
      if negb (in_range (base s) i) then None else      (* p.pieces[i] *)
      match get_owner s i with
      | Some k => option_map fst (stop_at s k i)
      | None => Some s
      end
  end.

(* ---- observables: the peer half's, RequestedWebseedSource(i) for every i, every downloader ---- *)
Definition obs_ws (s : wpicker) : list Z :=
  obs_picker (base s)
  ++ map (fun o => match o with Some k => k + 1 | None => 0 end) (owner s)
  ++ flat_map (fun d => match d with Some d => [d_begin d; d_end d; d_cur d] | None => [-1; -1; -1] end) (srcs s).

(* ---- case codec, kind 903 ----
   in = [npieces; sequential; maxdup; nsrc; maxws; (head tail)*npieces; ops...]
   ops 1..10 as kind 901; 11 k b e (b = -1: nil) | 12 k | 13 k | 14 i *)
Definition rd_wop (l : list Z) : option (wop * list Z) :=
  match l with
  | 11 :: k :: b :: e :: r => Some (WPickWs k (if b <? 0 then None else Some (b, e)), r)
  | 12 :: k :: r => Some (WAdvance k, r)
  | 13 :: k :: r => Some (WClose k, r)
  | 14 :: i :: r => Some (WStopOwner i, r)
  | _ => match rd_op l with Some (o, r) => Some (WBase o, r) | None => None end
  end.

Fixpoint run_ws_go (fuel : nat) (s : wpicker) (l : list Z) : list Z :=
  match fuel with
  | O => []
  | S f => match rd_wop l with
           | Some (o, rest) => match wstep s o with
                               | Some s' => obs_ws s' ++ run_ws_go f s' rest
                               | None => [-555]
                               end
           | None => []
           end
  end.

Definition init_ws (ps : list ppiece) (seq : bool) (md nsrc mws : Z) : wpicker :=
  {| base := {| pieces := ps; peers := []; avail := 0; endgame := false; sequential := seq; maxdup := md |};
     owner := repeat None (length ps); srcs := repeat None (Z.to_nat nsrc); maxws := mws |}.

Definition run_picker_ws (inp : list Z) : list Z :=
  match inp with
  | np :: sq :: md :: nsrc :: mws :: r =>
      let '(ps, ops) := rd_flags (Z.to_nat np) r in
      run_ws_go (length ops) (init_ws ps (z2b sq) md nsrc mws) ops
  | _ => [-779]
  end.

(* branch tags of the web-seed decisions (coverage of the tie):
   PickWebseed: 1 no gap, nothing to steal | 2 steal from a web seed | 3 steal refused (victim has
   nothing left) | 4 sequential tail piece | 5 sequential first gap | 6 largest gap;
   PickFor in web-seed mode: 11 peer busy or choked | 12 last piece of smallest gap | 13 steal from
   a web seed | 14 nothing; 21 stop-at keeps the downloader | 22 stop-at closes it | 23 no owner *)
Definition ws_tag (s : wpicker) (o : wop) : list Z :=
  match o with
  | WPickWs _ obs =>
      match find_gaps s, obs with
      | [], None => match dl_srcs s with [] => [1] | _ => [3] end
      | [], Some _ => [2]
      | _, None => [0]
      | _, Some _ => if sequential (base s) then (match first_tail s with Some _ => [4] | None => [5] end) else [6]
      end
  | WBase (OPick pe obs) =>
      if downloading_ws s then
        let P := get_peer (peers (base s)) pe in
        if pe_downloading P || pe_choking P then [11] else
        match gap_cands s pe with
        | _ :: _ => [12]
        | [] => match peer_steal s pe with Some _ => [13] | None => [14] end
        end
      else []
  | WStopOwner i =>
      match get_owner s i with
      | Some k => match stop_at s k i with Some (_, true) => [22] | Some (_, false) => [21] | None => [0] end
      | None => [23]
      end
  | _ => []
  end.

Fixpoint tags_ws_go (fuel : nat) (s : wpicker) (l : list Z) : list Z :=
  match fuel with
  | O => []
  | S f => match rd_wop l with
           | Some (o, rest) => ws_tag s o ++ match wstep s o with Some s' => tags_ws_go f s' rest | None => [] end
           | None => []
           end
  end.
Definition tags_picker_ws (inp : list Z) : list Z :=
  match inp with
  | np :: sq :: md :: nsrc :: mws :: r =>
      let '(ps, ops) := rd_flags (Z.to_nat np) r in
      tags_ws_go (length ops) (init_ws ps (z2b sq) md nsrc mws) ops
  | _ => []
  end.

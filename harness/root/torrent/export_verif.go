//go:build verif

package torrent

import (
	"io"
	"io/fs"

	"github.com/cenkalti/rain/v2/internal/resumer/boltdbresumer"
	"github.com/zeebo/bencode"
	"go.etcd.io/bbolt"
)

// ReadDataForVerif exposes readData (tar extraction of a moved torrent).
func ReadDataForVerif(r io.Reader, dir string, perm fs.FileMode) error { return readData(r, dir, perm) }

// ---- C14: registry / resume database observers ----

// ResumeSpecForVerif reads the resume record of a torrent.
func (s *Session) ResumeSpecForVerif(id string) *boltdbresumer.Spec {
	spec, err := s.resumer.Read(id)
	if err != nil {
		return nil
	}
	return spec
}

// ResumeIDsForVerif lists the torrent ids recorded in the resume database.
func (s *Session) ResumeIDsForVerif() []string {
	var ids []string
	_ = s.db.View(func(tx *bbolt.Tx) error {
		b := tx.Bucket(torrentsBucket)
		if b == nil {
			return nil
		}
		return b.ForEach(func(k, _ []byte) error {
			ids = append(ids, string(k))
			return nil
		})
	})
	return ids
}

// FreePortsForVerif returns the ports of the configured range that no torrent owns.
func (s *Session) FreePortsForVerif() []int {
	s.mPorts.Lock()
	defer s.mPorts.Unlock()
	var ps []int
	for p := range s.availablePorts {
		ps = append(ps, p)
	}
	return ps
}

// HasInfoForVerif tells whether the torrent has its metadata.
func (t *Torrent) HasInfoForVerif() bool { return t.torrent.info != nil }

// BuildTorrentFileWithTrackers creates a metainfo file with an announce-list.
func BuildTorrentFileWithTrackers(info []byte, urlList []string, tiers [][]string) []byte {
	d := map[string]any{"info": bencode.RawMessage(info)}
	if len(urlList) > 0 {
		d["url-list"] = urlList
	}
	if len(tiers) > 0 {
		d["announce-list"] = tiers
	}
	b, err := bencode.EncodeBytes(d)
	if err != nil {
		panic(err)
	}
	return b
}

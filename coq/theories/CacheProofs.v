(* cachedpiece: reads through cache blocks return exactly the requested bytes.
   piececache: the LRU model never exceeds its size bound. *)
From RainV Require Import Lib Geometry SectionIO Cache.
From Coq Require Import ZifyBool Permutation.
Ltac Zify.zify_post_hook ::= Z.div_mod_to_equations.

Lemma slice_nil_len c off : slice c off 0 = [].
Proof. reflexivity. Qed.

Lemma skipn_slice c b len a : 0 <= a <= len -> 0 <= b ->
  skipn (Z.to_nat a) (slice c b len) = slice c (b + a) (len - a).
Proof.
  intros Ha Hb. unfold slice. rewrite skipn_firstn_comm, skipn_skipn. f_equal; [lia|f_equal; lia].
Qed.

Lemma firstn_slice c b len k : 0 <= k -> 0 <= len ->
  firstn (Z.to_nat k) (slice c b len) = slice c b (Z.min k len).
Proof.
  intros Hk Hl. unfold slice. rewrite firstn_firstn. f_equal. lia.
Qed.

Lemma firstn_split {A} : forall (m k : nat) (l : list A), firstn m l ++ firstn k (skipn m l) = firstn (m + k) l.
Proof.
  induction m as [|m IH]; intros k l; [reflexivity|]. destruct l as [|x r]; [cbn; rewrite firstn_nil; reflexivity|].
  cbn [firstn skipn plus app]. f_equal. apply IH.
Qed.

Lemma slice_app c off m n : 0 <= off -> 0 <= m <= n ->
  slice c off m ++ slice c (off + m) (n - m) = slice c off n.
Proof.
  intros Ho Hm. unfold slice.
  replace (Z.to_nat (off + m)) with (Z.to_nat off + Z.to_nat m)%nat by lia.
  rewrite <- skipn_skipn. rewrite firstn_split. f_equal. lia.
Qed.

Lemma zlen_slice c off n : 0 <= off -> 0 <= n -> off + n <= zlen c -> zlen (slice c off n) = n.
Proof. intros. unfold slice, zlen in *. rewrite firstn_length, skipn_length. lia. Qed.

(* one pass: the bytes from off up to the end of its cache block (or of the request) *)
Lemma read_once_spec c plen rs off n : zlen c = plen -> 0 < rs -> 0 <= off -> 0 < n -> off + n <= plen ->
  let e := Z.min (off / rs * rs + rs) plen in
  read_once c plen rs off n = slice c off (Z.min n (e - off)) /\ off < e.
Proof.
  intros Hc Hrs Ho Hn Hin e. unfold read_once, block_of. fold e.
  assert (Hb : off / rs * rs <= off < off / rs * rs + rs) by lia.
  assert (Hb0 : 0 <= off / rs * rs) by (apply Z.mul_nonneg_nonneg; [apply Z.div_pos; lia|lia]).
  assert (He : off < e) by (unfold e; lia).
  assert (He2 : e <= plen /\ e <= off / rs * rs + rs) by (unfold e; lia). clearbody e.
  split; [|exact He].
  rewrite skipn_slice by lia. rewrite firstn_slice by lia.
  f_equal; lia.
Qed.

Theorem read_loop_exact c plen rs : zlen c = plen -> 0 < rs -> forall fuel off n,
  0 <= off -> 0 <= n -> off + n <= plen ->
  (Z.of_nat fuel >= (n + off mod rs) / rs + 1) ->
  read_loop fuel c plen rs off n = slice c off n.
Proof.
  intros Hc Hrs. induction fuel as [|f IH]; intros off n Ho Hn Hin Hf.
  - exfalso. assert (0 <= (n + off mod rs) / rs) by (apply Z.div_pos; lia). lia.
  - cbn [read_loop]. destruct (n <=? 0) eqn:En.
    + assert (n = 0) by lia. subst n. reflexivity.
    + destruct (read_once_spec c plen rs off n Hc Hrs Ho ltac:(lia) Hin) as [Hr He].
      set (e := Z.min (off / rs * rs + rs) plen) in *.
      set (m := Z.min n (e - off)) in *.
      assert (Hm : 0 < m <= n) by (unfold m; lia).
      assert (Hlen : zlen (slice c off m) = m) by (apply zlen_slice; lia).
      rewrite Hr. destruct (slice c off m) as [|x r] eqn:Es; [cbn in Hlen; lia|].
      rewrite <- Es in Hlen |- *. rewrite Hlen.
      destruct (Z.eq_dec m n) as [Hmn|Hne].
      * rewrite Hmn. replace (n - n) with 0 by lia.
        assert (Hz : read_loop f c plen rs (off + n) 0 = []) by (destruct f; reflexivity).
        rewrite Hz, app_nil_r. reflexivity.
      * assert (Hme : m = e - off) by (unfold m in *; lia).
        assert (Hee : e = off / rs * rs + rs) by (unfold e in *; lia).
        rewrite IH; [apply slice_app; lia|lia|lia|lia|].
        replace (off + m) with ((off / rs + 1) * rs) by lia.
        rewrite Z.mod_mul by lia. rewrite Z.add_0_r.
        assert ((n + off mod rs) = (n - m) + 1 * rs) by lia.
        assert ((n - m + 1 * rs) / rs = (n - m) / rs + 1) by (apply Z.div_add; lia).
        rewrite H, H0 in Hf. clear -Hf. rewrite Nat2Z.inj_succ in Hf. remember ((n - m) / rs) as q. clear Heqq. lia.
Qed.

(* C03 core (arithmetic half): whatever the cache block size, a read inside the piece returns
   exactly the requested bytes -- after fix D2 *)
Theorem cached_read_exact c plen rs off n : zlen c = plen -> 0 < rs -> 0 <= off -> 0 <= n -> off + n <= plen ->
  cached_read true c plen rs off n = slice c off n.
Proof.
  intros Hc Hrs Ho Hn Hin. unfold cached_read. apply read_loop_exact; try assumption.
  rewrite Nat2Z.inj_add, Z2Nat.id by (apply Z.div_pos; lia).
  assert ((n + off mod rs) / rs <= n / rs + 1).
  { assert (n + off mod rs <= n + 1 * rs) by lia.
    apply Z.div_le_mono with (c := rs) in H; [|lia]. rewrite Z.div_add in H by lia. exact H. }
  lia.
Qed.

Theorem cached_read_refuted_pinned : exists c plen rs off n,
  zlen c = plen /\ 0 < rs /\ 0 <= off /\ 0 <= n /\ off + n <= plen /\
  cached_read false c plen rs off n <> slice c off n.
Proof.
  exists (map Z.of_nat (seq 0 20)), 20, 8, 6, 5. repeat split; try lia; try reflexivity.
  vm_compute. discriminate.
Qed.

(* ---------- LRU cache bound ---------- *)
Definition csum (l : list citem) : Z := fold_right (fun x a => csize x + a) 0 l.

Record CInv (c : cache) : Prop := {
  ci_total : ctotal c = csum (citems c);
  ci_nonneg : Forall (fun x => 0 <= csize x) (citems c);
  ci_keys : NoDup (map ckey (citems c));
  ci_bound : 0 <= cmax c -> ctotal c <= cmax c
}.

Lemma csum_app a b : csum (a ++ b) = csum a + csum b.
Proof. unfold csum. induction a as [|x r IH]; [reflexivity|]. rewrite <- app_comm_cons. cbn [fold_right]. rewrite IH. lia. Qed.

Lemma csum_nonneg l : Forall (fun x => 0 <= csize x) l -> 0 <= csum l.
Proof. induction 1; cbn [csum fold_right]; [lia|]. fold (csum l). lia. Qed.

Lemma oldest_in : forall l best o, oldest l best = Some o -> In o l \/ best = Some o.
Proof.
  induction l as [|x r IH]; intros best o H; cbn [oldest] in H; [right; exact H|].
  destruct best as [b|].
  - destruct (cstamp x <? cstamp b); destruct (IH _ _ H) as [Hi|Hb]; try (left; right; exact Hi).
    + inversion Hb; subst. left; left; reflexivity.
    + right; exact Hb.
  - destruct (IH _ _ H) as [Hi|Hb]; [left; right; exact Hi|]. inversion Hb; subst. left; left; reflexivity.
Qed.

Lemma oldest_some l : l <> [] -> exists o, oldest l None = Some o.
Proof.
  destruct l as [|x r]; [congruence|]. intros _. cbn [oldest].
  generalize (Some x). induction r as [|y r IH]; intros b.
  - destruct b as [b|]; cbn; eauto. Abort.

Lemma oldest_some_gen : forall l b, exists o, oldest l (Some b) = Some o.
Proof.
  induction l as [|x r IH]; intros b; cbn [oldest]; [eauto|].
  destruct (cstamp x <? cstamp b); apply IH.
Qed.

Lemma remove_key_spec : forall l o, NoDup (map ckey l) -> In o l ->
  csum (remove_key (ckey o) l) = csum l - csize o /\
  (forall x, In x (remove_key (ckey o) l) -> In x l) /\
  NoDup (map ckey (remove_key (ckey o) l)) /\
  length (remove_key (ckey o) l) = pred (length l).
Proof.
  induction l as [|x r IH]; intros o Hnd Hin; [destruct Hin|].
  cbn [map] in Hnd. inversion Hnd as [|? ? Hnx Hr]; subst. cbn [remove_key].
  destruct (ckey x =? ckey o) eqn:E.
  - assert (x = o).
    { destruct Hin as [H|H]; [exact H|]. exfalso. apply Hnx. apply in_map_iff. exists o. split; [lia|exact H]. }
    subst x. cbn [csum fold_right length]. fold (csum r). repeat split; [lia|intros; right; assumption|exact Hr].
  - destruct Hin as [->|Hin]; [lia|]. destruct (IH o Hr Hin) as (H1 & H2 & H3 & H4).
    cbn [csum fold_right length map]. fold (csum r) (csum (remove_key (ckey o) r)).
    repeat split; [lia| | |].
    + intros y [<-|Hy]; [left; reflexivity|right; auto].
    + constructor; [|exact H3]. intros Hc. apply Hnx. apply in_map_iff in Hc as (y & Hy & Hyin).
      apply in_map_iff. exists y. split; [exact Hy|auto].
    + destruct r; [destruct Hin|]. cbn [length] in *. lia.
Qed.

Lemma make_room_spec : forall fuel l total mx need,
  total = csum l -> Forall (fun x => 0 <= csize x) l -> NoDup (map ckey l) ->
  0 <= need <= mx -> (length l < fuel)%nat ->
  let '(l', t') := make_room fuel l total mx need in
  t' = csum l' /\ Forall (fun x => 0 <= csize x) l' /\ NoDup (map ckey l') /\ t' + need <= mx /\
  (forall x, In x l' -> In x l).
Proof.
  induction fuel as [|f IH]; intros l total mx need Ht Hnn Hnd Hneed Hf; [lia|].
  cbn [make_room]. destruct (mx - total <? need) eqn:E.
  - destruct l as [|x r].
    + cbn [oldest]. cbn in Ht. exfalso. lia.
    + cbn [oldest]. destruct (oldest_some_gen r x) as (o & Ho). rewrite Ho.
      assert (Hin : In o (x :: r)).
      { destruct (oldest_in _ _ _ Ho) as [H|H]; [right; exact H|inversion H; left; reflexivity]. }
      destruct (remove_key_spec (x :: r) o Hnd Hin) as (H1 & H2 & H3 & H4).
      specialize (IH (remove_key (ckey o) (x :: r)) (total - csize o) mx need).
      destruct (make_room f _ _ mx need) as [l' t'].
      destruct IH as (I1 & I2 & I3 & I4 & I5); [lia| | |lia|cbn [length] in *; lia|].
      * apply Forall_forall. intros y Hy. rewrite Forall_forall in Hnn. auto.
      * exact H3.
      * repeat split; auto.
  - repeat split; auto. lia.
Qed.

Lemma find_item_in k l it : find_item k l = Some it -> In it l /\ ckey it = k.
Proof.
  induction l as [|x r IH]; cbn [find_item]; [discriminate|]. destruct (ckey x =? k) eqn:E.
  - intros H; inversion H; subst. split; [left; reflexivity|lia].
  - intros H. destruct (IH H). split; [right; assumption|assumption].
Qed.

Lemma find_item_none k l : find_item k l = None -> ~ In k (map ckey l).
Proof.
  induction l as [|x r IH]; cbn [find_item map In]; [tauto|]. destruct (ckey x =? k) eqn:E; [discriminate|].
  intros H [Hx|Hx]; [lia|]. exact (IH H Hx).
Qed.

Theorem cache_get_inv c k size : CInv c -> 0 <= size -> CInv (fst (cache_get c k size)).
Proof.
  intros [Ht Hnn Hk Hb] Hs. unfold cache_get. destruct (find_item k (citems c)) as [it|] eqn:Ef.
  - cbn [fst]. constructor; cbn [citems ctotal cmax].
    + rewrite Ht. clear. induction (citems c) as [|x r IH]; [reflexivity|]. cbn [map csum fold_right].
      fold (csum r) (csum (map (fun x0 => if ckey x0 =? k then {| ckey := k; csize := csize x0; cstamp := ctick c + 1 |} else x0) r)).
      rewrite <- IH. destruct (ckey x =? k); reflexivity.
    + clear -Hnn. induction Hnn as [|x r Hx Hr IH]; [constructor|]. cbn [map]. constructor; [|exact IH].
      destruct (ckey x =? k); cbn; assumption.
    + assert (Hm : map ckey (map (fun x => if ckey x =? k then {| ckey := k; csize := csize x; cstamp := ctick c + 1 |} else x) (citems c)) = map ckey (citems c)).
      { clear. induction (citems c) as [|x r IH]; [reflexivity|]. cbn [map]. rewrite IH. f_equal.
        destruct (ckey x =? k) eqn:E; cbn; lia. }
      rewrite Hm. exact Hk.
    + exact Hb.
  - destruct (size >? cmax c) eqn:Eg; cbn [fst].
    + constructor; cbn [citems ctotal cmax]; assumption.
    + pose proof (make_room_spec (S (length (citems c))) (citems c) (ctotal c) (cmax c) size Ht Hnn Hk ltac:(lia) ltac:(lia)) as Hm.
      destruct (make_room _ _ _ _ _) as [l tot]. destruct Hm as (M1 & M2 & M3 & M4 & M5). cbn [fst].
      constructor; cbn [citems ctotal cmax].
      * rewrite M1, csum_app. cbn. lia.
      * apply Forall_app. split; [exact M2|repeat constructor; cbn; lia].
      * rewrite map_app. cbn [map]. eapply Permutation_NoDup; [apply Permutation_cons_append|].
        constructor; [|exact M3]. intros Hin. apply (find_item_none _ _ Ef). apply in_map_iff in Hin as (y & Hy & Hyin).
        apply in_map_iff. exists y. split; [exact Hy|apply M5; exact Hyin].
      * intros _. lia.
Qed.

Lemma cache_init_inv mx : CInv (cache_init mx).
Proof. constructor; cbn; [reflexivity|constructor|constructor|lia]. Qed.

(* for every sequence of Get calls the cached bytes never exceed the configured size *)
Theorem cache_bounded mx : 0 <= mx -> forall ops : list (Z * Z), Forall (fun o => 0 <= snd o) ops ->
  let c := fold_left (fun c o => fst (cache_get c (fst o) (snd o))) ops (cache_init mx) in
  CInv c /\ 0 <= ctotal c <= mx.
Proof.
  intros Hmx ops Hops.
  assert (H : forall c0, CInv c0 -> cmax c0 = mx ->
            let c := fold_left (fun c o => fst (cache_get c (fst o) (snd o))) ops c0 in CInv c /\ cmax c = mx).
  { induction Hops as [|o r Ho Hr IH]; intros c0 Hc Hm; cbn [fold_left]; [auto|].
    apply IH; [apply cache_get_inv; assumption|].
    unfold cache_get. destruct (find_item _ _); [exact Hm|]. destruct (_ >? _); [exact Hm|].
    destruct (make_room _ _ _ _ _); exact Hm. }
  destruct (H (cache_init mx) (cache_init_inv mx) eq_refl) as [Hc Hm]. split; [exact Hc|].
  destruct Hc as [Ht Hnn _ Hb]. rewrite Hm in Hb. pose proof (csum_nonneg _ Hnn). lia.
Qed.

(* C19 — private torrents use only their trackers: no DHT, no PEX, no magnet export. *)
From RainV Require Import Lib Bencode Priv PrivProofs.

(* every encoding of the private flag: the torrent is public exactly when the key is absent or its
   value is the integer 0, the empty string or the string "0"; every other integer, string, list or
   dictionary marks it private *)
Theorem C19_private_flag_for_every_encoding :
  priv_of_raw [] = false /\
  forall v, priv_of_raw (enc v) = false <-> v = BInt 0 \/ v = BStr [] \/ v = BStr [48].
Proof. exact private_flag_decoding. Qed.
Print Assumptions C19_private_flag_for_every_encoding.

(* for every configuration of the DHT / PEX / dial switches and every history of starts, stops,
   connections, extension handshakes (advertising PEX or not), PEX messages, DHT results, tracker
   results, user-added peers, port messages, magnet exports: a torrent whose metainfo is private knows
   no address from the DHT or from peer exchange, has no DHT announcer and no PEX sender *)
Theorem C19_private_torrent_never_uses_dht_or_pex : forall c evs,
  let s := run_events true c (pinit 2) evs in
  p_info s = 2 /\ p_d s = 0 /\ p_p s = 0 /\ p_ann s = false /\ no_pex (p_peers s).
Proof. exact private_no_dht_no_pex. Qed.
Print Assumptions C19_private_torrent_never_uses_dht_or_pex.

(* in every reachable state: the magnet link is refused, announces carry the private user agent and
   peer id, handshakes the private client version, and an address received by peer exchange or from the
   DHT is never dialled *)
Theorem C19_private_torrent_identity_and_export : forall c evs e,
  let s := run_events true c (pinit 2) evs in
  let out := snd (pstep true c s e) in
  (e = PExport -> out = [1]) /\
  (forall n, e = PStart n -> p_run s = false -> out = [1; 1]) /\
  (e = PConnect -> p_run s = true -> out = [1]) /\
  (forall p, e = PProbe 5 p -> out = [0]) /\
  (forall p, e = PProbe 6 p -> out = [0]).
Proof. exact private_outputs. Qed.
Print Assumptions C19_private_torrent_identity_and_export.

(* peers come only from the trackers and the user: the addresses known never exceed what those supplied *)
Theorem C19_private_peers_only_from_trackers_and_user : forall c evs, Forall ev_nonneg evs ->
  known (run_events true c (pinit 2) evs) <= fold_right (fun e a => offered e + a) 0 evs.
Proof. exact private_known_bounded. Qed.
Print Assumptions C19_private_peers_only_from_trackers_and_user.

(* metadata fetched through a magnet link that turns out to be private is never adopted; its arrival
   stops the torrent and forgets every address *)
Theorem C19_private_metadata_from_magnet_refused : forall fixed c evs,
  let s := run_events fixed c (pinit 3) evs in
  p_info s = 3 /\
  forall p, p_run s = true -> peer_open s p = true ->
    snd (pstep fixed c s (PMeta p)) = [0] /\ p_run (fst (pstep fixed c s (PMeta p))) = false /\ known (fst (pstep fixed c s (PMeta p))) = 0.
Proof. exact private_metadata_refused. Qed.
Print Assumptions C19_private_metadata_from_magnet_refused.

(* the defect of the pinned code (handleNewPeers accepted every source), kept as a witness *)
Theorem C19_refuted_on_pinned_code :
  let c := {| c_dht := true; c_pex := true; c_dial := true |} in
  let s := run_events false c (pinit 2) [PStart 0; PConnect; PPex 0 2; PAddrs 6 3] in
  p_p s = 2 /\ p_d s = 3 /\ snd (pstep false c s (PProbe 5 0)) = [1].
Proof. exact pinned_private_takes_pex_and_dht. Qed.
Print Assumptions C19_refuted_on_pinned_code.

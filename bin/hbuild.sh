#!/bin/bash
# hbuild.sh: build the overlay harness into /verif/.work/rainverif (developer helper)
export GOFLAGS=-mod=mod GOPROXY=off GOSUMDB=off GOTOOLCHAIN=local CGO_ENABLED=0
mkdir -p /verif/.work
python3 - <<'PY'
import os, json
root='/verif/harness/root'; rep={}
for d,_,fs in os.walk(root):
    for f in fs:
        if f.endswith('.go'):
            src=os.path.join(d,f); rep['/repo/'+os.path.relpath(src,root)]=src
import subprocess
gen='/verif/.work/vloop_dispatch_gen_verif.go'
if os.path.exists(gen): os.remove(gen)
subprocess.run(['python3','/verif/bin/gen_dispatch.py',gen])
if os.path.exists(gen): rep['/repo/torrent/vloop_dispatch_gen_verif.go']=gen
json.dump({'Replace':rep}, open('/verif/.work/overlay.json','w'))
PY
cd /repo && go1.26 build -tags verif -overlay /verif/.work/overlay.json -o /verif/.work/rainverif ./verifhook/cmd/rainverif

//go:build verif

package verifhook

import (
	"crypto/sha1"
	"math/rand"
	"time"

	"github.com/cenkalti/rain/v2/internal/verifier"
)

// kind 103: the verifier over in-memory files that may be damaged or shorter than the metainfo says.
// Piece contents are drawn from a few patterns so that neighbouring pieces are often identical.
// in  = [np (short equal)*np]   short: a read of the piece hits the end of a file; equal: the bytes on disk are the content
// obs = [1] when the verifier reports an error, else [0 (bit)*np]
func genVerifier(r *rand.Rand, tier string) Case {
	pl := int64(16 << uint(r.Intn(4))) // 16..128
	nf := 1 + r.Intn(3)
	np := 1 + r.Intn(6)
	total := pl*int64(np-1) + 1 + r.Int63n(pl)
	var lens []int64
	var pads []bool
	rem := total
	for i := 0; i < nf-1; i++ {
		x := r.Int63n(rem + 1)
		lens = append(lens, x)
		pads = append(pads, false)
		rem -= x
	}
	lens = append(lens, rem)
	pads = append(pads, false)
	_, pieces, mems, err := PiecesWithStorage(pl, lens, pads)
	if err != nil || len(pieces) == 0 {
		return Case{In: []int64{0}, Obs: []int64{-701}}
	}
	np = len(pieces)
	// content: each piece filled from one of three patterns
	content := make([]byte, total)
	for i := 0; i < np; i++ {
		pat := []byte{0, 0x41, byte(1 + r.Intn(255))}[r.Intn(3)]
		lo, hi := int64(i)*pl, int64(i+1)*pl
		if hi > total {
			hi = total
		}
		for k := lo; k < hi; k++ {
			content[k] = pat
			if pat > 0x41 {
				content[k] = byte(r.Intn(256))
			}
		}
	}
	for i := range pieces {
		lo, hi := int64(i)*pl, int64(i+1)*pl
		if hi > total {
			hi = total
		}
		h := sha1.Sum(content[lo:hi])
		pieces[i].Hash = h[:]
	}
	// the disk: the content, then damage / truncation
	var off int64
	type span struct{ lo, hi int64 } // bytes of the torrent that exist on disk
	var have []span
	for i, m := range mems {
		copy(m.B, content[off:off+lens[i]])
		switch r.Intn(6) {
		case 0: // damaged
			if len(m.B) > 0 {
				m.B[r.Intn(len(m.B))] ^= byte(1 + r.Intn(255))
			}
		case 1: // shorter than it should be
			if len(m.B) > 0 {
				m.B = m.B[:r.Intn(len(m.B))]
			}
		}
		have = append(have, span{off, off + int64(len(m.B))})
		off += lens[i]
	}
	in := []int64{int64(np)}
	disk := make([]byte, total)
	present := make([]bool, total)
	off = 0
	for i, m := range mems {
		copy(disk[off:], m.B)
		for k := 0; k < len(m.B); k++ {
			present[off+int64(k)] = true
		}
		off += lens[i]
	}
	for i := 0; i < np; i++ {
		lo, hi := int64(i)*pl, int64(i+1)*pl
		if hi > total {
			hi = total
		}
		short, equal := false, true
		for k := lo; k < hi; k++ {
			if !present[k] {
				short = true
			}
			if disk[k] != content[k] {
				equal = false
			}
		}
		in = append(in, b2i(short), b2i(equal && !short))
	}
	v := verifier.New()
	progressC := make(chan verifier.Progress)
	resultC := make(chan *verifier.Verifier, 1)
	go v.Run(pieces, progressC, resultC)
	var res *verifier.Verifier
	timeout := time.After(20 * time.Second)
	for res == nil {
		select {
		case <-progressC:
		case res = <-resultC:
		case <-timeout:
			return Case{In: in, Obs: []int64{HangMark}}
		}
	}
	if res.Error != nil {
		return Case{In: in, Obs: []int64{1}, Note: res.Error.Error()}
	}
	obs := []int64{0}
	for i := 0; i < np; i++ {
		obs = append(obs, b2i(res.Bitfield.Test(uint32(i))))
	}
	return Case{In: in, Obs: obs}
}

func init() {
	Register(103, "verifier over in-memory files that may be damaged or truncated, with repeated piece contents", genVerifier)
}

//go:build verif

package verifhook

import (
	"bytes"
	"context"
	"math/rand"
	"net"
	"net/http"
	"net/url"
	"time"

	"github.com/cenkalti/rain/v2/internal/logger"
	"github.com/cenkalti/rain/v2/internal/peerconn/peerreader"
	"github.com/cenkalti/rain/v2/internal/peerprotocol"
	"github.com/cenkalti/rain/v2/internal/tracker"
	"github.com/cenkalti/rain/v2/internal/tracker/httptracker"
)

// Deeply nested bencode from the network.  The decoder recurses once per level: about a million opening
// brackets, closed or not, end the process with a stack overflow unless the input is refused first.
// in = [n terminated]: an unknown key whose value is n nested lists, with or without the closing brackets
// kind 1106: an extension handshake from a peer through a real PeerReader (maximum message size 4 MiB)
//            obs = [an extension handshake was delivered]
// kind 1604: an HTTP tracker response (response limit 2 MiB)   obs = [the announce succeeded]

func nestedTail(n int, terminated bool) []byte {
	b := bytes.Repeat([]byte("l"), n)
	if terminated {
		b = append(b, bytes.Repeat([]byte("e"), n)...)
	}
	return b
}

func genDepth(r *rand.Rand) []int64 {
	n := pick(r, 1, 5, 30, 62, 63, 64, 65, 100, 5000, 200000)
	if r.Intn(12) == 0 {
		n = 1500000
	}
	return []int64{n, int64(r.Intn(2))}
}

func runExtNesting(in []int64) []int64 {
	n, term := int(in[0]), in[1] != 0
	payload := append([]byte{0}, []byte("d1:md11:ut_metadatai3ee1:z")...)
	if len(in) > 2 {
		switch in[2] {
		case 1: // a ut_metadata request with an unknown key
			payload = append([]byte{1}, []byte("d8:msg_typei0e5:piecei0e1:z")...)
		case 2: // a ut_pex message with an unknown key
			payload = append([]byte{2}, []byte("d5:added0:1:z")...)
		}
	}
	payload = append(payload, nestedTail(n, term)...)
	if term {
		payload = append(payload, 'e')
	}
	c1, c2, err := TCPPair()
	if err != nil {
		return []int64{-710}
	}
	defer c1.Close()
	defer c2.Close()
	pr := peerreader.New(c1, logger.New("verif"), time.Minute, 4<<20, nil)
	go pr.Run()
	go func() {
		_, _ = c2.Write(frame(20, payload))
	}()
	delivered := int64(0)
	timeout := time.After(20 * time.Second)
loop:
	for {
		select {
		case m, ok := <-pr.Messages():
			if !ok {
				break loop
			}
			switch m.(type) {
			case peerprotocol.ExtensionHandshakeMessage, peerprotocol.ExtensionMetadataMessage, peerprotocol.ExtensionPEXMessage:
				delivered = 1
				break loop
			}
		case <-pr.Done():
			break loop
		case <-timeout:
			return []int64{HangMark}
		}
	}
	pr.Stop()
	return []int64{delivered}
}

func genExtNesting(r *rand.Rand, tier string) Case {
	in := append(genDepth(r), int64(r.Intn(3))) // which extension message carries the nested value
	return Case{In: in, Obs: Guard(func() []int64 { return runExtNesting(in) })}
}

func runTrackerNesting(in []int64) []int64 {
	n, term := int(in[0]), in[1] != 0
	body := []byte("d8:intervali1800e5:peers0:1:z")
	body = append(body, nestedTail(n, term)...)
	if term {
		body = append(body, 'e')
	}
	ln, err := net.Listen("tcp", "127.0.0.1:0")
	if err != nil {
		return []int64{-710}
	}
	srv := &http.Server{Handler: http.HandlerFunc(func(w http.ResponseWriter, req *http.Request) { _, _ = w.Write(body) })}
	go srv.Serve(ln)
	defer srv.Close()
	raw := "http://" + ln.Addr().String() + "/announce"
	u, _ := url.Parse(raw)
	tp := &http.Transport{}
	defer tp.CloseIdleConnections()
	tr := httptracker.New(raw, u, 10*time.Second, tp, "verif-agent", 2<<20)
	_, err = tr.Announce(context.Background(), tracker.AnnounceRequest{})
	return []int64{b2i(err == nil)}
}

func genTrackerNesting(r *rand.Rand, tier string) Case {
	in := genDepth(r)
	return Case{In: in, Obs: Guard(func() []int64 { return runTrackerNesting(in) })}
}

func init() {
	Register(1106, "extension handshake with an unknown key nested n deep through a real PeerReader: delivered up to the limit, the peer dropped beyond, never a crash", genExtNesting)
	RegisterReplay(1106, runExtNesting)
	Register(1604, "HTTP tracker response with an unknown key nested n deep: accepted up to the limit, an error beyond, never a crash", genTrackerNesting)
	RegisterReplay(1604, runTrackerNesting)
}

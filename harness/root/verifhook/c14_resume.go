//go:build verif

package verifhook

import (
	"math"
	"math/rand"
	"os"
	"time"

	"github.com/cenkalti/rain/v2/internal/resumer/boltdbresumer"
	"go.etcd.io/bbolt"
)

// kind 1401: a resume record written by the real resumer into a real bbolt file and read back.
// in  = [port bd bu bw seeded started sad sam ccr seq version addedSec addedNanos | name | trackers | urls | peers | info | bitfield]
//       strings as (len byte*), lists as (count item*)
// obs = the same layout as read back

func genStr(r *rand.Rand) string {
	alph := []string{"a", "b", "/", ":", "&", "<", ">", "\"", "\\", " ", "é", "日", "\x00", "\x7f", "%2F", "\n"}
	n := r.Intn(12)
	s := ""
	for i := 0; i < n; i++ {
		s += alph[r.Intn(len(alph))]
	}
	return s
}

func encStrR(out []int64, s string) []int64 {
	out = append(out, int64(len(s)))
	for i := 0; i < len(s); i++ {
		out = append(out, int64(s[i]))
	}
	return out
}

func encSpec(sp *boltdbresumer.Spec) []int64 {
	out := []int64{int64(sp.Port), sp.BytesDownloaded, sp.BytesUploaded, sp.BytesWasted, int64(sp.SeededFor),
		b2i(sp.Started), b2i(sp.StopAfterDownload), b2i(sp.StopAfterMetadata), b2i(sp.CompleteCmdRun), b2i(sp.Sequential),
		int64(sp.Version), sp.AddedAt.Unix(), int64(sp.AddedAt.Nanosecond())}
	out = encStrR(out, sp.Name)
	out = append(out, int64(len(sp.Trackers)))
	for _, t := range sp.Trackers {
		out = append(out, int64(len(t)))
		for _, u := range t {
			out = encStrR(out, u)
		}
	}
	out = append(out, int64(len(sp.URLList)))
	for _, u := range sp.URLList {
		out = encStrR(out, u)
	}
	out = append(out, int64(len(sp.FixedPeers)))
	for _, u := range sp.FixedPeers {
		out = encStrR(out, u)
	}
	out = encStrR(out, string(sp.Info))
	out = encStrR(out, string(sp.Bitfield))
	return out
}

func genResume(r *rand.Rand, tier string) Case {
	dir, err := os.MkdirTemp("/verif/.work", "res")
	if err != nil {
		return Case{In: []int64{0}, Obs: []int64{-710}}
	}
	defer os.RemoveAll(dir)
	db, err := bbolt.Open(dir+"/r.db", 0o600, &bbolt.Options{Timeout: time.Second})
	if err != nil {
		return Case{In: []int64{0}, Obs: []int64{-711}}
	}
	defer db.Close()
	res, err := boltdbresumer.New(db, []byte("torrents"))
	if err != nil {
		return Case{In: []int64{0}, Obs: []int64{-712}}
	}
	i64 := func() int64 {
		return pick(r, 0, 1, -1, 1<<40, math.MaxInt64, math.MinInt64, r.Int63(), -r.Int63())
	}
	sp := &boltdbresumer.Spec{
		InfoHash: []byte(genStr(r) + "h"), Port: int(pick(r, 0, 1, 6881, 65535, -1, 1<<31)), Name: genStr(r),
		Info: []byte(genStr(r)), Bitfield: []byte(genStr(r)),
		AddedAt:         time.Unix(pick(r, 0, 1, 1700000000, r.Int63n(4000000000)), pick(r, 0, 1, 999999999, r.Int63n(1000000000))).UTC(),
		BytesDownloaded: i64(), BytesUploaded: i64(), BytesWasted: i64(),
		SeededFor: time.Duration(pick(r, 0, 1, -1, int64(time.Hour), 1500, 1500000, r.Int63(), math.MaxInt64, math.MinInt64+1, -r.Int63())),
		Started: r.Intn(2) == 0, StopAfterDownload: r.Intn(2) == 0, StopAfterMetadata: r.Intn(2) == 0,
		CompleteCmdRun: r.Intn(2) == 0, Sequential: r.Intn(2) == 0, Version: int(pick(r, 0, 1, 2, 3)),
	}
	for i := r.Intn(3); i > 0; i-- {
		var t []string
		for k := 1 + r.Intn(2); k > 0; k-- {
			t = append(t, genStr(r))
		}
		sp.Trackers = append(sp.Trackers, t)
	}
	for i := r.Intn(3); i > 0; i-- {
		sp.URLList = append(sp.URLList, genStr(r))
	}
	for i := r.Intn(3); i > 0; i-- {
		sp.FixedPeers = append(sp.FixedPeers, genStr(r))
	}
	in := encSpec(sp)
	if err := res.Write("id1", sp); err != nil {
		return Case{In: in, Obs: []int64{-713}}
	}
	got, err := res.Read("id1")
	if err != nil {
		return Case{In: in, Obs: []int64{-714}, Note: err.Error()}
	}
	return Case{In: in, Obs: encSpec(got)}
}

func init() {
	Register(1401, "resume record written by the real resumer into a bbolt file and read back", genResume)
}

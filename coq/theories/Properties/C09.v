(* C09 — piece selection safety invariants (peer half). *)
From RainV Require Import Lib Picker PickerProofs.

(* every pick the picker may legally return (any resolution of its unstable sorts) is for a piece
   that is neither done nor being written, that the peer has, from a peer that is not already
   downloading and is either unchoking us or granted the piece as allowed-fast, and leaves the
   piece within max(1, end-game limit) simultaneous downloads *)
Theorem C09_pick_sound : forall s pe i af, pick_legal s (fst (find_piece s pe)) i af = true ->
  let p := get_piece s i in let P := get_peer (peers s) pe in
  in_range s i = true /\ p_done p = false /\ p_writing p = false /\ In pe (p_having p) /\
  pe_downloading P = false /\
  (pe_choking P = false \/ (af = true /\ In i (pe_af P))) /\
  zlen (p_req p) < limit s.
Proof. exact pick_sound. Qed.
Print Assumptions C09_pick_sound.

(* for every history of have / allowed-fast / choke / unchoke / snub / pick / cancel / disconnect /
   writing / written events: requesters hold the piece, one download per peer, per-piece limit *)
Theorem C09_invariants_all_histories : forall ps seq md ops s, Forall (fun p => p_req p = []) ps ->
  run_ops (init_picker ps seq md) ops = Some s -> PInv s.
Proof. exact reachable_inv. Qed.
Print Assumptions C09_invariants_all_histories.

Theorem C09_one_piece_per_peer : forall s pe i j, PInv s -> 0 <= i -> 0 <= j ->
  In pe (R s i) -> In pe (R s j) -> i = j.
Proof. exact one_piece_per_peer. Qed.
Print Assumptions C09_one_piece_per_peer.

(* the reported count of available pieces equals the number of pieces held by some connected peer *)
Theorem C09_available_exact : forall ps seq md ops s, Forall (fun p => p_having p = []) ps ->
  run_ops (init_picker ps seq md) ops = Some s -> avail s = count_held (pieces s).
Proof. exact reachable_av. Qed.
Print Assumptions C09_available_exact.

(* sequential mode: once no file-edge and no allowed-fast piece is pickable, an unchoked peer gets
   the lowest-indexed eligible piece *)
Theorem C09_sequential_lowest : forall s pe i, sequential s = true -> endgame s = false ->
  let P := get_peer (peers s) pe in
  pe_downloading P = false -> pe_choking P = false ->
  first_cand s (c_edge pe) = None -> lowest_af s pe (pe_af P) None = None ->
  first_cand s (c_unreq_has pe) = Some i ->
  fst (find_piece s pe) = StFirst i false /\
  forall j p, In (j, p) (cands s (c_unreq_has pe)) -> i <= j.
Proof. exact sequential_lowest. Qed.
Print Assumptions C09_sequential_lowest.

(* ---- the real glue (kind 101): after every handler of an accepted history no piece is being
   downloaded by more peers than max(1, end-game limit), and every new download was legal when it
   was started: piece neither done nor being written, held by the peer, peer unchoking us or the
   piece granted as allowed-fast ([legal_new], checked by [assign] for every observed assignment) ---- *)
From RainV Require Import Leech LeechProofs.
Theorem C09_duplicates_within_limit_after_every_handler : forall fixed s ev bits asg,
  let s' := fst (lstep fixed s ev bits asg) in
  s_bad s' = 0 -> forall i, 0 <= i < np_of s' -> over_dup s' i = false.
Proof. intros fixed s ev bits asg s' H. apply (step_no_idle fixed s ev bits asg H). Qed.
Print Assumptions C09_duplicates_within_limit_after_every_handler.

(* ---- web-seed half (PickerWs.v, kind 903) ---- *)
From RainV Require Import PickerWs PickerWsProofs.

(* every history of peer events, picks (whichever legal answer the picker gave), web-seed range
   assignments, stop-ats, closes and advances of the downloader goroutines, for any number of
   pieces, peers and sources, both modes, any end-game limit and gap limit: the owner index and the
   ranges describe each other, the peer-half invariants hold, the availability counter is exact *)
Theorem C09_webseed_invariants_all_histories : forall ps seq md nsrc mws ops s,
  Forall (fun p => p_req p = [] /\ p_having p = []) ps ->
  run_wops (init_ws ps seq md nsrc mws) ops = Some s ->
  WInv s /\ PInv (base s) /\ avail (base s) = count_held (pieces (base s)).
Proof. exact reachable_inv3. Qed.
Print Assumptions C09_webseed_invariants_all_histories.

(* piece ranges assigned to web seeds never overlap *)
Theorem C09_webseed_ranges_never_overlap : forall s k1 k2 d1 d2, WInv s ->
  0 <= k1 < zlen (srcs s) -> 0 <= k2 < zlen (srcs s) -> k1 <> k2 ->
  get_src s k1 = Some d1 -> get_src s k2 = Some d2 -> d_end d1 <= d_begin d2 \/ d_end d2 <= d_begin d1.
Proof. exact ranges_disjoint. Qed.
Print Assumptions C09_webseed_ranges_never_overlap.

(* while a web seed is downloading, a piece handed to a peer (last piece of the smallest gap, or
   stolen from a web-seed range) is neither done nor being written, is held by the peer, is not
   being downloaded by anyone, and the peer is idle and unchoking us *)
Theorem C09_webseed_mode_pick_sound : forall s pe i af s', WInv s -> downloading_ws s = true ->
  wpick_check s pe (Some (i, af)) = Some s' ->
  (in_range (base s) i = true /\ open_ (get_piece (base s) i) = true /\
   In pe (p_having (get_piece (base s) i)) /\ p_req (get_piece (base s) i) = []) /\
  pe_downloading (get_peer (peers (base s)) pe) = false /\ pe_choking (get_peer (peers (base s)) pe) = false.
Proof. exact ws_pick_sound. Qed.
Print Assumptions C09_webseed_mode_pick_sound.

(* the three ownership assertions of the picker ("already downloading from webseed url", "invalid
   source in piece" in CloseWebseedDownloader and WebseedStopAt) cannot fire in a reachable state *)
Theorem C09_webseed_assertions_unreachable : forall s, WInv s ->
  (forall k, 0 <= k < zlen (srcs s) -> close_ws s k <> None) /\
  (forall i k, 0 <= i < npieces s -> get_owner s i = Some k -> stop_at s k i <> None) /\
  (forall obs s1 b e, ws_check s obs = Some s1 -> obs = Some (b, e) -> (b <? e) && range_owned s1 b e None = true).
Proof. exact no_ownership_panic. Qed.
Print Assumptions C09_webseed_assertions_unreachable.

(* ---- file edges of sequential mode (Edges.v, kind 905) ---- *)
From RainV Require Import Geometry Edges.
(* the piece holding the first byte of a file is marked as a head piece and the piece holding its
   last byte as a tail piece, for every layout and every file size *)
Theorem C09_file_end_pieces_are_marked : forall ps p s, In p ps -> In s (psecs p) -> spad s = false ->
  (soff s = 0 -> fst (mark_piece ps p) = true) /\
  (soff s + slen s = file_size ps (sfile s) -> snd (mark_piece ps p) = true).
Proof. exact first_and_last_piece_marked. Qed.
Print Assumptions C09_file_end_pieces_are_marked.

(* and only pieces within 8 MiB of an end of one of their files are marked *)
Theorem C09_marked_pieces_are_near_a_file_end : forall ps p,
  (fst (mark_piece ps p) = true -> exists s, In s (psecs p) /\ spad s = false /\ soff s < Z.max max_edge 1) /\
  (snd (mark_piece ps p) = true -> exists s, In s (psecs p) /\ spad s = false /\
                                             file_size ps (sfile s) - Z.max max_edge 1 < soff s + slen s).
Proof. exact marked_piece_is_near_an_end. Qed.
Print Assumptions C09_marked_pieces_are_near_a_file_end.

(* findGaps, completely: the gaps come in ascending order, do not overlap, consist of pieces available
   for a web seed only, cover every such piece, and none is longer than the per-request limit *)
Theorem C09_webseed_gaps_characterised : forall s,
  gaps_sorted 0 (find_gaps s) /\
  (forall g, In g (find_gaps s) -> 0 <= fst g /\ fst g < snd g /\ snd g <= npieces s /\ forall i, fst g <= i < snd g -> avail_ws s i = true) /\
  (forall i, in_range (base s) i = true -> avail_ws s i = true -> exists g, In g (find_gaps s) /\ fst g <= i < snd g) /\
  (1 <= maxws s -> forall g, In g (find_gaps s) -> snd g - fst g <= maxws s).
Proof.
  intros s. split; [apply find_gaps_sorted|]. split; [intros g Hg; exact (find_gaps_ok s g Hg)|].
  split; [apply find_gaps_complete|]. intros Hm g Hg. apply find_gaps_bounded; assumption.
Qed.
Print Assumptions C09_webseed_gaps_characterised.

(* a range handed to a web seed from the gaps consists of pieces that are neither done nor being written
   nor reserved for another web seed *)
Theorem C09_webseed_range_is_open : forall s b e s1, find_gaps s <> [] -> ws_check s (Some (b, e)) = Some s1 ->
  s1 = s /\ 0 <= b /\ b < e /\ e <= npieces s /\
  forall i, b <= i < e -> open_ (get_piece (base s) i) = true /\ get_owner s i = None.
Proof. exact gap_range_is_open. Qed.
Print Assumptions C09_webseed_range_is_open.

(* a web seed that steals from another takes the upper half of what the victim has left: the victim
   keeps the piece it is working on, both ranges are non-empty, the stolen pieces are free *)
Theorem C09_webseed_steal_splits_the_victim : forall s b e s1, WInv s -> find_gaps s = [] -> ws_check s (Some (b, e)) = Some s1 ->
  exists k d, 0 <= k < zlen (srcs s) /\ get_src s k = Some d /\ b = steal_begin d /\ e = d_end d /\
              d_cur d < b /\ b < e /\
              get_src s1 k = Some {| d_begin := d_begin d; d_end := b; d_cur := d_cur d |} /\
              (forall j, b <= j < e -> get_owner s1 j = None).
Proof. exact webseed_steal_splits. Qed.
Print Assumptions C09_webseed_steal_splits_the_victim.

(* a peer that steals a piece from a web seed: the piece leaves the web seed's range, which now ends
   there; the web seed keeps everything up to and including the piece it is working on *)
Theorem C09_peer_steal_truncates_the_range : forall s pe i af s', WInv s -> downloading_ws s = true -> gap_cands s pe = [] ->
  wpick_check s pe (Some (i, af)) = Some s' ->
  exists k d, 0 <= k < zlen (srcs s) /\ get_src s k = Some d /\ d_cur d < i < d_end d /\
              get_src s' k = Some {| d_begin := d_begin d; d_end := i; d_cur := d_cur d |} /\
              get_owner s' i = None.
Proof. exact peer_steal_releases. Qed.
Print Assumptions C09_peer_steal_truncates_the_range.

(* ---- the stalled-download marks (PickerMarks.v) ---- *)
From RainV Require Import PickerMarks.
(* every history: a peer in the Choked or Snubbed set of a piece is downloading that piece (both sets are
   subsets of Requested), a peer marked Choked is choking us and its download is not an allowed-fast one,
   no peer is in both sets, and the assertion "peer snubbed while choked" cannot fire *)
Theorem C09_stalled_marks_consistent : forall ps seq md ops s,
  Forall (fun p => p_req p = [] /\ p_snub p = [] /\ p_chok p = []) ps ->
  run_ops (init_picker ps seq md) ops = Some s ->
  MInv s /\
  (forall i pe, 0 <= i -> In pe (CH s i) \/ In pe (SN s i) -> In pe (R s i)) /\
  (forall pe, pstep s (OSnub pe) <> None).
Proof. exact reachable_marks. Qed.
Print Assumptions C09_stalled_marks_consistent.

(* the same for every history of the web-seed model (picks in web-seed mode, steals, stop-ats included) *)
From RainV Require Import PickerWsMarks.
Theorem C09_stalled_marks_consistent_with_webseeds : forall ps seq md nsrc mws ops s,
  Forall (fun p => p_req p = [] /\ p_having p = [] /\ p_snub p = [] /\ p_chok p = []) ps ->
  run_wops (init_ws ps seq md nsrc mws) ops = Some s -> MInv (base s).
Proof. exact reachable_marks_ws. Qed.
Print Assumptions C09_stalled_marks_consistent_with_webseeds.

From RainV Require Import Lib Geometry Meta PiecesProofs BlocksProofs.
From Coq Require Import ZifyBool.
Ltac Zify.zify_post_hook ::= Z.div_mod_to_equations.

Definition int64 (z : Z) : Prop := - two63 <= z < two63.

Lemma wrap64_id z : int64 z -> wrap64 z = z.
Proof. unfold int64, wrap64, two63, two64. intros. lia. Qed.

Lemma wrap64_range z : int64 (wrap64 z).
Proof. unfold int64, wrap64, two63, two64. lia. Qed.

(* with the fix, a completed summation means no length was negative and nothing wrapped *)
Lemma sum_files_fixed : forall fs acc pad L P, 0 <= acc < two63 ->
  Forall (fun f => int64 (dlen f)) fs ->
  sum_files true acc pad fs = Some (L, P) ->
  Forall (fun f => 0 <= dlen f) fs /\ L = acc + fold_right (fun f a => dlen f + a) 0 fs /\ 0 <= L < two63.
Proof.
  induction fs as [|f r IH]; intros acc pad L P Ha Hr H; cbn [sum_files] in H.
  - inversion H; subst. cbn. split; [constructor|lia].
  - inversion Hr as [|? ? Hf Hr']; subst. cbn [andb] in H.
    destruct (dlen f <? 0) eqn:E1; [discriminate|].
    destruct (wrap64 (acc + dlen f) <? 0) eqn:E2; [discriminate|].
    assert (Hnw : wrap64 (acc + dlen f) = acc + dlen f).
    { unfold int64, wrap64, two63, two64 in *. lia. }
    assert (Hrng : 0 <= acc + dlen f < two63) by (unfold int64, wrap64, two63, two64 in *; lia).
    rewrite Hnw in *. apply IH in H; [|exact Hrng|assumption].
    destruct H as (H1 & H2 & H3). split; [constructor; [lia|assumption]|].
    cbn [fold_right]. lia.
Qed.

Lemma sum_flen_map padopt fs :
  sum_flen (map (fun f => {| flen := dlen f; fpad := padopt && dpadding f |}) fs) =
  fold_right (fun f a => dlen f + a) 0 fs.
Proof. unfold sum_flen. induction fs as [|f r IH]; cbn [map fold_right flen]; [reflexivity|]. rewrite IH. reflexivity. Qed.

(* C06 core: whatever the decoded field values, an accepted info is well-formed. *)
Theorem accept_wf padopt d i :
  Forall (fun f => int64 (dlen f)) (d_files d) -> int64 (d_single d) ->
  0 <= d_npb d -> d_npb d / 20 < 2147483648 ->
  accept true padopt d = Some i ->
  wf_info (i_files i) (i_pl i) (Z.to_nat (i_n i)) (i_len i) /\ 0 < i_n i /\ i_pl i < two32.
Proof.
  intros Hfs Hsingle Hnpb Hn H. unfold accept in H.
  destruct ((d_pl d <? 0) || (d_pl d >=? two32)) eqn:E0; [discriminate|].
  destruct (d_pl d =? 0) eqn:E1; [discriminate|].
  destruct (negb (d_npb d mod 20 =? 0)) eqn:E2; [discriminate|].
  set (n := d_npb d / 20) in *.
  destruct (n =? 0) eqn:E3; [discriminate|].
  assert (Hn0 : 0 < n) by (unfold n in *; lia).
  assert (Hpl : 0 < d_pl d < two32) by lia.
  assert (Hprod : 0 < d_pl d * n < two63) by (unfold two63, two32, n in *; nia).
  assert (Htot : wrap64 (d_pl d * n) = d_pl d * n).
  { apply wrap64_id. unfold int64, two63 in *. lia. }
  rewrite Htot in H.
  destruct (negb (Nat.eqb (length (d_files d)) 0)) eqn:Em.
  - destruct (sum_files true 0 0 (d_files d)) as [[L P]|] eqn:Es; [|discriminate].
    apply sum_files_fixed in Es; [|unfold two63; lia|assumption].
    destruct Es as (Hnn & HL & HLr).
    assert (Hd : wrap64 (d_pl d * n - L) = d_pl d * n - L).
    { apply wrap64_id. unfold int64, two63 in *. lia. }
    rewrite Hd in H.
    destruct ((d_pl d * n - L >=? d_pl d) || (d_pl d * n - L <? 0)) eqn:Ed; [discriminate|].
    inversion H; subst i; cbn [i_files i_pl i_n i_len].
    split; [|split; lia]. constructor.
    + destruct (d_files d); [discriminate|]. cbn [map]. discriminate.
    + rewrite Forall_map. cbn [flen]. exact Hnn.
    + lia.
    + lia.
    + rewrite Z2Nat.id by lia. nia.
    + rewrite Z2Nat.id by lia. nia.
    + rewrite sum_flen_map. lia.
  - set (L := d_single d) in *.
    assert (Hd : - two63 <= d_pl d * n - L < two64).
    { unfold int64, two63, two64 in *. lia. }
    destruct ((wrap64 (d_pl d * n - L) >=? d_pl d) || (wrap64 (d_pl d * n - L) <? 0)) eqn:Ed; [discriminate|].
    assert (Hnw : wrap64 (d_pl d * n - L) = d_pl d * n - L).
    { unfold wrap64, two63, two64 in *. lia. }
    rewrite Hnw in Ed.
    inversion H; subst i; cbn [i_files i_pl i_n i_len].
    split; [|split; lia]. constructor.
    + discriminate.
    + constructor; [cbn [flen]; nia|constructor].
    + lia.
    + lia.
    + rewrite Z2Nat.id by lia. nia.
    + rewrite Z2Nat.id by lia. nia.
    + cbn. lia.
Qed.

(* the pinned code accepts a negative (padding) file length *)
Theorem accept_wf_refuted_pinned :
  exists padopt d i, Forall (fun f => int64 (dlen f)) (d_files d) /\
    accept false padopt d = Some i /\ ~ Forall (fun f => 0 <= flen f) (i_files i).
Proof.
  exists true, {| d_pl := 100; d_npb := 20; d_single := 0;
                  d_files := [{| dlen := 100; dpadding := false |}; {| dlen := -50; dpadding := true |};
                              {| dlen := 50; dpadding := false |}] |}.
  eexists. split; [repeat constructor; unfold int64, two63; cbn; lia|].
  split; [vm_compute; reflexivity|].
  intros H. inversion H as [|? ? _ H2]; subst. inversion H2 as [|? ? H3 _]; subst. cbn in H3. lia.
Qed.

Lemma chain_ok_nonneg fs : forall ss z m, chain_ok fs z ss = Some m -> wf_secs ss.
Proof.
  induction ss as [|s r IH]; intros z m H; [constructor|].
  cbn [chain_ok] in H. destruct (sec_ok fs z s) eqn:Es; [|discriminate].
  constructor; [|eapply IH; eauto]. unfold sec_ok in Es.
  destruct (nth_error fs (sfile s)); [lia|discriminate].
Qed.

Lemma pieces_secs_wf fs : forall ps z m, chain_ok fs z (flat_map psecs ps) = Some m ->
  Forall (fun p => wf_secs (psecs p)) ps.
Proof.
  induction ps as [|p r IH]; intros z m H; [constructor|]. cbn [flat_map] in H.
  rewrite chain_ok_app in H. destruct (chain_ok fs z (psecs p)) as [k|] eqn:E; [|discriminate].
  constructor; [eapply chain_ok_nonneg; eauto|eapply IH; eauto].
Qed.

Lemma piece_lens_pos PL L n : 0 < PL -> PL * (n - 1) < L -> forall ps i,
  piece_lens_ok PL L i n ps = true -> Forall (fun p => 0 < sum_slen (psecs p)) ps.
Proof.
  intros Hpl Hlo. induction ps as [|p r IH]; intros i H; [constructor|].
  cbn [piece_lens_ok] in H. apply andb_prop in H as [H1 H2]. apply andb_prop in H1 as [H0 H1].
  constructor; [|eapply IH; eauto]. destruct (i =? n - 1); lia.
Qed.

(* Starting an accepted torrent terminates: piece construction returns within its fuel
   (|files| + 2 loop iterations per piece) without a panic, and block layout of every piece
   returns within (len / 16384 + 2) iterations per section. *)
Theorem accepted_pieces_terminate padopt d i :
  Forall (fun f => int64 (dlen f)) (d_files d) -> int64 (d_single d) ->
  0 <= d_npb d -> d_npb d / 20 < 2147483648 ->
  accept true padopt d = Some i ->
  exists ps, new_pieces (i_files i) (i_pl i) (i_len i) (Z.to_nat (i_n i)) = Ok ps /\
    length ps = Z.to_nat (i_n i) /\
    Forall (fun p => exists bl, calc_blocks true 16384 (psecs p) = Ok bl) ps.
Proof.
  intros H1 H2 H3 H4 H5. destruct (accept_wf _ _ _ H1 H2 H3 H4 H5) as (WF & Hn & _).
  destruct (new_pieces_ok _ _ _ _ WF) as (ps & E & Hl & Hc & Hp).
  exists ps. split; [exact E|]. split; [exact Hl|].
  pose proof (pieces_secs_wf _ _ _ _ Hc) as Hw.
  pose proof (piece_lens_pos _ _ _ (wf_pl _ _ _ _ WF) (wf_lo _ _ _ _ WF) _ _ Hp) as Hpos.
  rewrite Forall_forall in *. intros p Hin.
  destruct (blocks_tile 16384 (psecs p)) as (bl & Eb & _); [lia|apply Hw; exact Hin| |eauto].
  intros Hnil. specialize (Hpos p Hin). rewrite Hnil in Hpos. cbn in Hpos. lia.
Qed.

Example accept_example :
  accept true true {| d_pl := 16384; d_npb := 40; d_single := 0;
    d_files := [{| dlen := 20000; dpadding := false |}; {| dlen := 12768; dpadding := true |}] |} <> None.
Proof. vm_compute. discriminate. Qed.

(* an accepted document is never nested deeper than the limit: the decoder's recursion is bounded *)
Lemma accepted_nesting_bounded w n k : run_nesting [w; n; k] = [1] -> nesting_levels w n <= max_nesting.
Proof. cbn [run_nesting]. destruct (w >=? 3); [discriminate|]. destruct (Z.leb_spec (nesting_levels w n) max_nesting); [auto|discriminate]. Qed.

Lemma net_nesting_bounded n t : run_net_nesting [n; t] = [1] -> nesting_levels 0 n <= max_nesting.
Proof.
  cbn [run_net_nesting]. destruct (z2b t); cbn [andb]; [|discriminate].
  destruct (Z.leb_spec (nesting_levels 0 n) max_nesting); [auto|discriminate].
Qed.

(* C11 — peer wire encoding is protocol-exact and round-trips through the reader. *)
From RainV Require Import Lib Bencode BencodeProofs Wire WireProofs.

(* what the Go writer puts on the wire is the BEP 3/6/10 framing, for every message kind and
   every field value (bitfields and payloads of any size below 4 GiB) *)
Theorem C11_writer_is_protocol_exact : forall m, body_small m -> enc_go m = encode m.
Proof. exact enc_go_is_spec. Qed.
Print Assumptions C11_writer_is_protocol_exact.

(* the client's own reader decodes every emitted message sequence back to the identical
   sequence (messages within the reader's limits: request length <= 16 KiB, piece data <= 16 KiB,
   frame <= maxmsg) *)
Theorem C11_reader_inverts_writer : forall maxmsg ms, 0 <= maxmsg -> Forall (wfm maxmsg) ms ->
  parse_all maxmsg (flat_map encode ms) = (ms, EndEOF).
Proof. exact reader_inverts_writer. Qed.
Print Assumptions C11_reader_inverts_writer.

(* extension payloads (handshake, ut_metadata with trailing raw data, ut_pex) survive the
   bencode layer *)
Theorem C11_extension_payload_roundtrip : forall m, wf_ext m -> unmarshal_ext (ext_body m) = Some m.
Proof. exact unmarshal_ext_body. Qed.
Print Assumptions C11_extension_payload_roundtrip.

Theorem C11_bencode_roundtrip : forall v rest, decode (enc v ++ rest) = Some (v, rest).
Proof. exact decode_encode. Qed.
Print Assumptions C11_bencode_roundtrip.

Theorem C11_handshake_roundtrip : forall ext ih id rest,
  length ext = 8%nat -> length ih = 20%nat -> length id = 20%nat ->
  rd_handshake (handshake ext ih id ++ rest) = Some (ext, ih, id, rest).
Proof. exact handshake_roundtrip. Qed.
Print Assumptions C11_handshake_roundtrip.

(* the upload counter equals the piece payload bytes actually framed *)
Theorem C11_upload_counter : forall m, uploaded_of m = wire_payload m.
Proof. exact upload_counter. Qed.
Print Assumptions C11_upload_counter.

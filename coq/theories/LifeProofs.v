(* C04 on the lifecycle model of the repaired code: for every sequence of commands, worker results
   (in any order relative to the commands) and disk changes, the client does not crash, Seeding
   implies a bitfield of all ones, Stopped (and Stopping) imply no open data file, a verify request
   is never pending while the torrent runs.  The pinned code is refuted by witnesses. *)
From RainV Require Import Lib Life.
From Coq Require Import ZifyBool.

Record LInv (s : life) : Prop := {
  li_crash : crashed s = false;
  li_closed : complC_closed s = completed s;
  li_compl : completed s = true -> match bf s with Some b => all_true b = true | None => alloc s = true \/ verif s = true \/ started s = false \/ stopping s = true end;
  li_stop : started s = false \/ stopping s = true -> has_pieces s = false /\ alloc s = false /\ verif s = false;
  li_run : started s = true -> stopping s = false -> alloc s = false -> verif s = false -> has_pieces s = true /\ bf s <> None /\ do_verify s = false;
  li_held : held s = (if has_pieces s then nfiles s else 0);
  li_pend : pending s = (if alloc s then nfiles s else 0);
  li_leak : leaked s = 0;
  li_av : alloc s = true -> verif s = false /\ has_pieces s = false;
  li_vp : verif s = true -> has_pieces s = true;
  li_dv : do_verify s = true -> started s = true /\ (stopping s = true \/ bf s = None);
  li_ss : stopping s = true -> started s = true
}.

Ltac bcases :=
  repeat match goal with
  | |- context [if ?b then _ else _] => let E := fresh "E" in destruct b eqn:E; cbn in *
  | H : context [if ?b then _ else _] |- _ => let E := fresh "E" in destruct b eqn:E; cbn in *
  end.

Ltac fin := solve [cbn in *; first [congruence | lia | (split; congruence) | (intros; congruence) | (intros [?|?]; congruence) | (intros; repeat split; congruence) | tauto]].

Lemma linv_init fx pk nf : LInv {| started := false; stopping := false; alloc := false; verif := false; completed := false;
   complC_closed := false; has_pieces := false; bf := None; do_verify := false; held := 0; pending := 0; leaked := 0;
   persisted := None; fexists := fx; pok := pk; nfiles := nf; restart := false; crashed := false |}.
Proof. constructor; try fin. Qed.

Lemma linv_with_restart s r : LInv s -> LInv (with_restart s r).
Proof. intros [? ? ? ? ? ? ? ? ? ? ? ?]. constructor; try fin. Qed.

Lemma linv_mutate s fx pk : LInv s -> LInv (mutate s fx pk).
Proof. intros [? ? ? ? ? ? ? ? ? ? ? ?]. constructor; try fin. Qed.

Lemma linv_stop s : LInv s -> LInv (do_stop true s).
Proof.
  intros H. unfold do_stop. destruct (negb (started s) || stopping s) eqn:E; [apply linv_with_restart; exact H|].
  destruct H as [A B C D F G I J K L M N]. apply Bool.orb_false_iff in E as [E1 E2]. apply Bool.negb_false_iff in E1.
  constructor; cbn; try fin.
  - intros Hc. specialize (C Hc). destruct (bf s); [exact C|fin].
Qed.

Lemma linv_check_completion s : LInv s -> started s = true -> stopping s = false -> alloc s = false -> verif s = false ->
  LInv (check_completion s).
Proof.
  intros H S1 S2 S3 S4. unfold check_completion. destruct (completed s) eqn:Ec; [exact H|].
  destruct (bf s) as [b|] eqn:Eb; [|exact H]. destruct (all_true b) eqn:Ea; [|exact H].
  destruct H as [A B C D F G I J K L M N]. constructor; cbn; rewrite ?Eb; try fin.
  all: try (rewrite Ec in B; rewrite B, A; reflexivity).
  all: try (intros _; exact Ea).
  all: try (rewrite Eb in F; exact F).
  all: try (rewrite Eb in M; exact M).
Qed.

Lemma linv_reset s : LInv s -> (match bf s with Some _ => True | None => alloc s = true \/ verif s = true \/ started s = false \/ stopping s = true end) ->
  LInv (reset_completion true s).
Proof.
  intros [A B C D F G I J K L M N] Hb. constructor; cbn; try fin.
Qed.

(* [do_start] from a stopped state in which a verify request may be pending *)
Lemma linv_start_stopped s : started s = false -> stopping s = false -> crashed s = false -> complC_closed s = completed s ->
  (completed s = true -> match bf s with Some b => all_true b = true | None => True end) ->
  has_pieces s = false -> alloc s = false -> verif s = false -> held s = 0 -> pending s = 0 -> leaked s = 0 ->
  (do_verify s = true -> bf s = None) -> LInv (do_start true s).
Proof.
  intros Es E2 A B C D1 D2 D3 G I J M. unfold do_start. rewrite Es. cbn [has_pieces set]. rewrite D1.
  unfold start_allocator. constructor; cbn; rewrite ?D1, ?D2, ?D3 in *; try fin.
  all: try (intros Hc; specialize (C Hc); destruct (bf s); [exact C|left; reflexivity]).
  all: try (intros Hd; split; [reflexivity|right; apply M; exact Hd]).
Qed.

Lemma linv_start s : LInv s -> LInv (do_start true s).
Proof.
  intros H. destruct (started s) eqn:Es.
  { unfold do_start. rewrite Es. destruct (true && stopping s); [apply linv_with_restart|]; exact H. }
  destruct H as [A B C D F G I J K L M N].
  destruct (D (or_introl Es)) as (D1 & D2 & D3).
  assert (E2 : stopping s = false) by (destruct (stopping s) eqn:E; [specialize (N eq_refl); congruence|reflexivity]).
  apply linv_start_stopped; auto.
  - intros Hc. specialize (C Hc). destruct (bf s); auto.
  - rewrite G, D1. reflexivity.
  - rewrite I, D2. reflexivity.
  - intros Hd. destruct (M Hd) as [X _]. congruence.
Qed.

Lemma linv_start_verifier s : LInv s -> started s = true -> stopping s = false -> alloc s = false -> verif s = false -> has_pieces s = true ->
  LInv (start_verifier s).
Proof.
  intros [A B C D F G I J K L M N] S1 S2 S3 S4 S5. unfold start_verifier. constructor; cbn; rewrite ?S1, ?S2, ?S3, ?S4, ?S5 in *; try fin.
  all: try (intros Hc; specialize (C Hc); destruct (bf s); [exact C|fin]).
Qed.

Lemma linv_stopped_done s : LInv s -> LInv (stopped_done true s).
Proof.
  intros H. unfold stopped_done. destruct (negb (stopping s)) eqn:E; [exact H|]. apply Bool.negb_false_iff in E.
  pose proof (linv_with_restart s false H) as H0.
  assert (Er : restart (with_restart s false) = false) by reflexivity.
  assert (E0 : stopping (with_restart s false) = true) by exact E.
  remember (with_restart s false) as s0 eqn:Heq. clear Heq H.
  destruct H0 as [A B C D F G I J K L M N].
  destruct (D (or_intror E0)) as (D1 & D2 & D3).
  assert (Hs1 : LInv (set s0 false false (alloc s0) (verif s0) (completed s0) (complC_closed s0) (has_pieces s0) (bf s0) (do_verify s0) (held s0) (pending s0) (leaked s0) (persisted s0) (crashed s0)) \/ do_verify s0 = true).
  { destruct (do_verify s0) eqn:Ed; [right; reflexivity|left]. constructor; cbn; rewrite ?D1, ?D2, ?D3 in *; try fin.
    all: try (intros Hc; specialize (C Hc); destruct (bf s0); [exact C|right; right; left; reflexivity]). }
  destruct (do_verify s0) eqn:Ed.
  - (* verify: bitfield dropped, start *)
    apply linv_start_stopped; cbn; rewrite ?D1, ?D2, ?D3 in *; try fin.
    all: try (cbn in G; rewrite G; reflexivity).
    all: try (cbn in I; rewrite I; reflexivity).
  - destruct Hs1 as [Hs1|Hs1]; [|congruence]. cbn [do_verify set]. destruct (true && restart s); [apply linv_start|]; exact Hs1.
Qed.

(* Connection limits of a torrent (torrent_peer.go dialAddresses, torrent_connection.go handleNewConnection,
   torrent_handshake.go, torrent_close.go closePeer, torrent_stop.go): how many outgoing connections
   (handshaking + established) and incoming ones a torrent has after every event.  Definitions only. *)
From RainV Require Import Lib.

Record cl := { c_addrs : Z;      (* addresses waiting in the address list *)
               c_oh : Z; c_op : Z; (* outgoing: handshaking, established *)
               c_ih : Z; c_ip : Z; (* incoming: handshaking, established *)
               c_run : bool }.

Definition cl_init : cl := {| c_addrs := 0; c_oh := 0; c_op := 0; c_ih := 0; c_ip := 0; c_run := true |}.

(* dialAddresses: start handshakes while there is a free slot and an address *)
Fixpoint dial (fuel : nat) (maxdial : Z) (s : cl) : cl :=
  match fuel with
  | O => s
  | S f =>
      if (c_oh s + c_op s <? maxdial) && (0 <? c_addrs s) then
        dial f maxdial {| c_addrs := c_addrs s - 1; c_oh := c_oh s + 1; c_op := c_op s; c_ih := c_ih s; c_ip := c_ip s; c_run := c_run s |}
      else s
  end.
Definition dial_all (maxdial : Z) (s : cl) : cl := dial (Z.to_nat (c_addrs s)) maxdial s.

Inductive cev :=
| CAdd (n : Z)          (* n new addresses (tracker, DHT, PEX, user) *)
| COutOk | COutFail     (* an outgoing handshake finished *)
| CIncoming             (* a connection was accepted on the torrent's port *)
| CInOk | CInFail       (* an incoming handshake finished *)
| COutGone | CInGone    (* an established peer disconnected *)
| CStop | CStart.

Definition cstep (maxdial maxaccept : Z) (s : cl) (e : cev) : cl :=
  match e with
  | CAdd n =>
      if c_run s then dial_all maxdial {| c_addrs := c_addrs s + n; c_oh := c_oh s; c_op := c_op s; c_ih := c_ih s; c_ip := c_ip s; c_run := true |}
      else s
  | COutOk => if 0 <? c_oh s then {| c_addrs := c_addrs s; c_oh := c_oh s - 1; c_op := c_op s + 1; c_ih := c_ih s; c_ip := c_ip s; c_run := c_run s |} else s
  | COutFail => if 0 <? c_oh s then dial_all maxdial {| c_addrs := c_addrs s; c_oh := c_oh s - 1; c_op := c_op s; c_ih := c_ih s; c_ip := c_ip s; c_run := c_run s |} else s
  | CIncoming =>
      if c_run s && (c_ih s + c_ip s <? maxaccept) then {| c_addrs := c_addrs s; c_oh := c_oh s; c_op := c_op s; c_ih := c_ih s + 1; c_ip := c_ip s; c_run := c_run s |}
      else s
  | CInOk => if 0 <? c_ih s then {| c_addrs := c_addrs s; c_oh := c_oh s; c_op := c_op s; c_ih := c_ih s - 1; c_ip := c_ip s + 1; c_run := c_run s |} else s
  | CInFail => if 0 <? c_ih s then {| c_addrs := c_addrs s; c_oh := c_oh s; c_op := c_op s; c_ih := c_ih s - 1; c_ip := c_ip s; c_run := c_run s |} else s
  | COutGone => if 0 <? c_op s then dial_all maxdial {| c_addrs := c_addrs s; c_oh := c_oh s; c_op := c_op s - 1; c_ih := c_ih s; c_ip := c_ip s; c_run := c_run s |} else s
  | CInGone => if 0 <? c_ip s then dial_all maxdial {| c_addrs := c_addrs s; c_oh := c_oh s; c_op := c_op s; c_ih := c_ih s; c_ip := c_ip s - 1; c_run := c_run s |} else s
  | CStop => {| c_addrs := 0; c_oh := 0; c_op := 0; c_ih := 0; c_ip := 0; c_run := false |}
  | CStart => {| c_addrs := c_addrs s; c_oh := c_oh s; c_op := c_op s; c_ih := c_ih s; c_ip := c_ip s; c_run := true |}
  end.

Definition dec_cev (l : list Z) : option (cev * list Z) :=
  match l with
  | 1 :: n :: r => Some (CAdd n, r)
  | 2 :: r => Some (COutOk, r) | 3 :: r => Some (COutFail, r)
  | 4 :: r => Some (CIncoming, r)
  | 5 :: r => Some (CInOk, r) | 6 :: r => Some (CInFail, r)
  | 7 :: r => Some (COutGone, r) | 8 :: r => Some (CInGone, r)
  | 9 :: r => Some (CStop, r) | 10 :: r => Some (CStart, r)
  | 11 :: r => Some (CIncoming, r)       (* a connection that announces another torrent: its handshake will fail *)
  | _ => None
  end.

Definition obs_cl (s : cl) : list Z := [c_addrs s; c_oh s + c_op s; c_ih s + c_ip s; c_op s + c_ip s; b2z (c_run s)].

Fixpoint run_cl_go (fuel : nat) (md ma : Z) (s : cl) (l : list Z) : list Z :=
  match fuel with
  | O => []
  | S f => match dec_cev l with
           | Some (e, r) => let s' := cstep md ma s e in
                            (* a refused incoming handshake: the client closes that connection *)
                            obs_cl s' ++ (match e with CInFail => [1] | _ => [] end) ++ run_cl_go f md ma s' r
           | None => match l with [] => [] | _ => [-779] end
           end
  end.

(* in = [maxdial maxaccept] ++ events *)
Definition run_connlimit (inp : list Z) : list Z :=
  match inp with
  | md :: ma :: evs => obs_cl cl_init ++ run_cl_go (length evs) md ma cl_init evs
  | _ => [-779]
  end.

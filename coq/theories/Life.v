(* Lifecycle of one torrent: the start/stop/verify commands and the completions of the allocation,
   verification, piece-write and stop-announce workers, as the event loop handles them
   (torrent_start.go, torrent_stop.go, torrent_allocation.go, torrent_verification.go,
   torrent_pieces.go, torrent_status.go), over an abstract disk: which files exist and, per piece,
   whether the bytes on disk are the torrent's content.  Definitions only.

   [fixed] selects the repaired handlers (fix D10/D11: completion state is reset when pieces turn
   out to be missing; a verify request on a torrent without data ends stopped). *)
From RainV Require Import Lib.

Record life := {
  started : bool;            (* errC != nil *)
  stopping : bool;           (* stoppedEventAnnouncer != nil *)
  alloc : bool;              (* allocator != nil *)
  verif : bool;              (* verifier != nil *)
  completed : bool;
  complC_closed : bool;      (* completeC has been closed *)
  has_pieces : bool;         (* pieces/files != nil: data files are open *)
  bf : option (list bool);   (* bitfield *)
  do_verify : bool;
  held : Z;                  (* data files open and referenced by the torrent (t.files) *)
  pending : Z;               (* opened by a running allocator whose result has not been handled *)
  leaked : Z;                (* open, but nobody holds a reference any more *)
  persisted : option (list bool);   (* bitfield in the resume database *)
  fexists : list bool;       (* per non-padding file *)
  pok : list bool;           (* per piece: the bytes on disk are the torrent's content *)
  nfiles : Z;                (* non-padding files *)
  restart : bool;            (* a start command arrived while stopping (fix D-d) *)
  crashed : bool }.

(* status() *)
Definition status (s : life) : Z :=
  if negb (started s) then 0            (* Stopped *)
  else if stopping s then 6             (* Stopping *)
  else if alloc s then 4                (* Allocating *)
  else if verif s then 5                (* Verifying *)
  else if completed s then 2            (* Seeding *)
  else 1.                               (* Downloading *)

Definition all_true (l : list bool) : bool := forallb (fun b => b) l.
Definition np_of (s : life) : nat := length (pok s).

Definition set (s : life) (st sp al ve co cc hp : bool) (b : option (list bool)) (dv : bool) (h pd lk : Z) (pe : option (list bool)) (cr : bool) : life :=
  {| started := st; stopping := sp; alloc := al; verif := ve; completed := co; complC_closed := cc; has_pieces := hp; bf := b;
     do_verify := dv; held := h; pending := pd; leaked := lk; persisted := pe; fexists := fexists s; pok := pok s; nfiles := nfiles s; restart := restart s; crashed := cr |}.

Definition with_restart (s : life) (r : bool) : life :=
  {| started := started s; stopping := stopping s; alloc := alloc s; verif := verif s; completed := completed s;
     complC_closed := complC_closed s; has_pieces := has_pieces s; bf := bf s; do_verify := do_verify s; held := held s;
     pending := pending s; leaked := leaked s; persisted := persisted s; fexists := fexists s; pok := pok s; nfiles := nfiles s;
     restart := r; crashed := crashed s |}.

(* checkCompletion *)
Definition check_completion (s : life) : life :=
  if completed s then s
  else match bf s with
       | Some b => if all_true b then
                     (* close(completeC): closing a closed channel panics *)
                     set s (started s) (stopping s) (alloc s) (verif s) true true (has_pieces s) (bf s) (do_verify s)
                         (held s) (pending s) (leaked s) (persisted s) (crashed s || complC_closed s)
                   else s
       | None => s
       end.

(* stop(err) *)
Definition do_stop (fixed : bool) (s : life) : life :=
  if negb (started s) || stopping s then (if fixed then with_restart s false else s)
  else
    (* writeBitfield if bitfield != nil; closeData closes t.files; stopAllocator leaves the files the
       allocator has opened (its result is never delivered) open *)
    set s true true false false (completed s) (complC_closed s) false (bf s) (do_verify s)
        0 0 (if fixed then leaked s else leaked s + pending s)
        (match bf s with Some b => Some b | None => persisted s end) (crashed s).

(* the allocator goroutine opens every non-padding file as soon as it is started *)
Definition start_allocator (s : life) : life :=
  set s (started s) (stopping s) true (verif s) (completed s) (complC_closed s) (has_pieces s) (bf s) (do_verify s)
      (held s) (nfiles s) (leaked s) (persisted s) (crashed s || alloc s).
Definition start_verifier (s : life) : life :=
  set s (started s) (stopping s) (alloc s) true (completed s) (complC_closed s) (has_pieces s) (bf s) (do_verify s)
      (held s) (pending s) (leaked s) (persisted s) (crashed s || verif s).

(* start() *)
Definition do_start (fixed : bool) (s : life) : life :=
  if started s then (if fixed && stopping s then with_restart s true else s)
  else
    let s1 := set s true false (alloc s) (verif s) (completed s) (complC_closed s) (has_pieces s) (bf s) (do_verify s)
                  (held s) (pending s) (leaked s) (persisted s) (crashed s) in
    if has_pieces s1 then match bf s1 with Some _ => s1 | None => start_verifier s1 end
    else start_allocator s1.

(* the files the allocator finds: created files are zero-filled, so pieces touching a created file
   are no longer the torrent's content unless that content is zeros (the harness tells) *)
Definition reset_completion (fixed : bool) (s : life) : life :=
  if fixed then set s (started s) (stopping s) (alloc s) (verif s) false false (has_pieces s) (bf s) (do_verify s)
                    (held s) (pending s) (leaked s) (persisted s) (crashed s)
  else s.

(* handleAllocationDone: [pok'] and [fex'] describe the disk after the allocator created what was missing *)
Definition alloc_done (fixed : bool) (s : life) (had_existing had_missing : bool) (padonly : list bool) : life :=
  if negb (alloc s) then s else
  let s1 := set s (started s) (stopping s) false (verif s) (completed s) (complC_closed s) true (bf s) (do_verify s)
                (held s + pending s) 0 (leaked s) (persisted s) (crashed s) in
  let trusted := match bf s1 with Some _ => negb had_missing | None => false end in
  if trusted then check_completion s1        (* every file is there: the resume bitfield is trusted *)
  else
    (* files were missing: the old bitfield, if any, no longer describes the disk; the repaired code
       forgets it at once, also in the resume database (fix D25) *)
    let s2 := if fixed && had_missing
              then set s1 (started s1) (stopping s1) false (verif s1) (completed s1) (complC_closed s1) true None (do_verify s1)
                       (held s1) (pending s1) (leaked s1) None (crashed s1)
              else s1 in
    if negb had_existing then
      (* nothing was there: start from scratch (padding-only pieces are complete, fix D21); persisted at once (D25) *)
      let s3 := set s2 (started s2) (stopping s2) false (verif s2) (completed s2) (complC_closed s2) true (Some padonly) (do_verify s2)
                    (held s2) (pending s2) (leaked s2) (if fixed then Some padonly else persisted s2) (crashed s2) in
      let s4 := if all_true padonly then s3 else reset_completion fixed s3 in
      if fixed && do_verify s4 then
        do_stop fixed (set s4 (started s4) (stopping s4) false (verif s4) (completed s4) (complC_closed s4) true (bf s4) false
                     (held s4) (pending s4) (leaked s4) (persisted s4) (crashed s4))
      else if fixed then check_completion s4 else s4
    else start_verifier s2.

(* handleVerificationDone: the verifier's bitfield is [pok] *)
Definition verify_done (fixed : bool) (s : life) : life :=
  if negb (verif s) then s else
  let b := pok s in
  let s1 := set s (started s) (stopping s) (alloc s) false (completed s) (complC_closed s) (has_pieces s) (Some b) (do_verify s)
                (held s) (pending s) (leaked s) (Some b) (crashed s) in
  let s2 := if all_true b then s1
            else if fixed then reset_completion true s1
            else set s1 (started s1) (stopping s1) (alloc s1) (verif s1) false (complC_closed s1) (has_pieces s1) (bf s1) (do_verify s1)
                     (held s1) (pending s1) (leaked s1) (persisted s1) (crashed s1) in
  if do_verify s2 then
    do_stop fixed (set s2 (started s2) (stopping s2) (alloc s2) (verif s2) (completed s2) (complC_closed s2) (has_pieces s2) (bf s2) false
                 (held s2) (pending s2) (leaked s2) (persisted s2) (crashed s2))
  else check_completion s2.

(* handleVerifyCommand *)
Definition do_verify_cmd (fixed : bool) (s : life) : life :=
  let s1 := set s (started s) (stopping s) (alloc s) (verif s) (completed s) (complC_closed s) (has_pieces s) (bf s) true
                (held s) (pending s) (leaked s) (persisted s) (crashed s) in
  if negb (started s1) then
    do_start fixed (set s1 (started s1) (stopping s1) (alloc s1) (verif s1) (completed s1) (complC_closed s1) (has_pieces s1) None true
                  (held s1) (pending s1) (leaked s1) (persisted s1) (crashed s1))
  else do_stop fixed s1.

(* handleStopped *)
Definition stopped_done (fixed : bool) (s : life) : life :=
  if negb (stopping s) then s else
  let again := fixed && restart s in
  let s := with_restart s false in
  let s1 := set s false false (alloc s) (verif s) (completed s) (complC_closed s) (has_pieces s) (bf s) (do_verify s)
                (held s) (pending s) (leaked s) (persisted s) (crashed s) in
  if do_verify s1 then
    do_start fixed (set s1 false false (alloc s1) (verif s1) (completed s1) (complC_closed s1) (has_pieces s1) None true
                  (held s1) (pending s1) (leaked s1) (persisted s1) (crashed s1))
  else if again then do_start fixed s1
  else s1.

Fixpoint setb (l : list bool) (i : nat) (v : bool) : list bool :=
  match l, i with
  | [], _ => []
  | _ :: r, O => v :: r
  | x :: r, S k => x :: setb r k v
  end.

(* one piece is downloaded from the seed, verified, written: bit set, completion checked, and on
   completion the bitfield is persisted *)
Definition piece_written (s : life) (i : Z) : life :=
  match bf s with
  | Some b =>
      if negb (Z.eqb (status s) 1) || nth (Z.to_nat i) b true then
        set s (started s) (stopping s) (alloc s) (verif s) (completed s) (complC_closed s) (has_pieces s) (bf s) (do_verify s)
            (held s) (pending s) (leaked s) (persisted s) true          (* not a legal observation *)
      else
        let b' := setb b (Z.to_nat i) true in
        let s1 := {| started := started s; stopping := stopping s; alloc := alloc s; verif := verif s; completed := completed s;
                     complC_closed := complC_closed s; has_pieces := has_pieces s; bf := Some b'; do_verify := do_verify s;
                     held := held s; pending := pending s; leaked := leaked s; persisted := persisted s; fexists := fexists s;
                     pok := setb (pok s) (Z.to_nat i) true; nfiles := nfiles s; restart := restart s; crashed := crashed s |} in
        let s2 := check_completion s1 in
        if completed s2 && negb (completed s1) && negb (crashed s2) then
          set s2 (started s2) (stopping s2) (alloc s2) (verif s2) (completed s2) (complC_closed s2) (has_pieces s2) (bf s2) (do_verify s2)
              (held s2) (pending s2) (leaked s2) (bf s2) (crashed s2)
        else s2
  | None => s
  end.

(* an external change while the torrent is stopped: the new disk, as the harness sees it *)
Definition mutate (s : life) (fex pk : list bool) : life :=
  {| started := started s; stopping := stopping s; alloc := alloc s; verif := verif s; completed := completed s;
     complC_closed := complC_closed s; has_pieces := has_pieces s; bf := bf s; do_verify := do_verify s;
     held := held s; pending := pending s; leaked := leaked s; persisted := persisted s; fexists := fex; pok := pk; nfiles := nfiles s;
     restart := restart s; crashed := crashed s |}.

(* ---- case codec, kind 401 ----
   in  = [np nf (fexists)*nf (pok)*np] then events:
         1 start | 2 stop | 3 verify | 4 allocation result (had_existing had_missing (padonly)*np (pok after)*np (fexists after)*nf)
         5 verification result | 6 stop announcer done | 7 piece i downloaded | 8 disk changed ((fexists)*nf (pok)*np)
   obs = after every event [status hasbf (bits)*np completed handles doVerify haspersisted (bits)*np crashed] *)
Definition obs_life (s : life) : list Z :=
  let n := np_of s in
  [status s; b2z (match bf s with Some _ => true | None => false end)] ++
  map b2z (match bf s with Some b => b | None => repeat false n end) ++
  [b2z (completed s); (if Z.eqb (status s) 4 then -1 else held s + pending s + leaked s); b2z (do_verify s); b2z (match persisted s with Some _ => true | None => false end)] ++
  map b2z (match persisted s with Some b => b | None => repeat false n end) ++ [b2z (crashed s)].

Inductive levent :=
| EStart | EStop | EVerify
| EAlloc (had_existing had_missing : bool) (padonly pok_after fex_after : list bool)
| EVerDone | EStopped
| EPiece (i : Z)
| EMutate (fex pk : list bool)
| EPersist.                      (* the periodic resume write of the session *)

Definition apply_ev (fixed : bool) (s : life) (e : levent) : life :=
  match e with
  | EStart => do_start fixed s
  | EStop => do_stop fixed s
  | EVerify => do_verify_cmd fixed s
  | EAlloc he hm po pk fx => alloc_done fixed (mutate s fx pk) he hm po
  | EVerDone => verify_done fixed s
  | EStopped => stopped_done fixed s
  | EPiece i => piece_written s i
  | EMutate fx pk => mutate s fx pk
  | EPersist => match bf s with
                | Some b => set s (started s) (stopping s) (alloc s) (verif s) (completed s) (complC_closed s) (has_pieces s) (bf s)
                                (do_verify s) (held s) (pending s) (leaked s) (Some b) (crashed s)
                | None => s
                end
  end.

Definition dec_ev (np nf : nat) (l : list Z) : option (levent * list Z) :=
  match l with
  | 1 :: r => Some (EStart, r)
  | 2 :: r => Some (EStop, r)
  | 3 :: r => Some (EVerify, r)
  | 4 :: he :: hm :: r =>
      match rdn np r with
      | Some (po, r1) => match rdn np r1 with
                         | Some (pk, r2) => match rdn nf r2 with
                                            | Some (fx, r3) => Some (EAlloc (z2b he) (z2b hm) (map z2b po) (map z2b pk) (map z2b fx), r3)
                                            | None => None end
                         | None => None end
      | None => None
      end
  | 5 :: r => Some (EVerDone, r)
  | 6 :: r => Some (EStopped, r)
  | 7 :: i :: r => Some (EPiece i, r)
  | 9 :: r => Some (EPersist, r)
  | 8 :: r => match rdn nf r with
              | Some (fx, r1) => match rdn np r1 with
                                 | Some (pk, r2) => Some (EMutate (map z2b fx) (map z2b pk), r2)
                                 | None => None end
              | None => None end
  | _ => None
  end.

Fixpoint run_life_go (fixed : bool) (fuel : nat) (np nf : nat) (s : life) (l : list Z) : list Z :=
  match fuel with
  | O => []
  | S f =>
    match l with
    | [] => []
    | _ => match dec_ev np nf l with
           | Some (e, rest) => let s' := apply_ev fixed s e in obs_life s' ++ run_life_go fixed f np nf s' rest
           | None => [-779]
           end
    end
  end.

Definition run_life (fixed : bool) (inp : list Z) : list Z :=
  match inp with
  | np :: nf :: r =>
      match rdn (Z.to_nat nf) r with
      | Some (fx, r1) =>
          match rdn (Z.to_nat np) r1 with
          | Some (pk, evs) =>
              let s0 := {| started := false; stopping := false; alloc := false; verif := false; completed := false;
                           complC_closed := false; has_pieces := false; bf := None; do_verify := false; held := 0; pending := 0; leaked := 0;
                           persisted := None; fexists := map z2b fx; pok := map z2b pk; nfiles := nf; restart := false; crashed := false |} in
              obs_life s0 ++ run_life_go fixed (length evs) (Z.to_nat np) (Z.to_nat nf) s0 evs
          | None => [-779]
          end
      | None => [-779]
      end
  | _ => [-779]
  end.

(* ---- the property on the observables (C04): truthful status, commands take effect ----
   checked on what the implementation reported after every event:
   - no crash;
   - Seeding only with every piece in the bitfield;
   - Stopped only with no open data file;
   - a piece in the bitfield has its content on disk, unless the disk was changed behind the
     client's back while every file stayed present (finding K-C04-g, judged by the caller);
   - after a start command the torrent is not Stopped or Stopping (the command was not dropped);
   - after a stop command it is Stopping or Stopped; a verify command leaves doVerify set or the torrent stopping/stopped/checking. *)
Definition obs_len (np : nat) : nat := 2 + np + 4 + np + 1.
Definition mon_one (np : nat) (ev : Z) (o : list Z) : Z :=
  match o with
  | st :: hasbf :: r =>
      let bits := firstn np r in
      match skipn np r with
      | compl :: handles :: dov :: haspers :: r2 =>
          let crashed := nth np r2 0 in
          if negb (crashed =? 0) then 1
          else if (st =? 2) && negb (z2b hasbf && forallb (fun b => negb (b =? 0)) bits) then 2
          else if (st =? 0) && negb (handles =? 0) then 3
          else if (ev =? 1) && (st =? 0) then 4
          else if (ev =? 2) && negb ((st =? 0) || (st =? 6)) then 5
          else if ((st =? 1) || (st =? 2)) && z2b dov then 6     (* a verify request is pending but the torrent runs *)
          else 0
      | _ => 9
      end
  | _ => 9
  end.

(* walks the input events and the observations together; returns the first failing code * 100 + event index, or 0 *)
(* [want]: a start command was given while stopping and neither stop nor verify came since: when the
   stop completes the torrent must start.  [pk]: which pieces on disk are the torrent's content, as
   the harness saw the disk last (events 4 and 8 carry it, a downloaded piece is content) *)
Fixpoint mon_life_go (fuel : nat) (np nf : nat) (k : Z) (want : bool) (pk : list Z) (l obs : list Z) : Z :=
  match fuel with
  | O => 0
  | S f =>
    let o := firstn (obs_len np) obs in
    let rest := skipn (obs_len np) obs in
    match l with
    | [] => 0
    | ev :: r =>
        let skip := if ev =? 4 then (2 + np + np + nf)%nat else if ev =? 7 then 1%nat else if ev =? 8 then (nf + np)%nat else 0%nat in
        let pk' := if ev =? 4 then firstn np (skipn (2 + np) r)
                   else if ev =? 8 then firstn np (skipn nf r)
                   else if ev =? 7 then map (fun kv => if Z.of_nat (fst kv) =? nth 0 r 0 then 1 else snd kv) (combine (seq 0 (length pk)) pk)
                   else pk in
        let c := mon_one np ev o in
        let st := nth 0 o 0 in
        let c := if (c =? 0) && (ev =? 6) && want && (st =? 0) then 4 else c in
        (* Seeding while a piece on disk is not the content *)
        let c := if (c =? 0) && (st =? 2) && negb (forallb (fun b => negb (b =? 0)) pk') then 7 else c in
        let want' := if ev =? 1 then (st =? 6) else if (ev =? 2) || (ev =? 3) || (ev =? 6) then false else want in
        if negb (c =? 0) then c * 100 + k else mon_life_go f np nf (k + 1) want' pk' (skipn skip r) rest
    end
  end.

Definition mon_life_code (inp obs : list Z) : Z :=
  match inp with
  | np :: nf :: r =>
      let n := Z.to_nat np in let m := Z.to_nat nf in
      let evs := skipn (m + n) r in
      (* the first observation is the initial state *)
      mon_life_go (length evs) n m 0 false (firstn n (skipn m r)) evs (skipn (obs_len n) obs)
  | _ => 999
  end.
Definition mon_life (inp obs : list Z) : bool := mon_life_code inp obs =? 0.

(* ---- restart after a crash (C05): what the client believes after it was started on the resume
   database and the files found at the crash instant, given the persisted bitfield, the files that
   exist and, per piece, whether the bytes on disk are the content ---- *)
Definition restart_bits (fixed : bool) (pers : option (list bool)) (padonly pk : list bool) (fex : list bool) : list bool * bool :=
  let he := existsb (fun b => b) fex in
  let hm := existsb negb fex in
  match pers with
  | Some b => if negb hm then (b, true)              (* every file is there: the resume bitfield is trusted *)
              else if negb he then (padonly, true)   (* nothing is there: start from scratch *)
              else (pk, true)                        (* something is missing: everything is re-verified *)
  | None => if negb he then (padonly, true) else (pk, true)
  end.

(* kind 501: in = [np nf (padonly)*np haspers (bits)*np (pok)*np (fex)*nf] ; obs = [status hasbf bits completed crashed] *)
Definition run_restart (fixed : bool) (inp : list Z) : list Z :=
  match inp with
  | np :: nf :: r =>
      let n := Z.to_nat np in let m := Z.to_nat nf in
      match rdn n r with
      | Some (po, hp :: r1) =>
          match rdn n r1 with
          | Some (pb, r2) =>
              match rdn n r2 with
              | Some (pk, r3) =>
                  match rdn m r3 with
                  | Some (fx, _) =>
                      let '(bits, _) := restart_bits fixed (if z2b hp then Some (map z2b pb) else None) (map z2b po) (map z2b pk) (map z2b fx) in
                      let compl := forallb (fun b => b) bits in
                      [(if compl then 2 else 1); 1] ++ map b2z bits ++ [b2z compl; 0]
                  | None => [-779]
                  end
              | None => [-779]
              end
          | None => [-779]
          end
      | _ => [-779]
      end
  | _ => [-779]
  end.

(* the property on the restart: a piece the restarted client holds has its content on disk *)
Definition mon_restart (inp obs : list Z) : bool :=
  match inp with
  | np :: nf :: r =>
      let n := Z.to_nat np in
      let pk := firstn n (skipn (n + 1 + n) r) in
      let bits := firstn n (skipn 2 obs) in
      (nth (2 + n + 1) obs 1 =? 0) &&
      forallb (fun bp => negb (negb (fst bp =? 0) && (snd bp =? 0))) (combine bits pk)
  | _ => false
  end.

(* kind 502: a data file is opened for synchronous writes whether it is created or reopened *)
Definition run_osync (inp : list Z) : list Z := [0; 1; 1; 1].

#!/bin/bash
# confirm_seed.sh <worktree> <dir with patch.diff demo_test.go meta.json> <package dir relative to repo> <seed id>
# Confirms in the scratch worktree: builds + baseline tests pass with the patch; the demo fails
# with it and passes without it.  On success stores the seed under /verif/seeded/<id>/.
set -u
export GOFLAGS=-mod=mod GOPROXY=off GOSUMDB=off GOTOOLCHAIN=local
wt=$1; d=$2; pkg=$3; id=$4
cd $wt && git checkout -q -- . && git clean -fdq
# bring the worktree to /repo's HEAD so the patch is confirmed against the current tree
git checkout -q --detach $(git -C /repo rev-parse HEAD) || exit 2
git apply --check $d/patch.diff || { echo "PATCH DOES NOT APPLY"; exit 2; }
cp $d/demo_test.go $pkg/zz_demo_test.go
RACE=$(python3 -c "import json;print('-race' if json.load(open('$d/meta.json')).get('needs_race') else '')")
echo "-- demo on clean tree (must pass)"
go1.26 test $RACE -vet=off -count=1 -run 'Demo' ./$pkg/ 2>&1 | tail -3; clean_rc=${PIPESTATUS[0]}
git apply $d/patch.diff
echo "-- build with patch"; go1.26 build ./... || { echo BUILD FAILS; exit 2; }
echo "-- demo with patch (must fail)"
go1.26 test $RACE -vet=off -count=1 -run 'Demo' ./$pkg/ 2>&1 | tail -3; mut_rc=${PIPESTATUS[0]}
rm -f $pkg/zz_demo_test.go
echo "-- full suite with patch (stable baseline tests must pass)"
go1.26 test -vet=off -count=1 -json ./... 2>/dev/null > /tmp/seedtest_$id.json
python3 - <<PY
import json
b=json.load(open('/root/.vp/BASELINE.json'))
stable=set(b['stable_pass'])
res={}
for l in open('/tmp/seedtest_$id.json'):
    try: e=json.loads(l)
    except: continue
    if e.get('Test') and e.get('Action') in ('pass','fail','skip'):
        res[e['Package']+'::'+e['Test']]=e['Action']
bad=[t for t in stable if res.get(t)!='pass']
print('stable tests not passing with patch:', len(bad), bad[:5])
open('/tmp/seedtest_$id.verdict','w').write(str(len(bad)))
PY
bad=$(cat /tmp/seedtest_$id.verdict); rm -f /tmp/seedtest_$id.json /tmp/seedtest_$id.verdict
git checkout -q -- . && git clean -fdq
echo "clean_rc=$clean_rc mut_rc=$mut_rc suite_bad=$bad"
if [ "$clean_rc" = 0 ] && [ "$mut_rc" != 0 ] && [ "$bad" = 0 ]; then
  mkdir -p /verif/seeded/$id && cp $d/patch.diff $d/demo_test.go /verif/seeded/$id/
  python3 - <<PY
import json
m=json.load(open('$d/meta.json'))
m['confirmed']={'demo_passes_on_clean_tree':True,'demo_fails_with_patch':True,'stable_baseline_tests_pass_with_patch':True,'package':'$pkg','ran':'bin/confirm_seed.sh (go1.26 build ./..., go1.26 test -vet=off -count=1 -json ./..., demo with and without the patch) in a scratch worktree at /repo HEAD'}
json.dump(m,open('/verif/seeded/$id/meta.json','w'),indent=1)
PY
  echo "CONFIRMED -> /verif/seeded/$id"
else echo "NOT CONFIRMED"; fi

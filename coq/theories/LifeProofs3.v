From RainV Require Import Lib Life LifeProofs LifeProofs2.
From Coq Require Import ZifyBool.

Lemma linv_piece_written s i : LInv s -> LInv (piece_written s i) \/ (status s <> 1 \/ exists b, bf s = Some b /\ nth (Z.to_nat i) b true = true).
Proof.
  intros H. unfold piece_written. destruct (bf s) as [b|] eqn:Eb; [|left; exact H].
  destruct (negb (status s =? 1)) eqn:Eg1; [right; left; apply Bool.negb_true_iff in Eg1; lia|].
  destruct (nth (Z.to_nat i) b true) eqn:Eg2; [right; right; exists b; auto|]. left. cbn [orb].
  apply Bool.negb_false_iff in Eg1. apply Z.eqb_eq in Eg1.
  destruct H as [A B C D F G I J K L M N].
  assert (S1 : started s = true) by (unfold status in Eg1; destruct (started s); [reflexivity|discriminate]).
  assert (S2 : stopping s = false) by (unfold status in Eg1; rewrite S1 in Eg1; destruct (stopping s); [discriminate|reflexivity]).
  assert (S3 : alloc s = false) by (unfold status in Eg1; rewrite S1, S2 in Eg1; destruct (alloc s); [discriminate|reflexivity]).
  assert (S4 : verif s = false) by (unfold status in Eg1; rewrite S1, S2, S3 in Eg1; destruct (verif s); [discriminate|reflexivity]).
  assert (S5 : completed s = false) by (unfold status in Eg1; rewrite S1, S2, S3, S4 in Eg1; destruct (completed s); [discriminate|reflexivity]).
  destruct (F S1 S2 S3 S4) as (F1 & F2 & F3).
  match goal with |- context [check_completion ?x] => set (s1 := x) in * end.
  assert (R1 : LInv s1).
  { apply linv_running; subst s1; cbn; try assumption; try congruence.
    - rewrite G, F1. reflexivity.
    - rewrite I, S3. reflexivity.
    - exists (setb b (Z.to_nat i) true). split; [reflexivity|]. rewrite S5. intros X; discriminate. }
  assert (R2 : LInv (check_completion s1)) by (apply linv_check_completion; subst s1; cbn; auto).
  destruct (completed (check_completion s1) && negb (completed s1) && negb (crashed (check_completion s1))); [|exact R2].
  destruct R2 as [A2 B2 C2 D2 F2' G2 I2 J2 K2 L2 M2 N2]. constructor; cbn; auto.
Qed.

(* an observed "piece i downloaded" is legal when the torrent is downloading and does not have the piece *)
Definition legal (s : life) (e : levent) : Prop :=
  match e with
  | EPiece i => status s = 1 /\ match bf s with Some b => nth (Z.to_nat i) b true = false | None => True end
  | _ => True
  end.

Fixpoint run_evs (fixed : bool) (s : life) (es : list levent) : life :=
  match es with [] => s | e :: r => run_evs fixed (apply_ev fixed s e) r end.
Fixpoint all_legal (fixed : bool) (s : life) (es : list levent) : Prop :=
  match es with [] => True | e :: r => legal s e /\ all_legal fixed (apply_ev fixed s e) r end.

Lemma linv_apply s e : LInv s -> legal s e -> LInv (apply_ev true s e).
Proof.
  intros H Hl. destruct e; cbn [apply_ev].
  - apply linv_start; exact H.
  - apply linv_stop; exact H.
  - apply linv_verify_cmd; exact H.
  - apply linv_alloc_done. apply linv_mutate. exact H.
  - apply linv_verify_done; exact H.
  - apply linv_stopped_done; exact H.
  - destruct (linv_piece_written s i H) as [R|[R|(b & Eb & R)]]; [exact R| |]; cbn in Hl; destruct Hl as [L1 L2]; [congruence|].
    rewrite Eb in L2. congruence.
  - apply linv_mutate; exact H.
  - destruct H as [A B C D F G I J K L M N]. destruct (bf s) eqn:Eb; [|constructor; rewrite ?Eb; assumption]. constructor; cbn; rewrite ?Eb; auto.
Qed.

Definition life_init (fx pk : list bool) (nf : Z) : life :=
  {| started := false; stopping := false; alloc := false; verif := false; completed := false;
     complC_closed := false; has_pieces := false; bf := None; do_verify := false; held := 0; pending := 0; leaked := 0;
     persisted := None; fexists := fx; pok := pk; nfiles := nf; restart := false; crashed := false |}.

Theorem life_inv fx pk nf es : all_legal true (life_init fx pk nf) es -> LInv (run_evs true (life_init fx pk nf) es).
Proof.
  pose proof (linv_init fx pk nf) as H. change (LInv (life_init fx pk nf)) in H. revert H. generalize (life_init fx pk nf).
  induction es as [|e r IH]; intros s H Hl; cbn in *; [exact H|]. destruct Hl as [L1 L2]. apply IH; [apply linv_apply; assumption|exact L2].
Qed.

(* the statements of C04 on every reachable state of the repaired code *)
Theorem life_truthful fx pk nf es : all_legal true (life_init fx pk nf) es ->
  let s := run_evs true (life_init fx pk nf) es in
  crashed s = false /\
  (status s = 2 -> exists b, bf s = Some b /\ all_true b = true) /\
  (status s = 0 \/ status s = 6 -> held s + pending s + leaked s = 0) /\
  (status s = 1 \/ status s = 2 -> do_verify s = false).
Proof.
  intros Hl. cbn zeta. pose proof (life_inv fx pk nf es Hl) as [A B C D F G I J K L M N].
  set (s := run_evs true (life_init fx pk nf) es) in *. split; [exact A|]. unfold status. split; [|split].
  - destruct (started s) eqn:S1; [|discriminate]. destruct (stopping s) eqn:S2; [discriminate|].
    destruct (alloc s) eqn:S3; [discriminate|]. destruct (verif s) eqn:S4; [discriminate|]. destruct (completed s) eqn:S5; [|discriminate].
    intros _. specialize (C eq_refl). destruct (F eq_refl eq_refl eq_refl eq_refl) as (_ & F2 & _). destruct (bf s) as [b|]; [exists b; auto|congruence].
  - intros Hs. assert (Hd : started s = false \/ stopping s = true).
    { destruct (started s); [|left; reflexivity]. destruct (stopping s); [right; reflexivity|]. destruct (alloc s), (verif s), (completed s); destruct Hs; discriminate. }
    destruct (D Hd) as (D1 & D2 & D3). rewrite G, I, J, D1, D2. reflexivity.
  - intros Hs. destruct (started s) eqn:S1; [|destruct Hs; discriminate]. destruct (stopping s) eqn:S2; [destruct Hs; discriminate|].
    destruct (alloc s) eqn:S3; [destruct Hs; discriminate|]. destruct (verif s) eqn:S4; [destruct Hs; discriminate|].
    destruct (F eq_refl eq_refl eq_refl eq_refl) as (_ & _ & F3). exact F3.
Qed.

(* ---- the pinned handlers violate each clause: witnesses (replayed by kind 401) ---- *)
Definition w_complete : list levent :=
  [EStart; EAlloc true false [false] [true] [true]; EVerDone; EStop; EStopped].

Theorem pinned_crashes_on_second_completion :
  crashed (run_evs false (life_init [true] [true] 1)
             (w_complete ++ [EMutate [true] [false]; EVerify; EAlloc true false [false] [false] [true]; EVerDone; EStopped;
                             EStart; EAlloc true false [false] [false] [true]; EPiece 0])) = true.
Proof. vm_compute. reflexivity. Qed.

Theorem pinned_seeds_without_data :
  let s := run_evs false (life_init [true] [true] 1)
             (w_complete ++ [EMutate [false] [false]; EStart; EAlloc false true [false] [false] [true]]) in
  status s = 2 /\ bf s = Some [false].
Proof. vm_compute. split; reflexivity. Qed.

Theorem pinned_drops_start_while_stopping :
  status (run_evs false (life_init [false] [false] 1) [EStart; EStop; EStart; EStopped]) = 0 /\
  status (run_evs true (life_init [false] [false] 1) [EStart; EStop; EStart; EStopped]) = 4.
Proof. vm_compute. split; reflexivity. Qed.

Theorem pinned_verify_without_data_downloads :
  let s := run_evs false (life_init [false] [false] 1) [EVerify; EAlloc false true [false] [false] [true]] in
  status s = 1 /\ do_verify s = true.
Proof. vm_compute. split; reflexivity. Qed.

Theorem pinned_leaks_handles :
  let s := run_evs false (life_init [false] [false] 1) [EStart; EStop; EStopped] in
  status s = 0 /\ held s + pending s + leaked s = 1.
Proof. vm_compute. split; reflexivity. Qed.

Example life_nonvacuous : all_legal true (life_init [true] [true] 1) (w_complete ++ [EStart; EAlloc true false [false] [true] [true]]).
Proof. vm_compute. repeat split. Qed.

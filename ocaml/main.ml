(* Generic driver: one case per line  "kind|in ints|obs ints"  ->  "kind|expected ints|mon(0/1)".
   Integers are decimal; converted to/from the extracted binary Z exactly (no OCaml int cap). *)
open Model

let rec pos_of_int n = if n = 1 then XH else if n land 1 = 0 then XO (pos_of_int (n lsr 1)) else XI (pos_of_int (n lsr 1))
let z_of_small n = if n = 0 then Z0 else if n > 0 then Zpos (pos_of_int n) else Zneg (pos_of_int (-n))
let ten = z_of_small 10
let z_of_string s =
  let neg = String.length s > 0 && s.[0] = '-' in
  let st = if neg then 1 else 0 in
  if String.length s - st <= 17 then z_of_small (int_of_string s) else begin
    let acc = ref Z0 in
    for i = st to String.length s - 1 do
      acc := Z.add (Z.mul !acc ten) (z_of_small (Char.code s.[i] - 48))
    done;
    if neg then Z.opp !acc else !acc end
let rec int_of_pos = function XH -> 1 | XO p -> 2 * int_of_pos p | XI p -> 2 * int_of_pos p + 1
let rec pos_bits = function XH -> 1 | XO p | XI p -> 1 + pos_bits p
let string_of_z z =
  let small p = pos_bits p <= 60 in
  match z with
  | Z0 -> "0"
  | Zpos p when small p -> string_of_int (int_of_pos p)
  | Zneg p when small p -> string_of_int (- (int_of_pos p))
  | _ ->
    let neg = (match z with Zneg _ -> true | _ -> false) in
    let a = ref (Z.abs z) and b = Buffer.create 32 in
    let digs = ref [] in
    while !a <> Z0 do
      let (q, r) = Z.div_eucl !a ten in
      digs := (match r with Z0 -> 0 | Zpos p -> int_of_pos p | Zneg _ -> 0) :: !digs; a := q
    done;
    if neg then Buffer.add_char b '-';
    List.iter (fun d -> Buffer.add_string b (string_of_int d)) !digs; Buffer.contents b

let ints s = List.filter (fun x -> x <> "") (String.split_on_char ' ' s) |> List.map z_of_string
let () =
  try while true do
    let line = input_line stdin in
    match String.split_on_char '|' line with
    | [k; i; o] ->
      let kz = z_of_string (String.trim k) in
      let inp = ints i and obs = ints o in
      let exp = run kz inp in
      let m = mon kz inp obs in
      print_string (String.trim k); print_char '|';
      print_string (String.concat " " (List.map string_of_z exp));
      print_char '|'; print_string (if m then "1" else "0"); print_newline ()
    | _ -> print_endline "ERR|bad line|0"
  done with End_of_file -> ()

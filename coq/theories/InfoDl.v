(* Model of internal/infodownloader: assembling metadata of announced size from one peer.
   Definitions only. *)
From RainV Require Import Lib.

Definition mblock : Z := 16384.

Record iblock := { b_size : Z; b_requested : bool }.
Record idl := { i_bytes : list Z; i_blocks : list iblock; i_pending : Z; i_next : Z }.

Definition num_blocks (size : Z) : Z := size / mblock + (if size mod mblock =? 0 then 0 else 1).

Definition create_blocks (size : Z) : list iblock :=
  let n := num_blocks size in
  let md := size mod mblock in
  map (fun k => {| b_size := if (Z.of_nat k =? n - 1) && negb (md =? 0) then md else mblock; b_requested := false |})
      (seq 0 (Z.to_nat n)).

Definition idl_new (size : Z) : idl :=
  {| i_bytes := repeat 0 (Z.to_nat size); i_blocks := create_blocks size; i_pending := 0; i_next := 0 |}.

Inductive ires := IOk | IErrIndex | IErrUnrequested | IErrSize.

Definition set_req (l : list iblock) (i : Z) : list iblock :=
  map (fun kb => if Z.of_nat (fst kb) =? i then {| b_size := b_size (snd kb); b_requested := true |} else snd kb)
      (combine (seq 0 (length l)) l).

(* RequestBlocks(queueLength): returns the indexes requested *)
Fixpoint request_blocks (fuel : nat) (d : idl) (q : Z) (acc : list Z) : idl * list Z :=
  match fuel with
  | O => (d, acc)
  | S f =>
    if (i_next d <? zlen (i_blocks d)) && (i_pending d <? q) then
      request_blocks f {| i_bytes := i_bytes d; i_blocks := set_req (i_blocks d) (i_next d);
                          i_pending := i_pending d + 1; i_next := i_next d + 1 |} q (acc ++ [i_next d])
    else (d, acc)
  end.

Definition splice (bytes : list Z) (begin : Z) (data : list Z) : list Z :=
  firstn (Z.to_nat begin) bytes ++ data ++ skipn (Z.to_nat begin + length data) bytes.

Definition got_block (d : idl) (index : Z) (data : list Z) : idl * ires :=
  if (index <? 0) || (index >=? zlen (i_blocks d)) then (d, IErrIndex) else
  let b := nth (Z.to_nat index) (i_blocks d) {| b_size := 0; b_requested := false |} in
  if negb (b_requested b) then (d, IErrUnrequested) else
  if negb (zlen data =? b_size b) then (d, IErrSize) else
  ({| i_bytes := splice (i_bytes d) (index * mblock) data; i_blocks := i_blocks d;
      i_pending := i_pending d - 1; i_next := i_next d |}, IOk).

Definition idl_done (d : idl) : bool := (i_next d =? zlen (i_blocks d)) && (i_pending d =? 0).

(* ---- case codec, kind 1301 ----
   in = [size; ops...]; ops: 1 q = RequestBlocks(q) | 2 index n b = GotBlock(index, n bytes all equal to b)
   obs per op: request -> [count; indexes...] ; got -> [result code] ; then [done; checksum of Bytes] *)
(* content probe: first and last byte of every 16 KiB block (block data is constant in the cases) *)
Definition checksum (l : list Z) : Z :=
  let n := zlen l in
  fold_left (fun a k => let lo := Z.of_nat k * mblock in let hi := Z.min n (lo + mblock) - 1 in
                        ((a * 256 + nth (Z.to_nat lo) l 0) * 256 + nth (Z.to_nat hi) l 0) mod 1000003)
            (seq 0 (Z.to_nat ((n + mblock - 1) / mblock))) 1.

Definition res_code (r : ires) : Z := match r with IOk => 0 | IErrIndex => 1 | IErrUnrequested => 2 | IErrSize => 3 end.

Fixpoint run_idl_go (fuel : nat) (d : idl) (l : list Z) : list Z :=
  match fuel with
  | O => []
  | S f =>
    match l with
    | 1 :: q :: r => let '(d', idx) := request_blocks (S (length (i_blocks d))) d q [] in
                     zlen idx :: idx ++ b2z (idl_done d') :: checksum (i_bytes d') :: run_idl_go f d' r
    | 2 :: index :: n :: b :: r =>
        let '(d', res) := got_block d index (repeat b (Z.to_nat n)) in
        res_code res :: b2z (idl_done d') :: checksum (i_bytes d') :: run_idl_go f d' r
    | _ => []
    end
  end.

Definition run_idl (inp : list Z) : list Z :=
  match inp with
  | size :: r => run_idl_go (length r) (idl_new size) r
  | [] => []
  end.

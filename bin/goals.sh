#!/bin/bash
# usage: goals.sh <file.v> <line>  -- show goals after line N of the file
f=$1; n=$2; t=/verif/.work/goals_$$.v; mkdir -p /verif/.work
head -n $n $f > $t; echo "Show." >> $t
cd /verif/coq && timeout ${GT:-120} coqc -Q theories RainV $t 2>&1 | head -${3:-60}; rm -f /verif/.work/goals_$$.* /verif/.work/.goals_$$.*

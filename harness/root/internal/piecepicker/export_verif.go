//go:build verif

package piecepicker

import "github.com/cenkalti/rain/v2/internal/peer"

// EdgeFlags returns the FileHead / FileTail marks computed at construction.
func (p *PiecePicker) EdgeFlags() (head, tail []bool) {
	for i := range p.pieces {
		head = append(head, p.pieces[i].FileHead)
		tail = append(tail, p.pieces[i].FileTail)
	}
	return
}

// Endgame returns the end-game flag (used only to localise a difference).
func (p *PiecePicker) Endgame() bool { return p.endgame }

// MaxWebseedPieces returns the gap length limit computed at construction.
func (p *PiecePicker) MaxWebseedPieces() int { return p.maxWebseedPieces }

// StalledMarks returns the peers in the Snubbed and Choked sets of piece i.
func (p *PiecePicker) StalledMarks(i uint32) (snubbed, choked []*peer.Peer) {
	return p.pieces[i].Snubbed.Items, p.pieces[i].Choked.Items
}

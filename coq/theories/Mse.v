(* Message stream encryption (internal/mse/mse.go) at the byte level, and the encryption policy of
   internal/btconn (Accept, Dial).  The Diffie-Hellman exchange and SHA-1 are oracles: each side is given
   the 20-byte values it derives from its own secret S (req1, req2, req3 and the two RC4 keys); RC4 itself
   is modelled.  Each party is a function from its own choices and the bytes it receives (with the sizes
   of the chunks the transport hands over) to the bytes it sends, the outcome and the stream state.
   Definitions only. *)
From RainV Require Import Lib.

(* ---- RC4 ---- *)
(* the 256-entry state as a complete binary tree, so that a swap costs a few steps *)
Inductive sbox := Lf (v : Z) | Nd (l r : sbox).
Definition half_of (d : nat) : Z :=
  match d with 0%nat => 1 | 1%nat => 2 | 2%nat => 4 | 3%nat => 8 | 4%nat => 16 | 5%nat => 32 | 6%nat => 64 | _ => 128 end.
(* d = the depth below the current node *)
Fixpoint sget (t : sbox) (d : nat) (i : Z) : Z :=
  match t with
  | Lf v => v
  | Nd l r => if i <? half_of d then sget l (pred d) i else sget r (pred d) (i - half_of d)
  end.
Fixpoint sset (t : sbox) (d : nat) (i v : Z) : sbox :=
  match t with
  | Lf _ => Lf v
  | Nd l r => if i <? half_of d then Nd (sset l (pred d) i v) r else Nd l (sset r (pred d) (i - half_of d) v)
  end.
Fixpoint sident (d : nat) (base : Z) : sbox :=
  match d with O => Lf base | S d' => Nd (sident d' base) (sident d' (base + 2 ^ Z.of_nat d')) end.
Definition lget (s : sbox) (i : Z) : Z := sget s 7 i.
Definition swap (s : sbox) (i j : Z) : sbox :=
  let a := lget s i in let b := lget s j in sset (sset s 7 i b) 7 j a.
Fixpoint kget (l : list Z) (n : nat) : Z := match l, n with x :: _, O => x | _ :: r, S k => kget r k | [], _ => 0 end.

Record rc4 := { r_i : Z; r_j : Z; r_s : sbox }.

Fixpoint ksa (n : nat) (key : list Z) (i j : Z) (s : sbox) : sbox :=
  match n with
  | O => s
  | S n' => let j' := Z.land (j + lget s i + kget key (Z.to_nat (i mod zlen key))) 255 in
            ksa n' key (i + 1) j' (swap s i j')
  end.

Definition rc4_step (st : rc4) : Z * rc4 :=
  let i := Z.land (r_i st + 1) 255 in
  let j := Z.land (r_j st + lget (r_s st) i) 255 in
  let s := swap (r_s st) i j in
  (lget s (Z.land (lget s i + lget s j) 255), {| r_i := i; r_j := j; r_s := s |}).

Fixpoint rc4_xor (st : rc4) (d : list Z) : list Z * rc4 :=
  match d with
  | [] => ([], st)
  | x :: r => let '(k, st1) := rc4_step st in let '(o, st2) := rc4_xor st1 r in (Z.lxor x k :: o, st2)
  end.

(* the cipher as the handshake sets it up: key schedule, then the first 1024 bytes are discarded *)
Definition rc4_init (key : list Z) : rc4 :=
  snd (rc4_xor {| r_i := 0; r_j := 0; r_s := ksa 256 key 0 0 (sident 8 0) |} (repeat 0 1024)).

(* ---- stream ciphers of a connection: RC4 or the identity ---- *)
Inductive cph := CRc4 (st : rc4) | CPlain.
Definition cxor (c : cph) (d : list Z) : list Z * cph :=
  match c with CRc4 st => let '(o, st') := rc4_xor st d in (o, CRc4 st') | CPlain => (d, CPlain) end.

(* ---- wire helpers ---- *)
Definition be16 (n : Z) : list Z := [(n / 256) mod 256; n mod 256].
Definition be32 (n : Z) : list Z := [(n / 16777216) mod 256; (n / 65536) mod 256; (n / 256) mod 256; n mod 256].
Definition of_be (l : list Z) : Z := fold_left (fun a b => a * 256 + b) l 0.
Definition vc : list Z := repeat 0 8.
Definition zeros (n : Z) : list Z := repeat 0 (Z.to_nat n).

Definition take (n : Z) (s : list Z) : option (list Z * list Z) :=
  if zlen s <? n then None else Some (firstn (Z.to_nat n) s, skipn (Z.to_nat n) s).

(* io.ReadAtLeast(conn, buf[608], 96) over a transport that hands over the given chunks *)
Fixpoint first_read (chunks : list Z) (acc : Z) : option Z :=
  if 96 <=? acc then Some acc
  else match chunks with
       | [] => None
       | c :: r => first_read r (acc + Z.min c (608 - acc))
       end.

(* readSync: a sliding window of len(key) bytes, at most max bytes read in all *)
Fixpoint sync_loop (key win : list Z) (max : Z) (rest : list Z) {struct rest} : option (list Z) :=
  if list_eqb_Z win key then Some rest
  else if max <=? 0 then None
  else match rest with
       | [] => None
       | b :: r => sync_loop key (tl win ++ [b]) (max - 1) r
       end.
(* outcome: the stream after the key | 2 = not found within the bound | 7 = the stream ended *)
Fixpoint sync_loop_err (key win : list Z) (max : Z) (rest : list Z) {struct rest} : Z :=
  if list_eqb_Z win key then 0
  else if max <=? 0 then 2
  else match rest with
       | [] => 7
       | b :: r => sync_loop_err key (tl win ++ [b]) (max - 1) r
       end.
Definition read_sync (key : list Z) (max : Z) (s : list Z) : option (list Z) :=
  match take (zlen key) s with
  | Some (w, rest) => sync_loop key w (max - zlen key) rest
  | None => None
  end.
Definition read_sync_err (key : list Z) (max : Z) (s : list Z) : Z :=
  match take (zlen key) s with
  | Some (w, rest) => sync_loop_err key w (max - zlen key) rest
  | None => 7
  end.

Definition is_pow2 (x : Z) : bool := negb (x =? 0) && (Z.land x (x - 1) =? 0).
Definition sel_valid (sel provide : Z) : bool := is_pow2 sel && negb (Z.land sel provide =? 0).

(* the responder's choice.  policy 0: btconn.Accept without force (RC4 when offered, else plaintext when
   offered); 1: with force (RC4 or nothing); 2: a callback answering the constant k *)
Definition sel_policy (pol k provided : Z) : Z :=
  if pol =? 2 then k
  else if negb (Z.land provided 2 =? 0) then 2
  else if negb (Z.land provided 1 =? 0) && (pol =? 0) then 1
  else 0.

(* what a side knows after deriving its secret *)
Record oracle := { o_req1 : list Z; o_req2 : list Z; o_req3 : list Z; o_keyA : list Z; o_keyB : list Z }.

Record party_out := { p_sent1 : list Z;            (* first message *)
                      p_sent2 : list Z;            (* second message ([] when not reached) *)
                      p_err : Z;                   (* 0 = handshake completed *)
                      p_sel : Z;                   (* selected cipher *)
                      p_ia : list Z;               (* initial payload received (responder) *)
                      p_rest : list Z;             (* received bytes not yet consumed *)
                      p_enc : cph; p_dec : cph }.  (* the stream ciphers after the handshake *)

Definition failed (s1 s2 : list Z) (e : Z) : party_out :=
  {| p_sent1 := s1; p_sent2 := s2; p_err := e; p_sel := 0; p_ia := []; p_rest := []; p_enc := CPlain; p_dec := CPlain |}.

Definition cipher_for (sel : Z) (c : rc4) : cph := if sel =? 1 then CPlain else CRc4 c.

(* ---- the initiator (HandshakeOutgoing) ---- *)
Definition initiator (ya padA : list Z) (provide lenC : Z) (ia : list Z) (o : oracle)
                     (incoming chunks : list Z) : party_out :=
  if provide =? 0 then failed [] [] 5
  else if 65535 <? zlen ia then failed [] [] 8
  else
    let m1 := ya ++ padA in
    match first_read chunks 0 with
    | None => failed m1 [] 7
    | Some f =>
        let enc0 := rc4_init (o_keyA o) in
        let dec0 := rc4_init (o_keyB o) in
        let '(body, enc1) := rc4_xor enc0 (vc ++ be32 provide ++ be16 lenC ++ zeros lenC ++ be16 (zlen ia) ++ ia) in
        let m3 := o_req1 o ++ map (fun p => Z.lxor (fst p) (snd p)) (combine (o_req2 o) (o_req3 o)) ++ body in
        let '(vcenc, dec1) := rc4_xor dec0 vc in
        let rest := skipn (Z.to_nat f) incoming in
        match read_sync vcenc (616 - f) rest with
        | None => failed m1 m3 (read_sync_err vcenc (616 - f) rest)
        | Some r1 =>
            match take 4 r1 with
            | None => failed m1 m3 7
            | Some (b4, r2) =>
                let '(selb, dec2) := rc4_xor dec1 b4 in
                let sel := of_be selb in
                if negb (sel_valid sel provide) then failed m1 m3 6
                else match take 2 r2 with
                     | None => failed m1 m3 7
                     | Some (b2, r3) =>
                         let '(lenb, dec3) := rc4_xor dec2 b2 in
                         match take (of_be lenb) r3 with
                         | None => failed m1 m3 7
                         | Some (pd, r4) =>
                             let '(_, dec4) := rc4_xor dec3 pd in
                             {| p_sent1 := m1; p_sent2 := m3; p_err := 0; p_sel := sel; p_ia := []; p_rest := r4;
                                p_enc := cipher_for sel enc1; p_dec := cipher_for sel dec4 |}
                         end
                     end
            end
        end
    end.

(* ---- the responder (HandshakeIncoming) ---- *)
Definition responder (yb padB : list Z) (lenD pol polk : Z) (o : oracle) (known : list Z)
                     (incoming chunks : list Z) : party_out :=
  match first_read chunks 0 with
  | None => failed [] [] 7
  | Some f =>
      let m2 := yb ++ padB in
      let rest := skipn (Z.to_nat f) incoming in
      match read_sync (o_req1 o) (628 - f) rest with
      | None => failed m2 [] (read_sync_err (o_req1 o) (628 - f) rest)
      | Some r1 =>
          match take 20 r1 with
          | None => failed m2 [] 7
          | Some (h, r2) =>
              if negb (list_eqb_Z (map (fun p => Z.lxor (fst p) (snd p)) (combine h (o_req3 o))) known) then failed m2 [] 3
              else
                let enc0 := rc4_init (o_keyB o) in
                let dec0 := rc4_init (o_keyA o) in
                match take 8 r2 with
                | None => failed m2 [] 7
                | Some (b8, r3) =>
                    let '(v, dec1) := rc4_xor dec0 b8 in
                    if negb (list_eqb_Z v vc) then failed m2 [] 4
                    else match take 4 r3 with
                         | None => failed m2 [] 7
                         | Some (b4, r4) =>
                             let '(pb, dec2) := rc4_xor dec1 b4 in
                             let provide := of_be pb in
                             if provide =? 0 then failed m2 [] 5
                             else
                               let sel := sel_policy pol polk provide in
                               if negb (sel_valid sel provide) then failed m2 [] 6
                               else match take 2 r4 with
                                    | None => failed m2 [] 7
                                    | Some (b2, r5) =>
                                        let '(lc, dec3) := rc4_xor dec2 b2 in
                                        match take (of_be lc) r5 with
                                        | None => failed m2 [] 7
                                        | Some (pc, r6) =>
                                            let '(_, dec4) := rc4_xor dec3 pc in
                                            match take 2 r6 with
                                            | None => failed m2 [] 7
                                            | Some (b2', r7) =>
                                                let '(li, dec5) := rc4_xor dec4 b2' in
                                                match take (of_be li) r7 with
                                                | None => failed m2 [] 7
                                                | Some (iab, r8) =>
                                                    let '(iap, dec6) := rc4_xor dec5 iab in
                                                    let '(m4, enc1) := rc4_xor enc0 (vc ++ be32 sel ++ be16 lenD ++ zeros lenD) in
                                                    {| p_sent1 := m2; p_sent2 := m4; p_err := 0; p_sel := sel; p_ia := iap; p_rest := r8;
                                                       p_enc := cipher_for sel enc1; p_dec := cipher_for sel dec6 |}
                                                end
                                            end
                                        end
                                    end
                         end
                end
          end
      end
  end.

(* ---- two real parties over a transport (the honest run) ---- *)
Record run2 := { u_a : party_out; u_b : party_out }.

Definition honest (ya padA : list Z) (provide lenC : Z) (ia : list Z) (oa : oracle)
                  (yb padB : list Z) (lenD pol polk : Z) (ob : oracle) (known : list Z)
                  (chunksAB chunksBA : list Z) : run2 :=
  (* what A sends does not depend on what it receives beyond "at least 96 bytes arrived" *)
  let a0 := initiator ya padA provide lenC ia oa (yb ++ padB) chunksBA in
  let b := responder yb padB lenD pol polk ob known (p_sent1 a0 ++ p_sent2 a0) chunksAB in
  let a := initiator ya padA provide lenC ia oa (p_sent1 b ++ p_sent2 b) chunksBA in
  {| u_a := a; u_b := b |}.

(* application data after the handshake: what goes on the wire and what the other side reads *)
Definition send (p : party_out) (d : list Z) : list Z := fst (cxor (p_enc p) d).
Definition recv (p : party_out) (wire : list Z) : list Z := fst (cxor (p_dec p) (p_rest p ++ wire)).

(* ---- the encryption policy of btconn ---- *)
(* Accept.  first20 = whether the first 20 bytes are the BitTorrent protocol string; the MSE outcome is the
   responder's (pol = force); result: 0 = refused, 1 = accepted in clear, 2 = accepted RC4 *)
Definition accept_policy (force has_skey is_plain_bt : bool) (mse_err mse_sel : Z) : Z :=
  if is_plain_bt then (if force then 0 else 1)
  else if negb has_skey then 0
  else if negb (mse_err =? 0) then 0
  else if mse_sel =? 2 then 2
  else if force then 0 else 1.

(* Dial.  enable = not DisableOutgoingEncryption; the peer either completes MSE with cipher sel (mse_err = 0)
   or fails it; plain_ok = a plaintext redial succeeds.  result as above; second component: a clear-text
   connection was attempted *)
Definition dial_provide (force : bool) : Z := if force then 2 else 3.
Definition dial_policy (enable force : bool) (mse_err mse_sel : Z) (plain_ok : bool) : Z * bool :=
  if enable then
    if mse_err =? 0 then (if mse_sel =? 2 then (2, false) else (1, false))
    else if force then (0, false)
    else ((if plain_ok then 1 else 0), true)
  else ((if plain_ok then 1 else 0), true).

(* ---- the cases of the correspondence check ---- *)
Definition rd_oracle (l : list Z) : option (oracle * list Z) :=
  match rdlist l with Some (a, l1) =>
  match rdlist l1 with Some (b, l2) =>
  match rdlist l2 with Some (c, l3) =>
  match rdlist l3 with Some (d, l4) =>
  match rdlist l4 with Some (e, l5) => Some ({| o_req1 := a; o_req2 := b; o_req3 := c; o_keyA := d; o_keyB := e |}, l5)
  | None => None end | None => None end | None => None end | None => None end | None => None end.

Definition put (b : list Z) : list Z := zlen b :: b.

(* kind 1201 *)
Definition run_mse_honest (inp : list Z) : list Z :=
  match rdlist inp with Some (ya, l1) =>
  match rdlist l1 with Some (padA, provide :: lenC :: l2) =>
  match rdlist l2 with Some (ia, l3) =>
  match rd_oracle l3 with Some (oa, l4) =>
  match rdlist l4 with Some (yb, l5) =>
  match rdlist l5 with Some (padB, lenD :: pol :: polk :: l6) =>
  match rd_oracle l6 with Some (ob, l7) =>
  match rdlist l7 with Some (known, l8) =>
  match rdlist l8 with Some (cab, l9) =>
  match rdlist l9 with Some (cba, l10) =>
  match rdlist l10 with Some (dataA, l11) =>
  match rdlist l11 with Some (dataB, _) =>
    let r := honest ya padA provide lenC ia oa yb padB lenD pol polk ob known cab cba in
    let a := u_a r in let b := u_b r in
    let ok := (p_err a =? 0) && (p_err b =? 0) in
    let wa := if ok then send a dataA else [] in
    let wb := if ok then send b dataB else [] in
    [p_err a; p_sel a; p_err b; p_sel b] ++
    put (p_sent1 a ++ p_sent2 a ++ wa) ++ put (p_sent1 b ++ p_sent2 b ++ wb) ++
    put (p_ia b) ++ put (if ok then recv b wa else []) ++ put (if ok then recv a wb else [])
  | _ => [-779] end | _ => [-779] end | _ => [-779] end | _ => [-779] end
  | _ => [-779] end | _ => [-779] end | _ => [-779] end | _ => [-779] end
  | _ => [-779] end | _ => [-779] end | _ => [-779] end | _ => [-779] end.

(* kind 1202: the real responder on a scripted stream *)
Definition run_mse_responder (inp : list Z) : list Z :=
  match rdlist inp with Some (yb, l1) =>
  match rdlist l1 with Some (padB, lenD :: pol :: polk :: l2) =>
  match rd_oracle l2 with Some (ob, l3) =>
  match rdlist l3 with Some (known, l4) =>
  match rdlist l4 with Some (incoming, l5) =>
  match rdlist l5 with Some (chunks, l6) =>
  match rdlist l6 with Some (dataB, _) =>
    let b := responder yb padB lenD pol polk ob known incoming chunks in
    let ok := p_err b =? 0 in
    [p_err b; p_sel b] ++ put (p_sent1 b ++ p_sent2 b ++ (if ok then send b dataB else [])) ++
    put (if ok then p_ia b ++ recv b [] else [])
  | _ => [-779] end | _ => [-779] end | _ => [-779] end | _ => [-779] end
  | _ => [-779] end | _ => [-779] end | _ => [-779] end.

(* kind 1203: the real initiator on a scripted stream *)
Definition run_mse_initiator (inp : list Z) : list Z :=
  match rdlist inp with Some (ya, l1) =>
  match rdlist l1 with Some (padA, provide :: lenC :: l2) =>
  match rdlist l2 with Some (ia, l3) =>
  match rd_oracle l3 with Some (oa, l4) =>
  match rdlist l4 with Some (incoming, l5) =>
  match rdlist l5 with Some (chunks, l6) =>
  match rdlist l6 with Some (dataA, _) =>
    let a := initiator ya padA provide lenC ia oa incoming chunks in
    let ok := p_err a =? 0 in
    [p_err a; p_sel a] ++ put (p_sent1 a ++ p_sent2 a ++ (if ok then send a dataA else [])) ++
    put (if ok then recv a [] else [])
  | _ => [-779] end | _ => [-779] end | _ => [-779] end | _ => [-779] end
  | _ => [-779] end | _ => [-779] end | _ => [-779] end.

(* kind 1204: in = [mode fi fo do peer provide] *)
Definition run_enc_policy (inp : list Z) : list Z :=
  match inp with
  | [mode; fi; fo; do; peer; provide] =>
      if mode =? 0 then
        let force := z2b fi in
        let sel := sel_policy (if force then 1 else 0) 0 provide in
        let mse_err := if sel_valid sel provide then 0 else 6 in
        let c := accept_policy force true (peer =? 0) mse_err sel in
        [c; b2z (c =? 1); b2z (negb (c =? 0))]
      else
        let force := z2b fo in
        let enable := negb (z2b do) in
        let provide := dial_provide force in
        (* what the scripted peer does with an MSE attempt / with a clear-text attempt *)
        let mse_err := if (peer =? 1) || (peer =? 2) then 0 else if peer =? 3 then 6 else 7 in
        let mse_sel := if peer =? 1 then 2 else if peer =? 2 then (if Z.land provide 1 =? 0 then 2 else 1) else 0 in
        let plain_ok := peer =? 0 in
        let '(c, clear) := dial_policy enable force mse_err mse_sel plain_ok in
        [c; (if enable && clear then 2 else 1); b2z (negb enable); b2z (enable && clear)]
  | _ => [-779]
  end.

(* Model of internal/blocklist/stree (segment tree over closed uint32 intervals) and of
   internal/blocklist (CIDR rules, reload).  Definitions only. *)
From RainV Require Import Lib.

Definition two32s : Z := 4294967296.

Record seg := { sfrom : Z; sto : Z }.
Record itv := { iid : Z; iseg : seg }.

(* insertNodes creates either no child or both children, so a node is a leaf or a binary node *)
Inductive tree :=
| Leaf (s : seg) (overlap : list itv)
| Node (s : seg) (overlap : list itv) (l r : tree).

Definition tseg (t : tree) : seg := match t with Leaf s _ => s | Node s _ _ _ => s end.

(* slices.Sort on integers: the sorted permutation (insertion sort as its specification) *)
Fixpoint insert_sorted (x : Z) (l : list Z) : list Z :=
  match l with
  | [] => [x]
  | y :: r => if x <=? y then x :: l else y :: insert_sorted x r
  end.
Definition sort (l : list Z) : list Z := fold_right insert_sorted [] l.

(* dedup: prev := sl[0] + 1 (uint32 wrap), keep elements different from prev *)
Fixpoint dedup_go (prev : Z) (l : list Z) : list Z :=
  match l with
  | [] => []
  | x :: r => if x =? prev then dedup_go prev r else x :: dedup_go x r
  end.
Definition dedup (l : list Z) : list Z :=
  match sort l with
  | [] => []
  | x :: r => dedup_go ((x + 1) mod two32s) (x :: r)
  end.

Definition endpoints (base : list itv) : list Z :=
  dedup (map (fun i => sfrom (iseg i)) base ++ map (fun i => sto (iseg i)) base).

Fixpoint elementary (es : list Z) : list seg :=
  match es with
  | [] => []
  | [p] => [{| sfrom := p; sto := p |}]
  | p :: ((q :: _) as r) => {| sfrom := p; sto := p |} :: {| sfrom := p; sto := q |} :: elementary r
  end.

Definition hull (ls : list seg) : seg :=
  match ls with
  | [] => {| sfrom := 0; sto := 0 |}
  | l0 :: _ => {| sfrom := sfrom l0; sto := sto (last ls l0) |}
  end.

Fixpoint insert_nodes (fuel : nat) (leaves : list seg) : option tree :=
  match fuel with
  | O => None
  | S f =>
    match leaves with
    | [] => None
    | [l] => Some (Leaf l [])
    | _ =>
        let c := Nat.div (length leaves) 2 in
        match insert_nodes f (firstn c leaves), insert_nodes f (skipn c leaves) with
        | Some tl, Some tr => Some (Node (hull leaves) [] tl tr)
        | _, _ => None
        end
    end
  end.

Definition subset_of (s o : seg) : bool := (sfrom o <=? sfrom s) && (sto s <=? sto o).
Definition intersects (s o : seg) : bool :=
  ((sfrom o <=? sto s) && (sfrom s <=? sto o)) || ((sfrom s <=? sto o) && (sfrom o <=? sto s)).
Definition disjoint (s : seg) (from to : Z) : bool := (sto s <? from) || (to <? sfrom s).

Fixpoint insert_interval (t : tree) (i : itv) : tree :=
  match t with
  | Leaf s ov => if subset_of s (iseg i) then Leaf s (ov ++ [i]) else t
  | Node s ov l r =>
      if subset_of s (iseg i) then Node s (ov ++ [i]) l r
      else Node s ov
             (if intersects (tseg l) (iseg i) then insert_interval l i else l)
             (if intersects (tseg r) (iseg i) then insert_interval r i else r)
  end.

Fixpoint query (t : tree) (from to : Z) : list Z :=
  match t with
  | Leaf s ov => if disjoint s from to then [] else map iid ov
  | Node s ov l r =>
      if disjoint s from to then []
      else map iid ov ++ query r from to ++ query l from to
  end.

Fixpoint number (k : Z) (rs : list (Z * Z)) : list itv :=
  match rs with
  | [] => []
  | (a, b) :: r => {| iid := k; iseg := {| sfrom := a; sto := b |} |} :: number (k + 1) r
  end.

(* Build(): nil root for an empty interval stack *)
Definition build (rs : list (Z * Z)) : option tree :=
  match rs with
  | [] => None
  | _ =>
    let base := number 0 rs in
    let leaves := elementary (endpoints base) in
    match insert_nodes (S (length leaves)) leaves with
    | Some t => Some (fold_left insert_interval base t)
    | None => None
    end
  end.

Definition contains (t : option tree) (v : Z) : bool :=
  match t with
  | None => false
  | Some t => negb (Nat.eqb (length (query t v v)) 0)
  end.

(* the two-line spec *)
Definition in_some_range (rs : list (Z * Z)) (v : Z) : bool :=
  existsb (fun r => (fst r <=? v) && (v <=? snd r)) rs.

(* ---------- blocklist: CIDR rules and reload ---------- *)
Definition mask_of (k : Z) : Z := two32s - 2 ^ (32 - k).           (* /k as uint32 *)
Definition cidr_range (ip k : Z) : Z * Z :=
  let first := (ip / 2 ^ (32 - k)) * 2 ^ (32 - k) in                (* ip & mask *)
  (first, first + 2 ^ (32 - k) - 1).                                (* first | ^mask *)

Inductive line := LRule (ip k : Z) | LSkip | LBad.

(* load: (tree, count) or error when no valid rule but some malformed line *)
Definition load (ls : list line) : option (option tree * Z) :=
  let rs := flat_map (fun l => match l with LRule ip k => [cidr_range ip k] | _ => [] end) ls in
  let has_err := existsb (fun l => match l with LBad => true | _ => false end) ls in
  if Nat.eqb (length rs) 0 && has_err then None else Some (build rs, zlen rs).

Record bl := { bl_tree : option tree; bl_count : Z }.
Definition reload (b : bl) (ls : list line) : bl * Z :=
  match load ls with
  | Some (t, n) => ({| bl_tree := t; bl_count := n |}, n)
  | None => (b, -1)
  end.

(* ---------- case codecs ----------
   kind 1802 (stree direct): in = [nranges; (from to)*; queries...]  out = 0/1 per query
   kind 1801 (blocklist): in = ops: 0 nlines (0 ip k | 1 | 2)* = reload ; 1 ip = query
                          out = count or -1 per reload, 0/1 per query *)
Fixpoint rd_pairs (n : nat) (l : list Z) : list (Z * Z) * list Z :=
  match n, l with
  | S n', a :: b :: r => let '(ps, rest) := rd_pairs n' r in ((a, b) :: ps, rest)
  | _, _ => ([], l)
  end.

Definition run_stree (inp : list Z) : list Z :=
  match inp with
  | n :: r => let '(rs, qs) := rd_pairs (Z.to_nat n) r in
              let t := build rs in map (fun v => b2z (contains t v)) qs
  | [] => []
  end.

Definition mon_stree (inp obs : list Z) : bool :=
  match inp with
  | n :: r => let '(rs, qs) := rd_pairs (Z.to_nat n) r in
              list_eqb_Z (map (fun v => b2z (in_some_range rs v)) qs) obs
  | [] => false
  end.

Fixpoint rd_lines (n : nat) (l : list Z) : list line * list Z :=
  match n with
  | O => ([], l)
  | S n' => match l with
            | 0 :: ip :: k :: r => let '(ls, rest) := rd_lines n' r in (LRule ip k :: ls, rest)
            | 1 :: r => let '(ls, rest) := rd_lines n' r in (LSkip :: ls, rest)
            | 2 :: r => let '(ls, rest) := rd_lines n' r in (LBad :: ls, rest)
            | _ => ([], l)
            end
  end.

Fixpoint run_bl_go (fuel : nat) (b : bl) (l : list Z) : list Z :=
  match fuel with
  | O => []
  | S f =>
    match l with
    | 0 :: n :: r => let '(ls, rest) := rd_lines (Z.to_nat n) r in
                     let '(b', out) := reload b ls in out :: run_bl_go f b' rest
    | 1 :: ip :: r => b2z (contains (bl_tree b) ip) :: run_bl_go f b r
    | _ => []
    end
  end.
Definition run_blocklist (inp : list Z) : list Z :=
  run_bl_go (length inp) {| bl_tree := None; bl_count := 0 |} inp.

(* monitor: replays the reload/query history against the two-line spec (ranges of the last
   successful reload) *)
Fixpoint mon_bl_go (fuel : nat) (cur : list (Z * Z)) (l obs : list Z) : bool :=
  match fuel with
  | O => true
  | S f =>
    match l, obs with
    | 0 :: n :: r, o :: obs' =>
        let '(ls, rest) := rd_lines (Z.to_nat n) r in
        let rs := flat_map (fun l => match l with LRule ip k => [cidr_range ip k] | _ => [] end) ls in
        let bad := existsb (fun l => match l with LBad => true | _ => false end) ls in
        if Nat.eqb (length rs) 0 && bad then (o =? -1) && mon_bl_go f cur rest obs'
        else (o =? zlen rs) && mon_bl_go f rs rest obs'
    | 1 :: ip :: r, o :: obs' => (o =? b2z (in_some_range cur ip)) && mon_bl_go f cur r obs'
    | [], [] => true
    | _, _ => false
    end
  end.
Definition mon_blocklist (inp obs : list Z) : bool := mon_bl_go (S (length inp)) [] inp obs.

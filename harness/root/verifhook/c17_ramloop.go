//go:build verif

package verifhook

import (
	"math/rand"
	"time"

	"github.com/cenkalti/rain/v2/internal/peersource"
	"github.com/cenkalti/rain/v2/torrent"
)

// kind 1703: the piece-buffer budget through the event loop when a grant arrives late.  The session's
// write cache holds one piece.  A seed downloads the only missing piece; a second, interested seed waits
// for memory; when the piece is written the manager grants the second request, but by the time the loop
// handles the grant the torrent is complete (or stopped).  Whatever was booked for the grant must be
// given back.
// in  = [variant fast]   variant 0: the torrent completes | 1: the torrent is stopped before the grant is handled
// obs = [granted-late event seen, allocated objects at the end, torrent complete or stopped as planned]
func genRamLoop(r *rand.Rand, tier string) Case {
	variant := int64(r.Intn(2))
	fast := r.Intn(2) == 0
	l := vLayout{PL: 16384 * int64(1+r.Intn(2)), Name: "t", Lens: nil, Pads: nil}
	l.Total = l.PL*int64(r.Intn(2)) + 1 + r.Int63n(l.PL) // one or two pieces
	l.Lens, l.Pads = []int64{l.Total}, []bool{false}
	content := l.Content(r.Int63())
	np := l.NumPieces()
	image := l.Preload(content)
	// everything but the last piece is on disk
	miss := np - 1
	lo := int64(miss) * l.PL
	for i := lo; i < l.Total; i++ {
		image[l.FileName(0)][i] ^= 0x5a
	}
	v, err := startLoop(l, content, image, func(c *torrent.Config) {
		c.WriteCacheSize = l.PL
		c.UnchokedPeers = 0
		c.OptimisticUnchokedPeers = 0
		c.RequestTimeout = time.Hour
	}, false)
	in := []int64{variant, b2i(fast)}
	if err != nil {
		return Case{In: in, Obs: []int64{-710}}
	}
	defer v.Close()
	v.Truth, v.PL = content, l.PL
	if v.Snapshot().Status != "Downloading" {
		return Case{In: in, Obs: []int64{-711}, Note: v.Snapshot().Status}
	}
	bits := make([]byte, (np+7)/8)
	for i := 0; i < np; i++ {
		bits[i/8] |= 0x80 >> uint(i%8)
	}
	var peers []*torrent.VPeer
	for k := 0; k < 2; k++ {
		vp, err := v.AddPeer(fast, false, peersource.Incoming)
		if err != nil {
			return Case{In: in, Obs: []int64{-712}}
		}
		peers = append(peers, vp)
		_ = vp.Send(5, bits)
		v.PumpEx(10*time.Second, torrent.ClsMsg)
		_ = vp.Send(2, nil) // interested: the client keeps such a peer when it turns into a seed
		v.PumpEx(10*time.Second, torrent.ClsMsg)
		_ = vp.Send(1, nil) // unchoke: the client may ask for the piece
		v.PumpEx(10*time.Second, torrent.ClsMsg)
	}
	// the first peer holds the only buffer; serve what it asks for
	served := 0
	for round := 0; round < 8 && !v.WriteInFlight(); round++ {
		v.Barrier()
		fs, _ := peers[0].Take()
		for _, f := range fs {
			if f.ID != 6 || len(f.Payload) < 12 {
				continue
			}
			idx, begin, n := int64(be32(f.Payload[0:])), int64(be32(f.Payload[4:])), int64(be32(f.Payload[8:]))
			p := idx*l.PL + begin
			_ = peers[0].Send(7, append(u32s(idx, begin), content[p:p+n]...))
			if e := v.PumpEx(10*time.Second, torrent.ClsPiece); e.Code == torrent.EvNone {
				return Case{In: in, Obs: []int64{-713}}
			}
			served++
		}
	}
	if !v.WriteInFlight() {
		return Case{In: in, Obs: []int64{-714}, Note: "no write started"}
	}
	if variant == 1 {
		// the write result and the stop: the grant is produced by the release inside the stop
		v.Stop()
	}
	if e := v.PumpEx(10*time.Second, torrent.ClsWrite); e.Code == torrent.EvNone && variant == 0 {
		return Case{In: in, Obs: []int64{-715}}
	}
	// the late grant, if the manager produced one
	late := v.PumpEx(2*time.Second, torrent.ClsRam)
	s := v.Snapshot()
	planned := s.Completed
	if variant == 1 {
		planned = s.Status == "Stopping" || s.Status == "Stopped"
	}
	// let the manager settle: its bookkeeping runs on its own goroutine
	objs := s.RamObjects
	for i := 0; i < 200 && objs != 0; i++ {
		time.Sleep(5 * time.Millisecond)
		objs = v.Snapshot().RamObjects
	}
	_ = late
	return Case{In: in, Obs: []int64{int64(objs), b2i(planned)}, Note: "late=" + map[bool]string{true: "1", false: "0"}[late.Code != torrent.EvNone]}
}

func init() {
	Register(1703, "piece-buffer budget through the event loop when a grant arrives after the torrent left Downloading", genRamLoop)
}

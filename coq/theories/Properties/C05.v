(* C05 — crash-consistent resume: persisted progress never runs ahead of disk data. *)
From RainV Require Import Lib Life CrashProofs.

(* for every history of commands, worker results, piece writes and periodic / stop / completion /
   verification writes of the resume data in which only the client touches the files, at every
   instant: a piece in the bitfield has its content on disk, and so has every piece in the bitfield
   stored in the resume database.  A crash can only leave this pair (database, files) behind: a piece
   write is in the model one step that follows the storage writes, so a crash between the file
   writes of a piece leaves the piece unmarked (the correspondence takes snapshots between them). *)
Theorem C05_resume_never_ahead_of_disk : forall fx pk nf es, all_env (life_init_c fx pk nf) es ->
  BInv (run_evs_c (life_init_c fx pk nf) es).
Proof. exact persisted_behind_disk. Qed.
Print Assumptions C05_resume_never_ahead_of_disk.

(* whatever subset of files is missing at restart: with every file present the resume bitfield is
   trusted, with none the client starts from scratch, otherwise everything is re-verified; in each
   case a piece the restarted client holds has its content on disk *)
Theorem C05_restart_claims_only_data_on_disk : forall pers padonly pk fex, osub pers pk -> sub padonly pk ->
  sub (fst (restart_bits true pers padonly pk fex)) pk.
Proof. exact restart_sound. Qed.
Print Assumptions C05_restart_claims_only_data_on_disk.

(* a resume bitfield is only trusted when no file is missing *)
Theorem C05_missing_files_are_not_trusted : forall b padonly pk fex, existsb negb fex = true ->
  fst (restart_bits true (Some b) padonly pk fex) = padonly \/ fst (restart_bits true (Some b) padonly pk fex) = pk.
Proof. intros b padonly pk fex H. unfold restart_bits. rewrite H. cbn. destruct (negb (existsb (fun x => x) fex)); auto. Qed.
Print Assumptions C05_missing_files_are_not_trusted.

(* a change made to the files behind the client's back breaks the containment only until the next
   allocation result is handled: whatever the state was (any bitfield in memory, any bitfield in the
   resume database), once files have been noticed missing both describe the disk again -- so a crash
   after that point cannot bring the stale bitfield back (fix D25) *)
Theorem C05_missing_files_restore_the_invariant : forall s he po, alloc s = true -> sub po (pok s) ->
  BInv (alloc_done true s he true po).
Proof. exact missing_files_restore_the_invariant. Qed.
Print Assumptions C05_missing_files_restore_the_invariant.

(* Peer wire: the Go writer produces the BEP framing, and the Go reader decodes every emitted
   message sequence back to itself. *)
From RainV Require Import Lib Bencode BencodeProofs Wire.
From Coq Require Import ZifyBool.
Ltac Zify.zify_post_hook ::= Z.div_mod_to_equations.

Definition u32 (x : Z) : Prop := 0 <= x < two32.

Lemma rd_be32_be32 x : u32 x ->
  rd_be32 ((x / 16777216) mod 256) ((x / 65536) mod 256) ((x / 256) mod 256) (x mod 256) = x.
Proof. unfold u32, two32, rd_be32. intros. lia. Qed.

Lemma zlen_be32 x : zlen (be32 x) = 4.  Proof. reflexivity. Qed.

Lemma take_app (a rest : list Z) n : zlen a = n -> take n (a ++ rest) = Some (a, rest).
Proof.
  intros H. unfold take. rewrite zlen_app. pose proof (zlen_nonneg a). pose proof (zlen_nonneg rest).
  destruct ((0 <=? n) && (n <=? zlen a + zlen rest)) eqn:E; [|lia].
  subst n. unfold zlen. rewrite Nat2Z.id. destruct (firstn_skipn_app a rest) as [-> ->]. reflexivity.
Qed.

(* ---- the writer produces the specified framing ---- *)
Definition body_small (m : msg) : Prop := 1 + zlen (body m) < two32.

Lemma spec_len_body m : spec_len m = 1 + zlen (body m).
Proof.
  destruct m; cbn [spec_len body]; try reflexivity;
    rewrite ?zlen_app, ?zlen_be32; try reflexivity; try lia.
Qed.

Theorem enc_go_is_spec m : body_small m -> enc_go m = encode m.
Proof.
  intros H. unfold enc_go, encode. rewrite spec_len_body. f_equal. f_equal.
  unfold body_small in H. pose proof (zlen_nonneg (body m)). apply Z.mod_small. lia.
Qed.

(* ---- extension payloads decode back ---- *)
Lemma bytes_eqb_refl a : bytes_eqb a a = true.
Proof. induction a as [|x r IH]; cbn [bytes_eqb]; [reflexivity|]. rewrite Z.eqb_refl. exact IH. Qed.

Lemma get_m_map mm : Forall (fun kv => 0 <= snd kv <= 255) mm ->
  get_m (map (fun kv : list Z * Z => (fst kv, BInt (snd kv))) mm) = Some mm.
Proof.
  induction 1 as [|[k v] r Hx Hr IH]; [reflexivity|]. cbn [map get_m fst snd] in *.
  destruct ((0 <=? v) && (v <=? 255)) eqn:E; [|lia]. rewrite IH. reflexivity.
Qed.

Definition wf_ext (m : msg) : Prop :=
  match m with
  | ExtHandshake mm v ip ms rq => Forall (fun kv => 0 <= snd kv <= 255) mm /\ 0 <= ms /\ 0 <= rq
  | ExtMetadata ty pc tot d => u32 pc
  | ExtPex _ _ => True
  | _ => False
  end.

Theorem unmarshal_ext_body m : wf_ext m -> unmarshal_ext (ext_body m) = Some m.
Proof.
  destruct m as [| | | | | | | | | | | | | |mm v ip ms rq|ty pc tot d|a dr]; cbn [wf_ext]; try tauto.
  - intros (Hm & Hms & Hrq). cbn [ext_body unmarshal_ext].
    rewrite <- (app_nil_r (enc _)), decode_encode.
    destruct (ms =? 0) eqn:Ems; destruct ip as [|i0 ip'];
      cbn [app dict_get bytes_eqb k_m k_v k_yourip k_metadata_size k_reqq Z.eqb Pos.eqb andb get_str get_int];
      rewrite get_m_map by assumption; cbn [Z.eqb]; rewrite ?Z.max_r by lia;
      try (replace ms with 0 by lia); reflexivity.
  - intros Hpc. cbn [ext_body unmarshal_ext]. rewrite decode_encode.
    destruct (tot =? 0) eqn:Et;
      cbn [app dict_get bytes_eqb k_msg_type k_piece k_total_size Z.eqb Pos.eqb andb get_int];
      (destruct ((0 <=? pc) && (pc <? two32)) eqn:E; [|unfold u32 in Hpc; lia]);
      try (replace tot with 0 by lia); reflexivity.
  - intros _. cbn [ext_body unmarshal_ext].
    rewrite <- (app_nil_r (enc _)), decode_encode.
    cbn [dict_get bytes_eqb k_added k_dropped Z.eqb Pos.eqb andb get_str]. reflexivity.
Qed.

(* ---- reader ∘ writer ---- *)
Definition wfm (maxmsg : Z) (m : msg) : Prop :=
  spec_len m - 1 <= maxmsg /\ spec_len m < two32 /\
  match m with
  | Have i | AllowedFast i => u32 i
  | Request i b l => u32 i /\ u32 b /\ 0 <= l <= 16384
  | Cancel i b l | Reject i b l => u32 i /\ u32 b /\ u32 l
  | PieceM i b d => u32 i /\ u32 b /\ zlen d <= 16384
  | Port p => 0 <= p < 65536
  | ExtHandshake _ _ _ _ _ | ExtMetadata _ _ _ _ | ExtPex _ _ => wf_ext m
  | _ => True
  end.

Lemma spec_len_pos m : 1 <= spec_len m.
Proof. rewrite spec_len_body. pose proof (zlen_nonneg (body m)). lia. Qed.

Lemma parse_step f maxmsg m rest : 0 <= maxmsg -> wfm maxmsg m ->
  parse (S f) maxmsg (encode m ++ rest) = let '(ms, e) := parse f maxmsg rest in (m :: ms, e).
Proof.
  intros Hmax (Hlen & Hl32 & Hw). pose proof (spec_len_pos m) as Hpos.
  assert (Hu : u32 (spec_len m)) by (unfold u32; lia).
  unfold encode. unfold be32 at 1. cbn [app parse].
  rewrite (rd_be32_be32 _ Hu).
  destruct (spec_len m =? 0) eqn:E0; [lia|].
  destruct (spec_len m - 1 >? maxmsg) eqn:Emax; [lia|].
  destruct m; cbn [msg_id body spec_len] in *.
  1-6: change ([] ++ rest) with rest; destruct (parse f maxmsg rest); reflexivity.
  - (* Have *) rewrite (take_app (be32 i) rest 4 eq_refl). unfold be32.
    rewrite rd_be32_be32 by assumption. destruct (parse f maxmsg rest); reflexivity.
  - (* AllowedFast *) rewrite (take_app (be32 i) rest 4 eq_refl). unfold be32.
    rewrite rd_be32_be32 by assumption. destruct (parse f maxmsg rest); reflexivity.
  - (* Bitfield *) rewrite (take_app data rest) by lia. destruct (parse f maxmsg rest); reflexivity.
  - (* Request *) destruct Hw as (Hi & Hb & Hl2).
    rewrite (take_app (be32 i ++ be32 b ++ be32 l) rest 12 eq_refl). unfold be32. cbn [app].
    rewrite !rd_be32_be32 by (assumption || (unfold u32, two32; lia)).
    destruct (l >? 16384) eqn:El; [lia|]. destruct (parse f maxmsg rest); reflexivity.
  - (* Cancel *) destruct Hw as (Hi & Hb & Hl2).
    rewrite (take_app (be32 i ++ be32 b ++ be32 l) rest 12 eq_refl). unfold be32. cbn [app].
    rewrite !rd_be32_be32 by assumption. destruct (parse f maxmsg rest); reflexivity.
  - (* Reject *) destruct Hw as (Hi & Hb & Hl2).
    rewrite (take_app (be32 i ++ be32 b ++ be32 l) rest 12 eq_refl). unfold be32. cbn [app].
    rewrite !rd_be32_be32 by assumption. destruct (parse f maxmsg rest); reflexivity.
  - (* Piece *) destruct Hw as (Hi & Hb & Hd).
    replace ((be32 i ++ be32 b ++ data) ++ rest) with ((be32 i ++ be32 b) ++ (data ++ rest))
      by (rewrite <- !app_assoc; reflexivity).
    rewrite (take_app (be32 i ++ be32 b) (data ++ rest) 8 eq_refl). unfold be32. cbn [app].
    pose proof (zlen_nonneg data).
    replace ((9 + zlen data - 1 - 8) mod two32) with (zlen data) by (unfold two32; lia).
    destruct (zlen data >? 16384) eqn:El; [lia|].
    rewrite (take_app data rest (zlen data) eq_refl).
    rewrite !rd_be32_be32 by assumption. destruct (parse f maxmsg rest); reflexivity.
  - (* Port *) rewrite (take_app (be16 p) rest 2 eq_refl). unfold be16.
    replace (p / 256 mod 256 * 256 + p mod 256) with p by lia.
    destruct (parse f maxmsg rest); reflexivity.
  - (* ExtHandshake *) rewrite (take_app _ rest (1 + zlen (ext_body (ExtHandshake m v yourip msize reqq)) - 1)) by lia.
    rewrite unmarshal_ext_body by assumption. destruct (parse f maxmsg rest); reflexivity.
  - rewrite (take_app _ rest (1 + zlen (ext_body (ExtMetadata ty piece total data)) - 1)) by lia.
    rewrite unmarshal_ext_body by assumption. destruct (parse f maxmsg rest); reflexivity.
  - rewrite (take_app _ rest (1 + zlen (ext_body (ExtPex added dropped)) - 1)) by lia.
    rewrite unmarshal_ext_body by assumption. destruct (parse f maxmsg rest); reflexivity.
Qed.

Lemma parse_msgs maxmsg : 0 <= maxmsg -> forall ms fuel, Forall (wfm maxmsg) ms -> (length ms < fuel)%nat ->
  parse fuel maxmsg (flat_map encode ms) = (ms, EndEOF).
Proof.
  intros Hmax. induction ms as [|m r IH]; intros fuel Hw Hf.
  - destruct fuel; [lia|]. reflexivity.
  - inversion Hw as [|? ? Hm Hr]; subst. destruct fuel as [|f]; [cbn in Hf; lia|].
    cbn [flat_map]. rewrite parse_step by assumption. rewrite IH by (auto; cbn in Hf; lia). reflexivity.
Qed.

Lemma encode_len m : (5 <= length (encode m))%nat.
Proof. unfold encode, be32. cbn [app length]. lia. Qed.

Lemma flat_encode_len ms : (length ms <= length (flat_map encode ms))%nat.
Proof.
  induction ms as [|m r IH]; [cbn; lia|]. cbn [flat_map length]. rewrite app_length.
  pose proof (encode_len m). lia.
Qed.

(* Every sequence of emitted messages is decoded back to itself by the client's own reader
   (on the whole stream; independence from the chunking is io.ReadFull/bufio's contract). *)
Theorem reader_inverts_writer maxmsg ms : 0 <= maxmsg -> Forall (wfm maxmsg) ms ->
  parse_all maxmsg (flat_map encode ms) = (ms, EndEOF).
Proof.
  intros Hmax Hw. unfold parse_all. apply parse_msgs; auto. pose proof (flat_encode_len ms). lia.
Qed.

(* keep-alives between messages are skipped *)
Lemma parse_keepalive f maxmsg rest : parse (S f) maxmsg (keepalive ++ rest) = parse f maxmsg rest.
Proof. reflexivity. Qed.

(* handshake layout round trip *)
Theorem handshake_roundtrip ext ih id rest : length ext = 8%nat -> length ih = 20%nat -> length id = 20%nat ->
  rd_handshake (handshake ext ih id ++ rest) = Some (ext, ih, id, rest).
Proof.
  intros He Hi Hd. unfold rd_handshake, handshake.
  assert (H1 : firstn 20 ((pstr ++ ext ++ ih ++ id) ++ rest) = pstr) by reflexivity.
  rewrite H1. assert (H2 : list_eqb_Z pstr pstr = true) by reflexivity. rewrite H2.
  assert (H3 : (68 <=? zlen ((pstr ++ ext ++ ih ++ id) ++ rest)) = true).
  { unfold zlen. rewrite !app_length. rewrite He, Hi, Hd. cbn [length pstr]. lia. }
  rewrite H3. cbn [andb].
  change ((pstr ++ ext ++ ih ++ id) ++ rest) with (pstr ++ ((ext ++ ih ++ id) ++ rest)) at 1 2 3 4.
  repeat rewrite <- app_assoc.
  assert (Hs20 : forall t, skipn 20 (pstr ++ t) = t) by reflexivity.
  rewrite Hs20.
  assert (Hs28 : skipn 28 (pstr ++ ext ++ ih ++ id ++ rest) = ih ++ id ++ rest).
  { change 28%nat with (20 + 8)%nat. rewrite <- skipn_skipn, Hs20.
    rewrite <- He. destruct (firstn_skipn_app ext (ih ++ id ++ rest)) as [_ ->]. reflexivity. }
  assert (Hs48 : skipn 48 (pstr ++ ext ++ ih ++ id ++ rest) = id ++ rest).
  { change 48%nat with (28 + 20)%nat. rewrite <- skipn_skipn, Hs28.
    rewrite <- Hi. destruct (firstn_skipn_app ih (id ++ rest)) as [_ ->]. reflexivity. }
  assert (Hs68 : skipn 68 (pstr ++ ext ++ ih ++ id ++ rest) = rest).
  { change 68%nat with (48 + 20)%nat. rewrite <- skipn_skipn, Hs48.
    rewrite <- Hd. destruct (firstn_skipn_app id rest) as [_ ->]. reflexivity. }
  rewrite Hs28, Hs48, Hs68.
  rewrite <- He at 1. destruct (firstn_skipn_app ext (ih ++ id ++ rest)) as [-> _].
  rewrite <- Hi at 1. destruct (firstn_skipn_app ih (id ++ rest)) as [-> _].
  rewrite <- Hd at 1. destruct (firstn_skipn_app id rest) as [-> _]. reflexivity.
Qed.

(* upload counter: BlockUploaded lengths = payload bytes of the piece messages written *)
Definition wire_payload (m : msg) : Z := match m with PieceM _ _ d => zlen (encode m) - 13 | _ => 0 end.
Theorem upload_counter m : uploaded_of m = wire_payload m.
Proof.
  destruct m; try reflexivity. unfold uploaded_of, wire_payload, encode.
  rewrite zlen_app, zlen_be32, zlen_cons. cbn [body]. rewrite !zlen_app, !zlen_be32. lia.
Qed.

Example wfm_example : wfm 1000 (ExtMetadata 1 3 40000 [1;2;3]) /\ wfm 1000 (Request 1 2 16384).
Proof.
  split; (split; [vm_compute; discriminate|split; [vm_compute; reflexivity|]]).
  - unfold wf_ext, u32, two32. lia.
  - unfold u32, two32. lia.
Qed.

(* the writer's queue: once a choke is queued no piece that was waiting is sent any more, whatever was
   queued; and the number of waiting pieces never exceeds the configured bound *)
Lemma choke_flushes_queued_pieces maxq fast q : existsb is_piece (wq_op maxq fast q Choke) = false.
Proof.
  cbn [wq_op]. rewrite existsb_app. cbn. rewrite orb_false_r.
  induction q as [|m r IH]; [reflexivity|]. cbn [filter]. destruct (is_piece m) eqn:E; cbn [negb]; [exact IH|].
  cbn [existsb]. rewrite E. exact IH.
Qed.

Lemma remove_first_piece_count i b l q : count_pieces (remove_first_piece i b l q) <= count_pieces q.
Proof.
  unfold count_pieces. induction q as [|m r IH]; [cbn; lia|].
  destruct m; cbn [remove_first_piece filter is_piece]; try exact IH.
  destruct ((i0 =? i) && (b0 =? b) && (zlen data =? l)); cbn [filter is_piece]; rewrite ?zlen_cons; lia.
Qed.

Lemma wq_op_bounded maxq fast q m : 0 <= maxq -> count_pieces q <= maxq -> count_pieces (wq_op maxq fast q m) <= maxq.
Proof.
  intros Hq H. assert (App : forall a b, count_pieces (a ++ b) = count_pieces a + count_pieces b).
  { intros a b0. unfold count_pieces. rewrite filter_app, zlen_app. reflexivity. }
  destruct m; cbn [wq_op]; try (rewrite App; cbn; lia).
  - (* choke *) rewrite App. cbn.
    assert (Z0 : count_pieces (filter (fun x => negb (is_piece x)) q) = 0).
    { clear H. unfold count_pieces. induction q as [|x r IH]; [reflexivity|]. cbn [filter]. destruct (is_piece x) eqn:E; cbn [negb]; [exact IH|].
      cbn [filter]. rewrite E. exact IH. }
    rewrite Z0. unfold count_pieces. cbn. lia.
  - (* cancel *) pose proof (remove_first_piece_count i b l q). lia.
  - (* piece *) destruct (Z.leb_spec maxq (count_pieces q)) as [E|E]; [destruct fast; [rewrite App; unfold count_pieces at 2; cbn; lia|lia]|].
    rewrite App. unfold count_pieces at 2. cbn. lia.
Qed.

Theorem writer_queue_bounded maxq fast ms : 0 <= maxq -> count_pieces (fold_left (wq_op maxq fast) ms []) <= maxq.
Proof.
  intro Hq. assert (G : forall q, count_pieces q <= maxq -> count_pieces (fold_left (wq_op maxq fast) ms q) <= maxq).
  { induction ms as [|m r IH]; intros q H; [exact H|]. cbn. apply IH. apply wq_op_bounded; assumption. }
  apply G. unfold count_pieces. cbn. lia.
Qed.

//go:build verif

// Package verifhook is overlaid into the rain module at build time (go build -overlay) by
// /verif/bin/check; it never exists in /repo's tree.  It drives the real packages on
// generated inputs and prints what they did as flat integer lists.
package verifhook

import (
	"fmt"
	"math/rand"
	"sort"
	"strconv"
	"strings"
	"sync"
	"time"
)

// Case is one executed case: kind, flat input, flat observed output of the implementation.
type Case struct {
	Kind int
	In   []int64
	Obs  []int64
	Note string // free text for evidence (never compared)
}

// Gen produces and runs one case from the given PRNG; size is "quick" or "thorough".
type Gen func(r *rand.Rand, tier string) Case

var Kinds = map[int]Gen{}
var KindNames = map[int]string{}

func Register(kind int, name string, g Gen) { Kinds[kind] = g; KindNames[kind] = name }

// Crash marker used as the observed output when the implementation panicked.
const CrashMark = -777

// HangMark is the observed output of a case that did not return within the per-case time limit.
const HangMark = -888

func Line(c Case) string {
	var b strings.Builder
	b.WriteString(strconv.Itoa(c.Kind))
	b.WriteByte('|')
	for i, v := range c.In {
		if i > 0 {
			b.WriteByte(' ')
		}
		b.WriteString(strconv.FormatInt(v, 10))
	}
	b.WriteByte('|')
	for i, v := range c.Obs {
		if i > 0 {
			b.WriteByte(' ')
		}
		b.WriteString(strconv.FormatInt(v, 10))
	}
	return b.String()
}

func ParseLine(s string) (Case, error) {
	parts := strings.Split(strings.TrimSpace(s), "|")
	if len(parts) < 2 {
		return Case{}, fmt.Errorf("bad case line")
	}
	k, err := strconv.Atoi(strings.TrimSpace(parts[0]))
	if err != nil {
		return Case{}, err
	}
	c := Case{Kind: k}
	for _, f := range strings.Fields(parts[1]) {
		v, err := strconv.ParseInt(f, 10, 64)
		if err != nil {
			return Case{}, err
		}
		c.In = append(c.In, v)
	}
	return c, nil
}

// Replayers re-run the implementation on a given input (used for corpus and replay files).
type Replayer func(in []int64) []int64

var Replayers = map[int]Replayer{}

func RegisterReplay(kind int, r Replayer) { Replayers[kind] = r }

// Guard runs f and maps a panic to the crash marker.
func Guard(f func() []int64) (out []int64) {
	defer func() {
		if e := recover(); e != nil {
			out = []int64{CrashMark}
		}
	}()
	return f()
}

func SortedKinds() []int {
	var ks []int
	for k := range Kinds {
		ks = append(ks, k)
	}
	sort.Ints(ks)
	return ks
}

func b2i(b bool) int64 {
	if b {
		return 1
	}
	return 0
}

// pick returns one of the values.
func pick(r *rand.Rand, vs ...int64) int64 { return vs[r.Intn(len(vs))] }

// Progress marks of a running case, keyed by its PRNG; written into the goroutine dump when the
// case does not come back.
var marks sync.Map

type markEntry struct {
	at time.Time
	s  string
}

func Mark(r *rand.Rand, s string) {
	v, _ := marks.LoadOrStore(r, &[]markEntry{})
	l := v.(*[]markEntry)
	*l = append(*l, markEntry{time.Now(), s})
	if len(*l) > 400 {
		*l = (*l)[200:]
	}
}

func Marks(r *rand.Rand) string {
	v, ok := marks.Load(r)
	if !ok {
		return ""
	}
	out := ""
	var t0 time.Time
	for i, e := range *v.(*[]markEntry) {
		if i == 0 {
			t0 = e.at
		}
		out += fmt.Sprintf("%8.3fs %s\n", e.at.Sub(t0).Seconds(), e.s)
	}
	return out
}

func Unmark(r *rand.Rand) { marks.Delete(r) }

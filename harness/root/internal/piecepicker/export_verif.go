//go:build verif

package piecepicker

// EdgeFlags returns the FileHead / FileTail marks computed at construction.
func (p *PiecePicker) EdgeFlags() (head, tail []bool) {
	for i := range p.pieces {
		head = append(head, p.pieces[i].FileHead)
		tail = append(tail, p.pieces[i].FileTail)
	}
	return
}

// Endgame returns the end-game flag (used only to localise a difference).
func (p *PiecePicker) Endgame() bool { return p.endgame }

// MaxWebseedPieces returns the gap length limit computed at construction.
func (p *PiecePicker) MaxWebseedPieces() int { return p.maxWebseedPieces }

(* Model of the piece writer (internal/piecewriter Run) together with the gate at the head of
   handlePieceWriteDone (torrent/torrent_write.go), over a disk that may refuse the write: the files
   were closed under the writer by a stop (os.ErrClosed), or the write failed.  The writer reports
   (HashOK, Error); the loop marks the piece Done and sets its bit only for HashOK and no Error.
   Two sites that must cooperate: the writer must not swallow an error, the handler must test it. *)
From RainV Require Import Lib Geometry SectionIO.

Inductive disk := DiskOk | DiskClosed | DiskFail.
Record wres := { w_hash_ok : bool; w_err : bool; w_sto : storage }.

Section Writer.
Variable hash : list Z -> Z.

Definition pw_run (H plen : Z) (st : storage) (secs : list section) (buf : list Z) (d : disk) : wres :=
  if (zlen buf =? plen) && (hash buf =? H) then
    match d with
    | DiskOk => match write_secs st secs buf with
                | Ok st' => {| w_hash_ok := true; w_err := false; w_sto := st' |}
                | _ => {| w_hash_ok := true; w_err := true; w_sto := st |}
                end
    | _ => {| w_hash_ok := true; w_err := true; w_sto := st |}
    end
  else {| w_hash_ok := false; w_err := false; w_sto := st |}.

(* handlePieceWriteDone: !HashOK -> ban and return; Error != nil -> stop and return; else Done, bit set *)
Definition marks_done (r : wres) : bool := w_hash_ok r && negb (w_err r).

(* a piece is reported only if its buffer had the recorded hash and the storage now holds exactly
   what the section writer of C02 wrote from it; in every other case the storage is untouched *)
Theorem reported_piece_is_on_disk H plen st secs buf d :
  let r := pw_run H plen st secs buf d in
  (marks_done r = true -> zlen buf = plen /\ hash buf = H /\ d = DiskOk /\ write_secs st secs buf = Ok (w_sto r)) /\
  (marks_done r = false -> w_sto r = st).
Proof.
  unfold pw_run, marks_done. destruct ((zlen buf =? plen) && (hash buf =? H)) eqn:E.
  - destruct d; cbn [w_hash_ok w_err w_sto andb negb].
    + destruct (write_secs st secs buf) eqn:Ew; cbn [w_hash_ok w_err w_sto andb negb]; split; intros Hd; try discriminate; try reflexivity.
      repeat split; try reflexivity; lia.
    + split; intros Hd; [discriminate|reflexivity].
    + split; intros Hd; [discriminate|reflexivity].
  - cbn [w_hash_ok w_err w_sto andb]. split; intros Hd; [discriminate|reflexivity].
Qed.
End Writer.

(* kind 104: in = [variant fast npieces] (0 the write goes through | 1 stop first: closed files | 2 the
   disk fails); obs = [pieces reported | missing piece on disk | every reported piece on disk].
   The scenario has all pieces but the last on disk and an honest peer supplying the last one. *)
Definition run_stopwrite (inp : list Z) : list Z :=
  match inp with
  | [variant; _; np] =>
      let d := if variant =? 0 then DiskOk else if variant =? 1 then DiskClosed else DiskFail in
      let r := pw_run (fun _ => 0) 0 1 [[9]] [{| sfile := 0%nat; soff := 0; slen := 1; spad := false |}] [7] d in
      let done := marks_done r in
      [if done then np else np - 1; b2z (match w_sto r with [[7]] => true | _ => false end); 1]
  | _ => [-779]
  end.

(* the monitor is C01 on the observables: every piece reported as downloaded has its bytes on disk *)
Definition mon_stopwrite (inp obs : list Z) : bool :=
  match inp, obs with
  | [_; _; np], [have; _; ondisk] => (ondisk =? 1) && (0 <=? have) && (have <=? np)
  | _, _ => false
  end.

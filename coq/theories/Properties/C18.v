(* C18 — blocklist semantics are exact (tree, CIDR, reload). *)
From RainV Require Import Lib Stree StreeProofs.

(* for every list of closed uint32 ranges (overlapping, nested, adjacent, duplicates, single
   points, the extremes 0 and 2^32-1) the tree contains v exactly when some range does *)
Theorem C18_stree_exact : forall rs v, wf_ranges rs -> contains (build rs) v = in_some_range rs v.
Proof. exact stree_exact. Qed.
Print Assumptions C18_stree_exact.

Theorem C18_cidr_range : forall ip k v, 0 <= ip < two32s -> 0 <= k <= 32 ->
  let '(a, b) := cidr_range ip k in
  0 <= a /\ a <= b /\ b < two32s /\ (a <= v <= b <-> v / 2 ^ (32 - k) = ip / 2 ^ (32 - k)).
Proof. exact cidr_range_spec. Qed.
Print Assumptions C18_cidr_range.

Theorem C18_blocked_exact : forall ls t n v, Forall line_ok ls -> load ls = Some (t, n) ->
  contains t v = in_some_range (ranges_of ls) v /\ n = zlen (ranges_of ls).
Proof. exact load_exact. Qed.
Print Assumptions C18_blocked_exact.

Theorem C18_reload_atomic : forall b ls, load ls = None -> fst (reload b ls) = b.
Proof. exact reload_atomic. Qed.
Print Assumptions C18_reload_atomic.

(* Model of announcer.PeriodicalAnnouncer.Run as a transition system on a virtual clock (ms):
   which event each announce carries and when the next announce is due, for scripted tracker
   replies and external events.  [fixed = false] is the pinned code; [fixed = true] is the code
   after the "fix:" commits D13 (unrequested context.Canceled treated as an error) and D14
   (non-positive tracker interval floored at the minimum interval).  Definitions only. *)
From RainV Require Import Lib.

Inductive astatus := NotContacted | Contacting | Working | NotWorking.

Record ann := {
  status : astatus;
  interval : Z;            (* a.interval, from the last reply *)
  minint : Z;              (* a.minInterval *)
  need : bool;             (* needMorePeers *)
  armed : bool;            (* completedC still non-nil: a "completed" may still be sent *)
  timer : option Z;        (* absolute deadline of the announce timer, None = never *)
  last : Z;                (* lastAnnounce *)
  has_announced : bool;
  now : Z
}.

Inductive reply :=
| ROk (iv mi : Z)          (* tracker reply with interval / min interval (ms; any sign) *)
| RErr (retry : Z)         (* tracker.Error with RetryIn (ms); 0 = none *)
| RFail                    (* any other error: exponential back-off *)
| RCanceled.               (* context.Canceled although the announcer's own context is live *)

Inductive post := PNeed (v : bool) | PCompleted.

Section Ann.
Variable fixed : bool.
Variable backoff : Z.      (* what backoff.NextBackOff() returns (>0) *)

Definition next_interval (a : ann) : Z :=
  if need a then minint a
  else if fixed && (interval a <=? 0) then minint a
  else interval a.

(* resetTimer(d): negative durations fire at once *)
Definition set_timer (a : ann) (d : Z) : ann :=
  {| status := status a; interval := interval a; minint := minint a; need := need a; armed := armed a;
     timer := Some (now a + Z.max 0 d); last := last a; has_announced := has_announced a; now := now a |}.

Definition on_reply (a : ann) (r : reply) : ann :=
  match r with
  | ROk iv mi =>
      let a1 := {| status := Working; interval := iv; minint := if mi >? 0 then mi else minint a; need := need a;
                   armed := armed a; timer := timer a; last := last a; has_announced := true; now := now a |} in
      set_timer a1 (next_interval a1)
  | RErr retry =>
      let a1 := {| status := NotWorking; interval := interval a; minint := minint a; need := need a; armed := armed a;
                   timer := timer a; last := last a; has_announced := has_announced a; now := now a |} in
      set_timer a1 (if retry >? 0 then retry else backoff)
  | RFail =>
      let a1 := {| status := NotWorking; interval := interval a; minint := minint a; need := need a; armed := armed a;
                   timer := timer a; last := last a; has_announced := has_announced a; now := now a |} in
      set_timer a1 backoff
  | RCanceled =>
      if fixed then
        let a1 := {| status := NotWorking; interval := interval a; minint := minint a; need := need a; armed := armed a;
                     timer := timer a; last := last a; has_announced := has_announced a; now := now a |} in
        set_timer a1 backoff
      else a                                   (* dropped: status stays Contacting, no timer *)
  end.

(* doAnnounce *)
Definition do_announce (a : ann) : ann :=
  {| status := Contacting; interval := interval a; minint := minint a; need := need a; armed := armed a;
     timer := timer a; last := now a; has_announced := has_announced a; now := now a |}.

(* a post-event; returns the new state and the event of an announce it starts at once, if any *)
Definition on_post (a : ann) (p : post) : ann * option Z :=
  match p with
  | PNeed v =>
      let a1 := {| status := status a; interval := interval a; minint := minint a; need := v; armed := armed a;
                   timer := timer a; last := last a; has_announced := has_announced a; now := now a |} in
      match status a with
      | Contacting | NotWorking => (a1, None)
      | _ => (set_timer a1 (last a1 + next_interval a1 - now a1), None)
      end
  | PCompleted =>
      if armed a then
        let a1 := {| status := status a; interval := interval a; minint := minint a; need := need a; armed := false;
                     timer := timer a; last := last a; has_announced := has_announced a; now := now a |} in
        (do_announce a1, Some 1)
      else (a, None)
  end.

Definition advance (a : ann) (t : Z) : ann :=
  {| status := status a; interval := interval a; minint := minint a; need := need a; armed := armed a;
     timer := timer a; last := last a; has_announced := has_announced a; now := t |}.

(* One scripted step: the announce in flight gets [r]; 20 ms later the post-events happen; then
   the next announce is the one a post-event started, or the one the timer starts.
   Result: next state (with that announce in flight) and (event, time it starts), or None when
   no announce will ever start (the announcer is stuck). *)
Fixpoint posts (a : ann) (ps : list post) : ann * option Z :=
  match ps with
  | [] => (a, None)
  | p :: r => match on_post a p with
              | (a1, Some e) => (a1, Some e)      (* later posts of this step are not modelled *)
              | (a1, None) => posts a1 r
              end
  end.

Definition fire (a3 : ann) (d : Z) : ann * option (Z * Z) :=
  let t := Z.max d (now a3) in
  let a4 := advance a3 t in
  (do_announce {| status := status a4; interval := interval a4; minint := minint a4; need := need a4;
                  armed := armed a4; timer := None; last := last a4;
                  has_announced := has_announced a4; now := now a4 |}, Some (0, t)).

Definition early (a : ann) : option Z :=
  match status a, timer a with
  | Contacting, _ => None
  | _, Some d => if d <? now a + 20 then Some d else None
  | _, None => None
  end.

Definition step (a : ann) (r : reply) (ps : list post) : ann * option (Z * Z) :=
  let a1 := on_reply a r in
  match early a1 with
  | Some d => fire a1 d                          (* the timer beats the post-events of this step *)
  | None =>
    let a2 := advance a1 (now a1 + 20) in
    match posts a2 ps with
    | (a3, Some e) => (a3, Some (e, now a3))
    | (a3, None) =>
        match status a3, timer a3 with
        | Contacting, _ => (a3, None)            (* timer ticks are ignored while contacting *)
        | _, None => (a3, None)
        | _, Some d => fire a3 d
        end
    end
  end.

Definition start (minInterval : Z) (completed_at_start : bool) : ann :=
  do_announce {| status := NotContacted; interval := 0; minint := minInterval; need := false;
                 armed := negb completed_at_start; timer := None; last := 0; has_announced := false; now := 0 |}.

(* run a script; output: list of (event, start time) of the announces after the first one *)
Fixpoint run_script (a : ann) (script : list (reply * list post)) : list (option (Z * Z)) :=
  match script with
  | [] => []
  | (r, ps) :: rest => match step a r ps with
                       | (a', Some et) => Some et :: run_script a' rest
                       | (a', None) => [None]
                       end
  end.
End Ann.

(* ---- case codec, kind 1503 ----
   in = [minInterval; completed_at_start; backoff; steps...]
   step = reply (0 iv mi | 1 retry | 2 | 3) then npost then posts (10 | 11 | 12)
   obs = [first event] ++ per step [event; gap_ms] or [-1; -1] when no further announce came *)
Fixpoint rd_posts (n : nat) (l : list Z) : list post * list Z :=
  match n, l with
  | S k, 10 :: r => let '(ps, rest) := rd_posts k r in (PNeed true :: ps, rest)
  | S k, 11 :: r => let '(ps, rest) := rd_posts k r in (PNeed false :: ps, rest)
  | S k, 12 :: r => let '(ps, rest) := rd_posts k r in (PCompleted :: ps, rest)
  | _, _ => ([], l)
  end.

Fixpoint rd_script (fuel : nat) (l : list Z) : list (reply * list post) :=
  match fuel with
  | O => []
  | S f =>
    match l with
    | 0 :: iv :: mi :: n :: r => let '(ps, rest) := rd_posts (Z.to_nat n) r in (ROk iv mi, ps) :: rd_script f rest
    | 1 :: rt :: n :: r => let '(ps, rest) := rd_posts (Z.to_nat n) r in (RErr rt, ps) :: rd_script f rest
    | 2 :: n :: r => let '(ps, rest) := rd_posts (Z.to_nat n) r in (RFail, ps) :: rd_script f rest
    | 3 :: n :: r => let '(ps, rest) := rd_posts (Z.to_nat n) r in (RCanceled, ps) :: rd_script f rest
    | _ => []
    end
  end.

(* predicted (event, gap since the previous announce started) *)
Fixpoint gaps (prev : Z) (l : list (option (Z * Z))) : list Z :=
  match l with
  | [] => []
  | Some (e, t) :: r => e :: (t - prev) :: gaps t r
  | None :: _ => [-1; -1]
  end.

Definition run_announcer (inp : list Z) : list Z :=
  match inp with
  | mi :: cas :: bo :: r =>
      2 :: gaps 0 (run_script true bo (start mi (z2b cas)) (rd_script (length r) r))
  | _ => [-779]
  end.

(* the observed gaps may exceed the predicted ones by scheduling delay, never undercut them *)
Fixpoint gaps_close (exp obs : list Z) : bool :=
  match exp, obs with
  | [], [] => true
  | e :: g :: r, e' :: g' :: r' =>
      (e =? e') && (if e =? -1 then true else (g - 25 <=? g') && (g' <=? g + 600)) && gaps_close r r'
  | _, _ => false
  end.

Definition mon_announcer (inp obs : list Z) : bool :=
  match run_announcer inp, obs with
  | 2 :: exp, 2 :: o => gaps_close exp o
  | _, _ => false
  end.

(* ---- the stopped event (torrent_stop.go: trackers with HasAnnounced; kind 1504) ----
   a tracker has announced in this run once one of its replies was an accepted announce *)
Inductive treply := TAccepted | TFailureReason | THttpError.
Definition tracker_accepted (rs : list treply) : bool :=
  existsb (fun r => match r with TAccepted => true | _ => false end) rs.
(* in = [mode] (0 the tracker accepts | 1 failure reason | 2 HTTP 500); obs = [started seen; stopped seen] *)
Definition run_stop_event (inp : list Z) : list Z :=
  match inp with
  | [mode] => [1; b2z (tracker_accepted [if mode =? 0 then TAccepted else if mode =? 1 then TFailureReason else THttpError])]
  | _ => [-779]
  end.

(* Model of internal/tracker/tier.go (Tier.Announce / loadIndex).
   [fixed = false] is the code as pinned (index stored without wrap),
   [fixed = true] the code after the "fix:" commit (D5).  Definitions only. *)
From RainV Require Import Lib.

Section Tier.
Variable fixed : bool.
Variable n : Z.                       (* len(t.Trackers), > 0 *)

(* loadIndex: the stored value is mapped to 0 when it is out of range *)
Definition load_index (stored : Z) : Z := if stored >=? n then 0 else stored.

(* value handed to CompareAndSwap as "new" after a failure on [index] *)
Definition next_index (index : Z) : Z :=
  if fixed then (if index + 1 >=? n then 0 else index + 1) else index + 1.

(* t.index.CompareAndSwap(index, next) *)
Definition cas (stored index next : Z) : Z := if stored =? index then next else stored.

(* A whole sequential Announce: returns the member contacted and the new stored index. *)
Definition announce (stored : Z) (ok : bool) : Z * Z :=
  let index := load_index stored in
  (index, if ok then stored else cas stored index (next_index index)).

Fixpoint run_seq (stored : Z) (pat : list bool) : list Z :=
  match pat with
  | [] => []
  | ok :: r => let '(m, s') := announce stored ok in m :: run_seq s' r
  end.

Fixpoint final_seq (stored : Z) (pat : list bool) : Z :=
  match pat with
  | [] => stored
  | ok :: r => final_seq (snd (announce stored ok)) r
  end.

(* Concurrent announces: an announce is two atomic steps, the load (which fixes the
   member it will contact) and, after the member answered, the CAS. *)
Inductive op := Begin (tid : Z) | Finish (tid : Z) (ok : bool).

Record cstate := { stored_ : Z; inflight : list (Z * Z) }.   (* tid -> loaded index *)

Fixpoint lookup (tid : Z) (l : list (Z * Z)) : option Z :=
  match l with
  | [] => None
  | (t, v) :: r => if t =? tid then Some v else lookup tid r
  end.

Fixpoint remove (tid : Z) (l : list (Z * Z)) : list (Z * Z) :=
  match l with
  | [] => []
  | (t, v) :: r => if t =? tid then r else (t, v) :: remove tid r
  end.

(* output: Some member on Begin, None on Finish *)
Definition cstep (s : cstate) (o : op) : cstate * option Z :=
  match o with
  | Begin tid =>
      let index := load_index (stored_ s) in
      ({| stored_ := stored_ s; inflight := (tid, index) :: inflight s |}, Some index)
  | Finish tid ok =>
      match lookup tid (inflight s) with
      | None => (s, None)
      | Some index =>
          ({| stored_ := if ok then stored_ s else cas (stored_ s) index (next_index index);
              inflight := remove tid (inflight s) |}, None)
      end
  end.

Fixpoint crun (s : cstate) (ops : list op) : list Z :=
  match ops with
  | [] => []
  | o :: r => let '(s', out) := cstep s o in
              match out with Some m => m :: crun s' r | None => crun s' r end
  end.

Fixpoint cfinal (s : cstate) (ops : list op) : cstate :=
  match ops with
  | [] => s
  | o :: r => cfinal (fst (cstep s o)) r
  end.

Definition cinit : cstate := {| stored_ := 0; inflight := [] |}.
End Tier.

(* ---- case codec: [n; op...] with op = 0 tid | 1 tid ok ; output = members contacted ---- *)
Fixpoint decode_ops (fuel : nat) (l : list Z) : list op :=
  match fuel with
  | O => []
  | S f =>
    match l with
    | 0 :: tid :: r => Begin tid :: decode_ops f r
    | 1 :: tid :: ok :: r => Finish tid (z2b ok) :: decode_ops f r
    | _ => []
    end
  end.

Definition run_tier (fixed : bool) (inp : list Z) : list Z :=
  match inp with
  | n :: r => crun fixed n cinit (decode_ops (length r) r)
  | [] => []
  end.

(* Monitor over observables only ([ops] as sent by the harness, [obs] the members the real
   Tier contacted): the property read as a specification of the pointer.  The pointer is what
   the latest Begin observed; a Finish moves it by one (mod n) exactly when it reports a
   failure of the member the pointer is on, and leaves it alone otherwise (a stale failure of
   a member the tier already left, or any success, must not move it).  Every Begin must
   observe the pointer so computed, and every member index must be in range. *)
Fixpoint mon_tier_go (n : Z) (cur : Z) (infl : list (Z * Z)) (ops : list op) (obs : list Z) : bool :=
  match ops with
  | [] => match obs with [] => true | _ => false end
  | Begin tid :: r =>
      match obs with
      | [] => false
      | m :: obs' => ((0 <=? m) && (m <? n) && (m =? cur)) && mon_tier_go n cur ((tid, m) :: infl) r obs'
      end
  | Finish tid ok :: r =>
      match lookup tid infl with
      | None => mon_tier_go n cur infl r obs
      | Some v => mon_tier_go n (if negb ok && (v =? cur) then (cur + 1) mod n else cur) (remove tid infl) r obs
      end
  end.

Definition mon_tier (inp obs : list Z) : bool :=
  match inp with
  | n :: r => mon_tier_go n 0 [] (decode_ops (length r) r) obs
  | [] => false
  end.

//go:build verif

package verifhook

import (
	"bytes"
	"math/rand"

	"github.com/cenkalti/rain/v2/internal/metainfo"
)

// kind 602: lists and dictionaries nested n deep under an unknown key of the torrent file or of the info
// dictionary (a decoder that recurses once per level dies of stack exhaustion on a few megabytes of
// opening brackets: the process cannot recover from that).
// in  = [where depth kind]  where 0: top level of the torrent file | 1: inside the info dictionary | 2: NewInfo on the info bytes
//                           kind 0: lists | 1: dictionaries
// obs = [accepted]   (reaching this line at all means the process survived)
func nestedValue(n int, dict bool) []byte {
	if !dict {
		return append(bytes.Repeat([]byte("l"), n), bytes.Repeat([]byte("e"), n)...)
	}
	// d1:ad1:a ... de e...
	var b []byte
	for i := 0; i < n-1; i++ {
		b = append(b, "d1:a"...)
	}
	b = append(b, "de"...)
	for i := 0; i < n-1; i++ {
		b = append(b, 'e')
	}
	return b
}

func runNesting(in []int64) []int64 {
	where, depth, dict := in[0], int(in[1]), in[2] != 0
	info := []byte("d6:lengthi1000e4:name1:t12:piece lengthi16384e6:pieces20:")
	info = append(info, make([]byte, 20)...)
	v := nestedValue(depth, dict)
	var err error
	switch where {
	case 0:
		doc := append([]byte("d4:info"), append(append([]byte{}, info...), 'e')...)
		doc = append(doc, "3:zzz"...)
		doc = append(doc, v...)
		doc = append(doc, 'e')
		_, err = metainfo.New(bytes.NewReader(doc))
	case 1:
		inner := append(append([]byte{}, info...), "3:zzz"...)
		inner = append(inner, v...)
		inner = append(inner, 'e')
		doc := append([]byte("d4:info"), inner...)
		doc = append(doc, 'e')
		_, err = metainfo.New(bytes.NewReader(doc))
	default:
		inner := append(append([]byte{}, info...), "3:zzz"...)
		inner = append(inner, v...)
		inner = append(inner, 'e')
		_, err = metainfo.NewInfo(inner, true, true)
	}
	return []int64{b2i(err == nil)}
}

func genNesting(r *rand.Rand, tier string) Case {
	depth := pick(r, 1, 2, 5, 30, 61, 62, 63, 64, 65, 66, 100, 1000, 100000)
	if r.Intn(40) == 0 {
		depth = 4000000 // ten megabytes is the default limit of a torrent file
	}
	in := []int64{int64(r.Intn(3)), depth, int64(r.Intn(2))}
	if in[2] == 1 && depth > 100000 {
		in[2] = 0
	}
	return Case{In: in, Obs: Guard(func() []int64 { return runNesting(in) })}
}

func init() {
	Register(602, "metainfo with lists / dictionaries nested n deep under an unknown key: accepted up to the limit, refused beyond, never a crash", genNesting)
	RegisterReplay(602, runNesting)
}

//go:build verif

package verifhook

import (
	"bytes"
	"fmt"
	"math/rand"
	"os"

	"github.com/cenkalti/rain/v2/torrent"
)

// kind 1704: a torrent with k web seed URLs is added to a session whose WebseedMaxSources is c.
// in = [k c]   obs = [add failed or panicked, web seeds kept]
func runWebseedCap(in []int64) []int64 {
	k, c := int(in[0]), int(in[1])
	dir, err := os.MkdirTemp("/verif/.work", "wscap")
	if err != nil {
		return []int64{-710}
	}
	defer os.RemoveAll(dir)
	cfg := torrent.DefaultConfig
	cfg.Database = dir + "/s.db"
	cfg.DataDir = dir + "/data"
	cfg.DHTEnabled = false
	cfg.RPCEnabled = false
	cfg.WebseedMaxSources = c
	cfg.PortBegin, cfg.PortEnd = 9900, 9990
	s, err := torrent.NewSession(cfg)
	if err != nil {
		return []int64{-711}
	}
	defer s.Close()
	l := vLayout{PL: 16384, Lens: []int64{1000}, Pads: []bool{false}, Name: "c", Total: 1000}
	var urls []string
	for i := 0; i < k; i++ {
		urls = append(urls, fmt.Sprintf("http://127.0.0.1:1/seed%d/", i))
	}
	tf := torrent.BuildTorrentFile(l.InfoBytes(l.Content(1), -1), urls)
	failed, kept := int64(0), int64(0)
	func() {
		defer func() {
			if e := recover(); e != nil {
				failed = 1
			}
		}()
		t, err := s.AddTorrent(bytes.NewReader(tf), &torrent.AddTorrentOptions{Stopped: true})
		if err != nil {
			failed = 1
			return
		}
		kept = int64(len(t.Webseeds()))
	}()
	return []int64{failed, kept}
}

func genWebseedCap(r *rand.Rand, tier string) Case {
	in := []int64{int64(r.Intn(16)), pick(r, 0, 1, 2, 3, 5, 9, 10, 11, 14, 20)}
	return Case{In: in, Obs: Guard(func() []int64 { return runWebseedCap(in) })}
}

func init() {
	Register(1704, "a torrent with k web seed URLs added under WebseedMaxSources = c: no crash, min(k, c) sources kept", genWebseedCap)
	RegisterReplay(1704, runWebseedCap)
}

(* Model of internal/piecedownloader (assembling one piece from blocks) and of the piece writer's
   decision (hash check, then write).  Definitions only. *)
From RainV Require Import Lib Geometry SectionIO.

Record pdl := { pd_blocks : list blk;            (* calculateBlocks of the piece *)
                pd_remaining : list Z;            (* begins, request order *)
                pd_pending : list Z;
                pd_done : list Z;
                pd_buf : list Z;                  (* piece buffer, zero-initialised *)
                pd_af : bool; pd_fast : bool }.

Definition pdl_new (blocks : list blk) (plen : Z) (af fast : bool) : pdl :=
  {| pd_blocks := blocks; pd_remaining := map bbeg blocks; pd_pending := []; pd_done := [];
     pd_buf := repeat 0 (Z.to_nat plen); pd_af := af; pd_fast := fast |}.

Definition zmem (x : Z) (l : list Z) : bool := existsb (Z.eqb x) l.
Definition zrem (x : Z) (l : list Z) : list Z := filter (fun y => negb (y =? x)) l.

Fixpoint block_len (begin : Z) (l : list blk) : option Z :=
  match l with
  | [] => None
  | b :: r => if bbeg b =? begin then Some (blen b) else block_len begin r
  end.

Definition find_block (d : pdl) (begin len : Z) : bool :=
  match block_len begin (pd_blocks d) with Some l => l =? len | None => false end.

Inductive gres := GOk | GInvalid | GDuplicate | GNotRequested.

Definition put (buf : list Z) (begin : Z) (data : list Z) : list Z :=
  firstn (Z.to_nat begin) buf ++ data ++ skipn (Z.to_nat begin + length data) buf.

Definition got_blk (d : pdl) (begin : Z) (data : list Z) : pdl * gres :=
  if negb (find_block d begin (zlen data)) then (d, GInvalid)
  else if zmem begin (pd_done d) then (d, GDuplicate)
  else
    let d1 := {| pd_blocks := pd_blocks d; pd_remaining := pd_remaining d; pd_pending := zrem begin (pd_pending d);
                 pd_done := pd_done d ++ [begin]; pd_buf := put (pd_buf d) begin data; pd_af := pd_af d; pd_fast := pd_fast d |} in
    if zmem begin (pd_pending d) then (d1, GOk) else (d1, GNotRequested).

(* RequestBlocks(q): returns requests sent (begin, len) *)
Fixpoint req_blocks (d : pdl) (rem : list Z) (q : Z) (sent : list (Z * Z)) : pdl * list (Z * Z) :=
  match rem with
  | [] => (d, sent)
  | begin :: r =>
      if zlen (pd_pending d) >=? q then (d, sent)
      else
        let len := match block_len begin (pd_blocks d) with Some l => l | None => 0 end in
        let sent' := if zmem begin (pd_done d) then sent else sent ++ [(begin, len)] in
        req_blocks {| pd_blocks := pd_blocks d; pd_remaining := tl (pd_remaining d);
                      pd_pending := if zmem begin (pd_pending d) then pd_pending d else pd_pending d ++ [begin];
                      pd_done := pd_done d; pd_buf := pd_buf d; pd_af := pd_af d; pd_fast := pd_fast d |} r q sent'
  end.
Definition request_blocks (d : pdl) (q : Z) : pdl * list (Z * Z) := req_blocks d (pd_remaining d) q [].

Definition choked (d : pdl) : pdl :=
  if pd_af d || pd_fast d then d
  else {| pd_blocks := pd_blocks d; pd_remaining := pd_remaining d ++ pd_pending d; pd_pending := [];
          pd_done := pd_done d; pd_buf := pd_buf d; pd_af := pd_af d; pd_fast := pd_fast d |}.

Definition rejected (d : pdl) (begin len : Z) : pdl * bool :=
  if find_block d begin len
  then ({| pd_blocks := pd_blocks d; pd_remaining := pd_remaining d ++ [begin]; pd_pending := zrem begin (pd_pending d);
           pd_done := pd_done d; pd_buf := pd_buf d; pd_af := pd_af d; pd_fast := pd_fast d |}, true)
  else (d, false).

Definition pd_finished (d : pdl) : bool := Nat.eqb (length (pd_done d)) (length (pd_blocks d)).

(* ---- case codec, kind 102 ----
   in = [bs; nsecs; (len pad)*; af; fast; ops...]  (blocks computed with calculateBlocks(bs))
   ops: 1 q | 2 begin n b (data = n bytes equal to b) | 3 (choked) | 4 begin len (rejected)
   obs: 1 -> nreq (begin len)* ; 2 -> code ; 3 -> [] ; 4 -> ok ; each followed by done flag, npending, probe of the buffer *)
Definition sort_pairs (l : list (Z * Z)) : list (Z * Z) :=
  fold_right (fun x acc => (fix ins (l : list (Z * Z)) := match l with [] => [x] | y :: r => if fst x <=? fst y then x :: l else y :: ins r end) acc) [] l.

Definition gcode (g : gres) : Z := match g with GOk => 0 | GInvalid => 1 | GDuplicate => 2 | GNotRequested => 3 end.

Definition probe (buf : list Z) (blocks : list blk) : list Z :=
  flat_map (fun b => [nth (Z.to_nat (bbeg b)) buf (-1); nth (Z.to_nat (bbeg b + blen b - 1)) buf (-1)]) blocks.

Definition tail_obs (d : pdl) : list Z := b2z (pd_finished d) :: zlen (pd_pending d) :: probe (pd_buf d) (pd_blocks d).

Fixpoint run_pd_go (fuel : nat) (d : pdl) (l : list Z) : list Z :=
  match fuel with
  | O => []
  | S f =>
    match l with
    | 1 :: q :: r => let '(d', sent) := request_blocks d q in
                     zlen sent :: flat_map (fun p => [fst p; snd p]) (sort_pairs sent) ++ tail_obs d' ++ run_pd_go f d' r
    | 2 :: begin :: n :: b :: r => let '(d', g) := got_blk d begin (repeat b (Z.to_nat n)) in
                                   gcode g :: tail_obs d' ++ run_pd_go f d' r
    | 3 :: r => let d' := choked d in tail_obs d' ++ run_pd_go f d' r
    | 4 :: begin :: len :: r => let '(d', ok) := rejected d begin len in b2z ok :: tail_obs d' ++ run_pd_go f d' r
    | _ => []
    end
  end.

Definition run_piecedl (inp : list Z) : list Z :=
  match inp with
  | bs :: ns :: r =>
      let secs := rd_secs (Z.to_nat ns) r in
      match rdn (2 * Z.to_nat ns) r with
      | Some (_, af :: fast :: ops) =>
          match calc_blocks true bs secs with
          | Ok bl => run_pd_go (length ops) (pdl_new bl (sum_slen secs) (z2b af) (z2b fast)) ops
          | _ => [-778]
          end
      | _ => [-779]
      end
  | _ => [-779]
  end.

(* ---- the verifier (internal/verifier): in = [np (short equal)*np] ---- *)
Fixpoint ver_pairs (l : list Z) : list (bool * bool) :=
  match l with s :: e :: r => (z2b s, z2b e) :: ver_pairs r | _ => [] end.
(* a read that hits the end of a file is an error of the whole verification; otherwise a piece is
   marked exactly when its bytes on disk are the content *)
Definition run_verifier (inp : list Z) : list Z :=
  match inp with
  | np :: r =>
      let ps := firstn (Z.to_nat np) (ver_pairs r) in
      if existsb fst ps then [1] else 0 :: map (fun p => b2z (snd p)) ps
  | [] => [-779]
  end.

#!/bin/bash
# suite.sh: run the repository's own test suite on /repo's working tree and compare with the stable baseline
export GOFLAGS=-mod=mod GOPROXY=off GOSUMDB=off GOTOOLCHAIN=local
cd /repo && go1.26 build ./... || exit 2
go1.26 test -vet=off -count=1 -json -timeout 25m ./... > /verif/.work/suite.json 2>/dev/null
python3 - <<'PY'
import json
b=json.load(open('/root/.vp/BASELINE.json')); stable=set(b['stable_pass'])
res={}
for l in open('/verif/.work/suite.json'):
    try: d=json.loads(l)
    except: continue
    if d.get('Test') and d.get('Action') in ('pass','fail','skip'):
        res[d['Package']+'::'+d['Test']]=d['Action']
bad=[t for t in stable if res.get(t)!='pass']
print('stable',len(stable),'passing',len(stable)-len(bad),'not passing',bad[:10])
PY

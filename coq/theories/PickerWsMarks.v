From RainV Require Import Lib Picker PickerProofs PickerWs PickerWsProofs.
From RainV Require Import PickerMarks.
From Coq Require Import Lia ZArith List Bool.
Import ListNotations.
Open Scope Z_scope.

(* the marks invariant through the web-seed model *)
Lemma assign_minv b pe i af : PInv b -> MInv b -> Dl b pe = false -> in_range b i = true -> MInv (assign_piece b pe i af).
Proof.
  intros I M Hdl Hr. assert (Hi : 0 <= i) by (unfold in_range in Hr; lia).
  pose proof (dl_false_pp_none b pe I Hdl) as Hnone. unfold assign_piece.
  set (f := fun p => set_marks p (sadd pe (p_req p)) (p_snub p) (p_chok p)).
  destruct (upd_marks b i f Hi Hr) as (U1 & U2).
  set (P := get_peer (peers b) pe).
  set (v := {| pe_choking := pe_choking P; pe_downloading := true; pe_af := pe_af P; pe_piece := Some (i, af) |}).
  destruct (with_peer_views (upd_piece b i f) pe v) as (V1 & V2 & V3 & V4).
  assert (S' : forall j, 0 <= j -> SN (with_peer (upd_piece b i f) pe v) j = SN b j).
  { intros j Hj. rewrite V3, U1 by assumption. destruct (j =? i) eqn:E; [assert (j = i) by lia; subst; reflexivity|reflexivity]. }
  assert (C' : forall j, 0 <= j -> CH (with_peer (upd_piece b i f) pe v) j = CH b j).
  { intros j Hj. rewrite V4, U2 by assumption. destruct (j =? i) eqn:E; [assert (j = i) by lia; subst; reflexivity|reflexivity]. }
  assert (K' : forall q, CK (with_peer (upd_piece b i f) pe v) q = CK b q).
  { intros q. rewrite V2. destruct (q =? pe) eqn:E; [assert (q = pe) by lia; subst; reflexivity|reflexivity]. }
  assert (P' : forall q, q <> pe -> PP (with_peer (upd_piece b i f) pe v) q = PP b q).
  { intros q Hq. rewrite V1. replace (q =? pe) with false by lia. reflexivity. }
  constructor.
  - intros j q Hj Hq. rewrite C' in Hq by assumption. rewrite K'. destruct (m_ch b M j q Hj Hq) as [A B]. split; [exact A|].
    destruct (Z.eq_dec q pe) as [->|Hne]; [congruence|rewrite P' by exact Hne; exact B].
  - intros j q Hj Hq. rewrite S' in Hq by assumption. destruct (m_sn b M j q Hj Hq) as [a B].
    destruct (Z.eq_dec q pe) as [->|Hne]; [congruence|exists a; rewrite P' by exact Hne; exact B].
  - intros j q Hj Hq. rewrite C' in Hq by assumption. rewrite S' by assumption. apply (m_dj b M); assumption.
Qed.

Theorem wstep_minv s o s' : Inv3 s -> MInv (base s) -> wstep s o = Some s' -> MInv (base s').
Proof.
  intros J M H. pose proof J as (I & P & A). destruct o as [o0|k obs|k|k|i].
  - destruct o0 as [pe i|pe i|pe|pe|pe|pe obs|pe|pe|i|i ok];
      try (cbn [wstep] in H; match type of H with option_map _ (pstep _ ?o) = _ => destruct (pstep (base s) o) as [b'|] eqn:Ep; [|discriminate];
                                 inversion H; subst; cbn [base with_base]; eapply mstep; eauto end).
    cbn [wstep] in H. unfold wpick_check in H. destruct (downloading_ws s) eqn:Hd.
    2:{ destruct (pick_check (base s) pe obs) as [b'|] eqn:Ep; [|discriminate]. inversion H; subst. cbn [base with_base]. apply (mstep (base s) (OPick pe obs)); assumption. }
    assert (Hnone : forall o, none_only s o = Some s' -> MInv (base s')) by (intros [x|] Hn; cbn [none_only] in Hn; inversion Hn; subst; exact M).
    destruct (pe_downloading (get_peer (peers (base s)) pe)) eqn:Edl; [eauto|].
    destruct (pe_choking (get_peer (peers (base s)) pe)) eqn:Ech; [eauto|].
    destruct (gap_cands s pe) as [|x r] eqn:E.
    + destruct (peer_steal s pe) as [[k j]|] eqn:Es; [|eauto].
      destruct obs as [[i af]|]; [|discriminate].
      assert (Hs : sound_pick (base s) pe i).
      { eapply (ws_pick_sound s pe i af); [exact I|exact Hd|]. unfold wpick_check. rewrite Hd, Edl, Ech, E, Es. exact H. }
      destruct ((i =? j) && _) eqn:Ec; [|discriminate]. apply andb_prop in Ec as [Ec _]. assert (i = j) by lia. subst j.
      unfold peer_steal in Es. apply peer_steal_go_spec in Es as (d & Hin & Hr & Hc). apply dl_srcs_in in Hin as [Hk Ek].
      destruct (w_dl s I k d Hk Ek) as (D1 & D2 & D3 & D4 & D5).
      destruct (stop_at_ok s k d i I Hk Ek ltac:(lia)) as (s1 & c & Est & I1 & B1 & _).
      rewrite Est in H. inversion H; subst s'. cbn [base with_base]. rewrite B1. destruct Hs as (S1 & _).
      apply assign_minv; assumption.
    + destruct obs as [[i af]|]; [|discriminate].
      destruct (ws_gap_legal s pe i && _) eqn:Ec; [|discriminate]. apply andb_prop in Ec as [Ec _]. inversion H; subst s'.
      cbn [base with_base]. destruct (gap_pick_sound s pe i Ec) as (S1 & _). apply assign_minv; assumption.
  - cbn [wstep] in H. destruct (pick_webseed_ok s k obs s' I H) as (_ & B' & _). rewrite B'. exact M.
  - cbn [wstep] in H. destruct (src_in_range s k); [|discriminate]. cbn [negb] in H.
    destruct (get_src s k) as [d|]; [|discriminate]. destruct (d_cur d <? d_end d); [|discriminate]. inversion H; subst. exact M.
  - cbn [wstep] in H. destruct (src_in_range s k) eqn:Er; [|discriminate]. cbn [negb] in H. unfold src_in_range in Er.
    destruct (close_ws_ok s k I ltac:(lia)) as (s2 & E2 & _ & B2 & _). rewrite E2 in H. inversion H; subst. rewrite B2. exact M.
  - cbn [wstep] in H. destruct (in_range (base s) i) eqn:Er; [|discriminate]. cbn [negb] in H. unfold in_range in Er. fold (npieces s) in Er.
    destruct (get_owner s i) as [k|] eqn:Eo; [|inversion H; subst; exact M].
    destruct (w_own s I i k ltac:(lia) Eo) as (Hk & d & Ek & Hr).
    destruct (stop_at_ok s k d i I Hk Ek Hr) as (s1 & c & Est & _ & B1 & _). rewrite Est in H. cbn [option_map fst] in H. inversion H; subst. rewrite B1. exact M.
Qed.

(* every history of the web-seed model keeps the marks consistent *)
Theorem reachable_marks_ws ps seq md nsrc mws ops s :
  Forall (fun p => p_req p = [] /\ p_having p = [] /\ p_snub p = [] /\ p_chok p = []) ps ->
  run_wops (init_ws ps seq md nsrc mws) ops = Some s -> MInv (base s).
Proof.
  intros H0.
  assert (G : forall ops s0, Inv3 s0 -> MInv (base s0) -> run_wops s0 ops = Some s -> MInv (base s)).
  { induction ops0 as [|o r IH]; intros s0 J M H; cbn [run_wops] in H; [inversion H; subst; exact M|].
    destruct (wstep s0 o) as [s1|] eqn:E; [|discriminate]. eapply IH; [eapply wstep_inv; eauto|eapply wstep_minv; eauto|exact H]. }
  apply G.
  - apply init_inv3. eapply Forall_impl; [|exact H0]. intros p (A & B & _). split; assumption.
  - apply (init_minv ps seq md). eapply Forall_impl; [|exact H0]. intros p (_ & _ & A & B). split; assumption.
Qed.

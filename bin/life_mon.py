#!/usr/bin/env python3
# developer helper: classify monitor failures of kind-401 cases (mirrors Life.mon_life_code)
import sys, collections
c=collections.Counter(); ex={}
for idx,l in enumerate(open(sys.argv[1])):
    parts=l.split('|'); inp=list(map(int,parts[1].split())); obs=list(map(int,parts[2].split()))
    np_,nf=inp[0],inp[1]; evs=inp[2+nf+np_:]
    ol=2+np_+4+np_+1
    o=ol; k=0; code=0; i=0
    while i < len(evs):
        ev=evs[i]; skip={4:2+np_+np_+nf,7:1,8:nf+np_}.get(ev,0); i+=1+skip
        ob=obs[o:o+ol]; o+=ol
        if len(ob)<ol: break
        st,hasbf=ob[0],ob[1]; bits=ob[2:2+np_]; compl,handles,dov,hasp=ob[2+np_:6+np_]; crashed=ob[-1]
        if crashed: code=1
        elif st==2 and not (hasbf and all(bits)): code=2
        elif st==0 and handles!=0: code=3
        elif ev==1 and st in (0,6): code=4
        elif ev==2 and st not in (0,6): code=5
        elif st in (1,2) and dov: code=6
        if code: break
        k+=1
    c[code]+=1
    if code and code not in ex: ex[code]=idx
print(dict(c)); print('examples', ex)

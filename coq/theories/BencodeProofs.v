(* decode (encode v) = v for the bencode model, for every value. *)
From RainV Require Import Lib Bencode.
From Coq Require Import Decimal DecimalZ DecimalPos ZifyBool.

Lemma uint_roundtrip : forall u rest,
  (match rest with c :: _ => is_digit c = false | [] => True end) ->
  uint_of_bytes (bytes_of_uint u ++ rest) = (u, rest).
Proof.
  induction u as [|u IH|u IH|u IH|u IH|u IH|u IH|u IH|u IH|u IH|u IH]; intros rest H;
    cbn [bytes_of_uint]; rewrite <- ?app_comm_cons; change ([] ++ rest) with rest.
  - destruct rest as [|c r]; [reflexivity|]. cbn [uint_of_bytes]. rewrite H. reflexivity.
  - cbn [uint_of_bytes]. change (is_digit 48) with true. cbv iota. rewrite IH by assumption. reflexivity.
  - cbn [uint_of_bytes]. change (is_digit 49) with true. cbv iota. rewrite IH by assumption. reflexivity.
  - cbn [uint_of_bytes]. change (is_digit 50) with true. cbv iota. rewrite IH by assumption. reflexivity.
  - cbn [uint_of_bytes]. change (is_digit 51) with true. cbv iota. rewrite IH by assumption. reflexivity.
  - cbn [uint_of_bytes]. change (is_digit 52) with true. cbv iota. rewrite IH by assumption. reflexivity.
  - cbn [uint_of_bytes]. change (is_digit 53) with true. cbv iota. rewrite IH by assumption. reflexivity.
  - cbn [uint_of_bytes]. change (is_digit 54) with true. cbv iota. rewrite IH by assumption. reflexivity.
  - cbn [uint_of_bytes]. change (is_digit 55) with true. cbv iota. rewrite IH by assumption. reflexivity.
  - cbn [uint_of_bytes]. change (is_digit 56) with true. cbv iota. rewrite IH by assumption. reflexivity.
  - cbn [uint_of_bytes]. change (is_digit 57) with true. cbv iota. rewrite IH by assumption. reflexivity.
Qed.

Lemma bytes_of_uint_head u : u <> Nil -> exists c r, bytes_of_uint u = c :: r /\ is_digit c = true.
Proof. destruct u; intros H; [congruence| | | | | | | | | |]; cbn [bytes_of_uint]; eexists; eexists; split; reflexivity. Qed.

Lemma to_int_nonnil z : match Z.to_int z with Decimal.Pos u | Decimal.Neg u => u <> Nil end.
Proof. destruct z; cbn [Z.to_int]; [discriminate| |]; apply Unsigned.to_uint_nonnil. Qed.


Ltac zcase c :=
  destruct c as [|?p|?p]; try reflexivity;
  repeat (match goal with q : positive |- _ => destruct q; try reflexivity end);
  try congruence.

Lemma match45 {A} (c : Z) (a b : A) : c <> 45 -> match c with 45 => a | _ => b end = b.
Proof. intros H. zcase c. Qed.

Lemma dec_int_nominus c r : c <> 45 ->
  dec_int (c :: r) = match uint_of_bytes (c :: r) with
                     | (Nil, _) => None
                     | (u, 101 :: rest) => Some (Z.of_int (Decimal.Pos u), rest)
                     | _ => None
                     end.
Proof. intros H. unfold dec_int. zcase c. Qed.

Lemma dec_list_step f c tl : c <> 101 ->
  dec_list (S f) (c :: tl) =
  match dec_val f (c :: tl) with
  | Some (v, rest) => match dec_list f rest with Some (l, rest') => Some (v :: l, rest') | None => None end
  | None => None
  end.
Proof. intros H. cbn [dec_list]. zcase c. Qed.

Lemma dec_dict_step f c tl : c <> 101 ->
  dec_dict (S f) (c :: tl) =
  match dec_str (c :: tl) with
  | Some (k, rest) =>
      match dec_val f rest with
      | Some (v, rest') => match dec_dict f rest' with Some (d, rest'') => Some ((k, v) :: d, rest'') | None => None end
      | None => None
      end
  | None => None
  end.
Proof. intros H. cbn [dec_dict]. zcase c. Qed.

Lemma dec_int_roundtrip z rest : dec_int (bytes_of_Z z ++ 101 :: rest) = Some (z, rest).
Proof.
  unfold bytes_of_Z. pose proof (to_int_nonnil z) as Hn. pose proof (DecimalZ.of_to z) as Hz.
  destruct (Z.to_int z) as [u|u] eqn:E.
  - destruct (bytes_of_uint_head u Hn) as (c & r & Hb & Hd).
    assert (Hc : c <> 45) by (unfold is_digit in Hd; lia).
    rewrite Hb. rewrite <- app_comm_cons. rewrite dec_int_nominus by assumption.
    rewrite app_comm_cons, <- Hb.
    rewrite uint_roundtrip by reflexivity. destruct u; [congruence|..]; rewrite <- Hz; reflexivity.
  - rewrite <- app_comm_cons. unfold dec_int. rewrite uint_roundtrip by reflexivity.
    destruct u; [congruence|..]; rewrite <- Hz; reflexivity.
Qed.

Lemma bytes_of_Z_nonneg n : 0 <= n -> exists u, bytes_of_Z n = bytes_of_uint u /\ u <> Nil /\ Z.of_uint u = n.
Proof.
  intros H. unfold bytes_of_Z. pose proof (to_int_nonnil n) as Hn. pose proof (DecimalZ.of_to n) as Hz.
  destruct (Z.to_int n) as [u|u] eqn:E.
  - exists u. auto.
  - exfalso. destruct n; cbn in E; try discriminate. lia.
Qed.

Lemma firstn_skipn_app {A} (a b : list A) : firstn (length a) (a ++ b) = a /\ skipn (length a) (a ++ b) = b.
Proof.
  split.
  - rewrite firstn_app, Nat.sub_diag, firstn_all. cbn [firstn]. apply app_nil_r.
  - rewrite skipn_app, skipn_all, Nat.sub_diag. reflexivity.
Qed.

Lemma dec_str_roundtrip s rest : dec_str (enc_str s ++ rest) = Some (s, rest).
Proof.
  unfold enc_str. destruct (bytes_of_Z_nonneg (zlen s) (zlen_nonneg s)) as (u & Hb & Hn & Hz).
  rewrite Hb, <- app_assoc, <- app_comm_cons.
  unfold dec_str. rewrite uint_roundtrip by reflexivity.
  assert (Hle : (Z.of_uint u <=? zlen (s ++ rest)) = true).
  { rewrite Hz, zlen_app. pose proof (zlen_nonneg rest). lia. }
  destruct (firstn_skipn_app s rest) as [Hf Hs].
  destruct u; [congruence|..]; rewrite Hle, Hz; unfold zlen; rewrite Nat2Z.id, Hf, Hs; reflexivity.
Qed.

Lemma enc_str_head s : exists c r, enc_str s = c :: r /\ is_digit c = true.
Proof.
  unfold enc_str. destruct (bytes_of_Z_nonneg (zlen s) (zlen_nonneg s)) as (u & Hb & Hn & _).
  rewrite Hb. destruct (bytes_of_uint_head u Hn) as (c & r & -> & Hd). exists c, (r ++ 58 :: s). auto.
Qed.

(* first byte of an encoding is never 'e' *)
Lemma enc_head v : exists c r, enc v = c :: r /\ c <> 101.
Proof.
  destruct v as [z|s|l|d]; cbn [enc].
  - eexists; eexists; split; [reflexivity|lia].
  - destruct (enc_str_head s) as (c & r & -> & Hd). exists c, r. split; [reflexivity|unfold is_digit in Hd; lia].
  - eexists; eexists; split; [reflexivity|lia].
  - eexists; eexists; split; [reflexivity|lia].
Qed.

(* ---- fuel needed ---- *)
Fixpoint need (v : bval) : nat :=
  match v with
  | BInt _ | BStr _ => 1
  | BList l => S ((fix nl (l : list bval) : nat :=
                     match l with [] => 1 | x :: r => S (Nat.max (need x) (nl r)) end) l)
  | BDict d => S ((fix nd (d : list (list Z * bval)) : nat :=
                     match d with [] => 1 | kv :: r => S (Nat.max (need (snd kv)) (nd r)) end) d)
  end%nat.
Fixpoint need_list (l : list bval) : nat :=
  match l with [] => 1 | x :: r => S (Nat.max (need x) (need_list r)) end%nat.
Fixpoint need_dict (d : list (list Z * bval)) : nat :=
  match d with [] => 1 | kv :: r => S (Nat.max (need (snd kv)) (need_dict r)) end%nat.
Lemma need_BList l : need (BList l) = S (need_list l).
Proof. reflexivity. Qed.
Lemma need_BDict d : need (BDict d) = S (need_dict d).
Proof. reflexivity. Qed.

(* induction principle with the nested lists *)
Section Ind.
Variable P : bval -> Prop.
Hypothesis HI : forall z, P (BInt z).
Hypothesis HS : forall s, P (BStr s).
Hypothesis HL : forall l, Forall P l -> P (BList l).
Hypothesis HD : forall d, Forall (fun kv => P (snd kv)) d -> P (BDict d).
Fixpoint bval_ind' (v : bval) : P v :=
  match v with
  | BInt z => HI z
  | BStr s => HS s
  | BList l => HL l ((fix go (l : list bval) : Forall P l :=
                        match l with [] => Forall_nil _ | x :: r => Forall_cons x (bval_ind' x) (go r) end) l)
  | BDict d => HD d ((fix go (d : list (list Z * bval)) : Forall (fun kv => P (snd kv)) d :=
                        match d with [] => Forall_nil _ | kv :: r => Forall_cons kv (bval_ind' (snd kv)) (go r) end) d)
  end.
End Ind.

Definition rt (v : bval) : Prop :=
  forall fuel rest, (need v <= fuel)%nat -> dec_val fuel (enc v ++ rest) = Some (v, rest).

Lemma digit_cases c : is_digit c = true ->
  c = 48 \/ c = 49 \/ c = 50 \/ c = 51 \/ c = 52 \/ c = 53 \/ c = 54 \/ c = 55 \/ c = 56 \/ c = 57.
Proof. unfold is_digit. lia. Qed.

Lemma dec_val_digit f c r : is_digit c = true ->
  dec_val (S f) (c :: r) = match dec_str (c :: r) with Some (b, rest) => Some (BStr b, rest) | None => None end.
Proof.
  intros H. apply digit_cases in H.
  destruct H as [->|[->|[->|[->|[->|[->|[->|[->|[->| ->]]]]]]]]]; reflexivity.
Qed.

Lemma dec_val_str fuel s rest : (1 <= fuel)%nat -> dec_val fuel (enc_str s ++ rest) = Some (BStr s, rest).
Proof.
  intros Hf. destruct fuel as [|f]; [lia|].
  destruct (enc_str_head s) as (c & r & Hc & Hd).
  pose proof (dec_str_roundtrip s rest) as Hr. rewrite Hc in *. rewrite <- app_comm_cons in *.
  rewrite dec_val_digit by assumption. rewrite Hr. reflexivity.
Qed.

Lemma rt_list l : Forall rt l -> forall fuel rest, (need_list l <= fuel)%nat ->
  dec_list fuel (flat_map enc l ++ 101 :: rest) = Some (l, rest).
Proof.
  induction 1 as [|x r Hx Hr IH]; intros fuel rest Hf; cbn [need_list] in Hf.
  - destruct fuel; [lia|]. reflexivity.
  - destruct fuel as [|f]; [lia|]. cbn [flat_map]. rewrite <- app_assoc.
    destruct (enc_head x) as (c & t & Hc & Hne).
    rewrite Hc, <- app_comm_cons. rewrite dec_list_step by assumption.
    rewrite app_comm_cons, <- Hc.
    rewrite Hx by lia. rewrite IH by lia. reflexivity.
Qed.

Lemma rt_dict d : Forall (fun kv => rt (snd kv)) d -> forall fuel rest, (need_dict d <= fuel)%nat ->
  dec_dict fuel (flat_map (fun kv => enc_str (fst kv) ++ enc (snd kv)) d ++ 101 :: rest) = Some (d, rest).
Proof.
  induction 1 as [|[k v] r Hx Hr IH]; intros fuel rest Hf; cbn [need_dict snd] in Hf.
  - destruct fuel; [lia|]. reflexivity.
  - destruct fuel as [|f]; [lia|]. cbn [flat_map fst snd]. rewrite <- !app_assoc.
    destruct (enc_str_head k) as (c & t & Hc & Hd).
    assert (Hne : c <> 101) by (unfold is_digit in Hd; lia).
    pose proof (dec_str_roundtrip k (enc v ++ flat_map (fun kv => enc_str (fst kv) ++ enc (snd kv)) r ++ 101 :: rest)) as Hk.
    rewrite Hc in *. rewrite <- app_comm_cons in *. rewrite dec_dict_step by assumption. rewrite Hk. cbn [snd] in Hx.
    rewrite Hx by lia. rewrite IH by lia. reflexivity.
Qed.

Theorem dec_enc_fuel : forall v, rt v.
Proof.
  apply bval_ind'; unfold rt.
  - intros z fuel rest Hf. destruct fuel as [|f]; [cbn in Hf; lia|]. cbn [enc].
    rewrite <- app_comm_cons, <- app_assoc. cbn [dec_val]. change ([101] ++ rest) with (101 :: rest).
    rewrite dec_int_roundtrip. reflexivity.
  - intros s fuel rest Hf. cbn [enc]. apply dec_val_str. cbn in Hf. lia.
  - intros l Hl fuel rest Hf. rewrite need_BList in Hf. destruct fuel as [|f]; [lia|].
    cbn [enc]. rewrite <- app_comm_cons, <- app_assoc. cbn [dec_val]. change ([101] ++ rest) with (101 :: rest).
    rewrite (rt_list l Hl) by lia. reflexivity.
  - intros d Hd fuel rest Hf. rewrite need_BDict in Hf. destruct fuel as [|f]; [lia|].
    cbn [enc]. rewrite <- app_comm_cons, <- app_assoc. cbn [dec_val]. change ([101] ++ rest) with (101 :: rest).
    rewrite (rt_dict d Hd) by lia. reflexivity.
Qed.

(* the fuel [decode] uses (input length + 1) always suffices *)
Lemma enc_len_pos v : (2 <= length (enc v))%nat.
Proof.
  destruct v as [z|s|l|d]; cbn [enc length].
  - rewrite app_length. cbn. lia.
  - unfold enc_str. destruct (bytes_of_Z_nonneg (zlen s) (zlen_nonneg s)) as (u & -> & Hn & _).
    destruct (bytes_of_uint_head u Hn) as (c & r & -> & _). cbn. rewrite app_length. cbn. lia.
  - rewrite app_length. cbn. lia.
  - rewrite app_length. cbn. lia.
Qed.

Lemma need_le_len : forall v, (need v <= length (enc v))%nat.
Proof.
  apply bval_ind'.
  - intros z. pose proof (enc_len_pos (BInt z)). cbn [need]. lia.
  - intros s. pose proof (enc_len_pos (BStr s)). cbn [need]. lia.
  - intros l Hl. rewrite need_BList. cbn [enc length]. rewrite app_length. cbn [length].
    assert (need_list l <= length (flat_map enc l) + 1)%nat.
    { induction Hl as [|x r Hx Hr IH]; [cbn; lia|]. cbn [need_list flat_map]. rewrite app_length.
      pose proof (enc_len_pos x). lia. }
    lia.
  - intros d Hd. rewrite need_BDict. cbn [enc length]. rewrite app_length. cbn [length].
    assert (need_dict d <= length (flat_map (fun kv => enc_str (fst kv) ++ enc (snd kv)) d) + 1)%nat.
    { induction Hd as [|x r Hx Hr IH]; [cbn; lia|]. cbn [need_dict flat_map]. rewrite !app_length.
      pose proof (enc_len_pos (snd x)). lia. }
    lia.
Qed.

Theorem decode_encode v rest : decode (enc v ++ rest) = Some (v, rest).
Proof.
  unfold decode. apply dec_enc_fuel. pose proof (need_le_len v). rewrite app_length. lia.
Qed.

(* the decoder is total: on every byte string and every fuel it returns a value or None; its
   recursion depth is bounded by the fuel, i.e. by the input length + 1 in [decode] (this is
   what a structurally recursive Gallina function gives for free; stated for the record) *)
Theorem decode_total s : decode s = None \/ exists v rest, decode s = Some (v, rest).
Proof. destruct (decode s) as [[v r]|]; [right; eauto|left; reflexivity]. Qed.

Example decode_example :
  decode [100; 49; 58; 97; 105; 45; 52; 50; 101; 49; 58; 98; 108; 49; 58; 120; 101; 101; 7] =
  Some (BDict [([97], BInt (-42)); ([98], BList [BStr [120]])], [7]).
Proof. vm_compute. reflexivity. Qed.

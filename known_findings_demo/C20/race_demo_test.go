package torrent

import (
	"bytes"
	"crypto/sha1"
	"sync"
	"testing"
	"time"

	"github.com/zeebo/bencode"
)

func TestRaceDemo(t *testing.T) {
	dir := t.TempDir()
	cfg := DefaultConfig
	cfg.Database = dir + "/s.db"
	cfg.DataDir = dir + "/data"
	cfg.DHTEnabled = false
	cfg.RPCEnabled = false
	cfg.PortBegin, cfg.PortEnd = 41000, 41100
	s, err := NewSession(cfg)
	if err != nil {
		t.Fatal(err)
	}
	defer s.Close()
	content := make([]byte, 40000)
	h1, h2, h3 := sha1.Sum(content[:16384]), sha1.Sum(content[16384:32768]), sha1.Sum(content[32768:])
	info := map[string]any{"name": "x", "piece length": 16384, "length": len(content), "pieces": string(h1[:]) + string(h2[:]) + string(h3[:])}
	ib, _ := bencode.EncodeBytes(info)
	mi, _ := bencode.EncodeBytes(map[string]any{"info": bencode.RawMessage(ib)})
	tor, err := s.AddTorrent(bytes.NewReader(mi), &AddTorrentOptions{Stopped: true})
	if err != nil {
		t.Fatal(err)
	}
	stop := make(chan struct{})
	var wg sync.WaitGroup
	wg.Add(1)
	go func() {
		defer wg.Done()
		for {
			select {
			case <-stop:
				return
			default:
			}
			_ = tor.Port()
			_, _ = tor.FileStats()
			_, _ = tor.Magnet()
		}
	}()
	for i := 0; i < 5; i++ {
		_ = tor.Start()
		time.Sleep(150 * time.Millisecond)
		_ = tor.Stop()
		time.Sleep(150 * time.Millisecond)
	}
	close(stop)
	wg.Wait()
}

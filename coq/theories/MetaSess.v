(* Session-level model of the metadata phase of a magnet torrent: extension handshakes, the
   ut_metadata exchange (torrent_metadataextension.go, torrent_infodownload.go), snub and
   disconnect handling, ordinary messages received while the metadata is unknown, and the replay
   of queued messages once the metadata is adopted and the files are allocated.
   Which eligible peer gets an info downloader is an observed choice, validated.  Definitions only. *)
From RainV Require Import Lib InfoDl.

Record midl := { d_size : Z; d_dl : idl;
                 d_recv : list Z }.     (* per block: 0 nothing copied yet | 1 the last copy was the true bytes | 2 it was not *)
Record mpeer := { m_present : bool; m_closed : bool; m_ext : bool;
                  m_shake : option (bool * Z * Z);     (* first extension handshake: has ut_metadata, metadata_size, reqq *)
                  m_idl : option midl; m_snub : bool; m_choking : bool;
                  m_queue : list (Z * Z);               (* messages kept until the metadata is known: (wire id, index) *)
                  m_frames : list (list Z) }.
Record mst := { t_peers : list mpeer; t_adopted : bool; t_truesize : Z; t_max : Z; t_parallel : Z; t_q : Z; t_np : Z;
                t_adopted_from : option (Z * list Z);   (* ghost: size and per-block state of the adopted metadata *)
                t_bad : Z }.

Definition mdefault : mpeer :=
  {| m_present := false; m_closed := false; m_ext := false; m_shake := None; m_idl := None; m_snub := false;
     m_choking := true; m_queue := []; m_frames := [] |}.
Definition mget (s : mst) (p : Z) : mpeer := nth (Z.to_nat p) (t_peers s) mdefault.
Fixpoint mupd_list (l : list mpeer) (i : nat) (f : mpeer -> mpeer) : list mpeer :=
  match l, i with
  | [], _ => []
  | x :: r, O => f x :: r
  | x :: r, S k => x :: mupd_list r k f
  end.
Definition mwith_peers (s : mst) (ps : list mpeer) : mst :=
  {| t_peers := ps; t_adopted := t_adopted s; t_truesize := t_truesize s; t_max := t_max s; t_parallel := t_parallel s;
     t_q := t_q s; t_np := t_np s; t_adopted_from := t_adopted_from s; t_bad := t_bad s |}.
Definition mupd (s : mst) (p : Z) (f : mpeer -> mpeer) : mst :=
  if p <? 0 then s else mwith_peers s (mupd_list (t_peers s) (Z.to_nat p) f).
Definition mbad (s : mst) (why : Z) : mst :=
  {| t_peers := t_peers s; t_adopted := t_adopted s; t_truesize := t_truesize s; t_max := t_max s; t_parallel := t_parallel s;
     t_q := t_q s; t_np := t_np s; t_adopted_from := t_adopted_from s; t_bad := if t_bad s =? 0 then why else t_bad s |}.

Definition mset (q : mpeer) (closed : bool) (shake : option (bool * Z * Z)) (d : option midl) (snub chok : bool)
                (queue : list (Z * Z)) (fr : list (list Z)) : mpeer :=
  {| m_present := m_present q; m_closed := closed; m_ext := m_ext q; m_shake := shake; m_idl := d; m_snub := snub;
     m_choking := chok; m_queue := queue; m_frames := fr |}.
Definition mopen (q : mpeer) : bool := m_present q && negb (m_closed q).
(* closePeer: the info downloader goes with it *)
Definition mclose_q (q : mpeer) : mpeer :=
  if negb (m_present q) then q else mset q true (m_shake q) None false (m_choking q) (m_queue q) (m_frames q).
Definition madd_frames (q : mpeer) (fs : list (list Z)) : mpeer :=
  if m_closed q then q else mset q (m_closed q) (m_shake q) (m_idl q) (m_snub q) (m_choking q) (m_queue q) (m_frames q ++ fs).

Definition meff_q (s : mst) (q : mpeer) : Z :=
  Z.min (match m_shake q with Some (_, _, r) => if r >? 0 then r else t_q s | None => t_q s end) 250.

(* GotBlock without the byte buffer *)
Definition mgot (d : idl) (index len : Z) : idl * ires :=
  if (index <? 0) || (index >=? zlen (i_blocks d)) then (d, IErrIndex) else
  let b := nth (Z.to_nat index) (i_blocks d) {| b_size := 0; b_requested := false |} in
  if negb (b_requested b) then (d, IErrUnrequested) else
  if negb (len =? b_size b) then (d, IErrSize) else
  ({| i_bytes := i_bytes d; i_blocks := i_blocks d; i_pending := i_pending d - 1; i_next := i_next d |}, IOk).

Definition new_midl (size : Z) : midl :=
  {| d_size := size; d_dl := {| i_bytes := []; i_blocks := create_blocks size; i_pending := 0; i_next := 0 |};
     d_recv := map (fun _ => 0) (create_blocks size) |}.

(* id.RequestBlocks(maxAllowedRequests(pe)), frames appended *)
Definition mrequest (s : mst) (p : Z) : mst :=
  let q := mget s p in
  match m_idl q with
  | Some d => let '(dl', idx) := request_blocks (S (length (i_blocks (d_dl d)))) (d_dl d) (meff_q s q) [] in
              mupd s p (fun q => madd_frames (mset q (m_closed q) (m_shake q)
                                                   (Some {| d_size := d_size d; d_dl := dl'; d_recv := d_recv d |})
                                                   (m_snub q) (m_choking q) (m_queue q) (m_frames q))
                                             (map (fun i => [1; i]) idx))
  | None => s
  end.

Definition mpeer_ids (s : mst) : list Z := map Z.of_nat (seq 0 (length (t_peers s))).
(* peers nextInfoDownload may choose *)
Definition meligible (s : mst) (q : mpeer) : bool :=
  negb (t_adopted s) && mopen q && match m_idl q with Some _ => false | None => true end &&
  match m_shake q with
  | Some (true, size, _) => (0 <? size) && (size <=? t_max s)
  | _ => false
  end.
Definition running (s : mst) : Z :=
  zlen (filter (fun q => match m_idl q with Some _ => negb (m_snub q) | None => false end) (t_peers s)).

(* observed info-downloader flags after a handler *)
Fixpoint massign_go (s : mst) (tries : bool) (obs : list Z) (p : Z) : mst :=
  match obs with
  | [] => s
  | o :: r =>
      let q := mget s p in
      let s' :=
        match m_idl q, z2b o with
        | Some _, true => s
        | Some _, false => mbad s (200 + p)
        | None, false => s
        | None, true =>
            if tries && meligible s q then
              match m_shake q with
              | Some (_, size, _) =>
                  mrequest (mupd s p (fun q => mset q (m_closed q) (m_shake q) (Some (new_midl size)) (m_snub q) (m_choking q) (m_queue q) (m_frames q))) p
              | None => mbad s (300 + p)
              end
            else mbad s (300 + p)
        end in
      massign_go s' tries r (p + 1)
  end.
(* startInfoDownloaders stops only when enough downloads run or nobody is left to ask; it never
   exceeds the configured parallelism by starting one *)
Definition massign (s : mst) (tries : bool) (obs : list Z) : mst :=
  if negb (Nat.eqb (length obs) (length (t_peers s))) then mbad s 650 else
  let r0 := running s in
  let s' := massign_go s tries obs 0 in
  if (running s' >? Z.max r0 (t_parallel s)) then mbad s' 460
  else if tries && (running s' <? t_parallel s) && existsb (meligible s') (t_peers s') then mbad s' 400
  else s'.

Definition mclose (s : mst) (p : Z) : mst := mupd s p mclose_q.

(* ---- handlers: state after the deterministic part, and whether startInfoDownloaders runs ---- *)
Definition m_handshake (s : mst) (p has size reqq : Z) : mst * bool :=
  let q := mget s p in
  match m_shake q with
  | Some _ => (s, false)
  | None => (mupd s p (fun q => mset q (m_closed q) (Some (z2b has, size, reqq)) (m_idl q) (m_snub q) (m_choking q) (m_queue q) (m_frames q)),
             z2b has)
  end.

Definition all_blocks_in (d : midl) : bool := idl_done (d_dl d).

Definition m_data (s : mst) (p piece len : Z) (good : bool) : mst * bool :=
  let q := mget s p in
  match m_idl q with
  | None => (s, false)
  | Some d =>
      let '(dl', r) := mgot (d_dl d) piece len in
      match r with
      | IOk =>
          let d' := {| d_size := d_size d; d_dl := dl';
                       d_recv := map (fun kv => if Z.of_nat (fst kv) =? piece then (if good then 1 else 2) else snd kv)
                                     (combine (seq 0 (length (d_recv d))) (d_recv d)) |} in
          if negb (all_blocks_in d') then
            (mrequest (mupd s p (fun q => mset q (m_closed q) (m_shake q) (Some d') false (m_choking q) (m_queue q) (m_frames q))) p, false)
          else if forallb (fun x => x =? 1) (d_recv d') && (d_size d' =? t_truesize s) then
            (* the SHA-1 of the assembled bytes equals the info-hash: adopt, stop every info downloader *)
            ({| t_peers := map (fun q => mset q (m_closed q) (m_shake q) None false (m_choking q) (m_queue q) (m_frames q)) (t_peers s);
                t_adopted := true; t_truesize := t_truesize s; t_max := t_max s; t_parallel := t_parallel s; t_q := t_q s;
                t_np := t_np s; t_adopted_from := Some (d_size d', d_recv d'); t_bad := t_bad s |}, false)
          else (mclose s p, true)
      | _ => (mclose s p, true)
      end
  end.

Definition m_reject (s : mst) (p : Z) : mst * bool :=
  match m_idl (mget s p) with Some _ => (mclose s p, true) | None => (s, false) end.
Definition m_snubbed (s : mst) (p : Z) : mst * bool :=
  match m_idl (mget s p) with
  | Some _ => (mupd s p (fun q => mset q (m_closed q) (m_shake q) (m_idl q) true (m_choking q) (m_queue q) (m_frames q)), true)
  | None => (s, false)
  end.
Definition m_request_from_peer (s : mst) (p piece : Z) : mst * bool :=
  match m_shake (mget s p) with
  | Some (true, _, _) =>
      (* without the metadata every request is rejected; with it only those past its end *)
      if negb (t_adopted s) || (16384 * piece >=? t_truesize s)
      then (mupd s p (fun q => madd_frames q [[2; piece]]), false) else (s, false)
  | _ => (s, false)
  end.
(* ordinary messages while t.pieces == nil *)
Definition m_other (s : mst) (p id idx : Z) : mst * bool :=
  if (id =? 6) || (id =? 16) || (id =? 8) || (id =? 7) then (mclose s p, false)
  else if (id =? 4) || (id =? 5) || (id =? 14) || (id =? 17) then
    (mupd s p (fun q => mset q (m_closed q) (m_shake q) (m_idl q) (m_snub q) (m_choking q) (m_queue q ++ [(id, idx)]) (m_frames q)), false)
  else if id =? 1 then (mupd s p (fun q => mset q (m_closed q) (m_shake q) (m_idl q) (m_snub q) false (m_queue q) (m_frames q)), false)
  else if id =? 0 then (mupd s p (fun q => mset q (m_closed q) (m_shake q) (m_idl q) (m_snub q) true (m_queue q) (m_frames q)), false)
  else (s, false).
Definition m_connect (s : mst) (p : Z) (ext : bool) : mst * bool :=
  if m_present (mget s p) then (mbad s 800, false) else
  (mupd s p (fun _ => {| m_present := true; m_closed := false; m_ext := ext; m_shake := None; m_idl := None; m_snub := false;
                         m_choking := true; m_queue := []; m_frames := [] |}), false).

Definition mclear (s : mst) : mst :=
  mwith_peers s (map (fun q => mset q (m_closed q) (m_shake q) (m_idl q) (m_snub q) (m_choking q) (m_queue q) []) (t_peers s)).

Definition mdispatch (s : mst) (code p a b c d : Z) : mst * bool :=
  if t_adopted s then
    (* allocating: the metadata is known, the piece table is not yet *)
    if code =? 5 then (mclose s p, false)
    else if code =? 6 then m_request_from_peer s p a
    else if code =? 7 then m_other s p a b
    else if code =? 12 then m_connect s p (z2b b)
    else (mbad s 900, false)
  else if code =? 1 then m_handshake s p a b c
  else if code =? 2 then m_data s p a b (z2b c)
  else if code =? 3 then m_reject s p
  else if code =? 4 then m_snubbed s p
  else if code =? 5 then (mclose s p, false)
  else if code =? 6 then m_request_from_peer s p a
  else if code =? 7 then m_other s p a b
  else if code =? 12 then m_connect s p (z2b b)
  else (s, false).

Definition mobs (s : mst) : list Z :=
  map (fun q => b2z (m_closed q)) (t_peers s) ++ map (fun q => b2z (match m_idl q with Some _ => m_snub q | None => false end)) (t_peers s) ++
  [b2z (t_adopted s); if t_adopted s then 4 else 3].

Definition mstep (s : mst) (ev : list Z) (idls : list Z) : mst * list Z :=
  let s := mclear s in
  match ev with
  | [code; p; a; b; c; d] =>
      let '(s1, tries) := mdispatch s code p a b c d in
      let s2 := massign s1 (tries && negb (t_adopted s1)) idls in
      (s2, mobs s2)
  | _ => (mbad s 600, [-779])
  end.

(* ---- frames of one event (as in Leech.v) ---- *)
Fixpoint mremove (x : list Z) (l : list (list Z)) : option (list (list Z)) :=
  match l with
  | [] => None
  | y :: r => if list_eqb_Z x y then Some r else match mremove x r with Some r' => Some (y :: r') | None => None end
  end.
Fixpoint msub (a b : list (list Z)) : bool :=
  match a with [] => true | x :: r => match mremove x b with Some b' => msub r b' | None => false end end.
Definition mframes_ok (closed_before : bool) (q : mpeer) (obs : list (list Z)) : bool :=
  if closed_before || negb (m_present q) then Nat.eqb (length obs) 0
  else if m_closed q then msub obs (m_frames q)
  else msub obs (m_frames q) && Nat.eqb (length obs) (length (m_frames q)).
Fixpoint mrd_frames (n : nat) (l : list Z) : list (list Z) * list Z :=
  match n, l with
  | S k, a :: b :: r => let '(fs, rest) := mrd_frames k r in ([a; b] :: fs, rest)
  | _, _ => ([], l)
  end.
Fixpoint mcheck_frames (before after : list mpeer) (p : Z) (l : list Z) : Z * list Z :=
  match before, after with
  | qb :: rb, qa :: ra =>
      match l with
      | n :: rest => let '(fs, rest') := mrd_frames (Z.to_nat n) rest in
                     let '(bad, rest'') := mcheck_frames rb ra (p + 1) rest' in
                     (if mframes_ok (m_closed qb) qa fs then bad else 700 + p, rest'')
      | [] => (799, [])
      end
  | _, _ => (0, l)
  end.

(* ---- after the adoption: allocation, then the queued messages of every open peer are replayed.
   [fixed = false]: the pinned loop keeps replaying the messages of a peer that one of its own queued
   messages just got closed; [fixed = true]: a closed peer's remaining messages are dropped ---- *)
Definition replay_closes (np : Z) (m : Z * Z) : bool :=
  let '(id, idx) := m in
  if id =? 4 then (idx >=? np) else if id =? 5 then negb (idx =? (np + 7) / 8) else if id =? 17 then (idx >=? np) else false.
(* a closed peer ends up with a piece downloader iff a later queued have/bitfield/have-all is replayed
   for it while it is not choking us *)
Fixpoint replay (fixed : bool) (np : Z) (chok : bool) (closed : bool) (dl : bool) (l : list (Z * Z)) : bool * bool :=
  match l with
  | [] => (closed, dl)
  | m :: r =>
      if closed && fixed then (closed, dl)
      else if closed then
        (* pinned: handled although the peer is closed *)
        let starts := ((fst m =? 4) && (snd m <? np)) || ((fst m =? 5) && (snd m =? (np + 7) / 8)) || (fst m =? 14) in
        replay fixed np chok closed (dl || (starts && negb chok)) r
      else replay fixed np chok (replay_closes np m) dl r
  end.

(* pieces a peer announced in its queue, as far as the replay gets ([fixed = false]: past the message that closed it) *)
Fixpoint announced (fixed : bool) (np : Z) (closed : bool) (l : list (Z * Z)) (i : Z) : bool :=
  match l with
  | [] => false
  | m :: r =>
      if closed && fixed then false
      else
        let hit := ((fst m =? 4) && (snd m =? i)) || (fst m =? 14) in
        let closes := replay_closes np m in
        (* a message that closes the peer announces nothing; what was announced before the close is forgotten
           (HandleDisconnect), what the pinned loop replays after it sticks *)
        if closed then (hit && negb closes) || announced fixed np true r i
        else if closes then announced fixed np true r i
        else if hit then (negb (existsb (replay_closes np) r)) || announced fixed np false r i
        else announced fixed np false r i
  end.

Definition final_obs (fixed : bool) (s : mst) : list Z :=
  if t_adopted s then
    let rs := map (fun q => if mopen q then replay fixed (t_np s) (m_choking q) false false (m_queue q) else (m_closed q, false)) (t_peers s) in
    let avail := zlen (filter (fun i => existsb (fun q => mopen q && announced fixed (t_np s) false (m_queue q) i) (t_peers s))
                              (map Z.of_nat (seq 0 (Z.to_nat (t_np s))))) in
    1 :: map (fun r => b2z (fst r)) rs ++ map (fun r => b2z (fst r && snd r)) rs ++ [avail]
  else 3 :: map (fun q => b2z (m_closed q)) (t_peers s) ++ map (fun _ => 0) (t_peers s) ++ [0].

(* ---- case codec, kind 1303 ---- *)
Definition mstep_case (P : nat) (s : mst) (l : list Z) : option (mst * list Z * list Z) :=
  match rdn 6 l with
  | Some (ev, r1) =>
      match rdn P r1 with
      | Some (idls, r2) =>
          let '(s', o) := mstep s ev idls in
          let '(bad, r3) := mcheck_frames (t_peers s) (t_peers s') 0 r2 in
          Some (if bad =? 0 then s' else mbad s' bad, o, r3)
      | None => None
      end
  | None => None
  end.

Fixpoint run_ms_go (fixed : bool) (fuel : nat) (P : nat) (s : mst) (l : list Z) : list Z :=
  match fuel with
  | O => [-778]
  | S f =>
    match l with
    | [-1] => (if t_bad s =? 0 then [] else [-555; t_bad s]) ++ final_obs fixed s
    | _ => match mstep_case P s l with
           | Some (s', o, rest) => o ++ run_ms_go fixed f P s' rest
           | None => [-779]
           end
    end
  end.

Definition run_metasess (fixed : bool) (inp : list Z) : list Z :=
  match inp with
  | truesize :: mx :: par :: q :: P :: np :: evs =>
      3 :: run_ms_go fixed (S (length evs)) (Z.to_nat P)
             {| t_peers := repeat mdefault (Z.to_nat P); t_adopted := false; t_truesize := truesize; t_max := mx;
                t_parallel := par; t_q := q; t_np := np; t_adopted_from := None; t_bad := 0 |} evs
  | _ => [-779]
  end.

(* C16 — tracker tier failover (tier half).  Property theorems only. *)
From RainV Require Import Lib Tier TierProofs Wire Tracker TrackerProofs Announcer AnnouncerProofs.
From RainV Require Meta MetaProofs.

(* For every tier size and every success/failure pattern, each announce goes to the member
   the two-line spec names: same member after success, successor mod n after failure. *)
Theorem C16_tier_cycles : forall n pat s, 0 < n -> 0 <= s < n ->
  run_seq true n s pat = spec_run n s pat.
Proof. intros n pat s Hn Hs. exact (run_seq_is_spec n Hn pat s Hs). Qed.
Print Assumptions C16_tier_cycles.

Theorem C16_reached_within_one_cycle : forall n s target, 0 < n -> 0 <= s < n -> 0 <= target < n ->
  exists j, (j < Z.to_nat n)%nat /\
    nth j (run_seq true n s (repeat false (Z.to_nat n))) (-1) = target.
Proof. intros n s t Hn. exact (reached_within_one_cycle n Hn s t). Qed.
Print Assumptions C16_reached_within_one_cycle.

Theorem C16_success_keeps : forall n s k, 0 < n -> 0 <= s < n ->
  run_seq true n s (repeat true k) = repeat s k.
Proof. intros n s k Hn. exact (success_keeps n Hn s k). Qed.
Print Assumptions C16_success_keeps.

Theorem C16_concurrent_in_range : forall n ops, 0 < n ->
  Forall (fun m => 0 <= m < n) (crun true n cinit ops).
Proof. intros n ops Hn. exact (crun_in_range n Hn ops cinit (cinit_inv n Hn)). Qed.
Print Assumptions C16_concurrent_in_range.

Theorem C16_concurrent_finish_effect : forall n s tid ok v, 0 < n -> cinv n s ->
  lookup tid (inflight s) = Some v ->
  stored_ (fst (cstep true n s (Finish tid ok))) =
    if negb ok && (stored_ s =? v) then (stored_ s + 1) mod n else stored_ s.
Proof. intros n s tid ok v Hn. exact (finish_effect n Hn s tid ok v). Qed.
Print Assumptions C16_concurrent_finish_effect.

Theorem C16_tier_cycles_refuted_on_pinned_code :
  exists n s pat, 0 < n /\ 0 <= s < n /\ run_seq false n s pat <> spec_run n s pat.
Proof. exact tier_cycles_refuted_pinned. Qed.
Print Assumptions C16_tier_cycles_refuted_on_pinned_code.

(* every announce that ends without a reply -- tracker error, any other error, or an abort
   caused by another torrent sharing the tracker connection -- is followed by another announce *)
Theorem C16_always_retried : forall bo a r ps, exists a' et, step true bo a r ps = (a', Some et).
Proof. exact never_stuck. Qed.
Print Assumptions C16_always_retried.

Theorem C16_script_never_stuck : forall bo script a, ~ In None (run_script true bo a script).
Proof. exact script_never_stuck. Qed.
Print Assumptions C16_script_never_stuck.

Theorem C16_always_retried_refuted_on_pinned_code : forall bo,
  exists a, status a = Contacting /\ snd (step false bo a RCanceled []) = None.
Proof. exact never_stuck_refuted_pinned. Qed.
Print Assumptions C16_always_retried_refuted_on_pinned_code.

(* any UDP reply bytes give an error or well-formed IPv4 peers, and only for action "announce" *)
Theorem C16_udp_reply_total : forall d, bytes d ->
  match parse_udp_announce d with
  | None => True
  | Some (_, _, _, ps) => Forall (fun p => 0 <= fst p < two32 /\ 0 <= snd p < 65536) ps /\
                          rd_be32 (nth 0 d 0) (nth 1 d 0) (nth 2 d 0) (nth 3 d 0) = 1
  end.
Proof. exact udp_reply_total. Qed.
Print Assumptions C16_udp_reply_total.

Theorem C16_compact_reply_total : forall s ps, bytes s -> decode_compact s = Some ps ->
  Forall (fun p => 0 <= fst p < two32 /\ 0 <= snd p < 65536) ps.
Proof. exact compact_reply_total. Qed.
Print Assumptions C16_compact_reply_total.

(* an HTTP tracker response is refused before it is decoded when it is nested deeper than 64 levels *)
Theorem C16_decoded_nesting_bounded : forall n t, Meta.run_net_nesting [n; t] = [1] -> Meta.nesting_levels 0 n <= Meta.max_nesting.
Proof. exact MetaProofs.net_nesting_bounded. Qed.
Print Assumptions C16_decoded_nesting_bounded.

(* the configured limit on an HTTP tracker reply: whatever length the tracker declares (or none:
   a streamed reply) and however much it sends, at most [limit] bytes are read (kind 1605) *)
Theorem C16_http_reply_read_within_limit : forall limit declared stream got, 0 <= limit ->
  read_reply limit declared stream = Some got -> zlen got <= limit /\ exists rest, stream = got ++ rest.
Proof. exact read_reply_bounded. Qed.
Print Assumptions C16_http_reply_read_within_limit.

//go:build verif

package verifhook

import (
	"bytes"
	"fmt"
	"math/rand"
	"net/http"
	"net/http/httptest"
	"os"
	"runtime"
	"sync"
	"sync/atomic"
	"time"

	"github.com/cenkalti/rain/v2/torrent"
)

// kind 2002: many client goroutines use the public API of a live session at once (stats, peers, trackers,
// web seeds, port, notify channels, add peer by IP and by host name, add tracker, start, stop, verify,
// announce, list / get, add and remove a torrent, the periodic resume write) while two torrents run.
// Every call must return; a panic of the process or a call that does not come back is the observation.
// (The exported getters that read loop state directly -- known findings of kind 2001 -- are left out:
// a race on a Go map aborts the whole process.)
// in = [goroutines calls seed]   obs = [all calls returned, calls made > 0]
// a tracker that answers every announce at once with a peer: announce responses then reach the event
// loops all the time, also while they are busy serving API calls
var (
	stressTrackerOnce sync.Once
	stressTrackerURL  string
)

func stressTracker() string {
	stressTrackerOnce.Do(func() {
		srv := httptest.NewServer(http.HandlerFunc(func(w http.ResponseWriter, r *http.Request) {
			_, _ = w.Write([]byte("d8:intervali1e12:min intervali1e5:peers6:\x7f\x00\x00\x63\x00\x01e"))
		}))
		stressTrackerURL = srv.URL + "/announce"
	})
	return stressTrackerURL
}

func genAPIStress(r *rand.Rand, tier string) Case {
	dir, err := os.MkdirTemp("/verif/.work", "stress")
	if err != nil {
		return Case{In: []int64{0}, Obs: []int64{-710}}
	}
	defer os.RemoveAll(dir)
	cfg := torrent.DefaultConfig
	cfg.Database = dir + "/s.db"
	cfg.DataDir = dir + "/data"
	cfg.DataDirIncludesTorrentID = true
	cfg.DHTEnabled = false
	cfg.RPCEnabled = false
	cfg.Host = "127.0.0.1"
	base := 2000 + r.Intn(7800) // below the slots of the stepped-loop sessions and the kernel's ephemeral range
	cfg.PortBegin, cfg.PortEnd = uint16(base), uint16(base+40)
	cfg.ResumeWriteInterval = 20 * time.Millisecond
	cfg.TrackerStopTimeout = 100 * time.Millisecond
	cfg.DNSResolveTimeout = 200 * time.Millisecond
	s, err := torrent.NewSession(cfg)
	if err != nil {
		return Case{In: []int64{0}, Obs: []int64{-711}, Note: err.Error()}
	}
	var files [][]byte
	for k := 0; k < 3; k++ {
		l := vLayout{PL: 16384, Lens: []int64{int64(40000 + k)}, Pads: []bool{false}, Name: fmt.Sprintf("s%d", k), Total: int64(40000 + k)}
		content := l.Content(int64(k) + 1)
		files = append(files, torrent.BuildTorrentFileWithTrackers(l.InfoBytes(content, -1), nil, [][]string{{"http://127.0.0.1:1/announce"}, {stressTracker()}}))
	}
	var tors []*torrent.Torrent
	for k := 0; k < 2; k++ {
		t, err := s.AddTorrent(bytes.NewReader(files[k]), &torrent.AddTorrentOptions{Stopped: k == 1})
		if err != nil {
			s.Close()
			return Case{In: []int64{0}, Obs: []int64{-712}, Note: err.Error()}
		}
		tors = append(tors, t)
	}
	ng := 4 + r.Intn(8)
	calls := 40 + r.Intn(80)
	seed := r.Int63()
	var made int64
	var transient atomic.Value
	var wg sync.WaitGroup
	for g := 0; g < ng; g++ {
		wg.Add(1)
		go func(g int) {
			defer wg.Done()
			rr := rand.New(rand.NewSource(seed + int64(g)))
			for i := 0; i < calls; i++ {
				t := tors[rr.Intn(len(tors))]
				if x, ok := transient.Load().(*torrent.Torrent); ok && x != nil && rr.Intn(3) == 0 {
					_ = x.Stats()
					_ = x.Peers()
					_ = x.Trackers()
				}
				switch rr.Intn(20) {
				case 0:
					_ = t.Stats()
				case 1:
					_ = t.Peers()
				case 2:
					_ = t.Trackers()
				case 3:
					_ = t.Webseeds()
				case 4:
					_ = t.AddPeer(fmt.Sprintf("127.0.0.%d:%d", 2+rr.Intn(50), 1+rr.Intn(1000)))
				case 5:
					_ = t.AddPeer("localhost:6881")
				case 6:
					if rr.Intn(2) == 0 {
						_ = t.AddTracker(fmt.Sprintf("%s?k=%d", stressTracker(), rr.Intn(4)))
					} else {
						_ = t.AddTracker(fmt.Sprintf("http://127.0.0.1:%d/a", 1+rr.Intn(5)))
					}
				case 7:
					_ = t.Start()
				case 8:
					_ = t.Stop()
				case 9:
					_ = t.Verify()
				case 10:
					t.Announce()
				case 11:
					_ = s.ListTorrents()
				case 12:
					_ = s.GetTorrent(t.ID())
				case 13:
					_ = s.Stats()
				case 14:
					if nt, err := s.AddTorrent(bytes.NewReader(files[2]), &torrent.AddTorrentOptions{Stopped: rr.Intn(2) == 0}); err == nil {
						transient.Store(nt) // the others poll it while it is being removed
						_ = nt.Stats()
						_ = s.RemoveTorrent(nt.ID(), false)
					}
				case 15:
					_ = t.NotifyStop()
				case 16:
					_ = t.NotifyClose()
				case 17:
					_ = t.Name()
					_ = t.InfoHash()
					_ = t.AddedAt()
				case 18:
					_ = s.StartAll()
				case 19:
					_ = s.StopAll()
				}
				atomic.AddInt64(&made, 1)
			}
		}(g)
	}
	done := make(chan struct{})
	go func() { wg.Wait(); close(done) }()
	returned := true
	select {
	case <-done:
	case <-time.After(45 * time.Second):
		returned = false
		buf := make([]byte, 8<<20)
		buf = buf[:runtime.Stack(buf, true)]
		_ = os.WriteFile(fmt.Sprintf("/verif/.work/stress_dump_%d.txt", seed%1000), buf, 0o644)
	}
	closed := make(chan struct{})
	go func() { s.Close(); close(closed) }()
	select {
	case <-closed:
	case <-time.After(20 * time.Second):
		returned = false
	}
	return Case{In: []int64{int64(ng), int64(calls), seed % 1000}, Obs: []int64{b2i(returned), b2i(atomic.LoadInt64(&made) > 0)},
		Note: fmt.Sprintf("calls=%d", atomic.LoadInt64(&made))}
}

func init() {
	Register(2002, "public API used by many goroutines at once on a live session: every call returns, the process survives", genAPIStress)
}

From RainV Require Import Lib Life LifeProofs.
From Coq Require Import ZifyBool.

(* stop from a started state, whatever do_verify is *)
Lemma linv_stop_started s : started s = true -> crashed s = false -> complC_closed s = completed s ->
  (completed s = true -> match bf s with Some b => all_true b = true | None => True end) ->
  (stopping s = true -> has_pieces s = false /\ alloc s = false /\ verif s = false) ->
  held s = (if has_pieces s then nfiles s else 0) -> pending s = (if alloc s then nfiles s else 0) -> leaked s = 0 ->
  LInv (do_stop true s).
Proof.
  intros Es A B C D G I J. unfold do_stop. rewrite Es. cbn [negb orb].
  destruct (stopping s) eqn:E2.
  - destruct (D eq_refl) as (D1 & D2 & D3). unfold with_restart. constructor; cbn; rewrite ?Es, ?E2, ?D1, ?D2, ?D3 in *; try fin.
    all: try (intros Hc; specialize (C Hc); destruct (bf s); [exact C|right; right; right; reflexivity]).
  - constructor; cbn; try fin.
    all: try (intros Hc; specialize (C Hc); destruct (bf s); [exact C|right; right; right; reflexivity]).
Qed.

Lemma linv_verify_cmd s : LInv s -> LInv (do_verify_cmd true s).
Proof.
  intros H. unfold do_verify_cmd. cbn [started set].
  destruct H as [A B C D F G I J K L M N].
  destruct (started s) eqn:Es; cbn [negb].
  - apply linv_stop_started; cbn; auto.
    all: try (intros Hc; specialize (C Hc); destruct (bf s); auto; fail).
    all: try (intros E; apply D; right; exact E).
  - destruct (D (or_introl eq_refl)) as (D1 & D2 & D3).
    assert (E2 : stopping s = false) by (destruct (stopping s) eqn:E; [specialize (N eq_refl); congruence|reflexivity]).
    apply linv_start_stopped; cbn; rewrite ?D1, ?D2, ?D3 in *; try fin.
    all: try (rewrite G, D1; reflexivity).
    all: try (rewrite I, D2; reflexivity).
Qed.

Lemma linv_start_verifier_w s : crashed s = false -> complC_closed s = completed s ->
  (completed s = true -> match bf s with Some b => all_true b = true | None => True end) ->
  started s = true -> stopping s = false -> alloc s = false -> verif s = false -> has_pieces s = true ->
  held s = nfiles s -> pending s = 0 -> leaked s = 0 -> (do_verify s = true -> bf s = None) ->
  LInv (start_verifier s).
Proof.
  intros A B C S1 S2 S3 S4 S5 G I J M. unfold start_verifier. constructor; cbn; rewrite ?S1, ?S2, ?S3, ?S4, ?S5 in *; try fin.
  all: try (intros Hc; specialize (C Hc); destruct (bf s); [exact C|right; left; reflexivity]).
  all: try (intros Hd; split; [reflexivity|right; apply M; exact Hd]).
Qed.

(* a running state (not allocating / verifying) built from explicit facts *)
Lemma linv_running s : crashed s = false -> complC_closed s = completed s ->
  started s = true -> stopping s = false -> alloc s = false -> verif s = false -> has_pieces s = true ->
  held s = nfiles s -> pending s = 0 -> leaked s = 0 -> do_verify s = false ->
  (exists b, bf s = Some b /\ (completed s = true -> all_true b = true)) -> LInv s.
Proof.
  intros A B S1 S2 S3 S4 S5 G I J M (b & Eb & Hb). constructor; rewrite ?S1, ?S2, ?S3, ?S4, ?S5, ?Eb, ?M in *; try fin.
  all: try (intros _ _ _ _; repeat split; congruence).
Qed.

Lemma linv_alloc_done s he hm po : LInv s -> LInv (alloc_done true s he hm po).
Proof.
  intros H. unfold alloc_done. destruct (alloc s) eqn:Ea; cbn [negb]; [|exact H].
  destruct H as [A B C D F G I J K L M N].
  destruct (K Ea) as (K1 & K2).
  assert (S1 : started s = true) by (destruct (started s) eqn:E; [reflexivity|destruct (D (or_introl eq_refl)) as (_ & X & _); congruence]).
  assert (S2 : stopping s = false) by (destruct (stopping s) eqn:E; [destruct (D (or_intror eq_refl)) as (_ & X & _); congruence|reflexivity]).
  rewrite K2 in G. rewrite Ea in I.
  cbn [bf set]. destruct (bf s) as [b|] eqn:Eb.
  all: set (s1 := set s (started s) (stopping s) false (verif s) (completed s) (complC_closed s) true (Some b) (do_verify s) (held s + pending s) 0 (leaked s) (persisted s) (crashed s)) || set (s1 := set s (started s) (stopping s) false (verif s) (completed s) (complC_closed s) true None (do_verify s) (held s + pending s) 0 (leaked s) (persisted s) (crashed s)).
  - (* a bitfield is there: no verify request can be pending *)
    assert (Hdv : do_verify s = false).
    { destruct (do_verify s) eqn:E; [|reflexivity]. destruct (M eq_refl) as [_ [X|X]]; congruence. }
    assert (R1 : LInv s1).
    { apply linv_running; cbn; rewrite ?S1, ?S2, ?K1 in *; try fin. exists b. split; [reflexivity|]. intros Hc. exact (C Hc). }
    destruct (negb hm); [apply linv_check_completion; cbn; auto|].
    destruct (negb he).
    + destruct (all_true po) eqn:Ep; unfold reset_completion; subst s1; cbn [do_verify set]; rewrite Hdv; cbn [andb].
      * apply linv_running; cbn; rewrite ?S1, ?S2, ?K1 in *; try fin. exists po. split; [reflexivity|]. intros _. exact Ep.
      * apply linv_running; cbn; rewrite ?S1, ?S2, ?K1 in *; try fin. exists po. split; [reflexivity|]. intros X; discriminate.
    + apply linv_start_verifier_w; cbn; rewrite ?S1, ?S2, ?K1 in *; try fin.
      all: try (intros Hc; exact (C Hc)).
  - destruct (negb he).
    + destruct (do_verify s) eqn:Edv; destruct (all_true po) eqn:Ep; unfold reset_completion; subst s1; cbn [do_verify set]; rewrite ?Edv; cbn [andb].
      * apply linv_stop_started; cbn; rewrite ?S1, ?S2, ?K1 in *; try fin. all: try (intros _; exact Ep).
      * apply linv_stop_started; cbn; rewrite ?S1, ?S2, ?K1 in *; try fin. all: try (intros X; discriminate).
      * apply linv_running; cbn; rewrite ?S1, ?S2, ?K1 in *; try fin. exists po. split; [reflexivity|]. intros _. exact Ep.
      * apply linv_running; cbn; rewrite ?S1, ?S2, ?K1 in *; try fin. exists po. split; [reflexivity|]. intros X; discriminate.
    + apply linv_start_verifier_w; cbn; rewrite ?S1, ?S2, ?K1 in *; try fin.
Qed.

Lemma linv_verify_done s : LInv s -> LInv (verify_done true s).
Proof.
  intros H. unfold verify_done. destruct (verif s) eqn:Ev; cbn [negb]; [|exact H].
  destruct H as [A B C D F G I J K L M N].
  pose proof (L Ev) as Hp.
  assert (S1 : started s = true) by (destruct (started s) eqn:E; [reflexivity|destruct (D (or_introl eq_refl)) as (_ & _ & X); congruence]).
  assert (S2 : stopping s = false) by (destruct (stopping s) eqn:E; [destruct (D (or_intror eq_refl)) as (_ & _ & X); congruence|reflexivity]).
  assert (S3 : alloc s = false) by (destruct (alloc s) eqn:E; [destruct (K eq_refl) as (X & _); congruence|reflexivity]).
  rewrite Hp in G. rewrite S3 in I.
  destruct (do_verify s) eqn:Edv; destruct (all_true (pok s)) eqn:Ep; unfold reset_completion; cbn [do_verify set]; rewrite ?Edv.
  - apply linv_stop_started; cbn; rewrite ?S1, ?S2, ?S3, ?Hp in *; try fin. all: try (intros _; exact Ep).
  - apply linv_stop_started; cbn; rewrite ?S1, ?S2, ?S3, ?Hp in *; try fin. all: try (intros X; discriminate).
  - apply linv_check_completion; cbn; auto. apply linv_running; cbn; rewrite ?S1, ?S2, ?S3, ?Hp in *; try fin.
    exists (pok s). split; [reflexivity|]. intros _. exact Ep.
  - apply linv_check_completion; cbn; auto. apply linv_running; cbn; rewrite ?S1, ?S2, ?S3, ?Hp in *; try fin.
    exists (pok s). split; [reflexivity|]. intros X; discriminate.
Qed.

//go:build verif

package verifhook

import (
	"fmt"
	"math/rand"
	"os"
	"strings"

	"github.com/cenkalti/rain/v2/internal/storage/filestorage"
)

// kind 502: the open flags of the real file storage: a data file is opened for synchronous writes
// (O_SYNC), whether it is created by the call or existed before -- "a returned write is durable" of C05.
// in = [size nested]; obs = [created: exists-flag, O_SYNC | reopened: exists-flag, O_SYNC]

func fdFlags(f any) int64 {
	of, ok := f.(*os.File)
	if !ok {
		return -1
	}
	b, err := os.ReadFile(fmt.Sprintf("/proc/self/fdinfo/%d", of.Fd()))
	if err != nil {
		return -2
	}
	for _, line := range strings.Split(string(b), "\n") {
		if strings.HasPrefix(line, "flags:") {
			var fl int64
			fmt.Sscanf(strings.TrimSpace(strings.TrimPrefix(line, "flags:")), "%o", &fl)
			return fl
		}
	}
	return -3
}

func genOsync(r *rand.Rand, tier string) Case {
	dir, err := os.MkdirTemp("/verif/.work", "fs")
	if err != nil {
		return Case{In: []int64{0, 0}, Obs: []int64{-710}}
	}
	defer os.RemoveAll(dir)
	size := pick(r, 0, 1, 4096, 100000)
	nested := r.Intn(2)
	name := "f.bin"
	if nested == 1 {
		name = "a/b/f.bin"
	}
	sto, err := filestorage.New(dir, 0o750)
	if err != nil {
		return Case{In: []int64{size, int64(nested)}, Obs: []int64{-711}}
	}
	const oSync = 0o4010000 // O_SYNC on Linux (includes O_DSYNC)
	var obs []int64
	for round := 0; round < 2; round++ {
		f, exists, err := sto.Open(name, size)
		if err != nil {
			return Case{In: []int64{size, int64(nested)}, Obs: []int64{-712}}
		}
		fl := fdFlags(f)
		obs = append(obs, b2i(exists), b2i(fl >= 0 && fl&oSync == oSync))
		f.Close()
	}
	return Case{In: []int64{size, int64(nested)}, Obs: obs}
}

func init() {
	Register(502, "open flags of the real file storage (created and reopened data files are O_SYNC)", genOsync)
}

(* C02: createJobs (internal/urldownloader/job.go) -- the HTTP range jobs of a web-seed download
   tile exactly the bytes of the pieces [b, e), in order, each byte once; no job is empty.  For
   every piece list whose sections chain through the files (which NewPieces guarantees). *)
From RainV Require Import Lib Geometry SectionIO.
From Coq Require Import Lia ZArith List Bool.
Import ListNotations.
Open Scope Z_scope.

(* byte addresses (file, padding flag, offset in file) of a run *)
Definition srun (f : nat) (p : bool) (o n : Z) : list (nat * bool * Z) :=
  map (fun k => (f, p, o + Z.of_nat k)) (seq 0 (Z.to_nat n)).
Definition sec_addrs (s : section) := srun (sfile s) (spad s) (soff s) (slen s).
Definition job_addrs (j : job) := srun (jfile j) (jpad j) (jbegin j) (jlen j).

Lemma seq_shift_map {A} (g : nat -> A) : forall n a, map g (seq a n) = map (fun k => g (a + k)%nat) (seq 0 n).
Proof.
  induction n as [|n IH]; intros a; [reflexivity|]. cbn [seq map]. f_equal; [f_equal; lia|].
  rewrite (IH (S a)). rewrite <- seq_shift, map_map. apply map_ext. intros k. f_equal. lia.
Qed.

Lemma srun_app f p o n1 n2 : 0 <= n1 -> 0 <= n2 -> srun f p o (n1 + n2) = srun f p o n1 ++ srun f p (o + n1) n2.
Proof.
  intros H1 H2. unfold srun. rewrite Z2Nat.inj_add by assumption. rewrite seq_app, map_app. f_equal.
  cbn [Nat.add]. rewrite seq_shift_map. apply map_ext. intros k. f_equal. lia.
Qed.

Definition step' (st : jst) (s : section) : jst := cj_step Nat.eqb false st s.

(* the section list continues a file where the previous section of that file ended *)
Fixpoint chained (last : option (nat * Z)) (ss : list section) : Prop :=
  match ss with
  | [] => True
  | s :: r => (match last with Some (f, e) => sfile s = f -> soff s = e | None => True end) /\ 0 <= slen s /\
              chained (Some (sfile s, soff s + slen s)) r
  end.

Definition cur_addrs (st : jst) := match curjob st with Some j => job_addrs j | None => [] end.
Definition all_addrs (st : jst) := flat_map job_addrs (jobs st) ++ cur_addrs st.
Definition last_of (st : jst) := match curjob st with Some j => Some (jfile j, jbegin j + jlen j) | None => None end.
Definition jst_ok (st : jst) := Forall (fun j => 0 < jlen j) (jobs st) /\ match curjob st with Some j => 0 <= jlen j | None => True end.

Lemma srun_nil f p o n : n <= 0 -> srun f p o n = [].
Proof. intros H. unfold srun. replace (Z.to_nat n) with 0%nat by lia. reflexivity. Qed.

Lemma step_ok st s : jst_ok st ->
  (match last_of st with Some (f, e) => sfile s = f -> soff s = e | None => True end) -> 0 <= slen s ->
  jst_ok (step' st s) /\ all_addrs (step' st s) = all_addrs st ++ sec_addrs s /\ last_of (step' st s) = Some (sfile s, soff s + slen s).
Proof.
  intros [Hj Hc] Hl Hs. unfold step', cj_step, all_addrs, cur_addrs, last_of, jst_ok in *.
  destruct (curjob st) as [j|] eqn:Ec; cbn [negb].
  - destruct (Nat.eqb (sfile s) (jfile j) && Bool.eqb (spad s) (jpad j)) eqn:Em; cbn [jobs curjob].
    + apply andb_prop in Em as [E1 E2]. apply Nat.eqb_eq in E1. apply Bool.eqb_prop in E2. specialize (Hl E1).
      split; [split; [exact Hj|cbn [jlen]; lia]|]. split.
      * unfold job_addrs. cbn [jfile jpad jbegin jlen]. rewrite srun_app by assumption. rewrite <- app_assoc. do 2 f_equal.
        unfold sec_addrs. rewrite E1, E2, Hl. reflexivity.
      * cbn [jfile jbegin jlen]. rewrite E1, Hl. f_equal. f_equal. lia.
    + split; [|split; [|reflexivity]].
      * split; [|cbn [job_of jlen]; exact Hs]. destruct (jlen j >? 0) eqn:Eg; [|exact Hj]. apply Forall_app. split; [exact Hj|]. constructor; [lia|constructor].
      * change (job_addrs (job_of s)) with (sec_addrs s). destruct (jlen j >? 0) eqn:Eg.
        -- rewrite flat_map_app. cbn [flat_map]. rewrite app_nil_r, <- app_assoc. reflexivity.
        -- replace (job_addrs j) with (@nil (nat * bool * Z)) by (symmetry; apply srun_nil; lia). rewrite app_nil_r. reflexivity.
  - cbn [jobs curjob]. split; [split; [exact Hj|cbn [job_of jlen]; exact Hs]|]. split; [|reflexivity].
    change (job_addrs (job_of s)) with (sec_addrs s). rewrite app_nil_r. reflexivity.
Qed.

Lemma fold_ok : forall ss st, jst_ok st -> chained (last_of st) ss ->
  jst_ok (fold_left step' ss st) /\ all_addrs (fold_left step' ss st) = all_addrs st ++ flat_map sec_addrs ss.
Proof.
  induction ss as [|s r IH]; intros st Hok Hch; cbn [fold_left flat_map].
  - split; [exact Hok|rewrite app_nil_r; reflexivity].
  - cbn [chained] in Hch. destruct Hch as (H1 & H2 & H3). destruct (step_ok st s Hok H1 H2) as (A & B & C).
    rewrite <- C in H3. destruct (IH (step' st s) A H3) as (A' & B'). split; [exact A'|]. rewrite B', B, <- app_assoc. reflexivity.
Qed.

(* the "first section of the first piece" special case of the Go loop changes nothing *)
Lemma cj_step_first st s : curjob st = None -> cj_step Nat.eqb true st s = cj_step Nat.eqb false st s.
Proof. intros H. unfold cj_step. rewrite H. reflexivity. Qed.

Lemma cj_secs_fold : forall secs i j st, (curjob st = None \/ (Nat.eqb i 0 && Nat.eqb j 0) = false) ->
  cj_secs Nat.eqb i j st secs = fold_left step' secs st.
Proof.
  induction secs as [|s r IH]; intros i j st H; cbn [cj_secs fold_left]; [reflexivity|].
  assert (E : cj_step Nat.eqb (Nat.eqb i 0 && Nat.eqb j 0) st s = step' st s).
  { destruct (Nat.eqb i 0 && Nat.eqb j 0) eqn:Ef; [|reflexivity]. destruct H as [H|H]; [apply cj_step_first; exact H|discriminate]. }
  rewrite E. apply IH. right. cbn [Nat.eqb]. apply andb_false_r.
Qed.

Lemma cj_pieces_fold : forall ps i st, (curjob st = None \/ i <> 0%nat) ->
  cj_pieces Nat.eqb i st ps = fold_left step' (flat_map psecs ps) st.
Proof.
  induction ps as [|p r IH]; intros i st H; cbn [cj_pieces flat_map]; [reflexivity|].
  rewrite fold_left_app. rewrite cj_secs_fold.
  - apply IH. right. lia.
  - destruct H as [H|H]; [left; exact H|right]. apply Nat.eqb_neq in H. rewrite H. reflexivity.
Qed.

(* createJobs: for every piece list and every range [b, e) whose sections chain, the jobs in
   order enumerate exactly the byte addresses of those sections in order, and no job is empty *)
Theorem create_jobs_cover ps b e :
  let secs := flat_map psecs (firstn (e - b) (skipn b ps)) in
  chained None secs ->
  flat_map job_addrs (create_jobs Nat.eqb ps b e) = flat_map sec_addrs secs /\
  Forall (fun j => 0 < jlen j) (create_jobs Nat.eqb ps b e).
Proof.
  intros secs Hch. unfold create_jobs. destruct (Nat.eqb b e) eqn:Ebe.
  - apply Nat.eqb_eq in Ebe. subst e. unfold secs. rewrite Nat.sub_diag. cbn [firstn flat_map]. split; [reflexivity|constructor].
  - rewrite cj_pieces_fold by (left; reflexivity). fold secs.
    set (st0 := {| jobs := []; curjob := None |}).
    assert (Hok : jst_ok st0) by (split; [constructor|exact I]).
    destruct (fold_ok secs st0 Hok Hch) as ((A1 & A2) & B). set (st := fold_left step' secs st0) in *.
    unfold all_addrs, cur_addrs in B. cbn [st0 jobs curjob flat_map app] in B.
    destruct (curjob st) as [j|] eqn:Ec.
    + destruct (jlen j >? 0) eqn:Eg.
      * split; [rewrite flat_map_app; cbn [flat_map]; rewrite app_nil_r; exact B|]. apply Forall_app. split; [exact A1|constructor; [lia|constructor]].
      * split; [|exact A1]. replace (job_addrs j) with (@nil (nat * bool * Z)) in B by (symmetry; apply srun_nil; lia). rewrite app_nil_r in B. exact B.
    + rewrite app_nil_r in B. split; assumption.
Qed.

(* NewPieces' chain is such a list, and so is every contiguous range of its pieces *)
Lemma chain_chained fs : forall ss a b last, chain_ok fs a ss = Some b ->
  (match last with Some (f, e) => prefix_sum fs f + e = a | None => True end) -> chained last ss.
Proof.
  induction ss as [|s r IH]; intros a b last H Hl; cbn [chain_ok chained] in *; [exact I|].
  destruct (sec_ok fs a s) eqn:Es; [|discriminate]. unfold sec_ok in Es.
  destruct (nth_error fs (sfile s)) as [f|]; [|discriminate].
  apply andb_prop in Es as [Es _]. apply andb_prop in Es as [Es _]. apply andb_prop in Es as [Es E3]. apply andb_prop in Es as [E1 E2].
  split; [|split; [lia|]].
  - destruct last as [[f0 e0]|]; [|exact I]. intros Hf. subst f0. lia.
  - apply (IH (a + slen s) b); [exact H|]. lia.
Qed.

Lemma chain_ok_app fs : forall x y a c, chain_ok fs a (x ++ y) = Some c ->
  exists m, chain_ok fs a x = Some m /\ chain_ok fs m y = Some c.
Proof.
  induction x as [|s r IH]; intros y a c H; cbn [app chain_ok] in *; [eauto|].
  destruct (sec_ok fs a s); [|discriminate]. apply IH. exact H.
Qed.

Theorem jobs_cover_pieces fs ps L b e : chain_ok fs 0 (flat_map psecs ps) = Some L ->
  let secs := flat_map psecs (firstn (e - b) (skipn b ps)) in
  flat_map job_addrs (create_jobs Nat.eqb ps b e) = flat_map sec_addrs secs /\
  Forall (fun j => 0 < jlen j) (create_jobs Nat.eqb ps b e).
Proof.
  intros H secs. apply create_jobs_cover. fold secs.
  rewrite <- (firstn_skipn b ps) in H. rewrite flat_map_app in H. apply chain_ok_app in H as (m & _ & H).
  rewrite <- (firstn_skipn (e - b) (skipn b ps)) in H. rewrite flat_map_app in H. apply chain_ok_app in H as (m2 & H & _).
  eapply chain_chained; [exact H|exact I].
Qed.

Example jobs_cover_nonvacuous :
  let ps := [ {| plength := 4; psecs := [ {| sfile := 0; soff := 0; slen := 3; spad := false |}; {| sfile := 1; soff := 0; slen := 1; spad := true |} ] |};
              {| plength := 4; psecs := [ {| sfile := 1; soff := 1; slen := 1; spad := true |}; {| sfile := 2; soff := 0; slen := 0; spad := false |};
                                          {| sfile := 3; soff := 0; slen := 3; spad := false |} ] |} ] in
  chained None (flat_map psecs ps) /\ length (create_jobs Nat.eqb ps 0 2) = 3%nat.
Proof. cbn. repeat split; try lia; intros; try lia; try discriminate. Qed.

//go:build verif

package verifhook

import (
	"fmt"
	"bytes"
	"encoding/binary"
	"math/rand"
	"time"

	"github.com/cenkalti/rain/v2/internal/peersource"
	"github.com/cenkalti/rain/v2/torrent"
)

// kind 303: request admission of the upload path, through the real handlers.
// in  = [PL; total; npieces; fast; (done flag per piece); nreq; per request: idx begin len clientChoking inAF]
// obs = per request: decision (0 nothing | 1 piece with exact bytes | 2 reject | 3 connection closed | 4 piece with wrong bytes | 5 other)
func genAdmission(r *rand.Rand, tier string) Case {
	l := genVLayout(r, 4)
	content := l.Content(r.Int63())
	image := l.Preload(content)
	np := l.NumPieces()
	// corrupt one piece on disk in some cases so that the client is a partial seed
	bad := -1
	if np > 1 && r.Intn(3) == 0 {
		bad = r.Intn(np)
		var off int64
		pos := int64(bad)*l.PL + r.Int63n(l.PieceLen(bad))
		for i, n := range l.Lens {
			if pos >= off && pos < off+n && !l.Pads[i] {
				image[l.FileName(i)][pos-off] ^= 0xFF
			}
			off += n
		}
	}
	fast := r.Intn(2) == 0
	Mark(r, "start loop")
	v, err := startLoop(l, content, image, func(c *torrent.Config) {
		c.UnchokedPeers = int(pick(r, 0, 1, 3))
		c.OptimisticUnchokedPeers = 0
		c.AllowedFastSet = int(pick(r, 0, 2, 10))
	}, false)
	if err != nil {
		return Case{In: []int64{0}, Obs: []int64{-710}}
	}
	defer v.Close()
	Mark(r, "loop started: "+v.Snapshot().Status)
	pe, err := v.AddPeer(fast, true, peersource.Incoming)
	if err != nil {
		return Case{In: []int64{0}, Obs: []int64{-711}}
	}
	v.BarrierPumping()
	pe.Take()
	snap := v.Snapshot()
	in := []int64{l.PL, l.Total, int64(np), b2i(fast)}
	for i := 0; i < np; i++ {
		in = append(in, b2i(i < len(snap.Done) && snap.Done[i]))
	}
	nreq := 3 + r.Intn(6)
	in = append(in, int64(nreq))
	var obs []int64
	closed := false
	for k := 0; k < nreq; k++ {
		if r.Intn(3) == 0 && !closed {
			_ = pe.Send(2, nil) // interested: the unchoker may unchoke us
			v.PumpEx(10*time.Second, torrent.ClsMsg)
			v.BarrierPumping()
			pe.Take()
		}
		st0 := v.Snapshot()
		idx := int64(r.Intn(np))
		// steer towards the interesting pieces: not done, or granted as allowed-fast
		if r.Intn(2) == 0 {
			var cand []int64
			for i := 0; i < np; i++ {
				if i < len(st0.Done) && !st0.Done[i] {
					cand = append(cand, int64(i), int64(i))
				}
			}
			for _, a := range st0.Peers[0].SentAllowedFast {
				cand = append(cand, int64(a))
			}
			if len(cand) > 0 {
				idx = cand[r.Intn(len(cand))]
			}
		}
		plen := l.PieceLen(int(idx))
		begin := int64(r.Intn(int(plen)))
		length := int64(1 + r.Intn(16384))
		if begin+length > plen {
			length = plen - begin
		}
		if k >= 2 { // hostile requests close the connection, so they come late
			switch r.Intn(20) {
			case 0:
				idx = pick(r, int64(np), int64(np)+1, 1<<31, 1<<32-1)
			case 1:
				length = 0
			case 2:
				length = plen - begin + int64(1+r.Intn(3)) // past the end of the piece
			case 3:
				begin = pick(r, 1<<32-1, 1<<32-16384, 1<<31) // overflow candidates
				length = 16384
			case 4:
				length = pick(r, 16385, 1<<20, 1<<32-1)
			case 5:
				begin, length = plen-1, 1
			}
		}
		st := v.Snapshot().Peers[0]
		inAF := false
		for _, a := range st.SentAllowedFast {
			if int64(a) == idx {
				inAF = true
			}
		}
		in = append(in, idx, begin, length, b2i(st.ClientChoking), b2i(inAF))
		if closed {
			obs = append(obs, 3)
			continue
		}
		payload := make([]byte, 12)
		binary.BigEndian.PutUint32(payload[0:], uint32(idx))
		binary.BigEndian.PutUint32(payload[4:], uint32(begin))
		binary.BigEndian.PutUint32(payload[8:], uint32(length))
		Mark(r, fmt.Sprintf("request %d: idx=%d begin=%d len=%d closed=%v peClosed=%v", k, idx, begin, length, closed, pe.Pe.Closed))
		serr := pe.Send(6, payload)
		if serr != nil {
			Mark(r, "send error: "+serr.Error())
		}
		wait := 10 * time.Second
		if length > 16384 {
			wait = 300 * time.Millisecond // the reader refuses it: no message reaches the loop
		}
		v.PumpEx(wait, torrent.ClsMsg)
		Mark(r, "request pumped")
		handled := v.BarrierPumping()
		Mark(r, "barrier done")
		frames, cl := pe.Take()
		// every served block is followed by one upload notification to the loop: take those still on their way
		for _, f := range frames {
			if f.ID == 7 && len(f.Payload) > 8 {
				if handled > 0 {
					handled--
				} else {
					v.PumpEx(10*time.Second, torrent.ClsMsg)
				}
			}
		}
		cl = cl || pe.Pe.Closed // the loop closed the peer: the EOF may not have reached the scripted end yet
		dec := int64(0)
		for _, f := range frames {
			switch f.ID {
			case 7:
				if len(f.Payload) >= 8 && int64(binary.BigEndian.Uint32(f.Payload[0:])) == idx && int64(binary.BigEndian.Uint32(f.Payload[4:])) == begin {
					lo := idx*l.PL + begin
					hi := lo + length
					if idx < int64(np) && hi <= int64(len(content)) && begin+length <= plen && bytes.Equal(f.Payload[8:], content[lo:hi]) {
						dec = 1
					} else {
						dec = 4
					}
				} else {
					dec = 5
				}
			case 16:
				if dec == 0 {
					dec = 2
				}
			}
		}
		if cl && dec == 0 {
			dec = 3
			closed = true
		} else if cl {
			closed = true
		}
		obs = append(obs, dec)
	}
	if v.Crash != "" {
		obs = append(obs, CrashMark)
	}
	return Case{In: in, Obs: obs}
}

func init() {
	Register(303, "upload request admission through the real message handler (scripted leecher against a stepped event loop)", genAdmission)
}

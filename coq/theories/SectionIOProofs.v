(* Write-then-read round trip of filesection.Piece over abstract storage. *)
From RainV Require Import Lib Geometry SectionIO PiecesProofs.
From Coq Require Import ZifyBool.

Lemma skipn_repeat {A} (x : A) : forall k m, skipn k (repeat x m) = repeat x (m - k).
Proof.
  induction k as [|k IH]; intros m; [rewrite Nat.sub_0_r; reflexivity|].
  destruct m as [|m]; [reflexivity|]. cbn [repeat skipn]. apply IH.
Qed.

Lemma zlen_firstn_skipn (l : list Z) (off len : Z) : 0 <= off -> 0 <= len -> off + len <= zlen l ->
  zlen (slice l off len) = len.
Proof.
  intros Ho Hl Hb. unfold slice, zlen in *. rewrite firstn_length, skipn_length. lia.
Qed.

Definition sec_wf (st : storage) (s : section) : Prop :=
  0 <= slen s /\ 0 <= soff s /\
  (spad s = false -> soff s + slen s <= zlen (file_of st (sfile s)) /\ (sfile s < length st)%nat).

Definition secs_wf (st : storage) (p : list section) : Prop := Forall (sec_wf st) p.

Lemma sec_bytes_len st s adv : sec_wf st s -> 0 <= adv <= slen s ->
  zlen (sec_bytes st s adv) = slen s - adv.
Proof.
  intros (Hl & Ho & Hf) Ha. unfold sec_bytes. destruct (spad s) eqn:Ep.
  - unfold zlen. rewrite repeat_length. lia.
  - destruct (Hf eq_refl) as [Hb _]. apply zlen_firstn_skipn; lia.
Qed.

Lemma sec_bytes_skip st s adv : 0 <= adv <= slen s -> 0 <= soff s ->
  skipn (Z.to_nat adv) (sec_bytes st s 0) = sec_bytes st s adv.
Proof.
  intros Ha Ho. unfold sec_bytes. destruct (spad s).
  - rewrite skipn_repeat. f_equal. lia.
  - unfold slice. rewrite skipn_firstn_comm, skipn_skipn. f_equal; [lia|f_equal; lia].
Qed.

Lemma content_app st a b : content st (a ++ b) = content st a ++ content st b.
Proof. unfold content. apply flat_map_app. Qed.

Lemma content_len st p : secs_wf st p -> zlen (content st p) = sum_slen p.
Proof.
  induction 1 as [|s r Hs Hr IH]; [reflexivity|].
  change (content st (s :: r)) with (sec_bytes st s 0 ++ content st r).
  rewrite zlen_app, IH, sec_bytes_len by (auto; destruct Hs; lia).
  unfold sum_slen; cbn [fold_right]. lia.
Qed.

Lemma sum_slen_nonneg st p : secs_wf st p -> 0 <= sum_slen p.
Proof.
  induction 1 as [|s r Hs Hr IH]; [cbn; lia|]. unfold sum_slen in *; cbn [fold_right].
  destruct Hs; lia.
Qed.

Lemma skip_loop_spec st : forall p pos off, secs_wf st p -> pos <= off -> off <= pos + sum_slen p ->
  p <> [] ->
  exists pre s r, skip_loop p pos off = Some (s, pos + sum_slen pre + slen s, r) /\
    p = pre ++ s :: r /\ pos + sum_slen pre <= off <= pos + sum_slen pre + slen s.
Proof.
  induction p as [|s r IH]; intros pos off Hwf Hle Hhi Hne; [congruence|].
  inversion Hwf as [|? ? Hs Hr]; subst. cbn [skip_loop].
  unfold sum_slen in Hhi; cbn [fold_right] in Hhi; fold (sum_slen r) in Hhi.
  destruct (pos + slen s >=? off) eqn:E.
  - exists [], s, r. cbn [sum_slen fold_right app]. rewrite Z.add_0_r. repeat split; lia.
  - assert (Hr0 : r <> []).
    { intros ->. cbn in Hhi. lia. }
    destruct (IH (pos + slen s) off Hr) as (pre & s' & r' & E1 & E2 & E3); [lia|lia|assumption|].
    exists (s :: pre), s', r'. rewrite E1, E2. cbn [app].
    unfold sum_slen; cbn [fold_right]; fold (sum_slen pre).
    split; [f_equal; f_equal; f_equal; lia|]. split; [reflexivity|lia].
Qed.

Lemma firstn_app_le {A} (n : nat) (a b c : list A) : (n <= length a)%nat ->
  firstn n (a ++ b) = firstn n (a ++ c).
Proof. intros H. rewrite !firstn_app. replace (n - length a)%nat with O by lia. reflexivity. Qed.

Lemma rest_loop_firstn st : forall r pos lim, secs_wf st r ->
  firstn (Z.to_nat (lim - pos)) (content st (rest_loop r pos lim)) =
  firstn (Z.to_nat (lim - pos)) (content st r).
Proof.
  induction r as [|s r IH]; intros pos lim Hwf; [reflexivity|].
  inversion Hwf as [|? ? Hs Hr]; subst. cbn [rest_loop].
  change (content st (s :: ?x)) with (sec_bytes st s 0 ++ content st x).
  pose proof (sec_bytes_len st s 0 Hs) as Hl. destruct Hs as (Hs0 & _).
  specialize (Hl ltac:(lia)). unfold zlen in Hl.
  destruct (pos + slen s >=? lim) eqn:E.
  - apply firstn_app_le. lia.
  - rewrite !firstn_app. f_equal.
    replace (Z.to_nat (lim - pos) - length (sec_bytes st s 0))%nat with (Z.to_nat (lim - (pos + slen s))) by lia.
    apply IH. assumption.
Qed.

Theorem read_at_content st p off n : secs_wf st p -> p <> [] ->
  0 <= off <= sum_slen p -> 0 <= n ->
  exists e, read_at st p off n = Ok (slice (content st p) off n, e) /\
            (off + n <= sum_slen p -> e = 0).
Proof.
  intros Hwf Hne Ho Hn. unfold read_at.
  destruct (skip_loop_spec st p 0 off Hwf) as (pre & s & r & E1 & E2 & E3); [lia|lia|assumption|].
  rewrite E1. cbv zeta.
  match goal with |- context [firstn (Z.to_nat n) ?str] => set (got := firstn (Z.to_nat n) str) end.
  assert (Hgot : got = slice (content st p) off n).
  { unfold got, slice. rewrite E2.
    assert (Hwf' : secs_wf st (pre ++ s :: r)) by (rewrite <- E2; assumption).
    apply Forall_app in Hwf' as [Hpre Hsr]. inversion Hsr as [|? ? Hs Hr]; subst.
    set (adv := slen s - (0 + sum_slen pre + slen s - off)).
    assert (Ha : 0 <= adv <= slen s) by (unfold adv; lia).
    rewrite content_app. change (content st (s :: r)) with (sec_bytes st s 0 ++ content st r).
    pose proof (sum_slen_nonneg st pre Hpre) as Hpn.
    assert (Hlp : length (content st pre) = Z.to_nat (sum_slen pre)).
    { pose proof (content_len st pre Hpre) as H. unfold zlen in H. lia. }
    replace (Z.to_nat off) with (length (content st pre) + Z.to_nat adv)%nat by (unfold adv; lia).
    rewrite <- skipn_skipn. rewrite skipn_app, skipn_all, Nat.sub_diag. cbn [skipn app].
    rewrite skipn_app. destruct Hs as (Hs0 & Hso & Hsf).
    rewrite sec_bytes_skip by lia.
    pose proof (sec_bytes_len st s 0 (conj Hs0 (conj Hso Hsf)) ltac:(lia)) as Hl0. unfold zlen in Hl0.
    replace (Z.to_nat adv - length (sec_bytes st s 0))%nat with O by lia. cbn [skipn].
    pose proof (sec_bytes_len st s adv (conj Hs0 (conj Hso Hsf)) Ha) as Hl. unfold zlen in Hl.
    rewrite !firstn_app. f_equal.
    change (flat_map (fun x => sec_bytes st x 0) ?l) with (content st l).
    replace (Z.to_nat n - length (sec_bytes st s adv))%nat
      with (Z.to_nat (off + n - (0 + sum_slen pre + slen s))) by (unfold adv in *; lia).
    apply rest_loop_firstn. assumption. }
  rewrite Hgot. eexists; split; [reflexivity|].
  intros Hin. pose proof (content_len st p Hwf) as Hc.
  assert (zlen (slice (content st p) off n) = n) by (apply zlen_firstn_skipn; lia).
  destruct (zlen (slice (content st p) off n) <? n) eqn:E; lia.
Qed.

(* ---- write ---- *)
Lemma set_nth_length {A} : forall (l : list A) i x, length (set_nth l i x) = length l.
Proof. induction l as [|y r IH]; intros [|i] x; cbn [set_nth length]; auto. Qed.

Lemma nth_set_nth_same {A} : forall (l : list A) i x d, (i < length l)%nat -> nth i (set_nth l i x) d = x.
Proof.
  induction l as [|y r IH]; intros [|i] x d H; cbn [length] in H; try lia; cbn [set_nth nth]; auto.
  apply IH. lia.
Qed.

Lemma nth_set_nth_other {A} : forall (l : list A) i j x d, i <> j -> nth j (set_nth l i x) d = nth j l d.
Proof.
  induction l as [|y r IH]; intros [|i] [|j] x d H; cbn [set_nth nth]; auto; try congruence.
Qed.

Lemma write_file_len c off b : 0 <= off -> off + zlen b <= zlen c ->
  zlen (write_file c off b) = zlen c.
Proof.
  intros Ho Hb. unfold write_file, zlen in *. rewrite !app_length, firstn_length, skipn_length. lia.
Qed.

Lemma slice_write_file c off b : 0 <= off -> off + zlen b <= zlen c ->
  slice (write_file c off b) off (zlen b) = b.
Proof.
  intros Ho Hb. unfold slice, write_file, zlen in *.
  assert (Hf : length (firstn (Z.to_nat off) c) = Z.to_nat off) by (rewrite firstn_length; lia).
  rewrite skipn_app, skipn_all2 by lia. rewrite Hf, Nat.sub_diag. cbn [skipn app].
  rewrite firstn_app, Nat2Z.id, firstn_all, Nat.sub_diag. cbn [firstn]. apply app_nil_r.
Qed.

Definition nonpad_files (p : list section) : list nat :=
  map sfile (filter (fun s => negb (spad s)) p).

Lemma secs_wf_set st p i c : secs_wf st p -> zlen c = zlen (file_of st i) -> secs_wf (set_nth st i c) p.
Proof.
  intros Hwf Hc. eapply Forall_impl; [|exact Hwf]. intros s (H1 & H2 & H3).
  split; [assumption|split; [assumption|]]. intros Hp. destruct (H3 Hp) as [Hb Hl].
  rewrite set_nth_length. split; [|assumption]. unfold file_of in *.
  destruct (Nat.eq_dec i (sfile s)) as [Heq|Hne].
  - rewrite Heq in *. rewrite nth_set_nth_same by assumption. lia.
  - rewrite nth_set_nth_other by assumption. assumption.
Qed.

Lemma content_indep st st' p : (forall i, In i (nonpad_files p) -> file_of st' i = file_of st i) ->
  content st' p = content st p.
Proof.
  induction p as [|s r IH]; intros H; [reflexivity|].
  change (content ?x (s :: r)) with (sec_bytes x s 0 ++ content x r). f_equal.
  - unfold sec_bytes. destruct (spad s) eqn:E; [reflexivity|]. rewrite H; [reflexivity|].
    unfold nonpad_files. cbn [filter]. rewrite E. cbn [negb map]. left; reflexivity.
  - apply IH. intros i Hi. apply H. unfold nonpad_files in *. cbn [filter].
    destruct (negb (spad s)); [right|]; assumption.
Qed.

Theorem write_then_content : forall p st buf, secs_wf st p -> NoDup (nonpad_files p) ->
  sum_slen p <= zlen buf ->
  exists st', write_secs st p buf = Ok st' /\ content st' p = mask p buf /\
    length st' = length st /\
    (forall i, ~ In i (nonpad_files p) -> file_of st' i = file_of st i) /\
    (forall i, zlen (file_of st' i) = zlen (file_of st i)).
Proof.
  induction p as [|s r IH]; intros st buf Hwf Hnd Hlen.
  - exists st. repeat split; reflexivity.
  - inversion Hwf as [|? ? Hs Hr]; subst. destruct Hs as (Hs0 & Hso & Hsf).
    unfold sum_slen in Hlen; cbn [fold_right] in Hlen; fold (sum_slen r) in Hlen.
    pose proof (sum_slen_nonneg st r Hr) as Hrn.
    assert (Hsk : sum_slen r <= zlen (skipn (Z.to_nat (slen s)) buf)).
    { unfold zlen in *. rewrite skipn_length. lia. }
    cbn [write_secs]. destruct (zlen buf <? slen s) eqn:E; [lia|].
    change (content ?x (s :: r)) with (sec_bytes x s 0 ++ content x r). cbn [mask].
    unfold nonpad_files in Hnd. cbn [filter] in Hnd.
    destruct (spad s) eqn:Ep.
    + cbn [negb] in Hnd. destruct (IH st _ Hr Hnd Hsk) as (st' & E1 & E2 & E3 & E4 & E5).
      exists st'. rewrite E1. split; [reflexivity|]. split.
      * unfold sec_bytes. rewrite Ep, E2. f_equal. f_equal. lia.
      * split; [assumption|]. split; [|assumption]. intros i Hi. apply E4.
        intros Hc. apply Hi. unfold nonpad_files in *. cbn [filter]. rewrite Ep. exact Hc.
    + cbn [negb map] in Hnd. inversion Hnd as [|? ? Hnotin Hnd']; subst.
      destruct (Hsf eq_refl) as [Hb Hidx].
      set (b := firstn (Z.to_nat (slen s)) buf).
      assert (Hbl : zlen b = slen s) by (unfold b, zlen in *; rewrite firstn_length; lia).
      set (c := write_file (file_of st (sfile s)) (soff s) b).
      assert (Hcl : zlen c = zlen (file_of st (sfile s))) by (apply write_file_len; lia).
      set (st1 := set_nth st (sfile s) c).
      destruct (IH st1 _ (secs_wf_set st r _ c Hr Hcl) Hnd' Hsk) as (st' & E1 & E2 & E3 & E4 & E5).
      exists st'. rewrite E1. split; [reflexivity|]. split; [|split; [|split]].
      * rewrite E2. f_equal. unfold sec_bytes. rewrite Ep.
        rewrite E4 by exact Hnotin. unfold st1, file_of. rewrite nth_set_nth_same by assumption.
        fold (file_of st (sfile s)). rewrite Z.add_0_r, Z.sub_0_r. rewrite <- Hbl.
        apply slice_write_file; lia.
      * rewrite E3. apply set_nth_length.
      * intros i Hi. unfold nonpad_files in Hi. cbn [filter] in Hi. rewrite Ep in Hi. cbn [negb map] in Hi.
        assert (Hi1 : sfile s <> i /\ ~ In i (nonpad_files r)).
        { unfold nonpad_files. cbn [In] in Hi. tauto. }
        destruct Hi1 as [Hi1 Hi2]. rewrite E4 by exact Hi2.
        unfold st1, file_of. apply nth_set_nth_other. exact Hi1.
      * intros i. rewrite E5. unfold st1, file_of. destruct (Nat.eq_dec (sfile s) i) as [Heq|Hne].
        -- rewrite <- Heq. rewrite nth_set_nth_same by assumption. exact Hcl.
        -- rewrite nth_set_nth_other by assumption. reflexivity.
Qed.

Lemma secs_wf_after st st' p : secs_wf st p -> length st' = length st ->
  (forall i, zlen (file_of st' i) = zlen (file_of st i)) -> secs_wf st' p.
Proof.
  intros Hwf Hl Hz. eapply Forall_impl; [|exact Hwf]. intros s (H1 & H2 & H3).
  split; [assumption|split; [assumption|]]. intros Hp. destruct (H3 Hp). rewrite Hz, Hl. auto.
Qed.

(* Writing a piece and reading any sub-range of it back returns the same bytes; padding
   reads as zeros and is never written. *)
Theorem write_read_roundtrip st p buf off n :
  secs_wf st p -> p <> [] -> NoDup (nonpad_files p) -> zlen buf = sum_slen p ->
  0 <= off -> 0 <= n -> off + n <= sum_slen p ->
  exists st', write_secs st p buf = Ok st' /\
    read_at st' p off n = Ok (slice (mask p buf) off n, 0) /\
    (forall i, ~ In i (nonpad_files p) -> file_of st' i = file_of st i).
Proof.
  intros Hwf Hne Hnd Hlen Ho Hn Hin.
  destruct (write_then_content p st buf Hwf Hnd) as (st' & E1 & E2 & E3 & E4 & E5); [lia|].
  exists st'. split; [assumption|]. split; [|assumption].
  pose proof (secs_wf_after st st' p Hwf E3 E5) as Hwf'.
  destruct (read_at_content st' p off n Hwf' Hne) as (e & Er & He); [lia|lia|].
  rewrite Er, E2, (He Hin). reflexivity.
Qed.

(* reading beyond the piece is the Go panic (index out of range on the section list) *)
Theorem read_at_beyond_crashes st : forall p pos off, secs_wf st p -> pos + sum_slen p < off ->
  skip_loop p pos off = None.
Proof.
  induction p as [|s r IH]; intros pos off Hwf H; [reflexivity|].
  inversion Hwf; subst. cbn [skip_loop]. unfold sum_slen in H; cbn [fold_right] in H; fold (sum_slen r) in H.
  pose proof (sum_slen_nonneg st r ltac:(assumption)).
  destruct (pos + slen s >=? off) eqn:E; [lia|]. apply IH; [assumption|lia].
Qed.

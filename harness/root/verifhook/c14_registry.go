//go:build verif

package verifhook

import (
	"bytes"
	"crypto/sha1"
	"encoding/hex"
	"fmt"
	"math/rand"
	"os"
	"sort"
	"time"

	"github.com/cenkalti/rain/v2/torrent"
)

// kind 1402: the session registry and the resume database through the public API: add (torrent file,
// magnet, given / duplicate ids, failing adds), remove, start, stop, add tracker, close + reopen,
// compact + reopen on the compacted database.
//
// in  = [nports] then ops
//       1 cat idsel stopped port   add torrent file #cat; idsel: 0 = id chosen by the session, k>0 = given id #k;
//                                   port = the port the session chose (observed, -1 when the add failed)
//       2                          add garbage (fails)
//       3 cat idsel stopped port   add the magnet link of #cat
//       4 t                        remove torrent number t (numbering by order of creation)
//       5 t | 6 t                  start | stop
//       7 t                        add a tracker
//       8                          close the session and open it again on the same database
//       9                          compact the database, close, open again on the compacted file
// obs = after every op [err | ntorrents (tnum cat port started hasinfo ntrackers)* sorted by tnum | nfree (port)* | dbsame]

type regTor struct {
	num   int
	id    string
	cat   int
	given int
}

type regH struct {
	r       *rand.Rand
	dir     string
	s       *torrent.Session
	cfg     torrent.Config
	base    int
	nports  int
	files   [][]byte
	hashes  [][20]byte
	tors    []*regTor // all ever created, by number
	in, obs []int64
}

func (h *regH) open(db string) error {
	cfg := torrent.DefaultConfig
	cfg.Database = db
	cfg.DataDir = h.dir + "/data"
	cfg.DataDirIncludesTorrentID = true
	cfg.DHTEnabled = false
	cfg.RPCEnabled = false
	cfg.ResumeOnStartup = true
	cfg.PortBegin = uint16(h.base)
	cfg.PortEnd = uint16(h.base + h.nports)
	cfg.Host = "127.0.0.1"
	cfg.TrackerStopTimeout = 50 * time.Millisecond
	cfg.ResumeWriteInterval = time.Hour
	cfg.HealthCheckInterval = time.Hour
	h.cfg = cfg
	s, err := torrent.NewSession(cfg)
	if err != nil {
		return err
	}
	h.s = s
	return nil
}

func (h *regH) find(id string) *regTor {
	for i := len(h.tors) - 1; i >= 0; i-- { // a given id may be used again after its torrent is gone
		if h.tors[i].id == id {
			return h.tors[i]
		}
	}
	return nil
}

func (h *regH) observe(errFlag bool) {
	h.obs = append(h.obs, b2i(errFlag))
	type row struct{ num, cat, port, started, hasinfo, ntr int64 }
	var rows []row
	live := map[string]bool{}
	for _, t := range h.s.ListTorrents() {
		rt := h.find(t.ID())
		num, cat := int64(-1), int64(-1)
		if rt != nil {
			num = int64(rt.num)
			ih := t.InfoHash()
			for k := range h.hashes {
				if h.hashes[k] == [20]byte(ih) {
					cat = int64(k)
				}
			}
		}
		live[t.ID()] = true
		spec := h.s.ResumeSpecForVerif(t.ID())
		started, ntr := int64(-1), int64(-1)
		if spec != nil {
			started = b2i(spec.Started)
			ntr = 0
			for _, tier := range spec.Trackers {
				ntr += int64(len(tier))
			}
			if spec.Port != t.Port() {
				started = -2
			}
		}
		rows = append(rows, row{num, cat, int64(t.Port()), started, b2i(t.HasInfoForVerif()), ntr})
	}
	sort.Slice(rows, func(a, b int) bool { return rows[a].num < rows[b].num })
	h.obs = append(h.obs, int64(len(rows)))
	for _, x := range rows {
		h.obs = append(h.obs, x.num, x.cat, x.port-int64(h.base), x.started, x.hasinfo, x.ntr)
	}
	free := h.s.FreePortsForVerif()
	sort.Ints(free)
	h.obs = append(h.obs, int64(len(free)))
	for _, p := range free {
		h.obs = append(h.obs, int64(p-h.base))
	}
	// the records in the database are exactly the live torrents
	ids := h.s.ResumeIDsForVerif()
	same := len(ids) == len(live)
	for _, id := range ids {
		if !live[id] {
			same = false
		}
	}
	h.obs = append(h.obs, b2i(same))
}

func genRegistry(r *rand.Rand, tier string) Case {
	dir, err := os.MkdirTemp("/verif/.work", "reg")
	if err != nil {
		return Case{In: []int64{0}, Obs: []int64{-710}}
	}
	defer os.RemoveAll(dir)
	h := &regH{r: r, dir: dir, nports: 2 + r.Intn(3), base: 2000 + r.Intn(7800)} // below the slots of the stepped-loop sessions and the kernel's ephemeral range
	for k := 0; k < 3; k++ {
		l := vLayout{PL: 16384, Lens: []int64{int64(1000 + k)}, Pads: []bool{false}, Name: fmt.Sprintf("t%d", k), Total: int64(1000 + k)}
		content := l.Content(int64(k) + 7)
		info := l.InfoBytes(content, -1)
		urls := []string{}
		if k == 1 {
			urls = []string{"http://127.0.0.1:1/seed"}
		}
		f := torrent.BuildTorrentFileWithTrackers(info, urls, [][]string{{"http://127.0.0.1:1/announce"}, {"udp://127.0.0.1:1", "http://127.0.0.1:2/a"}}[:k%3])
		h.files = append(h.files, f)
		h.hashes = append(h.hashes, sha1.Sum(info))
	}
	if err := h.open(dir + "/session.db"); err != nil {
		return Case{In: []int64{0}, Obs: []int64{-711}}
	}
	defer func() {
		if h.s != nil {
			h.s.Close()
		}
	}()
	h.in = []int64{int64(h.nports)}
	h.observe(false)
	db := dir + "/session.db"
	nops := 4 + r.Intn(12)
	for i := 0; i < nops; i++ {
		x := r.Intn(100)
		pickLive := func() *regTor {
			ts := h.s.ListTorrents()
			if len(ts) == 0 {
				return nil
			}
			sort.Slice(ts, func(a, b int) bool { return ts[a].ID() < ts[b].ID() })
			return h.find(ts[r.Intn(len(ts))].ID())
		}
		switch {
		case x < 30 || x >= 92: // add a torrent file or a magnet link
			cat := r.Intn(3)
			idsel := 0
			if r.Intn(3) == 0 {
				idsel = 1 + r.Intn(3)
			}
			stopped := r.Intn(2) == 0
			opt := &torrent.AddTorrentOptions{Stopped: stopped}
			if idsel > 0 {
				opt.ID = fmt.Sprintf("given-%d", idsel)
			}
			var t *torrent.Torrent
			var err error
			code := int64(1)
			if x >= 92 {
				code = 3
				t, err = h.s.AddURI("magnet:?xt=urn:btih:"+hex.EncodeToString(h.hashes[cat][:])+"&dn=m"+fmt.Sprint(cat)+"&tr=http%3A%2F%2F127.0.0.1%3A1%2Fannounce", opt)
			} else {
				t, err = h.s.AddTorrent(bytes.NewReader(h.files[cat]), opt)
			}
			port := int64(-1)
			if err == nil && t != nil {
				h.tors = append(h.tors, &regTor{num: len(h.tors), id: t.ID(), cat: cat, given: idsel})
				port = int64(t.Port() - h.base)
			}
			h.in = append(h.in, code, int64(cat), int64(idsel), b2i(stopped), port)
			h.observe(err != nil)
		case x < 35:
			_, err := h.s.AddTorrent(bytes.NewReader([]byte("d4:infoi1ee")), nil)
			h.in = append(h.in, 2)
			h.observe(err != nil)
		case x < 55:
			t := pickLive()
			if t == nil {
				continue
			}
			err := h.s.RemoveTorrent(t.id, r.Intn(2) == 0)
			h.in = append(h.in, 4, int64(t.num))
			h.observe(err != nil)
		case x < 65:
			t := pickLive()
			if t == nil {
				continue
			}
			err := h.s.GetTorrent(t.id).Start()
			h.in = append(h.in, 5, int64(t.num))
			h.observe(err != nil)
		case x < 72:
			t := pickLive()
			if t == nil {
				continue
			}
			err := h.s.GetTorrent(t.id).Stop()
			h.in = append(h.in, 6, int64(t.num))
			h.observe(err != nil)
		case x < 78:
			t := pickLive()
			if t == nil {
				continue
			}
			err := h.s.GetTorrent(t.id).AddTracker("http://127.0.0.1:3/extra")
			h.in = append(h.in, 7, int64(t.num))
			h.observe(err != nil)
		case x < 86:
			h.s.Close()
			h.s = nil
			err := h.open(db)
			h.in = append(h.in, 8)
			if err != nil {
				h.obs = append(h.obs, -712)
				return Case{In: h.in, Obs: h.obs}
			}
			h.observe(false)
		default:
			out := fmt.Sprintf("%s/compact-%d.db", dir, i)
			var cerr error
			func() {
				defer func() {
					if e := recover(); e != nil {
						cerr = fmt.Errorf("panic: %v", e)
					}
				}()
				cerr = h.s.CompactDatabase(out)
			}()
			h.in = append(h.in, 9)
			if cerr != nil {
				h.obs = append(h.obs, CrashMark)
				return Case{In: h.in, Obs: h.obs, Note: cerr.Error()}
			}
			h.s.Close()
			h.s = nil
			db = out
			if err := h.open(db); err != nil {
				h.obs = append(h.obs, -713)
				return Case{In: h.in, Obs: h.obs}
			}
			h.observe(false)
		}
	}
	return Case{In: h.in, Obs: h.obs}
}

func init() {
	Register(1402, "session registry and resume database through the public API (add, duplicate ids, failing adds, remove, start/stop, add tracker, restart, compact)", genRegistry)
}

//go:build verif

package verifhook

import (
	"math/rand"

	"github.com/cenkalti/rain/v2/internal/piecepicker"
)

// kind 905: markFileEdges of the real picker (sequential mode) on generated layouts.
// in = [PL; npieces; nfiles; (len pad)*]   obs = (head tail) per piece

func runEdges(in []int64) []int64 {
	pl := in[0]
	nf := int(in[2])
	lens := make([]int64, nf)
	pads := make([]bool, nf)
	for i := 0; i < nf; i++ {
		lens[i] = in[3+2*i]
		pads[i] = in[4+2*i] != 0
	}
	_, ps, err := NewPiecesFor(pl, lens, pads)
	if err != nil {
		return []int64{-778}
	}
	pk := piecepicker.New(ps, 1, nil, true)
	head, tail := pk.EdgeFlags()
	var out []int64
	for i := range ps {
		out = append(out, b2i(head[i]), b2i(tail[i]))
	}
	return out
}

func genEdges(r *rand.Rand, tier string) Case {
	var pl int64
	var lens []int64
	var pads []bool
	switch r.Intn(3) {
	case 0: // small units: many pieces per file, edges of one byte
		pl, lens, pads = genLayout(r, []int64{4, 8, 16}[r.Intn(3)], 7)
	case 1: // real piece length, files around the 1 % rule: edge = size/100 spans several pieces
		pl = 16384
		nf := 1 + r.Intn(4)
		for i := 0; i < nf; i++ {
			lens = append(lens, pick(r, 0, 1, 99, 100, 101, 16384, 16385, 1638400, 1638401, 5000000, int64(r.Intn(9000000))))
			pads = append(pads, r.Intn(5) == 0 && i > 0)
		}
	default: // large files with a large piece: the 8 MiB cap
		pl = 4194304
		nf := 1 + r.Intn(3)
		for i := 0; i < nf; i++ {
			lens = append(lens, pick(r, 838860800, 838860799, 900000000, 8388608, 1+int64(r.Intn(2000000000))))
			pads = append(pads, false)
		}
	}
	tot := sumLens(lens)
	if tot == 0 {
		lens[0] = 1
		pads[0] = false
		tot = sumLens(lens)
	}
	np := (tot + pl - 1) / pl
	in := []int64{pl, np, int64(len(lens))}
	for i := range lens {
		in = append(in, lens[i], b2i(pads[i]))
	}
	return Case{In: in, Obs: Guard(func() []int64 { return runEdges(in) })}
}

func init() {
	Register(905, "markFileEdges of the real picker on generated layouts", genEdges)
}

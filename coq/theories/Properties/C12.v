(* C12 — MSE handshake/stream correct for all pads and chunkings; forced encryption holds. *)
From RainV Require Import Lib Mse MseProofs MseProofs2.

(* Two parties that hold the same stream key.  For every public key, every pad of 0..512 bytes on each of
   the four pads, every initial payload up to 65535 bytes, every set of offered methods, every selection
   callback of the responder, and every fragmentation of the transport (the first read of a side returns
   anything between 96 bytes and its whole first message): if the responder's choice is a single offered
   method, both sides complete, agree on it, the initial payload arrives intact and every byte written
   afterwards by either side is read unchanged by the other.  The two [no_early] premises say that the
   synchronisation patterns (a SHA-1 value; 8 bytes of RC4 key stream) do not occur inside the random
   padding before their real position. *)
Theorem C12_same_key_both_complete_and_agree :
  forall ya padA yb padB ia provide lenC lenD pol polk o known chunksAB chunksBA f1 f2,
  zlen ya = 96 -> zlen yb = 96 -> zlen (o_req1 o) = 20 -> zlen (o_req2 o) = 20 -> zlen (o_req3 o) = 20 ->
  0 < provide < 4294967296 -> 0 <= lenC < 65536 -> 0 <= lenD < 65536 -> zlen ia < 65536 -> 0 <= polk < 4294967296 ->
  zlen padA <= 512 -> zlen padB <= 512 ->
  first_read chunksAB 0 = Some f1 -> f1 <= 96 + zlen padA ->
  first_read chunksBA 0 = Some f2 -> f2 <= 96 + zlen padB ->
  no_early (o_req1 o) (skipn (Z.to_nat f1) (ya ++ padA)) ->
  no_early (fst (rc4_xor (rc4_init (o_keyB o)) vc)) (skipn (Z.to_nat f2) (yb ++ padB)) ->
  let sel := sel_policy pol polk provide in
  let r := honest ya padA provide lenC ia o yb padB lenD pol polk o known chunksAB chunksBA in
  known = o_req2 o -> sel_valid sel provide = true ->
  p_err (u_a r) = 0 /\ p_err (u_b r) = 0 /\ p_sel (u_a r) = sel /\ p_sel (u_b r) = sel /\
  sel_valid sel provide = true /\ p_ia (u_b r) = ia /\
  (forall d, recv (u_b r) (send (u_a r) d) = d) /\ (forall d, recv (u_a r) (send (u_b r) d) = d).
Proof. intros. eapply honest_run_agrees; eassumption. Qed.
Print Assumptions C12_same_key_both_complete_and_agree.

(* ... and if the responder's choice is not a single offered method, the handshake fails on both sides *)
Theorem C12_invalid_selection_fails_on_both_sides :
  forall ya padA yb padB ia provide lenC lenD pol polk o known chunksAB chunksBA f1 f2,
  zlen ya = 96 -> zlen yb = 96 -> zlen (o_req1 o) = 20 -> zlen (o_req2 o) = 20 -> zlen (o_req3 o) = 20 ->
  0 < provide < 4294967296 -> 0 <= lenC < 65536 -> zlen ia < 65536 ->
  zlen padA <= 512 ->
  first_read chunksAB 0 = Some f1 -> f1 <= 96 + zlen padA ->
  first_read chunksBA 0 = Some f2 -> f2 <= 96 + zlen padB ->
  no_early (o_req1 o) (skipn (Z.to_nat f1) (ya ++ padA)) ->
  no_early (fst (rc4_xor (rc4_init (o_keyB o)) vc)) (skipn (Z.to_nat f2) (yb ++ padB)) ->
  let sel := sel_policy pol polk provide in
  let r := honest ya padA provide lenC ia o yb padB lenD pol polk o known chunksAB chunksBA in
  known = o_req2 o -> sel_valid sel provide = false ->
  p_err (u_a r) <> 0 /\ p_err (u_b r) <> 0.
Proof. intros. eapply honest_run_invalid_selection; eassumption. Qed.
Print Assumptions C12_invalid_selection_fails_on_both_sides.

(* a wrong key never completes the handshake, on either side *)
Theorem C12_wrong_key_never_completes :
  forall ya padA yb padB ia provide lenC lenD pol polk o known chunksAB chunksBA f1 f2,
  zlen ya = 96 -> zlen yb = 96 -> zlen (o_req1 o) = 20 -> zlen (o_req2 o) = 20 -> zlen (o_req3 o) = 20 ->
  0 < provide < 4294967296 -> 0 <= lenC < 65536 -> zlen ia < 65536 ->
  zlen padA <= 512 ->
  first_read chunksAB 0 = Some f1 -> f1 <= 96 + zlen padA ->
  first_read chunksBA 0 = Some f2 -> f2 <= 96 + zlen padB ->
  no_early (o_req1 o) (skipn (Z.to_nat f1) (ya ++ padA)) ->
  no_early (fst (rc4_xor (rc4_init (o_keyB o)) vc)) (skipn (Z.to_nat f2) (yb ++ padB)) ->
  let r := honest ya padA provide lenC ia o yb padB lenD pol polk o known chunksAB chunksBA in
  known <> o_req2 o ->
  p_err (u_a r) <> 0 /\ p_err (u_b r) <> 0.
Proof. intros. eapply wrong_key_never_completes; eassumption. Qed.
Print Assumptions C12_wrong_key_never_completes.

(* forced encryption.  Outgoing: only RC4 is offered, and whatever bytes the peer sends and however they are
   fragmented, a completed handshake leaves both stream directions RC4; no clear-text retry is made.
   Incoming: whatever bytes the peer sends, a completed handshake selected RC4; a plain BitTorrent handshake
   is refused. *)
Theorem C12_forced_outgoing_never_plain : forall ya padA lenC ia o incoming chunks,
  let a := initiator ya padA (dial_provide true) lenC ia o incoming chunks in
  p_err a = 0 -> p_sel a <> 1 /\ (exists c, p_enc a = CRc4 c) /\ (exists c, p_dec a = CRc4 c).
Proof. exact initiator_forced. Qed.
Print Assumptions C12_forced_outgoing_never_plain.

Theorem C12_forced_outgoing_no_clear_retry : forall e s plain_ok, snd (dial_policy true true e s plain_ok) = false.
Proof. exact dial_forced_no_clear. Qed.
Print Assumptions C12_forced_outgoing_no_clear_retry.

Theorem C12_forced_incoming_never_plain : forall yb padB lenD k o known incoming chunks,
  let b := responder yb padB lenD 1 k o known incoming chunks in
  p_err b = 0 -> p_sel b = 2 /\ (exists c, p_enc b = CRc4 c) /\ (exists c, p_dec b = CRc4 c).
Proof. exact responder_forced. Qed.
Print Assumptions C12_forced_incoming_never_plain.

Theorem C12_forced_accept_policy : forall has_skey plain e s,
  accept_policy true has_skey plain e s = 0 \/ accept_policy true has_skey plain e s = 2.
Proof. exact accept_forced. Qed.
Print Assumptions C12_forced_accept_policy.

(* the initiator never accepts a method it did not offer, whatever the peer sends *)
Theorem C12_initiator_accepts_only_offered : forall ya padA provide lenC ia o incoming chunks,
  let a := initiator ya padA provide lenC ia o incoming chunks in
  p_err a = 0 -> sel_valid (p_sel a) provide = true.
Proof. exact initiator_selected_offered. Qed.
Print Assumptions C12_initiator_accepts_only_offered.

(* both ends of the Diffie-Hellman exchange compute the same secret (the SHA-1 derivations from it are oracles) *)
Theorem C12_dh_shared_secret : forall g xa xb p, 0 < p -> 0 <= xa -> 0 <= xb ->
  ((g ^ xb mod p) ^ xa) mod p = ((g ^ xa mod p) ^ xb) mod p.
Proof. exact dh_shared_secret. Qed.
Print Assumptions C12_dh_shared_secret.

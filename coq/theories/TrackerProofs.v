From RainV Require Import Lib Bencode Wire WireProofs Tracker.
From Coq Require Import ZifyBool.
Ltac Zify.zify_post_hook ::= Z.div_mod_to_equations.

Lemma field_at {A} (pre x rest : list A) n m : length pre = n -> length x = m ->
  firstn m (skipn n (pre ++ x ++ rest)) = x.
Proof.
  intros <- <-. rewrite skipn_app, skipn_all, Nat.sub_diag. cbn [skipn app].
  rewrite firstn_app, Nat.sub_diag, firstn_all. cbn [firstn]. apply app_nil_r.
Qed.

Lemma len_be64 x : length (be64 x) = 8%nat. Proof. reflexivity. Qed.
Lemma len_be32 x : length (be32 x) = 4%nat. Proof. reflexivity. Qed.
Lemma len_be16 x : length (be16 x) = 2%nat. Proof. reflexivity. Qed.

Definition bytes (l : list Z) : Prop := Forall (fun b => 0 <= b < 256) l.

(* C15: the BEP 15 announce datagram carries info-hash, the full 20-byte peer id, the counters,
   the event, the key taken from the peer id and the port at their protocol offsets *)
Theorem udp_fields connid txid r url : length (a_ih r) = 20%nat -> length (a_pid r) = 20%nat ->
  let p := udp_announce true connid txid r url in
  firstn 8 p = be64 connid /\
  firstn 4 (skipn 8 p) = be32 1 /\
  firstn 4 (skipn 12 p) = be32 (txid mod two32) /\
  firstn 20 (skipn 16 p) = a_ih r /\
  firstn 20 (skipn 36 p) = a_pid r /\
  firstn 8 (skipn 56 p) = be64 (a_dl r) /\
  firstn 8 (skipn 64 p) = be64 (a_left r) /\
  firstn 8 (skipn 72 p) = be64 (a_ul r) /\
  firstn 4 (skipn 80 p) = be32 (a_event r mod two32) /\
  firstn 4 (skipn 88 p) = be32 (pid_key (a_pid r)) /\
  firstn 4 (skipn 92 p) = be32 (a_numwant r mod two32) /\
  firstn 2 (skipn 96 p) = be16 (a_port r mod 65536).
Proof.
  intros Hih Hpid p. unfold p, udp_announce. cbv iota.
  set (X1 := be64 connid). set (X2 := be32 1). set (X3 := be32 (txid mod two32)).
  set (X4 := a_ih r) in *. set (X5 := a_pid r) in *. set (X6 := be64 (a_dl r)). set (X7 := be64 (a_left r)).
  set (X8 := be64 (a_ul r)). set (X9 := be32 (a_event r mod two32)). set (X10 := be32 0).
  set (X11 := be32 (pid_key X5)). set (X12 := be32 (a_numwant r mod two32)). set (X13 := be16 (a_port r mod 65536)).
  set (T := be16 0 ++ chunks255 (S (length url)) url).
  assert (L1 : length X1 = 8%nat) by reflexivity. assert (L2 : length X2 = 4%nat) by reflexivity.
  assert (L3 : length X3 = 4%nat) by reflexivity. assert (L6 : length X6 = 8%nat) by reflexivity.
  assert (L7 : length X7 = 8%nat) by reflexivity. assert (L8 : length X8 = 8%nat) by reflexivity.
  assert (L9 : length X9 = 4%nat) by reflexivity. assert (L10 : length X10 = 4%nat) by reflexivity.
  assert (L11 : length X11 = 4%nat) by reflexivity. assert (L12 : length X12 = 4%nat) by reflexivity.
  assert (L13 : length X13 = 2%nat) by reflexivity.
  clearbody X1 X2 X3 X6 X7 X8 X9 X10 X11 X12 X13 T.
  repeat split.
  - apply (field_at [] X1 _ 0 8); auto.
  - apply (field_at X1 X2 _ 8 4); auto.
  - rewrite (app_assoc X1 X2). apply field_at; [rewrite app_length; lia|auto].
  - rewrite (app_assoc X1 X2), (app_assoc (X1 ++ X2) X3). apply field_at; [rewrite !app_length; lia|auto].
  - rewrite (app_assoc X1 X2), (app_assoc (X1 ++ X2) X3), (app_assoc _ X4). apply field_at; [rewrite !app_length; lia|auto].
  - rewrite (app_assoc X1 X2), (app_assoc (X1 ++ X2) X3), (app_assoc _ X4), (app_assoc _ X5).
    apply field_at; [rewrite !app_length; lia|auto].
  - rewrite (app_assoc X1 X2), (app_assoc (X1 ++ X2) X3), (app_assoc _ X4), (app_assoc _ X5), (app_assoc _ X6).
    apply field_at; [rewrite !app_length; lia|auto].
  - rewrite (app_assoc X1 X2), (app_assoc (X1 ++ X2) X3), (app_assoc _ X4), (app_assoc _ X5), (app_assoc _ X6), (app_assoc _ X7).
    apply field_at; [rewrite !app_length; lia|auto].
  - rewrite (app_assoc X1 X2), (app_assoc (X1 ++ X2) X3), (app_assoc _ X4), (app_assoc _ X5), (app_assoc _ X6), (app_assoc _ X7), (app_assoc _ X8).
    apply field_at; [rewrite !app_length; lia|auto].
  - rewrite (app_assoc X1 X2), (app_assoc (X1 ++ X2) X3), (app_assoc _ X4), (app_assoc _ X5), (app_assoc _ X6), (app_assoc _ X7), (app_assoc _ X8), (app_assoc _ X9), (app_assoc _ X10).
    apply field_at; [rewrite !app_length; lia|auto].
  - rewrite (app_assoc X1 X2), (app_assoc (X1 ++ X2) X3), (app_assoc _ X4), (app_assoc _ X5), (app_assoc _ X6), (app_assoc _ X7), (app_assoc _ X8), (app_assoc _ X9), (app_assoc _ X10), (app_assoc _ X11).
    apply field_at; [rewrite !app_length; lia|auto].
  - rewrite (app_assoc X1 X2), (app_assoc (X1 ++ X2) X3), (app_assoc _ X4), (app_assoc _ X5), (app_assoc _ X6), (app_assoc _ X7), (app_assoc _ X8), (app_assoc _ X9), (app_assoc _ X10), (app_assoc _ X11), (app_assoc _ X12).
    apply field_at; [rewrite !app_length; lia|auto].
Qed.

(* the key is the last four peer-id bytes (as the HTTP tracker sends them in hex) *)
Theorem udp_key_is_pid_tail pre a b c d : length pre = 16%nat -> bytes [a; b; c; d] ->
  be32 (pid_key (pre ++ [a; b; c; d])) = [a; b; c; d].
Proof.
  intros Hl Hb. unfold pid_key.
  assert (Hs : skipn 16 (pre ++ [a; b; c; d]) = [a; b; c; d]).
  { rewrite skipn_app, skipn_all2 by lia. rewrite Hl. reflexivity. }
  rewrite Hs. unfold be32, rd_be32. inversion Hb as [|? ? Ha Hb']; subst. inversion Hb' as [|? ? Hb0 Hc']; subst.
  inversion Hc' as [|? ? Hc0 Hd']; subst. inversion Hd' as [|? ? Hd0 _]; subst.
  f_equal; [|f_equal; [|f_equal; [|f_equal]]]; lia.
Qed.

Theorem udp_fields_refuted_pinned : exists connid txid r url,
  length (a_ih r) = 20%nat /\ length (a_pid r) = 20%nat /\
  firstn 20 (skipn 36 (udp_announce false connid txid r url)) <> a_pid r.
Proof.
  exists 0, 0, {| a_ih := repeat 1 20; a_pid := repeat 7 20; a_dl := 0; a_left := 0; a_ul := 0; a_event := 0;
                  a_numwant := 0; a_port := 1 |}, [].
  split; [reflexivity|split; [reflexivity|]]. vm_compute. discriminate.
Qed.

(* C16: whatever bytes a UDP tracker replies with, the result is an error or well-formed IPv4
   peers; the action must be "announce" *)
Lemma compact_peers_wf : forall fuel b, bytes b ->
  Forall (fun p => 0 <= fst p < two32 /\ 0 <= snd p < 65536) (compact_peers fuel b).
Proof.
  induction fuel as [|f IH]; intros b Hb; [constructor|]. cbn [compact_peers].
  destruct b as [|a [|b1 [|c [|d [|p1 [|p2 r]]]]]]; try constructor.
  - inversion Hb as [|? ? Ha H1]; subst. inversion H1 as [|? ? Hb1 H2]; subst. inversion H2 as [|? ? Hc H3]; subst.
    inversion H3 as [|? ? Hd H4]; subst. inversion H4 as [|? ? Hp1 H5]; subst. inversion H5 as [|? ? Hp2 H6]; subst.
    cbn [fst snd]. unfold rd_be32, two32. lia.
  - apply IH. do 6 (inversion Hb as [|? ? _ Hb']; subst; clear Hb; rename Hb' into Hb). exact Hb.
Qed.

Theorem udp_reply_total d : bytes d ->
  match parse_udp_announce d with
  | None => True
  | Some (_, _, _, ps) => Forall (fun p => 0 <= fst p < two32 /\ 0 <= snd p < 65536) ps /\
                          rd_be32 (nth 0 d 0) (nth 1 d 0) (nth 2 d 0) (nth 3 d 0) = 1
  end.
Proof.
  intros Hb. unfold parse_udp_announce.
  do 20 (destruct d as [|? d]; [exact I|]).
  destruct (rd_be32 _ _ _ _ =? 1) eqn:E; [|exact I].
  unfold decode_compact. destruct (zlen d mod 6 =? 0); [|exact I].
  split; [|cbn [nth]; lia]. apply compact_peers_wf.
  do 20 (inversion Hb as [|? ? _ Hb']; subst; clear Hb; rename Hb' into Hb). exact Hb.
Qed.

(* the HTTP path decodes its compact peer string with the same function *)
Theorem compact_reply_total s ps : bytes s -> decode_compact s = Some ps ->
  Forall (fun p => 0 <= fst p < two32 /\ 0 <= snd p < 65536) ps.
Proof.
  intros Hb H. unfold decode_compact in H. destruct (zlen s mod 6 =? 0); [|discriminate].
  inversion H; subst. apply compact_peers_wf. exact Hb.
Qed.

(* whatever the tracker declares and however much it streams, at most [limit] bytes of the reply
   are read, and they are a prefix of what was sent *)
Theorem read_reply_bounded limit declared stream got : 0 <= limit -> read_reply limit declared stream = Some got ->
  zlen got <= limit /\ exists rest, stream = got ++ rest.
Proof.
  intros Hl H. assert (G : zlen (firstn (Z.to_nat limit) stream) <= limit /\ exists rest, stream = firstn (Z.to_nat limit) stream ++ rest).
  { split; [unfold zlen; rewrite firstn_length; lia|]. exists (skipn (Z.to_nat limit) stream). symmetry. apply firstn_skipn. }
  unfold read_reply in H. destruct declared as [n|]; [destruct (n >? limit); [discriminate|]|]; inversion H; subst; exact G.
Qed.

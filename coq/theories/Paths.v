(* Model of the path handling of metainfo.NewInfo (cleanName, the ".." checks, the joined
   file paths and their duplicate detection), of lexical filepath.Clean / filepath.Join
   (component level, Unix), of FileStorage.Open's path computation and of the tar-entry check
   in readData.  Strings are byte lists.  Definitions only. *)
From RainV Require Import Lib.

Definition str := list Z.
Definition slash : Z := 47.
Definition dot : Z := 46.
Definition dotdot : str := [46; 46].

Fixpoint str_eqb (a b : str) : bool :=
  match a, b with
  | [], [] => true
  | x :: r, y :: r' => (x =? y) && str_eqb r r'
  | _, _ => false
  end.

(* ---------- UTF-8 (Go's utf8.DecodeRune acceptance) ---------- *)
Definition cont (b : Z) : bool := (128 <=? b) && (b <=? 191).
(* width of the valid rune at the head of s, 0 if the first byte starts no valid rune *)
Definition rune_width (s : str) : nat :=
  match s with
  | [] => O
  | b0 :: r =>
    if b0 <? 128 then 1%nat
    else if (194 <=? b0) && (b0 <=? 223) then
      match r with b1 :: _ => if cont b1 then 2%nat else O | _ => O end
    else if (224 <=? b0) && (b0 <=? 239) then
      match r with
      | b1 :: b2 :: _ =>
          let lo := if b0 =? 224 then 160 else 128 in
          let hi := if b0 =? 237 then 159 else 191 in
          if (lo <=? b1) && (b1 <=? hi) && cont b2 then 3%nat else O
      | _ => O
      end
    else if (240 <=? b0) && (b0 <=? 244) then
      match r with
      | b1 :: b2 :: b3 :: _ =>
          let lo := if b0 =? 240 then 144 else 128 in
          let hi := if b0 =? 244 then 143 else 191 in
          if (lo <=? b1) && (b1 <=? hi) && cont b2 && cont b3 then 4%nat else O
      | _ => O
      end
    else O
  end.

(* strings.ToValidUTF8(s, repl): each run of invalid bytes becomes one repl *)
Fixpoint to_valid (fuel : nat) (repl : str) (in_run : bool) (s : str) : str :=
  match fuel with
  | O => []
  | S f =>
    match s with
    | [] => []
    | b :: r =>
        match rune_width s with
        | O => (if in_run then [] else repl) ++ to_valid f repl true r
        | w => firstn w s ++ to_valid f repl false (skipn w s)
        end
    end
  end.

Definition replacement_char : str := [239; 191; 189].
Definition to_valid_utf8 (repl : str) (s : str) : str := to_valid (S (length s)) repl false s.

(* path.Ext: from the last '.' in the final slash-separated element *)
Fixpoint ext_rev (acc : str) (r : str) : str :=   (* r is the reversed string *)
  match r with
  | [] => []
  | b :: r' => if b =? slash then [] else if b =? dot then b :: acc else ext_rev (b :: acc) r'
  end.
Definition path_ext (s : str) : str := ext_rev [] (rev s).

Definition trim_name (s : str) (max : nat) : str :=
  if Nat.leb (length s) max then s else
  let ext := path_ext s in
  if Nat.ltb max (length ext) then firstn max s
  else firstn (max - length ext) s ++ ext.

Definition replace_sep (s : str) : str := map (fun b => if b =? slash then 95 else b) s.

Definition clean_name_n (s : str) (max : nat) : str :=
  replace_sep (to_valid_utf8 [] (trim_name (to_valid_utf8 replacement_char s) max)).
Definition clean_name (s : str) : str := clean_name_n s 255.

(* strings.TrimSpace: Unicode White_Space in UTF-8 *)
Definition ws_prefix (s : str) : nat :=
  match s with
  | b :: r =>
    if ((9 <=? b) && (b <=? 13)) || (b =? 32) then 1%nat
    else match b, r with
         | 194, b1 :: _ => if (b1 =? 133) || (b1 =? 160) then 2%nat else O
         | 225, 154 :: 128 :: _ => 3%nat
         | 226, 128 :: b2 :: _ => if ((128 <=? b2) && (b2 <=? 138)) || (b2 =? 168) || (b2 =? 169) || (b2 =? 175) then 3%nat else O
         | 226, 129 :: 159 :: _ => 3%nat
         | 227, 128 :: 128 :: _ => 3%nat
         | _, _ => O
         end
  | [] => O
  end.

Fixpoint trim_left (fuel : nat) (s : str) : str :=
  match fuel with
  | O => s
  | S f => match ws_prefix s with O => s | w => trim_left f (skipn w s) end
  end.

(* whitespace rune ending the string: try widths 1..3 from the end *)
Definition ws_suffix (s : str) : nat :=
  let n := length s in
  let try (w : nat) := if Nat.leb w n then Nat.eqb (ws_prefix (skipn (n - w) s)) w && negb (Nat.eqb w 0) else false in
  if try 1%nat then 1%nat else if try 2%nat then 2%nat else if try 3%nat then 3%nat else O.

Fixpoint trim_right (fuel : nat) (s : str) : str :=
  match fuel with
  | O => s
  | S f => match ws_suffix s with O => s | w => trim_right f (firstn (length s - w) s) end
  end.

Definition trim_space (s : str) : str := trim_right (length s) (trim_left (length s) s).

(* ---------- lexical Clean / Join at component level ---------- *)
Fixpoint split_go (cur : str) (s : str) : list str :=
  match s with
  | [] => [rev cur]
  | b :: r => if b =? slash then rev cur :: split_go [] r else split_go (b :: cur) r
  end.
Definition comps (s : str) : list str := split_go [] s.

Fixpoint intercalate (l : list str) : str :=
  match l with
  | [] => []
  | [x] => x
  | x :: r => x ++ slash :: intercalate r
  end.

Definition is_empty (s : str) : bool := match s with [] => true | _ => false end.
Definition is_dot (s : str) : bool := str_eqb s [dot].
Definition is_dotdot (s : str) : bool := str_eqb s dotdot.

(* the stack is kept reversed (top first) *)
Fixpoint clean_go (rooted : bool) (stack : list str) (cs : list str) : list str :=
  match cs with
  | [] => rev stack
  | c :: r =>
      if is_empty c || is_dot c then clean_go rooted stack r
      else if is_dotdot c then
        match stack with
        | top :: rest => if is_dotdot top then clean_go rooted (c :: stack) r else clean_go rooted rest r
        | [] => if rooted then clean_go rooted stack r else clean_go rooted [c] r
        end
      else clean_go rooted (c :: stack) r
  end.

Definition is_rooted (s : str) : bool := match s with b :: _ => b =? slash | [] => false end.

Definition render (rooted : bool) (l : list str) : str :=
  if rooted then slash :: intercalate l
  else match l with [] => [dot] | _ => intercalate l end.

Definition clean (s : str) : str :=
  render (is_rooted s) (clean_go (is_rooted s) [] (comps s)).

(* filepath.Join: empty elements ignored, result cleaned; all empty -> "" *)
Definition join (parts : list str) : str :=
  match filter (fun p => negb (is_empty p)) parts with
  | [] => []
  | ps => clean (intercalate ps)
  end.

Fixpoint has_prefix (p s : str) : bool :=
  match p, s with
  | [], _ => true
  | x :: r, y :: r' => (x =? y) && has_prefix r r'
  | _, [] => false
  end.

(* FileStorage.Open: name = Clean(name); name = Join(dest, name) *)
Definition open_path (dest name : str) : str := join [dest; clean name].

(* readData: name := Join(dir, hdr.Name); accepted iff HasPrefix(name, dir + "/"), dir cleaned *)
Definition tar_target (dir entry : str) : option str :=
  let d := clean dir in
  let name := join [d; entry] in
  if has_prefix (d ++ [slash]) name then Some name else None.

(* ---------- NewInfo's path half ----------
   [fixed = true]: after the "fix:" commit (D4): cleaned parts equal to ".." are rejected. *)
Definition file_parts (name : str) (path : list str) : list str :=
  clean_name name :: map clean_name path.

Fixpoint mem_str (x : str) (l : list str) : bool :=
  match l with [] => false | y :: r => str_eqb x y || mem_str x r end.

(* returns the joined path of every file, None = rejected *)
Fixpoint build_files (fixed : bool) (name : str) (files : list (list str * bool)) (seen : list str)
  : option (list str) :=
  match files with
  | [] => Some []
  | (path, padding) :: r =>
      let parts := file_parts name path in
      if fixed && existsb is_dotdot parts then None else
      let j := join parts in
      if negb padding && mem_str j seen then None else
      match build_files fixed name r (if padding then seen else j :: seen) with
      | Some js => Some (j :: js)
      | None => None
      end
  end.

(* name is the (possibly hex) name NewInfo settled on; single = single-file mode *)
Definition accept_paths (fixed : bool) (name : str) (files : list (list str * bool)) : option (list str) :=
  if existsb (fun f => existsb (fun p => is_dotdot (trim_space p)) (fst f)) files then None
  else match files with
       | [] => if fixed && is_dotdot (clean_name name) then None else Some [clean_name name]
       | _ => build_files fixed name files []
       end.

(* ---------- case codecs ----------
   strings are length-prefixed byte lists.
   kind 701: in = [name; nfiles; per file: padding; ncomp; comps...]  out = [0] | [1; joined paths (length-prefixed)...]
   kind 702: in = [dest; name]  out = open_path (length-prefixed)
   kind 703: in = [dir; entry]  out = [0] | [1; target]
   kind 704: in = [s]  out = clean_name s ++ marker ++ trim_space s ++ clean s  (each length-prefixed) *)
Fixpoint rd_strs (n : nat) (l : list Z) : option (list str * list Z) :=
  match n with
  | O => Some ([], l)
  | S n' => match rdlist l with
            | Some (s, r) => match rd_strs n' r with Some (ss, r') => Some (s :: ss, r') | None => None end
            | None => None
            end
  end.

Fixpoint rd_pfiles (n : nat) (l : list Z) : option (list (list str * bool)) :=
  match n with
  | O => Some []
  | S n' => match l with
            | pad :: nc :: r =>
                match rd_strs (Z.to_nat nc) r with
                | Some (cs, r') => match rd_pfiles n' r' with Some fs => Some ((cs, z2b pad) :: fs) | None => None end
                | None => None
                end
            | _ => None
            end
  end.

Definition enc_str (s : str) : list Z := zlen s :: s.

Definition run_accept_paths (inp : list Z) : list Z :=
  match rdlist inp with
  | Some (name, nf :: r) =>
      match rd_pfiles (Z.to_nat nf) r with
      | Some fs => match accept_paths true name fs with
                   | Some js => 1 :: flat_map enc_str js
                   | None => [0]
                   end
      | None => [-779]
      end
  | _ => [-779]
  end.

Definition run_open_path (inp : list Z) : list Z :=
  match rdlist inp with
  | Some (dest, r) => match rdlist r with
                      | Some (name, _) => enc_str (open_path dest name) ++ [1]
                      | None => [-779]
                      end
  | None => [-779]
  end.

Definition run_tar_target (inp : list Z) : list Z :=
  match rdlist inp with
  | Some (dir, r) => match rdlist r with
                     | Some (e, _) => match tar_target dir e with Some t => 1 :: enc_str t | None => [0] end
                     | None => [-779]
                     end
  | None => [-779]
  end.

Definition run_str_funcs (inp : list Z) : list Z :=
  match rdlist inp with
  | Some (s, _) => enc_str (clean_name s) ++ enc_str (trim_space s) ++ enc_str (clean s) ++ enc_str (path_ext s)
  | None => [-779]
  end.

(* ---------- monitors (observables only) ---------- *)
(* a path, split into components, stays below the root: no ".." component, not rooted *)
Definition confined_rel (p : str) : bool :=
  negb (is_rooted p) && negb (existsb is_dotdot (comps p)).

Fixpoint rd_all_strs (fuel : nat) (l : list Z) : list str :=
  match fuel with
  | O => []
  | S f => match l with
           | [] => []
           | _ => match rdlist l with Some (s, r) => s :: rd_all_strs f r | None => [] end
           end
  end.

Fixpoint nodup_strs (l : list str) : bool :=
  match l with [] => true | x :: r => negb (mem_str x r) && nodup_strs r end.

(* accepted => every joined path is confined, and non-padding paths are pairwise distinct *)
Definition mon_accept_paths (inp obs : list Z) : bool :=
  match obs with
  | [0] => true
  | 1 :: r =>
      let js := rd_all_strs (length r) r in
      forallb confined_rel js &&
      match rdlist inp with
      | Some (name, nf :: r') =>
          match rd_pfiles (Z.to_nat nf) r' with
          | Some fs => nodup_strs (map fst (filter (fun jp => negb (snd jp)) (combine js (map snd fs))))
                       || Nat.eqb (length fs) 0
          | None => false
          end
      | _ => false
      end
  | _ => false
  end.

(* the opened path is dest itself or below dest (dest absolute and clean) *)
Definition below (root p : str) : bool :=
  str_eqb p root || has_prefix (if str_eqb root [slash] then root else root ++ [slash]) p.

Definition mon_open_path (inp obs : list Z) : bool :=
  match rdlist inp, rdlist obs with
  | Some (dest, r), Some (p, _) =>
      match rdlist r with
      | Some (name, _) =>
          (* the statement only concerns confined names under absolute clean roots *)
          if is_rooted dest && str_eqb (clean dest) dest && confined_rel (clean name)
          then below dest p && negb (existsb is_dotdot (comps p)) else true
      | None => false
      end
  | _, _ => false
  end.

Definition mon_tar_target (inp obs : list Z) : bool :=
  match obs with
  | [0] => true
  | 1 :: r =>
      match rdlist inp, rdlist r with
      | Some (dir, _), Some (t, _) =>
          if is_rooted dir then has_prefix (clean dir ++ [slash]) t && negb (existsb is_dotdot (comps t)) else true
      | _, _ => false
      end
  | _ => false
  end.

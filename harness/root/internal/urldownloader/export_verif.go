//go:build verif

package urldownloader

import "github.com/cenkalti/rain/v2/internal/piece"

// JobSpec is a plain copy of downloadJob.
type JobSpec struct {
	Filename   string
	RangeBegin int64
	Length     int64
	Padding    bool
}

// CreateJobs exposes createJobs.
func CreateJobs(pieces []piece.Piece, begin, end uint32) []JobSpec {
	js := createJobs(pieces, begin, end)
	out := make([]JobSpec, len(js))
	for i, j := range js {
		out[i] = JobSpec{j.Filename, j.RangeBegin, j.Length, j.Padding}
	}
	return out
}

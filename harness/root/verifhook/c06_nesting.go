//go:build verif

package verifhook

import (
	"bytes"
	"math/rand"

	"github.com/cenkalti/rain/v2/internal/metainfo"
)

// kind 602: lists and dictionaries nested n deep under an unknown key of the torrent file or of the info
// dictionary (a decoder that recurses once per level dies of stack exhaustion on a few megabytes of
// opening brackets: the process cannot recover from that).
// in  = [where depth kind]  where 0: top level of the torrent file | 1: inside the info dictionary | 2: NewInfo on the info bytes
//                           kind 0: lists | 1: dictionaries
// obs = [accepted]   (reaching this line at all means the process survived)
func nestedValue(n int, dict bool) []byte {
	if !dict {
		return append(bytes.Repeat([]byte("l"), n), bytes.Repeat([]byte("e"), n)...)
	}
	// d1:ad1:a ... de e...
	var b []byte
	for i := 0; i < n-1; i++ {
		b = append(b, "d1:a"...)
	}
	b = append(b, "de"...)
	for i := 0; i < n-1; i++ {
		b = append(b, 'e')
	}
	return b
}

// hostile string length prefixes (where = 3: in the torrent file, 4: NewInfo): depth selects the prefix
var hugePrefixes = []string{"9223372036854775808", "18446744073709551595", "18446744073709551616", "9223372036854775807",
	"99999999999999999999999999", "4294967296", "2147483648", "00000000000000000000005"}

func runHugePrefix(in []int64) []int64 {
	pre := hugePrefixes[int(in[1])%len(hugePrefixes)]
	var doc []byte
	switch in[2] {
	case 0: // as the value of an unknown key that sorts first
		doc = []byte("d1:a" + pre + ":xe")
	case 1: // as a key
		doc = []byte("d" + pre + ":x1:ye")
	default: // as the name
		doc = []byte("d6:lengthi1000e4:name" + pre + ":t12:piece lengthi16384e6:pieces20:" + string(make([]byte, 20)) + "e")
	}
	return scanWithWatchdog(func() int64 {
		var err error
		if in[0] == 3 {
			full := append([]byte("d4:info"), doc...)
			full = append(full, 'e')
			_, err = metainfo.New(bytes.NewReader(full))
		} else {
			_, err = metainfo.NewInfo(doc, true, true)
		}
		return b2i(err == nil)
	})
}

func runNesting(in []int64) []int64 {
	if in[0] >= 3 {
		return runHugePrefix(in)
	}
	where, depth, dict := in[0], int(in[1]), in[2] != 0
	info := []byte("d6:lengthi1000e4:name1:t12:piece lengthi16384e6:pieces20:")
	info = append(info, make([]byte, 20)...)
	v := nestedValue(depth, dict)
	var err error
	switch where {
	case 0:
		doc := append([]byte("d4:info"), append(append([]byte{}, info...), 'e')...)
		doc = append(doc, "3:zzz"...)
		doc = append(doc, v...)
		doc = append(doc, 'e')
		_, err = metainfo.New(bytes.NewReader(doc))
	case 1:
		inner := append(append([]byte{}, info...), "3:zzz"...)
		inner = append(inner, v...)
		inner = append(inner, 'e')
		doc := append([]byte("d4:info"), inner...)
		doc = append(doc, 'e')
		_, err = metainfo.New(bytes.NewReader(doc))
	default:
		inner := append(append([]byte{}, info...), "3:zzz"...)
		inner = append(inner, v...)
		inner = append(inner, 'e')
		_, err = metainfo.NewInfo(inner, true, true)
	}
	return []int64{b2i(err == nil)}
}

func genNesting(r *rand.Rand, tier string) Case {
	depth := pick(r, 1, 2, 5, 30, 61, 62, 63, 64, 65, 66, 100, 1000, 100000)
	if r.Intn(40) == 0 {
		depth = 4000000 // ten megabytes is the default limit of a torrent file
	}
	if r.Intn(4) == 0 {
		in := []int64{int64(3 + r.Intn(2)), int64(r.Intn(len(hugePrefixes))), int64(r.Intn(3))}
		return Case{In: in, Obs: Guard(func() []int64 { return runNesting(in) })}
	}
	in := []int64{int64(r.Intn(3)), depth, int64(r.Intn(2))}
	if in[2] == 1 && depth > 100000 {
		in[2] = 0
	}
	return Case{In: in, Obs: Guard(func() []int64 { return runNesting(in) })}
}

func init() {
	Register(602, "metainfo with lists / dictionaries nested n deep under an unknown key: accepted up to the limit, refused beyond, never a crash", genNesting)
	RegisterReplay(602, runNesting)
}

(* C02 — piece/file geometry.  Property theorems only. *)
From RainV Require Import Lib Geometry SectionIO BlocksProofs PiecesProofs SectionIOProofs RoundtripProofs.

(* For every well-formed info (what NewInfo accepts, C06) NewPieces terminates without a panic
   within the stated fuel, returns exactly n pieces, their sections in order chain through the
   concatenation of the files from byte 0 to byte L, and every piece has length PL except a
   possibly shorter last one. *)
Theorem C02_pieces_cover_and_lengths : forall files PL n L, wf_info files PL n L ->
  exists ps, new_pieces files PL L n = Ok ps /\ length ps = n /\
    chain_ok files 0 (flat_map psecs ps) = Some L /\
    piece_lens_ok PL L 0 (Z.of_nat n) ps = true.
Proof. exact new_pieces_ok. Qed.
Print Assumptions C02_pieces_cover_and_lengths.

(* meaning of the chain: each byte of the concatenation is in some section ... *)
Theorem C02_chain_covers : forall fs ss a b, chain_ok fs a ss = Some b ->
  a <= b /\ forall x, a <= x < b -> exists s, In s ss /\ abs_start fs s <= x < abs_start fs s + slen s.
Proof. exact chain_ok_cover. Qed.
Print Assumptions C02_chain_covers.

(* ... and all sections lie inside [a, b) (with adjacency this is "once and only once") *)
Theorem C02_chain_inside : forall fs ss a b, chain_ok fs a ss = Some b ->
  forall s, In s ss -> a <= abs_start fs s /\ abs_start fs s + slen s <= b.
Proof. exact chain_ok_disjoint. Qed.
Print Assumptions C02_chain_inside.

(* The blocks of a piece are ordered, disjoint, each 0 < len <= bs, and their union is exactly
   the non-padding byte positions of the piece: for all section lists and all block sizes. *)
Theorem C02_blocks_tile : forall bs l, 0 < bs -> wf_secs l -> l <> [] ->
  exists bl, calc_blocks true bs l = Ok bl /\
    (forall x, covered bl x <-> nonpad_at l 0 x) /\
    ordered 0 bl (fold_left (fun a s => a + slen s) l 0) /\
    sized bs bl.
Proof. exact blocks_tile. Qed.
Print Assumptions C02_blocks_tile.

Theorem C02_blocks_tile_refuted_on_pinned_code :
  exists bs l bl, 0 < bs /\ wf_secs l /\ calc_blocks false bs l = Ok bl /\
    ~ (forall x, covered bl x <-> nonpad_at l 0 x).
Proof. exact blocks_tile_refuted. Qed.
Print Assumptions C02_blocks_tile_refuted_on_pinned_code.

(* Write-then-read round trip, for every accepted info, every piece, every storage of the right
   file sizes, every full-length buffer and every in-range (off, k): the bytes read back are
   buf[off, off+k) with padding positions zero; files that are not non-padding files of the
   piece (in particular all padding files) are left untouched. *)
Theorem C02_write_read_roundtrip : forall files PL n L st,
  wf_info files PL n L -> storage_matches st files ->
  exists ps, new_pieces files PL L n = Ok ps /\
    forall p buf off k, In p ps -> zlen buf = plength p -> 0 < plength p ->
      0 <= off -> 0 <= k -> off + k <= plength p ->
      exists st', write_secs st (psecs p) buf = Ok st' /\
        read_at st' (psecs p) off k = Ok (slice (mask (psecs p) buf) off k, 0) /\
        (forall i, ~ In i (nonpad_files (psecs p)) -> file_of st' i = file_of st i).
Proof. exact pieces_roundtrip. Qed.
Print Assumptions C02_write_read_roundtrip.

(* the exact domain on which ReadAt panics: an offset beyond the end of the piece *)
Theorem C02_read_beyond_piece_is_the_only_panic : forall st p off, secs_wf st p ->
  sum_slen p < off -> skip_loop p 0 off = None.
Proof. intros st p off H Hlt. apply (read_at_beyond_crashes st p 0 off H). lia. Qed.
Print Assumptions C02_read_beyond_piece_is_the_only_panic.

(* createJobs (web-seed HTTP ranges): for every piece list produced by NewPieces (sections chaining
   through the files) and every piece range [b, e), the jobs in order enumerate exactly the byte
   addresses (file, padding flag, offset) of the sections of those pieces, each once and in order,
   and no job is empty (zero-length files are not requested) *)
From RainV Require Import JobsProofs.
Theorem C02_jobs_cover : forall fs ps L b e, chain_ok fs 0 (flat_map psecs ps) = Some L ->
  let secs := flat_map psecs (firstn (e - b) (skipn b ps)) in
  flat_map job_addrs (create_jobs Nat.eqb ps b e) = flat_map sec_addrs secs /\
  Forall (fun j => 0 < jlen j) (create_jobs Nat.eqb ps b e).
Proof. exact jobs_cover_pieces. Qed.
Print Assumptions C02_jobs_cover.

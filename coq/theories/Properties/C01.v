(* C01 — download integrity: only hash-verified data reaches disk or is reported. *)
From RainV Require Import Lib Geometry SectionIO BlocksProofs PieceDl PieceDlProofs.

(* a fresh piece downloader satisfies the assembly invariant with an empty history *)
Theorem C01_new_downloader_invariant : forall blocks plen af fast, 0 <= plen -> DInv plen (pdl_new blocks plen af fast) [].
Proof. exact new_dinv. Qed.
Print Assumptions C01_new_downloader_invariant.

(* whatever (begin, data) a peer sends -- corrupt, duplicated, unrequested, out of range, reordered,
   truncated -- the block is either ignored (state unchanged) or it is exactly one of the piece's
   computed blocks, not received before, and is copied to exactly its own range: every earlier
   accepted block still reads back unchanged and bytes outside all accepted blocks are still zero *)
Theorem C01_block_acceptance : forall plen d hist begin data, ordered 0 (pd_blocks d) plen -> DInv plen d hist ->
  let '(d', g) := got_blk d begin data in
  match g with
  | GInvalid | GDuplicate => d' = d
  | GOk | GNotRequested =>
      DInv plen d' (hist ++ [(begin, data)]) /\ pd_blocks d' = pd_blocks d /\
      (exists blk, In blk (pd_blocks d) /\ bbeg blk = begin /\ blen blk = zlen data) /\ ~ In begin (pd_done d)
  end.
Proof. exact got_blk_inv. Qed.
Print Assumptions C01_block_acceptance.

(* when the downloader reports Done and every accepted block carried the true bytes of its range,
   the buffer handed to the writer is the piece itself (padding ranges stay zero) *)
Theorem C01_assembled_is_truth : forall plen d hist truth,
  ordered 0 (pd_blocks d) plen -> DInv plen d hist -> pd_finished d = true -> zlen truth = plen ->
  (forall k, 0 <= k < plen -> ~ covered (pd_blocks d) k -> nth (Z.to_nat k) truth 0 = 0) ->
  (forall b data, In (b, data) hist -> data = slice truth b (zlen data)) ->
  pd_buf d = truth.
Proof. exact assembled_is_truth. Qed.
Print Assumptions C01_assembled_is_truth.

(* the piece writer touches storage only with a buffer of the piece's length whose hash equals the
   recorded one, and then performs exactly the section write of C02; on mismatch storage is unchanged
   ([hash] is any function: no property of SHA-1 is assumed) *)
Theorem C01_written_is_verified : forall (hash : list Z -> Z) H plen st secs buf r,
  write_piece hash H plen st secs buf = (r, true) -> zlen buf = plen /\ hash buf = H /\ r = write_secs st secs buf.
Proof. exact written_is_verified. Qed.
Print Assumptions C01_written_is_verified.

Theorem C01_hash_mismatch_writes_nothing : forall (hash : list Z -> Z) H plen st secs buf r,
  write_piece hash H plen st secs buf = (r, false) -> r = Ok st.
Proof. exact hash_mismatch_writes_nothing. Qed.
Print Assumptions C01_hash_mismatch_writes_nothing.

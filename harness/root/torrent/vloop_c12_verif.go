//go:build verif

package torrent

import (
	"net"
	"time"
)

// Entry points for property C12 (connection encryption): the real accept and dial paths of the loop.

// Port is the port the torrent listens on.
func (v *VLoop) Port() int { return v.T.port }

// InfoHash is the torrent's info hash.
func (v *VLoop) InfoHash() [20]byte { return v.T.infoHash }

// PumpConn hands one accepted connection to the loop (case incomingConnC).
func (v *VLoop) PumpConn(d time.Duration) bool {
	timer := time.NewTimer(d)
	defer timer.Stop()
	select {
	case conn := <-v.T.incomingConnC:
		v.guard(func() { v.T.vCaseIncomingConnC(conn) })
		return true
	case <-timer.C:
		return false
	}
}

// PumpHandshake handles the result of one handshaker.  dir: 1 incoming, 2 outgoing, 0 nothing arrived.
// cipher is the method the handshaker reports (0 none / failed).
func (v *VLoop) PumpHandshake(d time.Duration) (dir int, ok bool, cipher int) {
	timer := time.NewTimer(d)
	defer timer.Stop()
	select {
	case ih := <-v.T.incomingHandshakerResultC:
		ok, cipher = ih.Error == nil, int(ih.Cipher)
		v.guard(func() { v.T.vCaseIncomingHandshakerResultC(ih) })
		return 1, ok, cipher
	case oh := <-v.T.outgoingHandshakerResultC:
		ok, cipher = oh.Error == nil, int(oh.Cipher)
		v.guard(func() { v.T.vCaseOutgoingHandshakerResultC(oh) })
		return 2, ok, cipher
	case <-timer.C:
		return 0, false, 0
	}
}

// PeerCiphers lists the encryption method of every connected peer.
func (v *VLoop) PeerCiphers() []int {
	var out []int
	for pe := range v.T.peers {
		out = append(out, int(pe.EncryptionCipher))
	}
	return out
}

// VConnState is the torrent's connection bookkeeping.
type VConnState struct {
	Addrs, OutHandshakes, OutPeers, InHandshakes, InPeers int
	Running                                               bool
}

func (v *VLoop) ConnState() VConnState {
	t := v.T
	st := t.status()
	return VConnState{Addrs: t.addrList.Len(), OutHandshakes: len(t.outgoingHandshakers), OutPeers: len(t.outgoingPeers),
		InHandshakes: len(t.incomingHandshakers), InPeers: len(t.incomingPeers), Running: st != Stopped && st != Stopping}
}

// HasIncomingPeerFrom tells whether an established incoming peer has this address.
func (v *VLoop) HasIncomingPeerFrom(ip net.IP) bool {
	for pe := range v.T.incomingPeers {
		if pe.Addr().IP.Equal(ip) {
			return true
		}
	}
	return false
}

// HasOutgoingPeerTo tells whether an established outgoing peer has this remote address.
func (v *VLoop) HasOutgoingPeerTo(ip net.IP) bool {
	for pe := range v.T.outgoingPeers {
		if pe.Addr().IP.Equal(ip) {
			return true
		}
	}
	return false
}

(* C14 on the registry model: for every history of add (file / magnet, given ids, failing adds),
   remove, start, stop, add-tracker, restart and compact, torrent numbers (ids) are unique, no two
   live torrents share a port, and every port of the configured range is either free or owned by
   exactly one torrent. *)
From RainV Require Import Lib Registry.
From Coq Require Import ZifyBool FinFun.

Definition ports (s : reg) : list Z := map r_port (g_tors s).
Definition in_range (s : reg) (p : Z) : Prop := 0 <= p < g_nports s.

Record RInv (s : reg) : Prop := {
  ri_free_nodup : NoDup (g_free s);
  ri_ports_nodup : NoDup (ports s);
  ri_free_range : forall p, In p (g_free s) -> in_range s p /\ ~ In p (ports s);
  ri_cover : forall p, in_range s p -> In p (g_free s) \/ In p (ports s);
  ri_port_range : forall p, In p (ports s) -> in_range s p;
  ri_nums : NoDup (map r_num (g_tors s));
  ri_next : forall t, In t (g_tors s) -> r_num t < g_next s
}.

Lemma zmemb_true x l : zmemb x l = true <-> In x l.
Proof. unfold zmemb. rewrite existsb_exists. split; [intros (y & Hy & E); assert (x = y) by lia; subst; auto|intros H; exists x; split; [auto|lia]]. Qed.
Lemma zremove_in x y l : In y (zremove x l) <-> In y l /\ y <> x.
Proof. unfold zremove. rewrite filter_In. split; intros [A B]; split; auto; lia. Qed.
Lemma zremove_nodup x l : NoDup l -> NoDup (zremove x l).
Proof. apply NoDup_filter. Qed.
Lemma zinsert_in x y l : In y (zinsert x l) <-> y = x \/ In y l.
Proof.
  induction l as [|z r IH]; cbn; [intuition|]. destruct (x <=? z); cbn; [intuition|]. rewrite IH. intuition.
Qed.
Lemma zinsert_nodup x l : NoDup l -> ~ In x l -> NoDup (zinsert x l).
Proof.
  induction l as [|z r IH]; intros Hn Hx; cbn; [constructor; [intros []|constructor]|]. inversion Hn; subst.
  destruct (x <=? z); [constructor; assumption|]. constructor.
  - rewrite zinsert_in. intros [E|E]; [subst; apply Hx; left; reflexivity|contradiction].
  - apply IH; [assumption|]. intros Hc. apply Hx. right. exact Hc.
Qed.

Lemma NoDup_app_one_z (l : list Z) x : NoDup l -> ~ In x l -> NoDup (l ++ [x]).
Proof.
  induction l as [|y r IH]; intros Hn Hx; cbn; [constructor; [intros []|constructor]|]. inversion Hn; subst. constructor.
  - intros Hc. apply in_app_or in Hc as [Hc|[Hc|[]]]; [contradiction|]. apply Hx. left. symmetry. exact Hc.
  - apply IH; [assumption|]. intros Hc. apply Hx. right. exact Hc.
Qed.

Lemma rinv_init n : 0 <= n -> RInv (reg_init n).
Proof.
  intros Hn. constructor; cbn.
  - apply Injective_map_NoDup; [intros a b E; lia|apply seq_NoDup].
  - constructor.
  - intros p Hp. apply in_map_iff in Hp as (k & <- & Hk). apply in_seq in Hk. unfold in_range; cbn. split; [lia|intros []].
  - intros p Hp. left. unfold in_range in Hp; cbn in Hp. apply in_map_iff. exists (Z.to_nat p). split; [lia|apply in_seq; lia].
  - intros p [].
  - constructor.
  - intros t [].
Qed.

Lemma rinv_bad s w : RInv s -> RInv (with_bad_r s w).
Proof. intros [A B C D E F G]. constructor; assumption. Qed.

Lemma rinv_add s magnet cat idsel stopped port : RInv s -> RInv (fst (r_add s magnet cat idsel stopped port)).
Proof.
  intros H. unfold r_add. destruct (g_free s) as [|f0 fr] eqn:Ef; [exact H|].
  destruct ((0 <? idsel) && existsb (fun t => r_given t =? idsel) (g_tors s)); [exact H|].
  destruct (zmemb port (f0 :: fr)) eqn:Em; cbn [negb fst]; [|apply rinv_bad; exact H].
  rewrite <- Ef in *. apply zmemb_true in Em.
  destruct H as [A B C D E F G]. destruct (C port Em) as [Cr Cn].
  constructor; unfold ports, in_range in *; cbn in *; rewrite ?map_app in *; cbn.
  - apply zremove_nodup. exact A.
  - apply NoDup_app_one_z; assumption.
  - intros p Hp. apply zremove_in in Hp as [Hp Hne]. destruct (C p Hp) as [C1 C2]. split; [exact C1|].
    intros Hi. apply in_app_or in Hi as [Hi|[Hi|[]]]; [contradiction|congruence].
  - intros p Hp. destruct (Z.eq_dec p port) as [->|Hne]; [right; apply in_or_app; right; left; reflexivity|].
    destruct (D p Hp) as [X|X]; [left; apply zremove_in; auto|right; apply in_or_app; left; exact X].
  - intros p Hp. apply in_app_or in Hp as [Hp|[<-|[]]]; auto.
  - apply NoDup_app_one_z; [exact F|]. intros Hi. apply in_map_iff in Hi as (t & Et & Ht). specialize (G t Ht). lia.
  - intros t Ht. apply in_app_or in Ht as [Ht|[<-|[]]]; [specialize (G t Ht); lia|cbn; lia].
Qed.

Lemma filter_map_nodup {A} (f : A -> Z) (P : A -> bool) l : NoDup (map f l) -> NoDup (map f (filter P l)).
Proof.
  induction l as [|x r IH]; intros H; cbn; [constructor|]. inversion H; subst. destruct (P x); cbn; [constructor|]; auto.
  intros Hc. apply H2. apply in_map_iff in Hc as (y & E & Hy). apply filter_In in Hy as [Hy _]. apply in_map_iff. exists y. auto.
Qed.

Lemma rinv_remove s t : RInv s -> RInv (r_remove s t).
Proof.
  intros H. unfold r_remove. destruct (filter (fun x => r_num x =? t) (g_tors s)) as [|x r] eqn:Ef; [exact H|].
  assert (Hx : In x (g_tors s) /\ r_num x = t).
  { assert (In x (filter (fun x => r_num x =? t) (g_tors s))) by (rewrite Ef; left; reflexivity). apply filter_In in H0 as [A B]. split; [exact A|lia]. }
  destruct Hx as [Hx Hn]. destruct H as [A B C D E F G].
  assert (Hpx : In (r_port x) (ports s)) by (apply in_map; exact Hx).
  assert (Hother : forall y, In y (g_tors s) -> r_num y <> t -> r_port y <> r_port x).
  { intros y Hy Hne Ep. unfold ports in B. clear - B Hx Hy Hn Hne Ep.
    assert (y = x); [|subst; lia].
    revert B Hx Hy. induction (g_tors s) as [|z l IH]; intros B Hx' Hy'; [destruct Hx'|]. cbn in B. inversion B; subst.
    destruct Hx' as [<-|Hx'], Hy' as [<-|Hy']; auto.
    - exfalso. apply H1. rewrite <- Ep. apply in_map. exact Hy'.
    - exfalso. apply H1. rewrite Ep. apply in_map. exact Hx'. }
  constructor; unfold ports, in_range in *; cbn in *.
  - apply zinsert_nodup; [exact A|]. intros Hc. destruct (C _ Hc) as [_ X]. contradiction.
  - apply filter_map_nodup. exact B.
  - intros p Hp. apply zinsert_in in Hp as [->|Hp].
    + split; [apply E; exact Hpx|]. intros Hc. apply in_map_iff in Hc as (y & Ey & Hy). apply filter_In in Hy as [Hy Hne].
      apply (Hother y Hy); [lia|exact Ey].
    + destruct (C p Hp) as [C1 C2]. split; [exact C1|]. intros Hc. apply C2. apply in_map_iff in Hc as (y & Ey & Hy). apply filter_In in Hy as [Hy _]. apply in_map_iff. exists y; auto.
  - intros p Hp. destruct (D p Hp) as [X|X]; [left; apply zinsert_in; right; exact X|].
    apply in_map_iff in X as (y & Ey & Hy). destruct (Z.eq_dec (r_num y) t) as [Et|Et].
    + left. apply zinsert_in. left. assert (y = x); [|subst; reflexivity].
      clear - F Hx Hy Et Hn. revert F Hx Hy. induction (g_tors s) as [|z l IH]; intros F Hx' Hy'; [destruct Hx'|]. cbn in F. inversion F; subst.
      destruct Hx' as [<-|Hx'], Hy' as [<-|Hy']; auto.
      * exfalso. apply H1. rewrite <- Et. apply in_map. exact Hy'.
      * exfalso. apply H1. rewrite Et. apply in_map. exact Hx'.
    + right. apply in_map_iff. exists y. split; [exact Ey|]. apply filter_In. split; [exact Hy|lia].
  - intros p Hp. apply E. apply in_map_iff in Hp as (y & Ey & Hy). apply filter_In in Hy as [Hy _]. apply in_map_iff. exists y; auto.
  - apply filter_map_nodup. exact F.
  - intros y Hy. apply filter_In in Hy as [Hy _]. apply G. exact Hy.
Qed.

Lemma rinv_upd s t f : (forall x, r_port (f x) = r_port x /\ r_num (f x) = r_num x) -> RInv s -> RInv (r_upd s t f).
Proof.
  intros Hf [A B C D E F G].
  assert (Hp : map r_port (map (fun x => if r_num x =? t then f x else x) (g_tors s)) = map r_port (g_tors s)).
  { rewrite map_map. apply map_ext. intros x. destruct (r_num x =? t); [apply Hf|reflexivity]. }
  assert (Hn : map r_num (map (fun x => if r_num x =? t then f x else x) (g_tors s)) = map r_num (g_tors s)).
  { rewrite map_map. apply map_ext. intros x. destruct (r_num x =? t); [apply Hf|reflexivity]. }
  constructor; unfold ports, in_range in *; cbn; rewrite ?Hp, ?Hn; auto.
  intros y Hy. apply in_map_iff in Hy as (x & <- & Hx). destruct (r_num x =? t); [destruct (Hf x) as [_ E2]; rewrite E2|]; apply G; exact Hx.
Qed.

Lemma rinv_load s l : RInv s -> (forall t, In t l -> In t (g_tors s)) -> NoDup (map r_port l) -> NoDup (map r_num l) ->
  RInv {| g_tors := l; g_free := ports_after_load (g_nports s) l; g_next := g_next s; g_nports := g_nports s; g_bad := g_bad s |}.
Proof.
  intros [A B C D E F G] Hsub Hp Hn. assert (Hnn : 0 <= g_nports s \/ g_nports s < 0) by lia.
  constructor; unfold ports, in_range, ports_after_load in *; cbn.
  - apply NoDup_filter. apply Injective_map_NoDup; [intros a b E0; lia|apply seq_NoDup].
  - exact Hp.
  - intros p Hpp. apply filter_In in Hpp as [H1 H2]. apply in_map_iff in H1 as (k & <- & Hk). apply in_seq in Hk. split; [lia|].
    intros Hc. apply in_map_iff in Hc as (t & Et & Ht). apply Bool.negb_true_iff in H2.
    assert (existsb (fun t0 => r_port t0 =? Z.of_nat k) l = true) by (apply existsb_exists; exists t; split; [exact Ht|lia]). congruence.
  - intros p Hpp. destruct (existsb (fun t => r_port t =? p) l) eqn:Ex.
    + right. apply existsb_exists in Ex as (t & Ht & Et). apply in_map_iff. exists t. split; [lia|exact Ht].
    + left. apply filter_In. split; [apply in_map_iff; exists (Z.to_nat p); split; [lia|apply in_seq; lia]|rewrite Ex; reflexivity].
  - intros p Hpp. apply E. apply in_map_iff in Hpp as (t & Et & Ht). apply in_map_iff. exists t. split; [exact Et|apply Hsub; exact Ht].
  - exact Hn.
  - intros t Ht. apply G. apply Hsub. exact Ht.
Qed.

Lemma rinv_reopen s : RInv s -> RInv (r_reopen s).
Proof. intros H. unfold r_reopen. apply rinv_load; [exact H|auto|apply (ri_ports_nodup _ H)|apply (ri_nums _ H)]. Qed.
Lemma rinv_compact s : RInv s -> RInv (r_compact s).
Proof.
  intros H. unfold r_compact. apply rinv_load; [exact H| | |].
  - intros t Ht. apply filter_In in Ht as [Ht _]. exact Ht.
  - apply filter_map_nodup. apply (ri_ports_nodup _ H).
  - apply filter_map_nodup. apply (ri_nums _ H).
Qed.

(* every history *)
Inductive rop := RAdd (magnet : bool) (cat idsel : Z) (stopped : bool) (port : Z) | RGarbage | RRemove (t : Z)
               | RStart (t : Z) | RStop (t : Z) | RAddTracker (t : Z) | RReopen | RCompact.
Definition rstep (s : reg) (o : rop) : reg :=
  match o with
  | RAdd m c i st p => fst (r_add s m c i st p)
  | RGarbage => s
  | RRemove t => r_remove s t
  | RStart t => r_upd s t (fun x => set_started x true)
  | RStop t => r_upd s t (fun x => set_started x false)
  | RAddTracker t => r_upd s t add_tr
  | RReopen => r_reopen s
  | RCompact => r_compact s
  end.

Theorem registry_inv n ops : 0 <= n -> RInv (fold_left rstep ops (reg_init n)).
Proof.
  intros Hn. assert (H0 : RInv (reg_init n)) by (apply rinv_init; exact Hn). revert H0. generalize (reg_init n).
  induction ops as [|o r IH]; intros s H; cbn; [exact H|]. apply IH. destruct o; cbn.
  - apply rinv_add; exact H.
  - exact H.
  - apply rinv_remove; exact H.
  - apply rinv_upd; [intros x; split; reflexivity|exact H].
  - apply rinv_upd; [intros x; split; reflexivity|exact H].
  - apply rinv_upd; [intros x; split; reflexivity|exact H].
  - apply rinv_reopen; exact H.
  - apply rinv_compact; exact H.
Qed.

(* what restart and compaction keep: the same torrents with the same numbers, ports and flags;
   compaction keeps exactly those that have their metadata *)
Theorem reopen_keeps_torrents s : g_tors (r_reopen s) = g_tors s. Proof. reflexivity. Qed.
Theorem compact_keeps_torrents_with_metadata s : g_tors (r_compact s) = filter r_hasinfo (g_tors s). Proof. reflexivity. Qed.

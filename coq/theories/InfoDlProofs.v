From RainV Require Import Lib InfoDl.
From Coq Require Import ZifyBool.
Ltac Zify.zify_post_hook ::= Z.div_mod_to_equations.

(* the buffer always has the announced size, whatever blocks arrive *)
Definition IInv (size : Z) (d : idl) : Prop :=
  zlen (i_bytes d) = size /\ zlen (i_blocks d) = num_blocks size /\
  forall k b, nth_error (i_blocks d) k = Some b ->
    0 < b_size b <= mblock /\ Z.of_nat k * mblock + b_size b <= size.

Lemma num_blocks_nonneg size : 0 <= size -> 0 <= num_blocks size.
Proof. intros H. unfold num_blocks, mblock. destruct (size mod 16384 =? 0); lia. Qed.

Lemma new_inv size : 0 <= size -> IInv size (idl_new size).
Proof.
  intros Hs. unfold IInv, idl_new. cbn [i_bytes i_blocks]. pose proof (num_blocks_nonneg size Hs) as Hn.
  split; [unfold zlen; rewrite repeat_length; lia|]. split.
  - unfold create_blocks, zlen. rewrite map_length, seq_length. lia.
  - intros k b H. unfold create_blocks in H. rewrite nth_error_map in H.
    destruct (nth_error (seq 0 (Z.to_nat (num_blocks size))) k) as [k'|] eqn:E; [|discriminate].
    assert (Hk : (k < Z.to_nat (num_blocks size))%nat).
    { rewrite <- (seq_length (Z.to_nat (num_blocks size)) 0). apply nth_error_Some. rewrite E. discriminate. }
    assert (k' = k).
    { apply nth_error_nth with (d := 0%nat) in E. rewrite seq_nth in E by lia. lia. }
    subst k'. cbn [option_map] in H. inversion H; subst b. cbn [b_size].
    unfold num_blocks, mblock in *.
    destruct (size mod 16384 =? 0) eqn:Em; cbn [negb andb].
    + rewrite andb_false_r. lia.
    + rewrite andb_true_r. destruct (Z.of_nat k =? size / 16384 + 1 - 1) eqn:Ek; lia.
Qed.

Lemma splice_len bytes begin data : 0 <= begin -> begin + zlen data <= zlen bytes ->
  zlen (splice bytes begin data) = zlen bytes.
Proof.
  intros Hb Hl. unfold splice, zlen in *. rewrite !app_length, firstn_length, skipn_length. lia.
Qed.

(* C13: GotBlock never writes outside the buffer -- for any index, any data, any order,
   duplicates included -- and the buffer keeps the announced size *)
Theorem got_block_safe size d index data : IInv size d ->
  IInv size (fst (got_block d index data)) /\
  (snd (got_block d index data) = IOk ->
     0 <= index * mblock /\ index * mblock + zlen data <= size).
Proof.
  intros (Hbt & Hn & Hblk). unfold got_block.
  destruct ((index <? 0) || (index >=? zlen (i_blocks d))) eqn:E1; cbn [fst snd]; [split; [exact (conj Hbt (conj Hn Hblk))|discriminate]|].
  set (blk := nth (Z.to_nat index) (i_blocks d) _).
  destruct (negb (b_requested blk)); cbn [fst snd]; [split; [exact (conj Hbt (conj Hn Hblk))|discriminate]|].
  destruct (negb (zlen data =? b_size blk)) eqn:E3; cbn [fst snd]; [split; [exact (conj Hbt (conj Hn Hblk))|discriminate]|].
  assert (Hnth : nth_error (i_blocks d) (Z.to_nat index) = Some blk).
  { unfold blk. apply nth_error_nth'. unfold zlen in E1. lia. }
  destruct (Hblk _ _ Hnth) as [H1 H2]. rewrite Z2Nat.id in H2 by lia.
  assert (Hd : zlen data = b_size blk) by lia.
  split; [|intros _; unfold mblock in *; lia].
  split; [cbn [i_bytes]; rewrite splice_len; unfold mblock in *; lia|]. split; [exact Hn|exact Hblk].
Qed.

Lemma set_req_props l i : length (set_req l i) = length l /\
  forall k b, nth_error (set_req l i) k = Some b -> exists b0, nth_error l k = Some b0 /\ b_size b = b_size b0.
Proof.
  unfold set_req. split; [rewrite map_length, combine_length, seq_length; lia|].
  intros k b H. rewrite nth_error_map in H.
  destruct (nth_error (combine (seq 0 (length l)) l) k) as [[k' b0]|] eqn:E; [|discriminate].
  cbn [option_map fst snd] in H. exists b0. split.
  - clear H. revert k E. generalize 0%nat. induction l as [|x r IH]; intros st k E; cbn [length seq combine] in E; [destruct k; discriminate|].
    destruct k as [|k]; cbn [nth_error] in *; [inversion E; reflexivity|eapply IH; eauto].
  - inversion H. destruct (Z.of_nat k' =? i); reflexivity.
Qed.

Theorem request_blocks_inv size : forall fuel d q acc, IInv size d -> IInv size (fst (request_blocks fuel d q acc)).
Proof.
  induction fuel as [|f IH]; intros d q acc I; cbn [request_blocks]; [exact I|].
  destruct ((i_next d <? zlen (i_blocks d)) && (i_pending d <? q)); [|exact I].
  apply IH. destruct I as (Hb & Hn & Hblk). destruct (set_req_props (i_blocks d) (i_next d)) as [Hl Hp].
  split; [exact Hb|]. split; [cbn [i_blocks]; unfold zlen in *; rewrite Hl; exact Hn|].
  intros k b H. cbn [i_blocks] in H. destruct (Hp k b H) as (b0 & H0 & Hs). rewrite Hs. eapply Hblk; eauto.
Qed.

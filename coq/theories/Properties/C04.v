(* C04 — lifecycle safety: no crash, truthful status, commands take effect (model of the repaired code). *)
From RainV Require Import Lib Life LifeProofs LifeProofs2 LifeProofs3.

(* for every sequence of start / stop / verify commands, allocation, verification, piece-write and
   stop-announce results released in any order relative to the commands, and every change made to
   the files (corrupt, delete some or all, restore), in every reachable state of the repaired
   handlers: no crash; Seeding only with a bitfield of all ones; Stopped and Stopping only with no
   data file open; a verify request is never pending while the torrent runs *)
Theorem C04_truthful_status_no_crash : forall fx pk nf es, all_legal true (life_init fx pk nf) es ->
  let s := run_evs true (life_init fx pk nf) es in
  crashed s = false /\
  (status s = 2 -> exists b, bf s = Some b /\ all_true b = true) /\
  (status s = 0 \/ status s = 6 -> held s + pending s + leaked s = 0) /\
  (status s = 1 \/ status s = 2 -> do_verify s = false).
Proof. exact life_truthful. Qed.
Print Assumptions C04_truthful_status_no_crash.

(* the pinned handlers violate each clause; each witness is a short history replayed against the
   real event loop by kind 401 (fixes D10/D11, D22, D23, D24) *)
Theorem C04_refuted_on_pinned_code_crash :
  crashed (run_evs false (life_init [true] [true] 1)
             (w_complete ++ [EMutate [true] [false]; EVerify; EAlloc true false [false] [false] [true]; EVerDone; EStopped;
                             EStart; EAlloc true false [false] [false] [true]; EPiece 0])) = true.
Proof. exact pinned_crashes_on_second_completion. Qed.
Print Assumptions C04_refuted_on_pinned_code_crash.

Theorem C04_refuted_on_pinned_code_seeding_without_data :
  let s := run_evs false (life_init [true] [true] 1)
             (w_complete ++ [EMutate [false] [false]; EStart; EAlloc false true [false] [false] [true]]) in
  status s = 2 /\ bf s = Some [false].
Proof. exact pinned_seeds_without_data. Qed.
Print Assumptions C04_refuted_on_pinned_code_seeding_without_data.

Theorem C04_refuted_on_pinned_code_start_dropped :
  status (run_evs false (life_init [false] [false] 1) [EStart; EStop; EStart; EStopped]) = 0 /\
  status (run_evs true (life_init [false] [false] 1) [EStart; EStop; EStart; EStopped]) = 4.
Proof. exact pinned_drops_start_while_stopping. Qed.
Print Assumptions C04_refuted_on_pinned_code_start_dropped.

Theorem C04_refuted_on_pinned_code_verify_without_data :
  let s := run_evs false (life_init [false] [false] 1) [EVerify; EAlloc false true [false] [false] [true]] in
  status s = 1 /\ do_verify s = true.
Proof. exact pinned_verify_without_data_downloads. Qed.
Print Assumptions C04_refuted_on_pinned_code_verify_without_data.

Theorem C04_refuted_on_pinned_code_open_files_when_stopped :
  let s := run_evs false (life_init [false] [false] 1) [EStart; EStop; EStopped] in
  status s = 0 /\ held s + pending s + leaked s = 1.
Proof. exact pinned_leaks_handles. Qed.
Print Assumptions C04_refuted_on_pinned_code_open_files_when_stopped.

From RainV Require Import Lib Announcer.
From Coq Require Import ZifyBool.

Section P.
Variable bo : Z.
Hypothesis Hbo : 0 < bo.

(* C16: with the fixes, whatever the tracker replies -- reply, tracker error, any other error, or
   a cancellation the announcer did not ask for -- and whatever external events follow, another
   announce is always scheduled: the announcer never gets stuck *)
Lemma on_reply_fixed_timer a r :
  exists d, timer (on_reply true bo a r) = Some d /\ status (on_reply true bo a r) <> Contacting.
Proof. destruct r; cbn [on_reply set_timer timer status]; eexists; split; try reflexivity; discriminate. Qed.

Lemma on_post_need a v : forall d, timer a = Some d ->
  snd (on_post true a (PNeed v)) = None /\ status (fst (on_post true a (PNeed v))) = status a /\
  exists d', timer (fst (on_post true a (PNeed v))) = Some d'.
Proof.
  intros d Ht. cbn [on_post]. destruct (status a) eqn:Es; cbn [fst snd set_timer status timer];
    (split; [reflexivity|split; [auto|eauto]]).
Qed.

Lemma posts_keep_timer : forall ps a d, timer a = Some d -> status a <> Contacting ->
  match posts true a ps with
  | (_, Some _) => True
  | (a', None) => (exists d', timer a' = Some d') /\ status a' <> Contacting
  end.
Proof.
  induction ps as [|p r IH]; intros a d Ht Hs; cbn [posts]; [split; [eauto|assumption]|].
  destruct p as [v|].
  - destruct (on_post_need a v d Ht) as (H1 & H2 & (d' & H3)).
    destruct (on_post true a (PNeed v)) as [a1 e]. cbn [fst snd] in *. subst e.
    apply (IH a1 d' H3). rewrite H2. exact Hs.
  - cbn [on_post]. destruct (armed a); [exact I|]. eapply IH; eauto.
Qed.

Theorem never_stuck a r ps : exists a' et, step true bo a r ps = (a', Some et).
Proof.
  unfold step. destruct (on_reply_fixed_timer a r) as (d & Ht & Hs).
  destruct (early (on_reply true bo a r)) as [e|]; [unfold fire; eauto|].
  set (a2 := advance _ _).
  assert (Ht2 : timer a2 = Some d) by exact Ht. assert (Hs2 : status a2 <> Contacting) by exact Hs.
  pose proof (posts_keep_timer ps a2 d Ht2 Hs2) as Hp.
  destruct (posts true a2 ps) as [a3 [e|]]; [eauto|].
  destruct Hp as ((d' & Hd') & Hs3). rewrite Hd'.
  destruct (status a3); try congruence; unfold fire; eauto.
Qed.

Theorem script_never_stuck : forall script a, ~ In None (run_script true bo a script).
Proof.
  induction script as [|[r ps] rest IH]; intros a H; [destruct H|]. cbn [run_script] in H.
  destruct (never_stuck a r ps) as (a' & et & E). rewrite E in H.
  destruct H as [H|H]; [discriminate|]. exact (IH _ H).
Qed.

(* the pinned code drops an unrequested cancellation and never announces again *)
Theorem never_stuck_refuted_pinned :
  exists a, status a = Contacting /\ snd (step false bo a RCanceled []) = None.
Proof. exists (start 100 false). split; reflexivity. Qed.

(* C15: interval floor.  After a reply, with no intervening event, the next announce is not
   sooner than the tracker's positive interval, or -- when the tracker sent none, zero or a
   negative one, or more peers are needed -- the minimum interval in force *)
Definition floor_of (a : ann) (iv mi : Z) : Z :=
  let m := if mi >? 0 then mi else minint a in
  if need a then m else if iv <=? 0 then m else iv.

Theorem interval_floor a iv mi a' e t : 0 <= minint a ->
  step true bo a (ROk iv mi) [] = (a', Some (e, t)) -> t - now a >= floor_of a iv mi /\ e = 0.
Proof.
  intros Hm H. unfold step in H. cbn [on_reply] in H.
  set (a1 := set_timer _ _) in H.
  assert (Ht : timer a1 = Some (now a + Z.max 0 (floor_of a iv mi))).
  { unfold a1, set_timer, next_interval, floor_of. cbn [timer need interval minint now andb]. reflexivity. }
  assert (Hs : status a1 = Working) by reflexivity. assert (Hn : now a1 = now a) by reflexivity.
  unfold early in H. rewrite Hs, Ht in H.
  destruct (now a + Z.max 0 (floor_of a iv mi) <? now a1 + 20) eqn:E.
  - unfold fire in H. inversion H; subst. split; [|reflexivity]. lia.
  - cbn [posts] in H. cbn [advance status timer] in H. rewrite Hs, Ht in H. unfold fire in H.
    inversion H; subst. split; [|reflexivity]. cbn [advance now]. lia.
Qed.

Theorem interval_floor_refuted_pinned :
  exists a iv mi t e, 0 < minint a /\ snd (step false bo a (ROk iv mi) []) = Some (e, t) /\
    t - now a < Z.min (minint a) (if iv >? 0 then iv else minint a).
Proof.
  exists (start 100 false), 0, 0, 0, 0. split; [cbn; lia|]. split; [reflexivity|]. cbn. lia.
Qed.

(* C15: event discipline.  "completed" is sent at most once per run, and never when the torrent
   was already complete when the run started *)
Fixpoint count_completed (l : list (option (Z * Z))) : nat :=
  match l with
  | [] => 0
  | Some (1, _) :: r => S (count_completed r)
  | _ :: r => count_completed r
  end.

Lemma posts_armed fixed : forall ps a a' e, posts fixed a ps = (a', e) ->
  (e = Some 1 /\ armed a = true /\ armed a' = false) \/ (e = None /\ armed a' = armed a).
Proof.
  induction ps as [|p r IH]; intros a a' e H; cbn [posts] in H; [inversion H; subst; right; auto|].
  destruct p as [v|]; cbn [on_post] in H.
  - destruct (status a); apply IH in H; cbn [armed set_timer] in H; exact H.
  - destruct (armed a) eqn:Ea.
    + inversion H; subst. left. cbn [armed do_announce]. auto.
    + apply IH in H. rewrite Ea in H. destruct H as [(H1 & H2 & _)|H]; [congruence|right; assumption].
Qed.

Lemma on_reply_armed fixed a r : armed (on_reply fixed bo a r) = armed a.
Proof. destruct r; cbn [on_reply set_timer armed]; try reflexivity. destruct fixed; reflexivity. Qed.

Lemma step_armed fixed a r ps a' et : step fixed bo a r ps = (a', et) ->
  (exists t, et = Some (1, t) /\ armed a = true /\ armed a' = false) \/
  ((et = None \/ exists t, et = Some (0, t)) /\ armed a' = armed a).
Proof.
  intros H. unfold step in H. pose proof (on_reply_armed fixed a r) as Hr.
  destruct (early (on_reply fixed bo a r)).
  - unfold fire in H. inversion H; subst. right. split; [right; eauto|]. cbn [armed do_announce advance]. exact Hr.
  - destruct (posts fixed _ ps) as [a3 e] eqn:Ep. apply posts_armed in Ep. cbn [armed advance] in Ep. rewrite Hr in Ep.
    destruct Ep as [(-> & H1 & H2)|(-> & H1)].
    + inversion H; subst. left. eauto.
    + destruct (status a3), (timer a3); try (inversion H; subst; right; split; [left; reflexivity|exact H1]);
        unfold fire in H; inversion H; subst; right; (split; [right; eauto|cbn [armed do_announce advance]; exact H1]).
Qed.

Theorem completed_at_most_once fixed : forall script a,
  (count_completed (run_script fixed bo a script) <= (if armed a then 1 else 0))%nat.
Proof.
  induction script as [|[r ps] rest IH]; intros a; cbn [run_script]; [cbn; destruct (armed a); lia|].
  destruct (step fixed bo a r ps) as [a' [[e t]|]] eqn:E; [|cbn; destruct (armed a); lia].
  destruct (step_armed _ _ _ _ _ _ E) as [(t' & Het & Ha & Ha')|([Hn|(t' & Het)] & Ha)].
  - inversion Het; subst. cbn [count_completed]. specialize (IH a'). rewrite Ha' in IH. rewrite Ha. lia.
  - discriminate.
  - inversion Het; subst. cbn [count_completed]. specialize (IH a'). rewrite Ha in IH. exact IH.
Qed.

Corollary no_completed_when_started_complete fixed mi script :
  count_completed (run_script fixed bo (start mi true) script) = 0%nat.
Proof. pose proof (completed_at_most_once fixed script (start mi true)) as H. cbn in H. lia. Qed.
End P.

//go:build verif

package verifhook

import (
	crand "crypto/rand"
	"crypto/rc4"
	"crypto/sha1"
	"encoding/binary"
	"errors"
	"io"
	"math/big"
	"math/rand"
	"net"
	"strconv"
	"strings"
	"sync"
	"time"

	"github.com/cenkalti/rain/v2/internal/mse"
	"github.com/cenkalti/rain/v2/internal/peersource"
	"github.com/cenkalti/rain/v2/torrent"
)

// ---- a transport with scripted fragmentation ----
// Every Write is cut into chunks by the direction's schedule; a Read returns at most the rest of the
// chunk at the head of the queue.  What a Read returns therefore does not depend on timing.

type chunkDir struct {
	mu      sync.Mutex
	cond    *sync.Cond
	q       [][]byte
	closed  bool
	wire    []byte  // everything written
	chunks  []int64 // the sizes the writes were cut into
	sizes   func() int
	waiting chan struct{} // signalled when a reader finds the queue empty
}

func newChunkDir(sizes func() int) *chunkDir {
	d := &chunkDir{sizes: sizes, waiting: make(chan struct{}, 64)}
	d.cond = sync.NewCond(&d.mu)
	return d
}

func (d *chunkDir) write(b []byte) (int, error) {
	d.mu.Lock()
	defer d.mu.Unlock()
	if d.closed {
		return 0, io.ErrClosedPipe
	}
	d.wire = append(d.wire, b...)
	rest := append([]byte{}, b...)
	for len(rest) > 0 {
		n := d.sizes()
		if n < 1 {
			n = 1
		}
		if n > len(rest) {
			n = len(rest)
		}
		d.q = append(d.q, rest[:n])
		d.chunks = append(d.chunks, int64(n))
		rest = rest[n:]
	}
	d.cond.Broadcast()
	return len(b), nil
}

func (d *chunkDir) read(p []byte) (int, error) {
	d.mu.Lock()
	defer d.mu.Unlock()
	for len(d.q) == 0 && !d.closed {
		select {
		case d.waiting <- struct{}{}:
		default:
		}
		d.cond.Wait()
	}
	if len(d.q) == 0 {
		return 0, io.EOF
	}
	n := copy(p, d.q[0])
	if n == len(d.q[0]) {
		d.q = d.q[1:]
	} else {
		d.q[0] = d.q[0][n:]
	}
	return n, nil
}

func (d *chunkDir) close() {
	d.mu.Lock()
	d.closed = true
	d.cond.Broadcast()
	d.mu.Unlock()
}

type chunkConn struct {
	in, out *chunkDir
}

func (c *chunkConn) Read(p []byte) (int, error)  { return c.in.read(p) }
func (c *chunkConn) Write(p []byte) (int, error) { return c.out.write(p) }
func (c *chunkConn) Close() error                { c.in.close(); c.out.close(); return nil }
func (c *chunkConn) LocalAddr() net.Addr         { return &net.TCPAddr{IP: net.IPv4(127, 0, 0, 1), Port: 1} }
func (c *chunkConn) RemoteAddr() net.Addr        { return &net.TCPAddr{IP: net.IPv4(127, 0, 0, 1), Port: 2} }
func (c *chunkConn) SetDeadline(time.Time) error { return nil }
func (c *chunkConn) SetReadDeadline(time.Time) error {
	return nil
}
func (c *chunkConn) SetWriteDeadline(time.Time) error { return nil }

func chunkPair(ab, ba func() int) (a, b *chunkConn, dab, dba *chunkDir) {
	dab, dba = newChunkDir(ab), newChunkDir(ba)
	return &chunkConn{in: dba, out: dab}, &chunkConn{in: dab, out: dba}, dab, dba
}

// schedule of chunk sizes: a few fixed regimes and a mixed one
func genSchedule(r *rand.Rand) func() int {
	seed := r.Int63()
	rr := rand.New(rand.NewSource(seed))
	switch r.Intn(8) {
	case 0:
		return func() int { return 1 << 20 } // every write arrives whole
	case 1:
		return func() int { return 1 }
	case 2:
		n := 1 + r.Intn(7)
		return func() int { return n }
	case 3:
		n := []int{95, 96, 97, 607, 608, 609, 20, 8}[r.Intn(8)]
		return func() int { return n }
	case 4:
		return func() int { return 1 + rr.Intn(1500) }
	case 5:
		first := []int{95, 96, 97, 100, 607, 608}[r.Intn(6)]
		k := 0
		return func() int {
			k++
			if k == 1 {
				return first
			}
			return 1 + rr.Intn(64)
		}
	default:
		return func() int {
			if rr.Intn(3) == 0 {
				return 1 + rr.Intn(4)
			}
			return 1 + rr.Intn(700)
		}
	}
}

// ---- steering crypto/rand ----
// The pads and private keys of internal/mse come from crypto/rand.Reader.  While a case of these kinds
// runs, the reader is replaced: 2-byte reads (rand.Int below 512) are answered with the pad lengths the
// case wants, everything else with bytes of the case's PRNG; 20-byte reads are remembered (private keys).

var mseMu sync.Mutex

type steer struct {
	mu      sync.Mutex
	r       *rand.Rand
	pads    []int // pad lengths still to hand out
	content int   // > 0: the next read of this length is the content of a random pad
	keys    [][]byte
	served  []int // pad lengths handed out, in order
}

func (s *steer) Read(p []byte) (int, error) {
	s.mu.Lock()
	defer s.mu.Unlock()
	if s.content > 0 && len(p) == s.content {
		s.content = 0
		s.r.Read(p)
		return len(p), nil
	}
	if len(p) == 2 && len(s.pads) > 0 {
		n := s.pads[0]
		s.pads = s.pads[1:]
		p[0], p[1] = byte(n>>8), byte(n)
		s.served = append(s.served, n)
		if len(s.served) <= 2 { // PadA and PadB are random pads: their content is drawn next
			s.content = n
		}
		return 2, nil
	}
	s.r.Read(p)
	if len(p) == 20 {
		s.keys = append(s.keys, append([]byte{}, p...))
	}
	return len(p), nil
}

func withSteer(s *steer, f func()) {
	mseMu.Lock()
	defer mseMu.Unlock()
	old := crand.Reader
	crand.Reader = s
	defer func() { crand.Reader = old }()
	f()
}

// ---- the arithmetic of the protocol, for oracles and scripted endpoints ----
var (
	mseP, _ = new(big.Int).SetString("FFFFFFFFFFFFFFFFC90FDAA22168C234C4C6628B80DC1CD129024E088A67CC74020BBEA63B139B22514A08798E3404DDEF9519B3CD3A431B302B0A6DF25F14374FE1356D6D51C245E485B576625E7EC6F44C42E9A63A36210000000000090563", 16)
	mseG    = big.NewInt(2)
)

func pad96(x *big.Int) []byte {
	b := x.Bytes()
	if len(b) >= 96 {
		return b[len(b)-96:]
	}
	out := make([]byte, 96)
	copy(out[96-len(b):], b)
	return out
}

func sha(parts ...[]byte) []byte {
	h := sha1.New()
	for _, p := range parts {
		h.Write(p)
	}
	return h.Sum(nil)
}

type mseOracle struct{ req1, req2, req3, keyA, keyB []byte }

func oracleOf(S *big.Int, skey []byte) mseOracle {
	s := pad96(S)
	return mseOracle{
		req1: sha([]byte("req1"), s), req2: sha([]byte("req2"), skey), req3: sha([]byte("req3"), s),
		keyA: sha([]byte("keyA"), s, skey), keyB: sha([]byte("keyB"), s, skey),
	}
}

func zeroOracle() mseOracle {
	z := make([]byte, 20)
	return mseOracle{z, z, z, z, z}
}

// secretFor finds the private key among the remembered draws whose public key is y, and returns peer^x.
func secretFor(keys [][]byte, y, peer []byte) *big.Int {
	for _, k := range keys {
		x := new(big.Int).SetBytes(k)
		if string(pad96(new(big.Int).Exp(mseG, x, mseP))) == string(y) {
			return new(big.Int).Exp(new(big.Int).SetBytes(peer), x, mseP)
		}
	}
	return nil
}

func newRC4(key []byte) *rc4.Cipher {
	c, _ := rc4.NewCipher(key)
	var d [1024]byte
	c.XORKeyStream(d[:], d[:])
	return c
}

func mseErrCode(err error) int64 {
	if err == nil {
		return 0
	}
	s := err.Error()
	switch {
	case strings.Contains(s, "sync point is not found"):
		return 2
	case strings.Contains(s, "invalid SKEY"):
		return 3
	case strings.Contains(s, "invalid VC"):
		return 4
	case strings.Contains(s, "no crypto methods are provided"):
		return 5
	case strings.Contains(s, "none of the provided methods"), strings.Contains(s, "invalid crypto selected"), strings.Contains(s, "was not provided"), strings.Contains(s, "is not provided"):
		return 6
	case strings.Contains(s, "initial payload is too big"):
		return 8
	case errors.Is(err, io.EOF), errors.Is(err, io.ErrUnexpectedEOF), errors.Is(err, io.ErrClosedPipe):
		return 7
	}
	return 9
}

func putBytes(dst []int64, b []byte) []int64 {
	dst = append(dst, int64(len(b)))
	for _, c := range b {
		dst = append(dst, int64(c))
	}
	return dst
}

func putOracle(dst []int64, o mseOracle) []int64 {
	for _, b := range [][]byte{o.req1, o.req2, o.req3, o.keyA, o.keyB} {
		dst = putBytes(dst, b)
	}
	return dst
}

func clip(b []byte, lo, hi int) []byte {
	if lo > len(b) {
		lo = len(b)
	}
	if hi > len(b) {
		hi = len(b)
	}
	if hi < lo {
		hi = lo
	}
	return b[lo:hi]
}

func genPad(r *rand.Rand) int {
	switch r.Intn(6) {
	case 0:
		return 0
	case 1:
		return 511
	case 2:
		return 510
	case 3:
		return 1 + r.Intn(8)
	default:
		return r.Intn(512)
	}
}

func genPayload(r *rand.Rand, tier string) []byte {
	n := 0
	switch r.Intn(30) {
	case 0, 1, 2:
		n = 0
	case 3, 4, 5:
		n = 68
	case 6, 7, 8:
		n = 1 + r.Intn(16)
	case 9:
		if r.Intn(4) == 0 {
			n = 65535
		} else {
			n = 20000 + r.Intn(3000)
		}
	case 10, 11, 12:
		n = 1448 + r.Intn(3000)
	default:
		n = r.Intn(600)
	}
	b := make([]byte, n)
	r.Read(b)
	return b
}

// the responder's callback for policy (pol, k) -- the same three the model knows
func selectFunc(pol int, k uint32) func(mse.CryptoMethod) mse.CryptoMethod {
	return func(provided mse.CryptoMethod) mse.CryptoMethod {
		switch {
		case pol == 2:
			return mse.CryptoMethod(k)
		case provided&mse.RC4 != 0:
			return mse.RC4
		case provided&mse.PlainText != 0 && pol == 0:
			return mse.PlainText
		}
		return 0
	}
}

type mseSide struct {
	err  error
	sel  mse.CryptoMethod
	got  []byte
	done chan struct{}
}

// kind 1201: both ends are the real code.
// in  = ya padA provide lenC ia oracleA(5) yb padB lenD pol polk oracleB(5) known chunksAB chunksBA dataA dataB   (byte lists length-prefixed)
// obs = errA selA errB selB wireAB wireBA iaB gotB gotA
func genMseHonest(r *rand.Rand, tier string) Case {
	padA, padB, padC, padD := genPad(r), genPad(r), genPad(r), genPad(r)
	ia := genPayload(r, tier)
	provide := uint32(pick(r, 1, 2, 3, 3, 3, 2, 6, 7, 4, 0x80000002, 0xffffffff))
	pol := r.Intn(3)
	if r.Intn(3) > 0 {
		pol = r.Intn(2)
	}
	polk := uint32(pick(r, 0, 1, 2, 3, 4, 8, 0x80000000, 6))
	skey := make([]byte, 20)
	r.Read(skey)
	bkey := append([]byte{}, skey...)
	if r.Intn(8) == 0 { // the responder serves another torrent
		bkey[r.Intn(20)] ^= 1 << uint(r.Intn(8))
	}
	dataA, dataB := genPayload(r, "quick"), genPayload(r, "quick")
	st := &steer{r: rand.New(rand.NewSource(r.Int63())), pads: []int{padA, padB, padC, padD}}
	ca, cb, dab, dba := chunkPair(genSchedule(r), genSchedule(r))
	var a, b mseSide
	a.done, b.done = make(chan struct{}), make(chan struct{})
	var iaB []byte
	timedOut := false
	withSteer(st, func() {
		sb := mse.NewStream(cb)
		go func() {
			defer close(b.done)
			b.err = sb.HandshakeIncoming(func(h [20]byte) []byte {
				if h == mse.HashSKey(bkey) {
					return bkey
				}
				return nil
			}, func(p mse.CryptoMethod) mse.CryptoMethod {
				b.sel = selectFunc(pol, polk)(p)
				return b.sel
			})
			if b.err != nil {
				cb.Close()
				return
			}
			iaB = make([]byte, len(ia))
			if _, err := io.ReadFull(sb, iaB); err != nil {
				b.err = errors.New("initial payload: " + err.Error())
				cb.Close()
				return
			}
			if _, err := sb.Write(dataB); err != nil {
				b.err = err
				cb.Close()
				return
			}
			b.got = make([]byte, len(dataA))
			if _, err := io.ReadFull(sb, b.got); err != nil {
				b.got = nil
			}
		}()
		// the responder draws its private key before its first read: let it get there first
		select {
		case <-dab.waiting:
		case <-time.After(5 * time.Second):
		}
		sa := mse.NewStream(ca)
		go func() {
			defer close(a.done)
			a.sel, a.err = sa.HandshakeOutgoing(skey, mse.CryptoMethod(provide), ia)
			if a.err != nil {
				ca.Close()
				return
			}
			if _, err := sa.Write(dataA); err != nil {
				a.err = err
				ca.Close()
				return
			}
			a.got = make([]byte, len(dataB))
			if _, err := io.ReadFull(sa, a.got); err != nil {
				a.got = nil
			}
		}()
		for _, ch := range []chan struct{}{a.done, b.done} {
			select {
			case <-ch:
			case <-time.After(20 * time.Second):
				timedOut = true
				ca.Close()
				cb.Close()
			}
		}
		<-a.done
		<-b.done
	})
	wab, wba := dab.wire, dba.wire
	ya, yb := clip(wab, 0, 96), clip(wba, 0, 96)
	oa, ob := zeroOracle(), zeroOracle()
	if len(ya) == 96 && len(yb) == 96 {
		if S := secretFor(st.keys, ya, yb); S != nil {
			oa = oracleOf(S, skey)
		}
		if S := secretFor(st.keys, yb, ya); S != nil {
			ob = oracleOf(S, bkey)
		}
	}
	var in []int64
	in = putBytes(in, ya)
	in = putBytes(in, clip(wab, 96, 96+padA))
	in = append(in, int64(provide), int64(padC))
	in = putBytes(in, ia)
	in = putOracle(in, oa)
	in = putBytes(in, yb)
	in = putBytes(in, clip(wba, 96, 96+padB))
	in = append(in, int64(padD), int64(pol), int64(polk))
	in = putOracle(in, ob)
	in = putBytes(in, sha([]byte("req2"), bkey))
	in = append(in, int64(len(dab.chunks)))
	in = append(in, dab.chunks...)
	in = append(in, int64(len(dba.chunks)))
	in = append(in, dba.chunks...)
	in = putBytes(in, dataA)
	in = putBytes(in, dataB)
	obs := []int64{mseErrCode(a.err), int64(a.sel), mseErrCode(b.err), 0}
	if b.err == nil {
		obs[3] = int64(b.sel)
	}
	if a.err != nil {
		obs[1] = 0
	}
	obs = putBytes(obs, wab)
	obs = putBytes(obs, wba)
	if b.err != nil {
		iaB = nil
	}
	obs = putBytes(obs, iaB)
	obs = putBytes(obs, b.got)
	obs = putBytes(obs, a.got)
	note := ""
	if timedOut {
		note = "timeout"
		obs = append(obs, HangMark)
	}
	if a.err != nil {
		note += " a:" + a.err.Error()
	}
	if b.err != nil {
		note += " b:" + b.err.Error()
	}
	_ = binary.BigEndian
	return Case{In: in, Obs: obs, Note: note}
}

// ---- scripted endpoints ----

func be32b(x uint32) []byte { return []byte{byte(x >> 24), byte(x >> 16), byte(x >> 8), byte(x)} }
func be16b(x int) []byte    { return []byte{byte(x >> 8), byte(x)} }

func xorBytes(a, b []byte) []byte {
	out := make([]byte, len(a))
	for i := range a {
		out[i] = a[i] ^ b[i%len(b)]
	}
	return out
}

func randBytes(r *rand.Rand, n int) []byte {
	b := make([]byte, n)
	r.Read(b)
	return b
}

func genBigPad(r *rand.Rand) int {
	switch r.Intn(8) {
	case 0:
		return 512
	case 1:
		return 513
	case 2:
		return 513 + r.Intn(200)
	default:
		return genPad(r)
	}
}

// kind 1202: a scripted initiator (any pads, any field values, truncated or garbled streams) against the real responder.
// in  = yb padB lenD pol polk oracleB(5) known incoming chunks dataB
// obs = errB selB wireBA iaB gotB
func genMseResponder(r *rand.Rand, tier string) Case {
	padB, padD := genPad(r), genPad(r)
	pol := r.Intn(3)
	if r.Intn(3) > 0 {
		pol = r.Intn(2)
	}
	polk := uint32(pick(r, 0, 1, 2, 3, 4, 8, 0x80000000, 6))
	skey := randBytes(r, 20)
	bkey := append([]byte{}, skey...)
	if r.Intn(10) == 0 {
		bkey[r.Intn(20)] ^= 1 << uint(r.Intn(8))
	}
	ia := genPayload(r, tier)
	dataA, dataB := genPayload(r, "quick"), genPayload(r, "quick")
	provide := uint32(pick(r, 1, 2, 3, 3, 3, 2, 6, 7, 4, 0x80000002, 0xffffffff))
	dev := 0
	if r.Intn(5) < 2 {
		dev = 1 + r.Intn(11)
	}
	padA := genPad(r)
	lenC := genPad(r)
	switch dev {
	case 1:
		padA = 512
	case 2:
		padA = 513 + r.Intn(200)
	case 6:
		provide = uint32(pick(r, 0, 0, 4, 0x80000000, 0xfffffffc, 8))
	case 7:
		lenC = 513 + r.Intn(2500)
	}
	st := &steer{r: rand.New(rand.NewSource(r.Int63())), pads: []int{padB, padD}}
	// the steered reader hands out pad contents after the first two pad lengths; the responder draws one
	// random pad (PadB) and one zero pad (PadD)
	st.served = []int{-1}
	ca, cb, dab, dba := chunkPair(genSchedule(r), genSchedule(r))
	var b mseSide
	b.done = make(chan struct{})
	var iaB []byte
	timedOut := false
	xa := new(big.Int).SetBytes(randBytes(r, 20))
	ya := pad96(new(big.Int).Exp(mseG, xa, mseP))
	withSteer(st, func() {
		sb := mse.NewStream(cb)
		go func() {
			defer close(b.done)
			b.err = sb.HandshakeIncoming(func(h [20]byte) []byte {
				if h == mse.HashSKey(bkey) {
					return bkey
				}
				return nil
			}, func(p mse.CryptoMethod) mse.CryptoMethod {
				b.sel = selectFunc(pol, polk)(p)
				return b.sel
			})
			if b.err != nil {
				cb.Close()
				return
			}
			_, _ = sb.Write(dataB)
			b.got, _ = io.ReadAll(sb) // the initial payload, then the application data, until the script ends the stream
		}()
		// the script
		func() {
			defer dab.close() // nothing more will come
			switch dev {
			case 10:
				_, _ = ca.Write(randBytes(r, r.Intn(96)))
				return
			case 11:
				_, _ = ca.Write(randBytes(r, 700+r.Intn(300)))
				return
			}
			_, _ = ca.Write(append(append([]byte{}, ya...), randBytes(r, padA)...))
			yb := make([]byte, 96)
			if _, err := io.ReadFull(ca, yb); err != nil {
				return
			}
			S := new(big.Int).Exp(new(big.Int).SetBytes(yb), xa, mseP)
			o := oracleOf(S, skey)
			req1 := append([]byte{}, o.req1...)
			h := xorBytes(o.req2, o.req3)
			vcb := make([]byte, 8)
			switch dev {
			case 3:
				req1[r.Intn(20)] ^= 1 << uint(r.Intn(8))
			case 4:
				h[r.Intn(20)] ^= 1 << uint(r.Intn(8))
			case 5:
				vcb[r.Intn(8)] = byte(1 + r.Intn(255))
			}
			claim := len(ia)
			if dev == 8 {
				claim += 1 + r.Intn(50)
				if claim > 65535 {
					claim = 65535
				}
			}
			plain := append([]byte{}, vcb...)
			plain = append(plain, be32b(provide)...)
			plain = append(plain, be16b(lenC)...)
			plain = append(plain, randBytes(r, lenC)...)
			plain = append(plain, be16b(claim)...)
			plain = append(plain, ia...)
			// the application data follows in the cipher the responder will select
			sel := selectFunc(pol, polk)(mse.CryptoMethod(provide))
			enc := newRC4(o.keyA)
			body := make([]byte, len(plain))
			enc.XORKeyStream(body, plain)
			data := append([]byte{}, dataA...)
			if sel != mse.PlainText {
				enc.XORKeyStream(data, data)
			}
			msg := append(append(append([]byte{}, req1...), h...), body...)
			all := append(msg, data...)
			if dev == 9 {
				all = all[:r.Intn(len(all)+1)]
			}
			// the handshake part and the data are separate writes, like the real initiator's
			if len(all) > len(msg) {
				_, _ = ca.Write(all[:len(msg)])
				_, _ = ca.Write(all[len(msg):])
			} else {
				_, _ = ca.Write(all)
			}
		}()
		select {
		case <-b.done:
		case <-time.After(20 * time.Second):
			timedOut = true
			ca.Close()
			cb.Close()
			<-b.done
		}
	})
	wab, wba := dab.wire, dba.wire
	yb := clip(wba, 0, 96)
	ob := zeroOracle()
	if len(yb) == 96 && len(wab) >= 96 {
		if S := secretFor(st.keys, yb, wab[:96]); S != nil {
			ob = oracleOf(S, bkey)
		}
	}
	var in []int64
	in = putBytes(in, yb)
	in = putBytes(in, clip(wba, 96, 96+padB))
	in = append(in, int64(padD), int64(pol), int64(polk))
	in = putOracle(in, ob)
	in = putBytes(in, sha([]byte("req2"), bkey))
	in = putBytes(in, wab)
	in = append(in, int64(len(dab.chunks)))
	in = append(in, dab.chunks...)
	in = putBytes(in, dataB)
	in = append(in, int64(len(ia)), int64(len(dataA)))
	obs := []int64{mseErrCode(b.err), 0}
	if b.err == nil {
		obs[1] = int64(b.sel)
	} else {
		b.got = nil
	}
	_ = iaB
	obs = putBytes(obs, wba)
	obs = putBytes(obs, b.got)
	note := "dev=" + string(rune('a'+dev))
	if timedOut {
		note += " timeout"
		obs = append(obs, HangMark)
	}
	if b.err != nil {
		note += " b:" + b.err.Error()
	}
	return Case{In: in, Obs: obs, Note: note}
}

// kind 1203: a scripted responder against the real initiator.
// in  = ya padA provide lenC ia oracleA(5) incoming chunks dataA ndataB
// obs = errA selA wireAB gotA
func genMseInitiator(r *rand.Rand, tier string) Case {
	padA, padC := genPad(r), genPad(r)
	skey := randBytes(r, 20)
	ia := genPayload(r, tier)
	dataA, dataB := genPayload(r, "quick"), genPayload(r, "quick")
	provide := uint32(pick(r, 1, 2, 3, 3, 3, 2, 6, 7, 4, 0x80000002, 0xffffffff, 0))
	dev := 0
	if r.Intn(5) < 2 {
		dev = 1 + r.Intn(9)
	}
	padB, lenD := genPad(r), genPad(r)
	sel := uint32(2)
	if provide&2 == 0 {
		sel = 1
	}
	if r.Intn(4) == 0 {
		sel = 1
	}
	switch dev {
	case 1:
		padB = 512
	case 2:
		padB = 513 + r.Intn(200)
	case 4:
		sel = uint32(pick(r, 0, 3, 4, 1, 2, 0x80000000, 6, 8))
	case 5:
		lenD = 513 + r.Intn(2500)
	}
	st := &steer{r: rand.New(rand.NewSource(r.Int63())), pads: []int{padA, padC}}
	st.served = []int{-1} // one random pad (PadA), then a zero pad (PadC)
	ca, cb, dab, dba := chunkPair(genSchedule(r), genSchedule(r))
	var a mseSide
	a.done = make(chan struct{})
	timedOut := false
	xb := new(big.Int).SetBytes(randBytes(r, 20))
	yb := pad96(new(big.Int).Exp(mseG, xb, mseP))
	withSteer(st, func() {
		sa := mse.NewStream(ca)
		go func() {
			defer close(a.done)
			a.sel, a.err = sa.HandshakeOutgoing(skey, mse.CryptoMethod(provide), ia)
			if a.err != nil {
				ca.Close()
				return
			}
			_, _ = sa.Write(dataA)
			a.got, _ = io.ReadAll(sa)
		}()
		func() {
			defer dba.close()
			ya := make([]byte, 96)
			if _, err := io.ReadFull(cb, ya); err != nil {
				return
			}
			switch dev {
			case 8:
				_, _ = cb.Write(randBytes(r, r.Intn(96)))
				return
			}
			S := new(big.Int).Exp(new(big.Int).SetBytes(ya), xb, mseP)
			o := oracleOf(S, skey)
			m2 := append(append([]byte{}, yb...), randBytes(r, padB)...)
			vcb := make([]byte, 8)
			if dev == 3 {
				vcb[r.Intn(8)] = byte(1 + r.Intn(255))
			}
			claim := lenD
			if dev == 6 {
				claim += 1 + r.Intn(50)
			}
			plain := append([]byte{}, vcb...)
			plain = append(plain, be32b(sel)...)
			plain = append(plain, be16b(claim)...)
			plain = append(plain, randBytes(r, lenD)...)
			enc := newRC4(o.keyB)
			m4 := make([]byte, len(plain))
			enc.XORKeyStream(m4, plain)
			data := append([]byte{}, dataB...)
			if sel != 1 {
				enc.XORKeyStream(data, data)
			}
			if dev == 7 {
				all := append(append(append([]byte{}, m2...), m4...), data...)
				_, _ = cb.Write(all[:r.Intn(len(all)+1)])
				return
			}
			if dev == 9 { // the second and fourth message arrive coalesced
				_, _ = cb.Write(append(append([]byte{}, m2...), m4...))
			} else {
				_, _ = cb.Write(m2)
				_, _ = cb.Write(m4)
			}
			_, _ = cb.Write(data)
		}()
		select {
		case <-a.done:
		case <-time.After(20 * time.Second):
			timedOut = true
			ca.Close()
			cb.Close()
			<-a.done
		}
	})
	wab, wba := dab.wire, dba.wire
	ya := clip(wab, 0, 96)
	oa := zeroOracle()
	if len(ya) == 96 && len(wba) >= 96 {
		if S := secretFor(st.keys, ya, wba[:96]); S != nil {
			oa = oracleOf(S, skey)
		}
	}
	var in []int64
	in = putBytes(in, ya)
	in = putBytes(in, clip(wab, 96, 96+padA))
	in = append(in, int64(provide), int64(padC))
	in = putBytes(in, ia)
	in = putOracle(in, oa)
	in = putBytes(in, wba)
	in = append(in, int64(len(dba.chunks)))
	in = append(in, dba.chunks...)
	in = putBytes(in, dataA)
	in = append(in, int64(len(dataB)))
	obs := []int64{mseErrCode(a.err), int64(a.sel)}
	if a.err != nil {
		obs[1] = 0
		a.got = nil
	}
	obs = putBytes(obs, wab)
	obs = putBytes(obs, a.got)
	note := "dev=" + string(rune('a'+dev))
	if timedOut {
		note += " timeout"
		obs = append(obs, HangMark)
	}
	if a.err != nil {
		note += " a:" + a.err.Error()
	}
	return Case{In: in, Obs: obs, Note: note}
}

func init() {
	Register(1201, "MSE: real HandshakeOutgoing against real HandshakeIncoming over a transport with scripted fragmentation, pads steered through crypto/rand.Reader", genMseHonest)
	Register(1202, "MSE: scripted initiator (pads up to 700, any field values, garbled and truncated streams) against the real HandshakeIncoming", genMseResponder)
	Register(1203, "MSE: scripted responder (pads up to 700, any selection, garbled, truncated and coalesced streams) against the real HandshakeOutgoing", genMseInitiator)
}

// ---- kind 1204: the encryption policy through the real accept and dial paths of a torrent ----
// in  = [mode force disable(outgoing only) peer provide]
//       mode 0 = incoming: peer 0 plain BitTorrent handshake | 1 MSE offering `provide`
//       mode 1 = outgoing: peer 0 legacy (clear text only) | 1 MSE, prefers RC4 | 2 MSE, prefers clear text
//                          | 3 MSE answering an invalid selection | 4 closes at once
// obs = incoming: [class clearOnWire]   class: 0 refused, 1 accepted in clear, 2 accepted RC4
//       outgoing: [class connections secondWasClear]

var btPstr = []byte("\x13BitTorrent protocol")

func btHandshake(ih [20]byte, id string) []byte {
	b := append([]byte{}, btPstr...)
	b = append(b, make([]byte, 8)...)
	b = append(b, ih[:]...)
	pid := make([]byte, 20)
	copy(pid, id)
	return append(b, pid...)
}

type recConn struct {
	net.Conn
	mu    sync.Mutex
	wrote []byte
	read  []byte
}

func (c *recConn) Write(p []byte) (int, error) {
	c.mu.Lock()
	c.wrote = append(c.wrote, p...)
	c.mu.Unlock()
	return c.Conn.Write(p)
}

func (c *recConn) Read(p []byte) (int, error) {
	n, err := c.Conn.Read(p)
	c.mu.Lock()
	c.read = append(c.read, p[:n]...)
	c.mu.Unlock()
	return n, err
}

func containsBytes(h, n []byte) bool { return strings.Contains(string(h), string(n)) }

func genEncPolicy(r *rand.Rand, tier string) Case {
	mode := int64(r.Intn(2))
	fi, fo := r.Intn(2) == 0, r.Intn(2) == 0
	do := !fo && r.Intn(3) == 0 // "disable" and "force" are never both set for one direction
	var peerKind, provide int64
	if mode == 0 {
		peerKind = int64(r.Intn(3) / 2) // 0 0 1 -> more MSE below
		if r.Intn(3) > 0 {
			peerKind = 1
		}
		if peerKind == 1 {
			provide = pick(r, 1, 2, 3, 3)
		}
	} else {
		peerKind = int64(r.Intn(5))
	}
	l := genVLayout(r, 2)
	content := l.Content(r.Int63())
	v, err := startLoop(l, content, nil, func(c *torrent.Config) {
		c.ForceIncomingEncryption = fi
		c.ForceOutgoingEncryption = fo
		c.DisableOutgoingEncryption = do
		c.MaxPeerDial = 5
		c.UnchokedPeers = 0
		c.OptimisticUnchokedPeers = 0
		c.PeerConnectTimeout = 5 * time.Second
		c.PeerHandshakeTimeout = 10 * time.Second
	}, false)
	if err != nil {
		return Case{In: []int64{0}, Obs: []int64{-710}}
	}
	defer v.Close()
	in := []int64{mode, b2i(fi), b2i(fo), b2i(do), peerKind, provide}
	ih := v.InfoHash()
	if v.Snapshot().Status != "Downloading" {
		return Case{In: in, Obs: []int64{-711}, Note: v.Snapshot().Status}
	}
	if mode == 0 {
		d := net.Dialer{LocalAddr: &net.TCPAddr{IP: net.IPv4(127, 0, 0, 9)}, Timeout: 5 * time.Second}
		c, err := d.Dial("tcp", net.JoinHostPort("127.0.0.1", strconv.Itoa(v.Port())))
		if err != nil {
			return Case{In: in, Obs: []int64{-712}, Note: err.Error()}
		}
		rc := &recConn{Conn: c}
		defer rc.Close()
		clientOK := make(chan bool, 1)
		go func() {
			hs := btHandshake(ih, "-SC0001-scriptedpeer")
			var rd io.Reader = rc
			if peerKind == 0 {
				if _, err := rc.Write(hs); err != nil {
					clientOK <- false
					return
				}
			} else {
				mc := mse.WrapConn(rc)
				if _, err := mc.HandshakeOutgoing(ih[:], mse.CryptoMethod(provide), hs); err != nil {
					clientOK <- false
					return
				}
				rd = mc
			}
			reply := make([]byte, 68)
			_, err := io.ReadFull(rd, reply)
			clientOK <- err == nil && string(reply[:20]) == string(btPstr) && string(reply[28:48]) == string(ih[:])
		}()
		if !v.PumpConn(10 * time.Second) {
			return Case{In: in, Obs: []int64{-713}}
		}
		_, ok, cipher := v.PumpHandshake(20 * time.Second)
		if !ok {
			rc.Close()
		}
		cok := <-clientOK
		class := int64(0)
		if ok {
			class = 1
			if cipher == int(mse.RC4) {
				class = 2
			}
		}
		rc.mu.Lock()
		clear := containsBytes(rc.read, btPstr)
		rc.mu.Unlock()
		return Case{In: in, Obs: []int64{class, b2i(clear), b2i(cok)}}
	}
	// outgoing
	ln, err := net.Listen("tcp", "127.0.0.1:0")
	if err != nil {
		return Case{In: in, Obs: []int64{-714}}
	}
	defer ln.Close()
	var mu sync.Mutex
	var kinds []bool // per connection: began with the BitTorrent protocol string
	go func() {
		for {
			c, err := ln.Accept()
			if err != nil {
				return
			}
			go func(c net.Conn) {
				defer c.Close()
				_ = c.SetDeadline(time.Now().Add(15 * time.Second))
				first := make([]byte, 20)
				_, err := io.ReadFull(c, first)
				mu.Lock()
				kinds = append(kinds, err == nil && string(first) == string(btPstr))
				mu.Unlock()
				if err != nil || peerKind == 4 { // kind 4 hangs up as soon as it has seen who is calling
					return
				}
				reply := btHandshake(ih, "-SC0002-scriptedpeer")
				if string(first) == string(btPstr) {
					if peerKind != 0 {
						return // this peer speaks MSE only
					}
					rest := make([]byte, 48)
					if _, err := io.ReadFull(c, rest); err != nil {
						return
					}
					_, _ = c.Write(reply)
					time.Sleep(300 * time.Millisecond)
					return
				}
				if peerKind == 0 {
					return // a legacy peer drops what it does not understand
				}
				mc := mse.WrapConn(&prefixConn{Conn: c, pre: first})
				err = mc.HandshakeIncoming(func(h [20]byte) []byte {
					if h == mse.HashSKey(ih[:]) {
						return ih[:]
					}
					return nil
				}, func(p mse.CryptoMethod) mse.CryptoMethod {
					switch peerKind {
					case 1:
						return selectFunc(0, 0)(p)
					case 2:
						if p&mse.PlainText != 0 {
							return mse.PlainText
						}
						return selectFunc(0, 0)(p)
					}
					return 4
				})
				if err != nil {
					return
				}
				hs := make([]byte, 68)
				if _, err := io.ReadFull(mc, hs); err != nil {
					return
				}
				_, _ = mc.Write(reply)
				time.Sleep(300 * time.Millisecond)
			}(c)
		}
	}()
	v.NewAddrs([]*net.TCPAddr{ln.Addr().(*net.TCPAddr)}, peersource.Manual)
	_, ok, cipher := v.PumpHandshake(30 * time.Second)
	class := int64(0)
	if ok {
		class = 1
		if cipher == int(mse.RC4) {
			class = 2
		}
	}
	mu.Lock()
	n := len(kinds)
	first, second := n > 0 && kinds[0], n > 1 && kinds[1]
	mu.Unlock()
	return Case{In: in, Obs: []int64{class, int64(n), b2i(first), b2i(second)}}
}

type prefixConn struct {
	net.Conn
	pre []byte
}

func (c *prefixConn) Read(p []byte) (int, error) {
	if len(c.pre) > 0 {
		n := copy(p, c.pre)
		c.pre = c.pre[n:]
		return n, nil
	}
	return c.Conn.Read(p)
}

func init() {
	Register(1204, "encryption policy through the real accept and dial paths of a torrent: every consistent force/disable setting against plain, MSE and legacy scripted peers", genEncPolicy)
}

(* Model of internal/resourcemanager (the run loop as a transition system).
   [fixed = false]: pinned code, where a Request whose cancel channel is already closed may leave
   the caller blocked forever; [fixed = true]: after the "fix:" commit (D12 part 2).
   Definitions only. *)
From RainV Require Import Lib.

Record preq := { q_id : Z; q_key : Z; q_n : Z; q_cancelled : bool }.
Record ram := { limit_ : Z; available : Z; objects : Z;
                pending : list preq;            (* queued requests *)
                live : list (Z * Z) }.          (* granted reservations: id -> n *)

Definition ram_init (lim : Z) : ram := {| limit_ := lim; available := lim; objects := 0; pending := []; live := [] |}.

Inductive rout := Acquired | Queued | NotAcquired | Stuck | Panic.

Inductive rop :=
| RReq (id key n : Z) (closed : bool) (out : rout)    (* Request with its observed outcome *)
| RRelease (id : Z)
| RCancel (id : Z)
| RNotified (id : Z)                                   (* the manager sent the request's data on notifyC *)
| RObserve.                                            (* Stats() at a quiescent point *)

Fixpoint find_live (id : Z) (l : list (Z * Z)) : option Z :=
  match l with [] => None | (k, n) :: r => if k =? id then Some n else find_live id r end.
Fixpoint del_live (id : Z) (l : list (Z * Z)) : list (Z * Z) :=
  match l with [] => [] | (k, n) :: r => if k =? id then r else (k, n) :: del_live id r end.
Fixpoint find_pending (id : Z) (l : list preq) : option preq :=
  match l with [] => None | q :: r => if q_id q =? id then Some q else find_pending id r end.
Fixpoint del_pending (id : Z) (l : list preq) : list preq :=
  match l with [] => [] | q :: r => if q_id q =? id then r else q :: del_pending id r end.

Section Ram.
Variable fixed : bool.

(* the step relation as a checker: Some = the observed outcome is one the code can produce *)
Definition rstep (s : ram) (o : rop) : option ram :=
  match o with
  | RReq id key n closed out =>
      if n <? 0 then (match out with NotAcquired => Some s | _ => None end) else
      let grant := {| limit_ := limit_ s; available := available s - n; objects := objects s + 1;
                      pending := pending s; live := (id, n) :: live s |} in
      let queue := {| limit_ := limit_ s; available := available s; objects := objects s;
                      pending := pending s ++ [{| q_id := id; q_key := key; q_n := n; q_cancelled := closed |}];
                      live := live s |} in
      match out with
      | Acquired => if available s >=? n then Some grant else None
      | Queued => if available s >=? n then None else Some queue
      | NotAcquired => if closed && fixed then Some s else None      (* requester saw its own cancellation *)
      | Stuck => if closed && negb fixed then Some s else None       (* manager took the cancel branch, nobody answers *)
      | Panic => None
      end
  | RRelease id =>
      match find_live id (live s) with
      | Some n => Some {| limit_ := limit_ s; available := available s + n; objects := objects s - 1;
                          pending := pending s; live := del_live id (live s) |}
      | None => None                                                    (* callers release only what they hold *)
      end
  | RCancel id =>
      match find_pending id (pending s) with
      | Some q => Some {| limit_ := limit_ s; available := available s; objects := objects s;
                          pending := map (fun x => if q_id x =? id then {| q_id := q_id x; q_key := q_key x; q_n := q_n x; q_cancelled := true |} else x) (pending s);
                          live := live s |}
      | None => Some s
      end
  | RNotified id =>
      match find_pending id (pending s) with
      | Some q => if q_n q <=? available s
                  then Some {| limit_ := limit_ s; available := available s - q_n q; objects := objects s + 1;
                               pending := del_pending id (pending s); live := (id, q_n q) :: live s |}
                  else None
      | None => None
      end
  | RObserve => Some s
  end.
End Ram.

(* ---- case codec, kind 1701 ----
   in = [limit; ops...]; ops: 1 id key n closed out | 2 id | 3 id | 4 id
   (outcomes and notifications are the real manager's, recorded by the harness)
   obs after each op = [AllocatedSize; AllocatedObjects; PendingKeys] *)
Definition out_of (z : Z) : rout :=
  match z with 1 => Acquired | 0 => Queued | 2 => NotAcquired | 3 => Stuck | _ => Panic end.

Fixpoint rd_rops (fuel : nat) (l : list Z) : list rop :=
  match fuel with
  | O => []
  | S f => match l with
           | 1 :: id :: key :: n :: c :: o :: r => RReq id key n (z2b c) (out_of o) :: rd_rops f r
           | 2 :: id :: r => RRelease id :: rd_rops f r
           | 3 :: id :: r => RCancel id :: rd_rops f r
           | 4 :: id :: r => RNotified id :: rd_rops f r
           | 5 :: r => RObserve :: rd_rops f r
           | _ => []
           end
  end.

Fixpoint nodup_keys (l : list Z) : list Z :=
  match l with [] => [] | x :: r => if existsb (Z.eqb x) r then nodup_keys r else x :: nodup_keys r end.

Definition live_keys (s : ram) (with_cancelled : bool) : Z :=
  zlen (nodup_keys (map q_key (filter (fun q => with_cancelled || negb (q_cancelled q)) (pending s)))).

Fixpoint run_ram_go (s : ram) (ops : list rop) : list Z :=
  match ops with
  | [] => []
  | o :: r => match rstep true s o with
              | Some s' => (match o with RObserve => [limit_ s' - available s'; objects s'; live_keys s' true] | _ => [] end)
                           ++ run_ram_go s' r
              | None => [-555]
              end
  end.

Definition run_ram (inp : list Z) : list Z :=
  match inp with
  | lim :: r => run_ram_go (ram_init lim) (rd_rops (length r) r)
  | [] => []
  end.

(* monitor: the observed allocation equals the sum of live reservations and stays within
   [0, limit]; objects = number of live reservations; pending keys between the number of keys with
   an uncancelled request and the number of keys with any request *)
Fixpoint mon_ram_go (s : ram) (ops : list rop) (obs : list Z) : bool :=
  match ops with
  | [] => match obs with [] => true | _ => false end
  | o :: r =>
      match rstep true s o with
      | Some s' =>
          match o, obs with
          | RObserve, a :: b :: k :: obs' =>
              (a =? limit_ s' - available s') && (0 <=? a) && (a <=? limit_ s') &&
              (a =? fold_right (fun kv acc => snd kv + acc) 0 (live s')) && (b =? zlen (live s')) &&
              (live_keys s' false <=? k) && (k <=? live_keys s' true) && mon_ram_go s' r obs'
          | RObserve, _ => false
          | _, _ => mon_ram_go s' r obs
          end
      | None => false
      end
  end.

Definition mon_ram (inp obs : list Z) : bool :=
  match inp with
  | lim :: r => mon_ram_go (ram_init lim) (rd_rops (length r) r) obs
  | [] => false
  end.

(* kind 1703: a grant that arrives when the torrent no longer downloads is given back: nothing stays booked *)
Definition run_ramloop (inp : list Z) : list Z := [0; 1].

(* kind 1704: web seed sources are cut to the configured maximum; no configuration makes the add crash *)
Definition run_webseed_cap (inp : list Z) : list Z :=
  match inp with [k; c] => [0; Z.min k (Z.max 0 c)] | _ => [-779] end.

//go:build verif

package urldownloader

import "github.com/cenkalti/rain/v2/internal/piece"

// JobSpec is a plain copy of downloadJob.
type JobSpec struct {
	Filename   string
	RangeBegin int64
	Length     int64
	Padding    bool
}

// CreateJobs exposes createJobs.
func CreateJobs(pieces []piece.Piece, begin, end uint32) []JobSpec {
	js := createJobs(pieces, begin, end)
	out := make([]JobSpec, len(js))
	for i, j := range js {
		out[i] = JobSpec{j.Filename, j.RangeBegin, j.Length, j.Padding}
	}
	return out
}

// NewStubForVerif returns a downloader for pieces [begin, end) whose goroutine is never started:
// Close returns at once. The piece picker only reads Begin, End and the current index of it.
func NewStubForVerif(source string, begin, end uint32) *URLDownloader {
	d := New(source, begin, end, nil)
	close(d.doneC)
	return d
}

// AdvanceForVerif does what Run does after handing over a piece that is not the last one.
func (d *URLDownloader) AdvanceForVerif() uint32 { return d.incrCurrent() }

#!/usr/bin/env python3
"""Regenerate MANIFEST.json from bin/props.py (claimed properties) and bin/manifest_text.py."""
import json, sys
sys.path.insert(0, '/verif/bin')
import props, manifest_text as mt
ids = ['C%02d' % i for i in range(1, 21)]
checks, na = [], []
for pid in ids:
    if pid in props.PROPS:
        t = mt.TEXT[pid]
        checks.append({
            'property_id': pid,
            'quick_cmd': f'bin/check {pid} quick',
            'thorough_cmd': f'bin/check {pid} thorough',
            'evidence_file': f'/verif/evidence/{pid}.json',
            'replay_cmd_template': f'bin/check {pid} --replay {{path}}',
            'engine': 'coq-proof+correspondence',
            'level_claimed': {'category': 'proof', 'text': t['text'], 'design_ref': t.get('ref', 'DESIGN.md section 6 ' + pid)},
            'level_note': t['note'],
            'technique': t['technique'],
        })
    else:
        na.append({'property_id': pid, 'reason': mt.NA.get(pid, 'not yet built in this session: no theorem and correspondence committed for it yet (see DESIGN.md section 6 for the plan); it is not claimed until both exist')})
m = {
    'version': 1,
    'setup_cmd': 'bin/setup',
    'hooks': {
        'guard': 'verif',
        'enable': 'go1.26 build -tags verif -overlay <generated json>: every harness file lives under /verif/harness/root and is mapped into the module (verifhook/ and export_verif.go files) at build time; nothing is committed to /repo',
        'baseline_off_cmd': 'cd /repo && go test -mod=mod -vet=off -count=1 -timeout 25m ./...',
        'source_commits': [],
        'add_only': True,
    },
    'engines': [
        {'name': 'coq-proof+correspondence', 'path': '/verif/bin/check',
         'serves_properties': [c['property_id'] for c in checks],
         'kind_free_text': 'Coq 8.16 theorems over executable Gallina models (coq/theories), re-checked on every run; Go harness built from /repo working tree drives the real code; the extracted model (OCaml) and proved monitors replay the same cases; vm_compute cross-check of extraction'},
    ],
    'checks': checks,
    'not_applicable': na,
    'notes': mt.NOTES,
}
json.dump(m, open('/verif/MANIFEST.json', 'w'), indent=1)
print('claimed', len(checks), 'not claimed', len(na))

(* Model of the post-decode half of metainfo.NewInfo (internal/metainfo/info.go): which decoded
   field values are accepted and what Info they produce.  int64 arithmetic is explicit.
   [fixed = false]: pinned code; [fixed = true]: after the "fix:" commit (D3).  Definitions only. *)
From RainV Require Import Lib Geometry.

Definition two63 : Z := 9223372036854775808.
Definition two64 : Z := 18446744073709551616.
Definition two32 : Z := 4294967296.
Definition wrap64 (z : Z) : Z := (z + two63) mod two64 - two63.

Record dfile := { dlen : Z; dpadding : bool }.        (* file.Length, file.isPadding() *)
Record dinfo := {
  d_pl : Z;                 (* "piece length" as decoded (bencode integer) *)
  d_npb : Z;                (* len(ib.Pieces) *)
  d_files : list dfile;     (* ib.Files *)
  d_single : Z              (* ib.Length *)
}.
Record info := { i_pl : Z; i_n : Z; i_len : Z; i_padding : Z; i_files : list file }.

(* the summation loop of NewInfo over ib.Files: returns (i.Length, i.Padding) *)
Fixpoint sum_files (fixed : bool) (acc pad : Z) (fs : list dfile) : option (Z * Z) :=
  match fs with
  | [] => Some (acc, pad)
  | f :: r =>
      if fixed && (dlen f <? 0) then None else
      let acc' := wrap64 (acc + dlen f) in
      if fixed && (acc' <? 0) then None else
      sum_files fixed acc' (if dpadding f then wrap64 (pad + dlen f) else pad) r
  end.

Definition accept (fixed : bool) (padopt : bool) (d : dinfo) : option info :=
  if (d_pl d <? 0) || (d_pl d >=? two32) then None      (* does not decode into uint32 *)
  else if d_pl d =? 0 then None                           (* errZeroPieceLength *)
  else if negb (d_npb d mod 20 =? 0) then None            (* errInvalidPieceData *)
  else let n := d_npb d / 20 in
  if n =? 0 then None                                     (* errZeroPieces *)
  else
  let multi := negb (Nat.eqb (length (d_files d)) 0) in
  match (if multi then sum_files fixed 0 0 (d_files d) else Some (d_single d, 0)) with
  | None => None
  | Some (L, P) =>
      let total := wrap64 (d_pl d * n) in
      let delta := wrap64 (total - L) in
      if (delta >=? d_pl d) || (delta <? 0) then None
      else Some {| i_pl := d_pl d; i_n := n; i_len := L; i_padding := P;
                   i_files := if multi
                              then map (fun f => {| flen := dlen f; fpad := padopt && dpadding f |}) (d_files d)
                              else [{| flen := L; fpad := false |}] |}
  end.

(* case codec, kind 601: in = [pl; npb; single; padopt; nfiles; (len ispad)*]
   out = [0] | [1; pl; n; L; P; nfiles; (len pad)*] *)
Fixpoint rd_dfiles (n : nat) (l : list Z) : list dfile :=
  match n, l with
  | S n', len :: pad :: r => {| dlen := len; dpadding := z2b pad |} :: rd_dfiles n' r
  | _, _ => []
  end.

Definition decode_dinfo (inp : list Z) : option (dinfo * bool) :=
  match inp with
  | pl :: npb :: single :: padopt :: nf :: r =>
      Some ({| d_pl := pl; d_npb := npb; d_files := rd_dfiles (Z.to_nat nf) r; d_single := single |}, z2b padopt)
  | _ => None
  end.

Definition run_accept (inp : list Z) : list Z :=
  match decode_dinfo inp with
  | Some (d, padopt) =>
      match accept true padopt d with
      | None => [0]
      | Some i => 1 :: i_pl i :: i_n i :: i_len i :: i_padding i :: zlen (i_files i)
                  :: flat_map (fun f => [flen f; b2z (fpad f)]) (i_files i)
      end
  | None => [-779]
  end.

(* monitor over the observed outcome only: an accepted Info is well-formed *)
Definition wf_info_b (fs : list file) (PL n L : Z) : bool :=
  negb (Nat.eqb (length fs) 0) && forallb (fun f => 0 <=? flen f) fs &&
  (0 <? PL) && (0 <? n) && (PL * (n - 1) <? L) && (L <=? PL * n) && (L =? sum_flen fs).

Definition mon_accept (inp obs : list Z) : bool :=
  match obs with
  | [0] => true
  | 1 :: pl :: n :: L :: P :: nf :: r => wf_info_b (rd_files (Z.to_nat nf) r) pl n L
  | _ => false
  end.

(* kind 602: lists / dictionaries nested n deep under an unknown key.  The decoder recurses once per level,
   so the depth of every accepted document must be bounded: 64 levels, counted from the outermost
   dictionary.  where 0: a key of the torrent file (the value starts at level 2) | 1: a key of the info
   dictionary inside the torrent file (level 3) | 2: NewInfo on the info bytes (level 2). *)
Definition max_nesting : Z := 64.
Definition nesting_levels (where_ n : Z) : Z := (if where_ =? 1 then 2 else 1) + n.
Definition run_nesting (inp : list Z) : list Z :=
  match inp with
  | [where_; n; _] => if where_ >=? 3 then [0]   (* a string length prefix far beyond the input: refused, never a crash *)
                      else [b2z (nesting_levels where_ n <=? max_nesting)]
  | _ => [-779]
  end.

(* kinds 1106 / 1604: the same bound for an extension handshake from a peer and for an HTTP tracker response:
   in = [n terminated]; the nested value sits directly in the outermost dictionary *)
Definition run_net_nesting (inp : list Z) : list Z :=
  match inp with
  | [n; term] => [b2z (z2b term && (nesting_levels 0 n <=? max_nesting))]
  | [n; term; _] => [b2z (z2b term && (nesting_levels 0 n <=? max_nesting))]   (* third: which extension message *)
  | _ => [-779]
  end.

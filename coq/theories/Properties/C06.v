(* C06 — untrusted metainfo is rejected or well-formed; starting it terminates. *)
From RainV Require Import Lib Geometry Meta MetaProofs PiecesProofs.

Theorem C06_accept_wf : forall padopt d i,
  Forall (fun f => int64 (dlen f)) (d_files d) -> int64 (d_single d) ->
  0 <= d_npb d -> d_npb d / 20 < 2147483648 ->
  accept true padopt d = Some i ->
  wf_info (i_files i) (i_pl i) (Z.to_nat (i_n i)) (i_len i) /\ 0 < i_n i /\ i_pl i < two32.
Proof. exact accept_wf. Qed.
Print Assumptions C06_accept_wf.

Theorem C06_accepted_pieces_terminate : forall padopt d i,
  Forall (fun f => int64 (dlen f)) (d_files d) -> int64 (d_single d) ->
  0 <= d_npb d -> d_npb d / 20 < 2147483648 ->
  accept true padopt d = Some i ->
  exists ps, new_pieces (i_files i) (i_pl i) (i_len i) (Z.to_nat (i_n i)) = Ok ps /\
    length ps = Z.to_nat (i_n i) /\
    Forall (fun p => exists bl, calc_blocks true 16384 (psecs p) = Ok bl) ps.
Proof. exact accepted_pieces_terminate. Qed.
Print Assumptions C06_accepted_pieces_terminate.

Theorem C06_accept_wf_refuted_on_pinned_code :
  exists padopt d i, Forall (fun f => int64 (dlen f)) (d_files d) /\
    accept false padopt d = Some i /\ ~ Forall (fun f => 0 <= flen f) (i_files i).
Proof. exact accept_wf_refuted_pinned. Qed.
Print Assumptions C06_accept_wf_refuted_on_pinned_code.

(* the decoder recurses once per nesting level: every accepted torrent file or info dictionary has at most
   64 levels of lists and dictionaries (deeper input is refused before it is decoded) *)
Theorem C06_accepted_nesting_bounded : forall w n k, run_nesting [w; n; k] = [1] -> nesting_levels w n <= max_nesting.
Proof. exact accepted_nesting_bounded. Qed.
Print Assumptions C06_accepted_nesting_bounded.

(* the nesting scan in front of every decoder fed from outside (internal/bencodedepth Check, kind 603):
   for every byte string it terminates within len+1 iterations without indexing outside the input
   (the string length is accumulated in a Go int with wrap-around: the guard inside the digit loop is
   what keeps it from wrapping) and answers "fine" or "too deep" *)
From RainV Require Import Depth.
Theorem C06_depth_scan_total : forall b, zlen b < 100000000000000000 -> Forall (fun c => 0 <= c < 256) b ->
  depth_check b = DOk \/ depth_check b = DTooDeep.
Proof. exact check_total. Qed.
Print Assumptions C06_depth_scan_total.

//go:build verif

package verifhook

import (
	"math/rand"
	"strconv"
	"time"

	"github.com/cenkalti/rain/v2/internal/cachedpiece"
	"github.com/cenkalti/rain/v2/internal/piececache"
)

func runCachedRead(in []int64) []int64 {
	pl, lens, pads, rest := decodeLayout(in)
	_, ps, mems, err := PiecesWithStorage(pl, lens, pads)
	if err != nil {
		return []int64{-700}
	}
	for k, m := range mems {
		for j := range m.B {
			m.B[j] = byte((7*k + 13*j + 1) % 251)
		}
	}
	pi, rs, cmax, nr := int(rest[0]), rest[1], rest[2], int(rest[3])
	rest = rest[4:]
	cache := piececache.New(cmax, time.Hour, 4)
	defer cache.Close()
	var peerID [20]byte
	cp := cachedpiece.New(&ps[pi], cache, rs, peerID)
	var obs []int64
	for i := 0; i < nr; i++ {
		off, n := rest[2*i], rest[2*i+1]
		b := make([]byte, n)
		k, err := cp.ReadAt(b, off)
		if err != nil {
			obs = append(obs, -1)
			continue
		}
		obs = append(obs, int64(k))
		for _, c := range b[:k] {
			obs = append(obs, int64(c))
		}
	}
	return obs
}

func genCachedRead(r *rand.Rand, tier string) Case {
	unit := []int64{4, 8, 16}[r.Intn(3)]
	pl, lens, pads := genLayout(r, unit, 5)
	tot := sumLens(lens)
	np := (tot + pl - 1) / pl
	in := []int64{pl, np, int64(len(lens))}
	for i := range lens {
		in = append(in, lens[i], b2i(pads[i]))
	}
	pi := int64(r.Intn(int(np)))
	plen := pl
	if pi == np-1 {
		plen = tot - pl*(np-1)
	}
	rs := pick(r, 1, 3, 7, 8, 16, plen, plen+5, 4096)
	cmax := pick(r, 0, rs, 2*rs, 3*rs+1, 1<<20)
	nr := 4 + r.Intn(10)
	in = append(in, pi, rs, cmax, int64(nr))
	for i := 0; i < nr; i++ {
		off := int64(r.Intn(int(plen)))
		n := 1 + int64(r.Intn(int(plen-off)))
		switch r.Intn(6) {
		case 0:
			n = plen - off
		case 1: // straddle a cache block boundary
			if rs < plen {
				b := (off/rs + 1) * rs
				if b < plen {
					off = b - 1 - int64(r.Intn(int(min64(rs, b))))
					if off < 0 {
						off = 0
					}
					n = min64(plen-off, b-off+1+int64(r.Intn(int(rs))))
				}
			}
		}
		in = append(in, off, n)
	}
	return Case{In: in, Obs: Guard(func() []int64 { return runCachedRead(in) })}
}

func min64(a, b int64) int64 {
	if a < b {
		return a
	}
	return b
}

func runCache(in []int64) []int64 {
	c := piececache.New(in[0], time.Hour, 4)
	defer c.Close()
	var obs []int64
	for i := 1; i+1 < len(in); i += 2 {
		called := false
		size := in[i+1]
		_, err := c.Get(strconv.FormatInt(in[i], 10), func() ([]byte, error) {
			called = true
			return make([]byte, size), nil
		})
		if err != nil {
			obs = append(obs, -1, 0, 0)
			continue
		}
		obs = append(obs, b2i(!called), int64(c.Len()), c.Size())
	}
	return obs
}

func genCache(r *rand.Rand, tier string) Case {
	mx := pick(r, 0, 1, 10, 16, 50, 100)
	in := []int64{mx}
	n := 3 + r.Intn(14)
	for i := 0; i < n; i++ {
		in = append(in, int64(r.Intn(6)), pick(r, 0, 1, 3, 8, 10, 16, 17, 30, mx, mx+1))
	}
	// sizes are per key in reality (a key always loads the same block): keep them consistent
	size := map[int64]int64{}
	for i := 1; i+1 < len(in); i += 2 {
		if s, ok := size[in[i]]; ok {
			in[i+1] = s
		} else {
			size[in[i]] = in[i+1]
		}
	}
	return Case{In: in, Obs: Guard(func() []int64 { return runCache(in) })}
}

func init() {
	Register(301, "cachedpiece.ReadAt through a real piececache over in-memory pieces", genCachedRead)
	RegisterReplay(301, runCachedRead)
	Register(302, "piececache.Cache Get sequences: hit/miss, Len, Size", genCache)
	RegisterReplay(302, runCache)
}

// kind 304: Get split into its halves with other Gets in between.
// in = [max (op key size)*]  op 0 whole Get | 1 lookup half (key is cached) | 2 read half of the pending lookup
// obs per op = [hit or value length; Len; Size]
func runCacheSplit(in []int64) []int64 {
	c := piececache.New(in[0], time.Hour, 4)
	defer c.Close()
	var obs []int64
	var pending *piececache.ItemForVerif
	var pendingSize int64
	for i := 1; i+2 < len(in); i += 3 {
		op, key, size := in[i], strconv.FormatInt(in[i+1], 10), in[i+2]
		loader := func(sz int64, called *bool) piececache.Loader {
			return func() ([]byte, error) {
				*called = true
				b := make([]byte, sz)
				for k := range b {
					b[k] = 0xAB
				}
				return b, nil
			}
		}
		switch op {
		case 0:
			called := false
			if _, err := c.Get(key, loader(size, &called)); err != nil {
				obs = append(obs, -1, 0, 0)
				continue
			}
			obs = append(obs, b2i(!called), int64(c.Len()), c.Size())
		case 1:
			pending, pendingSize = c.LookupForVerif(key), size
			obs = append(obs, 1, int64(c.Len()), c.Size())
		case 2:
			if pending == nil {
				obs = append(obs, -6)
				return obs
			}
			called := false
			v, err := c.ReadForVerif(pending, loader(pendingSize, &called))
			pending = nil
			if err != nil {
				obs = append(obs, -1, 0, 0)
				continue
			}
			n := int64(len(v))
			for _, b := range v {
				if b != 0xAB {
					n = -2
				}
			}
			obs = append(obs, n, int64(c.Len()), c.Size())
		}
	}
	return obs
}

func genCacheSplit(r *rand.Rand, tier string) Case {
	mx := pick(r, 10, 16, 24, 50)
	in := []int64{mx}
	size := map[int64]int64{}
	cached := map[int64]bool{} // an over-approximation is enough: the lookup half is only generated right after a Get of that key
	n := 4 + r.Intn(14)
	pending := false
	last := int64(-1)
	for i := 0; i < n; i++ {
		x := r.Intn(10)
		switch {
		case pending && x < 4:
			in = append(in, 2, 0, 0)
			pending = false
		case !pending && last >= 0 && size[last] > 0 && size[last] <= mx && x < 5:
			in = append(in, 1, last, size[last])
			pending = true
		default:
			k := int64(r.Intn(6))
			if _, ok := size[k]; !ok {
				size[k] = pick(r, 1, 3, 8, 10, 16)
			}
			in = append(in, 0, k, size[k])
			cached[k] = true
			last = k
			if pending && r.Intn(3) == 0 {
				last = -1
			}
		}
	}
	if pending {
		in = append(in, 2, 0, 0)
	}
	return Case{In: in, Obs: Guard(func() []int64 { return runCacheSplit(in) })}
}

func init() {
	Register(304, "piececache.Cache Get split into lookup and read with other Gets (evictions) in between", genCacheSplit)
	RegisterReplay(304, runCacheSplit)
}

From RainV Require Import Lib Tier.
From Coq Require Import ZifyBool.
Ltac Zify.zify_post_hook ::= Z.div_mod_to_equations.

(* The two-line abstract spec: the next member after [k] is [k] on success, [k+1 mod n] on failure. *)
Definition spec_next (n k : Z) (ok : bool) : Z := if ok then k else (k + 1) mod n.
Fixpoint spec_run (n k : Z) (pat : list bool) : list Z :=
  match pat with [] => [] | ok :: r => k :: spec_run n (spec_next n k ok) r end.

Section Fixed.
Variable n : Z.
Hypothesis Hn : 0 < n.

Lemma load_in_range s : 0 <= s < n -> load_index n s = s.
Proof. unfold load_index; intros; destruct (s >=? n) eqn:E; lia. Qed.

Lemma announce_fixed s ok : 0 <= s < n ->
  announce true n s ok = (s, spec_next n s ok).
Proof.
  intros Hs. unfold announce. rewrite load_in_range by lia.
  unfold spec_next, cas, next_index. destruct ok; [reflexivity|].
  rewrite Z.eqb_refl. f_equal.
  destruct (s + 1 >=? n) eqn:E.
  - assert (s + 1 = n) by lia. subst n. rewrite Z.mod_same by lia. reflexivity.
  - rewrite Z.mod_small by lia. reflexivity.
Qed.

Lemma spec_next_range k ok : 0 <= k < n -> 0 <= spec_next n k ok < n.
Proof. unfold spec_next; destruct ok; intros; [lia|]. apply Z.mod_pos_bound; lia. Qed.

Theorem run_seq_is_spec : forall pat s, 0 <= s < n -> run_seq true n s pat = spec_run n s pat.
Proof.
  induction pat as [|ok r IH]; intros s Hs; [reflexivity|].
  cbn [run_seq spec_run]. rewrite announce_fixed by lia. f_equal.
  apply IH. apply spec_next_range; lia.
Qed.

Lemma final_seq_range : forall pat s, 0 <= s < n -> 0 <= final_seq true n s pat < n.
Proof.
  induction pat as [|ok r IH]; intros s Hs; cbn [final_seq]; [lia|].
  rewrite announce_fixed by lia. cbn [snd]. apply IH. apply spec_next_range; lia.
Qed.

(* all-failing stretch: the j-th announce goes to (s + j) mod n *)
Lemma spec_run_allfail : forall k s j, 0 <= s < n -> (j < k)%nat ->
  nth j (spec_run n s (repeat false k)) (-1) = (s + Z.of_nat j) mod n.
Proof.
  induction k as [|k IH]; intros s j Hs Hj; [lia|].
  cbn [repeat spec_run]. destruct j as [|j].
  - cbn [nth]. rewrite Z.add_0_r, Z.mod_small by lia. reflexivity.
  - cbn [nth]. rewrite IH; [|apply spec_next_range; lia|lia].
    unfold spec_next. rewrite Zplus_mod_idemp_l. f_equal. lia.
Qed.

(* A tracker that starts answering is reached after at most one full cycle of failures. *)
Theorem reached_within_one_cycle s target : 0 <= s < n -> 0 <= target < n ->
  exists j, (j < Z.to_nat n)%nat /\
    nth j (run_seq true n s (repeat false (Z.to_nat n))) (-1) = target.
Proof.
  intros Hs Ht. exists (Z.to_nat ((target - s) mod n)).
  assert (0 <= (target - s) mod n < n) by (apply Z.mod_pos_bound; lia).
  split; [lia|].
  rewrite run_seq_is_spec by lia. rewrite spec_run_allfail by lia.
  rewrite Z2Nat.id by lia. rewrite Zplus_mod_idemp_r.
  replace (s + (target - s)) with target by lia. apply Z.mod_small; lia.
Qed.

(* a tracker that answers keeps being used *)
Theorem success_keeps s k : 0 <= s < n ->
  run_seq true n s (repeat true k) = repeat s k.
Proof.
  intros Hs. rewrite run_seq_is_spec by lia. induction k as [|k IH]; [reflexivity|].
  cbn [repeat spec_run]. f_equal. exact IH.
Qed.

(* ---- concurrent announces ---- *)
Definition cinv (s : cstate) : Prop :=
  0 <= stored_ s < n /\ Forall (fun tv => 0 <= snd tv < n) (inflight s).

Lemma lookup_in tid l v : lookup tid l = Some v -> In v (map snd l).
Proof.
  induction l as [|[t w] r IH]; cbn [lookup map]; [discriminate|].
  destruct (t =? tid); intros H; [inversion H; left; reflexivity | right; auto].
Qed.

Lemma remove_forall (P : Z * Z -> Prop) tid l : Forall P l -> Forall P (remove tid l).
Proof.
  induction 1 as [|[t w] r Hx Hr IH]; cbn [remove]; [constructor|].
  destruct (t =? tid); [assumption | constructor; assumption].
Qed.

Lemma next_index_range k : 0 <= k < n -> 0 <= next_index true n k < n.
Proof. unfold next_index; intros; destruct (k + 1 >=? n) eqn:E; lia. Qed.

Lemma cstep_inv s o : cinv s -> cinv (fst (cstep true n s o)).
Proof.
  intros [Hs Hf]. destruct o as [tid|tid ok]; cbn [cstep].
  - split; cbn [fst stored_ inflight]; [lia|]. constructor; [|assumption].
    cbn [snd]. rewrite load_in_range; lia.
  - destruct (lookup tid (inflight s)) as [v|] eqn:L; cbn [fst]; [|split; assumption].
    assert (Hv : 0 <= v < n).
    { apply lookup_in in L. apply in_map_iff in L. destruct L as [[t w] [E I]].
      cbn in E; subst w. rewrite Forall_forall in Hf. apply (Hf _ I). }
    split; cbn [stored_ inflight]; [|apply remove_forall; assumption].
    destruct ok; [lia|]. unfold cas. destruct (stored_ s =? v); [apply next_index_range|]; lia.
Qed.

Lemma cstep_out_range s o m : cinv s -> snd (cstep true n s o) = Some m -> 0 <= m < n.
Proof.
  intros [Hs _]. destruct o as [tid|tid ok]; cbn [cstep].
  - cbn [snd]. intros H; inversion H. rewrite load_in_range; lia.
  - destruct (lookup tid (inflight s)); cbn [snd]; discriminate.
Qed.

Theorem cfinal_inv : forall ops s, cinv s -> cinv (cfinal true n s ops).
Proof.
  induction ops as [|o r IH]; intros s H; cbn [cfinal]; [assumption|].
  apply IH, cstep_inv, H.
Qed.

(* every member index a concurrent history ever contacts is a valid slice index *)
Theorem crun_in_range : forall ops s, cinv s -> Forall (fun m => 0 <= m < n) (crun true n s ops).
Proof.
  induction ops as [|o r IH]; intros s H; cbn [crun]; [constructor|].
  pose proof (cstep_inv s o H) as Hi. pose proof (cstep_out_range s o) as Ho.
  destruct (cstep true n s o) as [s' out]. cbn [fst snd] in *.
  destruct out as [m|]; [constructor; [apply Ho; auto|]|]; apply IH; assumption.
Qed.

(* a finishing announce moves the tier by exactly one member if it failed on the member the
   tier still points at, and not at all otherwise: concurrent failures of one member advance
   the tier once, not several times *)
Theorem finish_effect s tid ok v : cinv s -> lookup tid (inflight s) = Some v ->
  stored_ (fst (cstep true n s (Finish tid ok))) =
    if negb ok && (stored_ s =? v) then (stored_ s + 1) mod n else stored_ s.
Proof.
  intros [Hs _] L. cbn [cstep]. rewrite L. cbn [fst stored_].
  destruct ok; cbn [negb andb]; [reflexivity|]. unfold cas.
  destruct (stored_ s =? v) eqn:E; [|reflexivity].
  assert (v = stored_ s) by lia. subst v. unfold next_index.
  destruct (stored_ s + 1 >=? n) eqn:E2.
  - assert (stored_ s + 1 = n) as -> by lia. rewrite Z.mod_same by lia. reflexivity.
  - rewrite Z.mod_small by lia. reflexivity.
Qed.

Lemma cinit_inv : cinv cinit.
Proof. split; cbn; [lia|constructor]. Qed.
End Fixed.

(* The code as pinned violates the cycling law: after one full cycle of failures the stored
   index is n, reads as member 0, and CompareAndSwap(0, 1) fails forever. *)
Theorem tier_cycles_refuted_pinned :
  exists n s pat, 0 < n /\ 0 <= s < n /\ run_seq false n s pat <> spec_run n s pat.
Proof. exists 2, 0, [false; false; false; false]. split; [lia|split;[lia|]]. vm_compute. discriminate. Qed.

(* non-vacuity *)
Example tier_example : run_seq true 3 0 [false; false; true; false; false] = [0; 1; 2; 2; 0].
Proof. reflexivity. Qed.

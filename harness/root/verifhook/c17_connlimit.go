//go:build verif

package verifhook

import (
	"fmt"
	"io"
	"math/rand"
	"net"
	"runtime/debug"
	"strconv"
	"sync"
	"sync/atomic"
	"time"

	"github.com/cenkalti/rain/v2/internal/peersource"
	"github.com/cenkalti/rain/v2/torrent"
)

// kind 1702: connection limits and the stop order through the real dialer, acceptor and handshakers of a
// torrent in the stepped loop: address batches (refusing and answering addresses), handshake results in
// the order they arrive, incoming connections, disconnects, stop and start.
// in  = [maxdial maxaccept] then events (coq/theories/ConnLimit.v dec_cev); a handshake result is recorded
//       as it arrived (2 ok / 3 failed outgoing, 5 ok / 6 failed incoming)
// obs = after every event [addresses waiting | outgoing (handshaking+established) | incoming | peers | running]

type clH struct {
	v        *torrent.VLoop
	r        *rand.Rand
	in, obs  []int64
	seq      int
	ids      int64
	lnPort   int
	mu       sync.Mutex
	accepted []net.Conn // connections our answering listener holds
	clients  []net.Conn // our scripted incoming clients
	nclients int
	epoch    int
	badEOF   []chan struct{} // clients whose handshake will be refused, in the order they connected
	extra    []int64
	note     map[string]int
}

func (h *clH) observe() {
	s := h.v.ConnState()
	h.obs = append(h.obs, int64(s.Addrs), int64(s.OutHandshakes+s.OutPeers), int64(s.InHandshakes+s.InPeers), int64(s.OutPeers+s.InPeers), b2i(s.Running))
}

func (h *clH) freshAddr(answering bool) *net.TCPAddr {
	h.seq++
	if answering {
		return &net.TCPAddr{IP: net.IPv4(127, byte(100+h.seq%100), byte(h.seq/100), 1), Port: h.lnPort}
	}
	return &net.TCPAddr{IP: net.IPv4(127, byte(h.seq%90+1), byte(h.seq/90), 2), Port: 1}
}

var (
	gcMu    sync.Mutex
	gcHolds int
	gcOld   int
)

// gcHold / gcRelease switch the garbage collector off while at least one case is watching a socket.
func gcHold() {
	gcMu.Lock()
	if gcHolds == 0 {
		gcOld = debug.SetGCPercent(-1)
	}
	gcHolds++
	gcMu.Unlock()
}

func gcRelease() {
	gcMu.Lock()
	if gcHolds > 0 {
		gcHolds--
		if gcHolds == 0 {
			debug.SetGCPercent(gcOld)
		}
	}
	gcMu.Unlock()
}

func genConnLimit(r *rand.Rand, tier string) Case {
	md, ma := 1+r.Intn(3), 1+r.Intn(3)
	l := genVLayout(r, 2)
	content := l.Content(r.Int63())
	v, err := startLoop(l, content, nil, func(c *torrent.Config) {
		c.MaxPeerDial = md
		c.MaxPeerAccept = ma
		c.DisableOutgoingEncryption = true
		c.UnchokedPeers = 0
		c.OptimisticUnchokedPeers = 0
		c.PeerConnectTimeout = 5 * time.Second
		c.PeerHandshakeTimeout = 10 * time.Second
		c.PEXEnabled = false
	}, false)
	if err != nil {
		return Case{In: []int64{0}, Obs: []int64{-710}}
	}
	defer v.Close()
	if v.Snapshot().Status != "Downloading" {
		return Case{In: []int64{0}, Obs: []int64{-711}, Note: v.Snapshot().Status}
	}
	h := &clH{v: v, r: r, note: map[string]int{}}
	ih := v.InfoHash()
	ln, err := net.Listen("tcp", ":0") // every 127.x.y.z reaches it
	if err != nil {
		return Case{In: []int64{0}, Obs: []int64{-712}}
	}
	defer ln.Close()
	h.lnPort = ln.Addr().(*net.TCPAddr).Port
	go func() {
		for {
			c, err := ln.Accept()
			if err != nil {
				return
			}
			go func(c net.Conn) {
				hs := make([]byte, 68)
				_ = c.SetDeadline(time.Now().Add(15 * time.Second))
				if _, err := io.ReadFull(c, hs); err != nil {
					c.Close()
					return
				}
				_ = c.SetDeadline(time.Time{})
				id := atomic.AddInt64(&h.ids, 1) // listener goroutines run concurrently: peer ids must still be unique
				if _, err := c.Write(btHandshake(ih, fmt.Sprintf("-SL%04d-scriptedpeer", id%10000))); err != nil {
					c.Close()
					return
				}
				h.mu.Lock()
				h.accepted = append(h.accepted, c)
				h.mu.Unlock()
				_, _ = io.Copy(io.Discard, c)
			}(c)
		}
	}()
	defer func() {
		h.mu.Lock()
		for _, c := range h.accepted {
			c.Close()
		}
		h.mu.Unlock()
		for _, c := range h.clients {
			c.Close()
		}
	}()
	h.in = []int64{int64(md), int64(ma)}
	h.observe()
	steps := 6 + r.Intn(14)
	for i, done := 0, 0; i < 200 && done < steps && v.Crash == ""; i++ {
		s := v.ConnState()
		x := r.Intn(100)
		switch {
		case x < 25: // a batch of addresses
			if !s.Running {
				continue
			}
			n := r.Intn(5)
			var addrs []*net.TCPAddr
			for k := 0; k < n; k++ {
				addrs = append(addrs, h.freshAddr(r.Intn(2) == 0))
			}
			src := []peersource.Source{peersource.Tracker, peersource.DHT, peersource.Manual}[r.Intn(3)]
			v.NewAddrs(addrs, src)
			h.in = append(h.in, 1, int64(n))
		case x < 55: // a handshake result, whichever arrives
			if s.OutHandshakes+s.InHandshakes == 0 {
				continue
			}
			// A connection nobody closes is closed by the garbage collector's finaliser sooner or later:
			// keep the collector out of the way while we look whether the client hangs up by itself.
			held := len(h.badEOF) > 0
			if held {
				gcHold()
			}
			dir, ok, _ := v.PumpHandshake(20 * time.Second)
			switch {
			case dir == 2 && ok:
				h.in = append(h.in, 2)
			case dir == 2:
				h.in = append(h.in, 3)
			case dir == 1 && ok:
				h.in = append(h.in, 5)
			case dir == 1:
				h.in = append(h.in, 6)
				// the client must hang up on a peer whose handshake it refused
				closed := int64(0)
				if len(h.badEOF) > 0 {
					deadline := time.After(3 * time.Second)
				wait:
					for {
						for k, ch := range h.badEOF {
							select {
							case <-ch:
								closed = 1
								h.badEOF = append(h.badEOF[:k], h.badEOF[k+1:]...)
								break wait
							default:
							}
						}
						select {
						case <-deadline:
							break wait
						case <-time.After(2 * time.Millisecond):
						}
					}
				} else {
					closed = 1 // a handshake that failed because we hung up ourselves
				}
				h.extra = []int64{closed}
			default:
				h.note["nohandshake"]++
				if held {
					gcRelease()
				}
				continue
			}
			if held {
				gcRelease()
			}
		case x < 70: // somebody connects to us (one time in four with the info hash of another torrent)
			if !s.Running {
				continue
			}
			bad := r.Intn(4) == 0
			d := net.Dialer{LocalAddr: &net.TCPAddr{IP: net.IPv4(127, 0, byte(1+h.nclients/250), byte(1+h.nclients%250))}, Timeout: 5 * time.Second}
			c, err := d.Dial("tcp", net.JoinHostPort("127.0.0.1", strconv.Itoa(v.Port())))
			if err != nil {
				h.note["dialerr"]++
				continue
			}
			h.clients = append(h.clients, c)
			h.nclients++
			eof := make(chan struct{})
			hash := ih
			if bad {
				hash[0] ^= 0xff
				h.badEOF = append(h.badEOF, eof)
			}
			go func(c net.Conn, k int) {
				_, _ = c.Write(btHandshake(hash, fmt.Sprintf("-SC%04d-scriptedpeer", k)))
				_, _ = io.Copy(io.Discard, c)
				close(eof)
			}(c, 1000*h.epoch+h.nclients)
			if !v.PumpConn(10 * time.Second) {
				h.note["noconn"]++
				continue
			}
			if bad {
				h.in = append(h.in, 11)
			} else {
				h.in = append(h.in, 4)
			}
		case x < 82: // an established peer goes away
			if s.OutPeers+s.InPeers == 0 {
				continue
			}
			out := s.OutPeers > 0 && (s.InPeers == 0 || r.Intn(2) == 0)
			closedOne := false
			if out {
				h.mu.Lock()
				for k, c := range h.accepted { // one whose handshake the loop has already turned into a peer
					if v.HasOutgoingPeerTo(c.LocalAddr().(*net.TCPAddr).IP) {
						c.Close()
						h.accepted = append(h.accepted[:k], h.accepted[k+1:]...)
						closedOne = true
						break
					}
				}
				h.mu.Unlock()
			} else {
				// close a client whose handshake has completed: the oldest still open
				for k, c := range h.clients {
					if c != nil && v.HasIncomingPeerFrom(c.LocalAddr().(*net.TCPAddr).IP) {
						c.Close()
						h.clients[k] = nil
						closedOne = true
						break
					}
				}
				// drop closed entries
				var keep []net.Conn
				for _, c := range h.clients {
					if c != nil {
						keep = append(keep, c)
					}
				}
				h.clients = keep
			}
			if !closedOne {
				continue
			}
			if e := v.PumpEx(10*time.Second, torrent.ClsDisc); e.Code == torrent.EvNone {
				h.note["nodisc"]++
				continue
			}
			if out {
				h.in = append(h.in, 7)
			} else {
				h.in = append(h.in, 8)
			}
		case x < 90:
			if !s.Running {
				continue
			}
			v.Stop()
			if e := v.PumpEx(10*time.Second, torrent.ClsStopped); e.Code != torrent.EvAnnouncersStopped {
				h.note["stopfail"]++
			}
			h.mu.Lock()
			for _, c := range h.accepted {
				c.Close()
			}
			h.accepted = nil
			h.mu.Unlock()
			for _, c := range h.clients {
				c.Close()
			}
			h.clients = nil
			h.badEOF = nil
			h.nclients = 0 // after a restart the same addresses come back
			h.epoch++
			h.in = append(h.in, 9)
		default:
			if s.Running {
				continue
			}
			v.Start()
			if v.Snapshot().Status == "Allocating" {
				v.PumpEx(10*time.Second, torrent.ClsAlloc)
			}
			if v.Snapshot().Status == "Verifying" {
				v.PumpEx(10*time.Second, torrent.ClsVerify)
			}
			h.in = append(h.in, 10)
		}
		h.observe()
		h.obs = append(h.obs, h.extra...)
		h.extra = nil
		done++
	}
	if v.Crash != "" {
		h.obs = append(h.obs, CrashMark)
	}
	note := ""
	for k, n := range h.note {
		note += fmt.Sprintf("%s=%d ", k, n)
	}
	return Case{In: h.in, Obs: h.obs, Note: note}
}

func init() {
	Register(1702, "connection limits and stop order through the real dialer, acceptor and handshakers of a torrent", genConnLimit)
}

//go:build verif

package verifhook

import (
	"math/rand"
	"sort"

	"github.com/cenkalti/rain/v2/internal/bitfield"
	"github.com/cenkalti/rain/v2/internal/peer"
	"github.com/cenkalti/rain/v2/internal/piece"
	"github.com/cenkalti/rain/v2/internal/piecepicker"
)

type pkHarness struct {
	pieces []piece.Piece
	pk     *piecepicker.PiecePicker
	peers  map[int64]*peer.Peer
	ids    map[*peer.Peer]int64
	pd     map[int64][2]int64 // peer -> (piece, af)
	in     []int64
	obs    []int64
}

func (h *pkHarness) peer(id int64) *peer.Peer {
	if p, ok := h.peers[id]; ok {
		return p
	}
	p := &peer.Peer{Bitfield: bitfield.New(uint32(len(h.pieces))), PeerChoking: true}
	h.peers[id] = p
	h.ids[p] = id
	return p
}

func (h *pkHarness) observe() {
	h.obs = append(h.obs, int64(h.pk.Available()))
	for i := range h.pieces {
		ps := h.pk.RequestedPeers(uint32(i))
		var ids []int64
		for _, p := range ps {
			ids = append(ids, h.ids[p])
		}
		sort.Slice(ids, func(a, b int) bool { return ids[a] < ids[b] })
		h.obs = append(h.obs, int64(len(ids)))
		h.obs = append(h.obs, ids...)
		// the stalled-download marks (Snubbed, Choked) of the piece
		sn, ch := h.pk.StalledMarks(uint32(i))
		for _, set := range [][]*peer.Peer{sn, ch} {
			var ms []int64
			for _, p := range set {
				ms = append(ms, h.ids[p])
			}
			sort.Slice(ms, func(a, b int) bool { return ms[a] < ms[b] })
			h.obs = append(h.obs, int64(len(ms)))
			h.obs = append(h.obs, ms...)
		}
	}
}

// apply runs one glue-level op against the real picker (re-implementing the torrent loop's glue)
func (h *pkHarness) apply(op []int64) {
	switch op[0] {
	case 1:
		h.pk.HandleHave(h.peer(op[1]), uint32(op[2]))
		h.in = append(h.in, op...)
	case 2:
		h.pk.HandleAllowedFast(h.peer(op[1]), uint32(op[2]))
		h.in = append(h.in, op...)
	case 3:
		pe := h.peer(op[1])
		pe.PeerChoking = false
		if d, ok := h.pd[op[1]]; ok && d[1] == 0 {
			h.pk.HandleUnchoke(pe, uint32(d[0]))
		}
		h.in = append(h.in, op...)
	case 4:
		pe := h.peer(op[1])
		pe.PeerChoking = true
		if d, ok := h.pd[op[1]]; ok && d[1] == 0 {
			h.pk.HandleChoke(pe, uint32(d[0]))
		}
		h.in = append(h.in, op...)
	case 5:
		pe := h.peer(op[1])
		if d, ok := h.pd[op[1]]; ok && !pe.PeerChoking {
			pe.Snubbed = true
			h.pk.HandleSnubbed(pe, uint32(d[0]))
		}
		h.in = append(h.in, op...)
	case 6:
		pe := h.peer(op[1])
		pi, af := h.pk.PickFor(pe)
		res := int64(-1)
		if pi != nil {
			res = int64(pi.Index)*2 + b2i(af)
			h.pd[op[1]] = [2]int64{int64(pi.Index), b2i(af)}
			pe.Downloading = true
		}
		h.in = append(h.in, 6, op[1], res)
	case 7:
		h.closeDL(op[1])
		h.in = append(h.in, op...)
	case 8:
		pe := h.peer(op[1])
		h.closeDL(op[1])
		h.pk.HandleDisconnect(pe)
		delete(h.peers, op[1])
		h.in = append(h.in, op...)
	case 9:
		h.pieces[op[1]].Writing = true
		h.in = append(h.in, op...)
	case 10:
		h.pieces[op[1]].Writing = false
		h.pieces[op[1]].Done = op[2] != 0
		h.in = append(h.in, op...)
	}
	h.observe()
}

func (h *pkHarness) closeDL(id int64) {
	if d, ok := h.pd[id]; ok {
		pe := h.peer(id)
		delete(h.pd, id)
		h.pk.HandleCancelDownload(pe, uint32(d[0]))
		pe.Downloading = false
	}
}

func newPkHarness(np int, seq bool, maxdup int, lens []int64, pads []bool, pl int64) *pkHarness {
	_, ps, err := NewPiecesFor(pl, lens, pads)
	if err != nil || len(ps) != np {
		return nil
	}
	h := &pkHarness{pieces: ps, peers: map[int64]*peer.Peer{}, ids: map[*peer.Peer]int64{}, pd: map[int64][2]int64{}}
	h.pk = piecepicker.New(h.pieces, maxdup, nil, seq)
	return h
}

func genPicker(r *rand.Rand, tier string) Case {
	// layout: a few files so that sequential mode has file edges
	pl := int64(16384)
	np := 1 + r.Intn(10)
	total := pl*int64(np-1) + 1 + int64(r.Intn(int(pl)))
	nf := 1 + r.Intn(3)
	var lens []int64
	rem := total
	for i := 0; i < nf-1; i++ {
		x := int64(r.Int63n(rem + 1))
		lens = append(lens, x)
		rem -= x
	}
	lens = append(lens, rem)
	pads := make([]bool, nf)
	seq := r.Intn(3) == 0
	maxdup := int(pick(r, 0, 1, 2, 2, 20))
	h := newPkHarness(np, seq, maxdup, lens, pads, pl)
	if h == nil {
		return Case{In: []int64{0, 0, 0}, Obs: nil}
	}
	head, tail := h.pk.EdgeFlags()
	h.in = []int64{int64(np), b2i(seq), int64(maxdup)}
	for i := 0; i < np; i++ {
		h.in = append(h.in, b2i(head[i]), b2i(tail[i]))
	}
	npeers := 1 + r.Intn(5)
	nextID := int64(npeers)
	live := []int64{}
	for i := 0; i < npeers; i++ {
		live = append(live, int64(i))
	}
	writing := int64(-1) // piece currently being written (at most one)
	steps := 10 + r.Intn(70)
	if tier == "thorough" {
		steps = 10 + r.Intn(200)
	}
	anyPeer := func() int64 { return live[r.Intn(len(live))] }
	for s := 0; s < steps && len(live) > 0; s++ {
		pe := anyPeer()
		switch x := r.Intn(100); {
		case x < 22:
			if r.Intn(4) == 0 { // seed-like: has everything
				for i := 0; i < np; i++ {
					h.apply([]int64{1, pe, int64(i)})
				}
			} else {
				h.apply([]int64{1, pe, int64(r.Intn(np))})
			}
		case x < 27:
			h.apply([]int64{2, pe, int64(r.Intn(np))})
		case x < 40:
			h.apply([]int64{3, pe})
			if _, ok := h.pd[pe]; !ok {
				h.apply([]int64{6, pe})
			}
		case x < 47:
			h.apply([]int64{4, pe})
			for _, q := range live { // startPieceDownloaders
				if _, ok := h.pd[q]; !ok {
					h.apply([]int64{6, q})
				}
			}
		case x < 53:
			h.apply([]int64{5, pe})
			for _, q := range live {
				if _, ok := h.pd[q]; !ok {
					h.apply([]int64{6, q})
				}
			}
		case x < 75:
			h.apply([]int64{6, pe})
		case x < 79:
			h.apply([]int64{7, pe})
		case x < 84:
			h.apply([]int64{8, pe})
			for i, q := range live {
				if q == pe {
					live = append(live[:i], live[i+1:]...)
					break
				}
			}
			if r.Intn(2) == 0 {
				live = append(live, nextID)
				nextID++
			}
		case x < 93:
			// a downloader completes its piece: close it, piece goes to the writer, peer re-picks
			if d, ok := h.pd[pe]; ok && writing < 0 && !h.pieces[d[0]].Writing && !h.pieces[d[0]].Done {
				h.apply([]int64{7, pe})
				h.apply([]int64{9, d[0]})
				writing = d[0]
				h.apply([]int64{6, pe})
			}
		default:
			if writing >= 0 {
				ok := r.Intn(4) != 0
				h.apply([]int64{10, writing, b2i(ok)})
				if ok {
					// cancel every other downloader of the piece and let those peers re-pick
					for _, q := range live {
						if d, has := h.pd[q]; has && d[0] == writing {
							h.apply([]int64{7, q})
							h.apply([]int64{6, q})
						}
					}
				} else {
					for _, q := range live {
						if _, has := h.pd[q]; !has {
							h.apply([]int64{6, q})
						}
					}
				}
				writing = -1
			}
		}
	}
	return Case{In: h.in, Obs: h.obs}
}

// replay: the pick results stored in the input are ignored; the real picker decides again
func runPickerReplay(in []int64) []int64 {
	return []int64{-1} // op sequences embed observed choices; replay is done by re-generation
}

func init() {
	Register(901, "piecepicker under the torrent glue: Have/AllowedFast/Choke/Unchoke/Snub/Pick/Cancel/Disconnect/Writing/Written", genPicker)
}

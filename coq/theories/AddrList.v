(* Model of internal/addrlist: candidate peer addresses as a bounded set keyed by priority,
   with push-time filters, oldest-first eviction and pop-max.  Definitions only. *)
From RainV Require Import Lib Stree.

Record entry := { e_ip : Z; e_port : Z; e_src : Z; e_prio : Z; e_time : Z }.

Record cfg := { maxItems : Z; listenPort : Z; clientIP : option Z; blockRanges : option (list (Z * Z)) }.

Record alist := { items : list entry;          (* peerByTime order *)
                  counts : list Z;             (* countBySource[0..4] *)
                  clock : Z }.

Definition empty_counts : list Z := [0; 0; 0; 0; 0].
Definition al_init : alist := {| items := []; counts := empty_counts; clock := 0 |}.

Fixpoint bump (cs : list Z) (src : nat) (d : Z) : list Z :=
  match cs, src with
  | c :: r, O => (c + d) :: r
  | c :: r, S k => c :: bump r k d
  | [], _ => []
  end.

Definition is_loopback (ip : Z) : bool := ip / 16777216 =? 127.

(* the push-time filter: true = discarded *)
Definition filtered (c : cfg) (ip port : Z) : bool :=
  (port =? 0) ||
  (is_loopback ip && (port =? listenPort c)) ||
  (match clientIP c with Some cip => ip =? cip | None => false end) ||
  (match blockRanges c with Some rs => in_some_range rs ip | None => false end).

(* ReplaceOrInsert by priority: returns the replaced entry if any *)
Fixpoint replace_prio (l : list entry) (e : entry) : list entry * option entry :=
  match l with
  | [] => ([], None)
  | x :: r => if e_prio x =? e_prio e then (e :: r, Some x)
              else let '(r', o) := replace_prio r e in (x :: r', o)
  end.

Definition add_one (st : list entry * list Z) (e : entry) : list entry * list Z :=
  let '(l, cs) := st in
  match replace_prio l e with
  | (l', Some prev) => (l', bump cs (Z.to_nat (e_src prev)) (-1))
  | (_, None) => (l ++ [e], cs)
  end.

(* stable sort by timestamp when only entries stamped [now] can be out of place *)
Definition resort (now : Z) (l : list entry) : list entry :=
  filter (fun e => e_time e <? now) l ++ filter (fun e => negb (e_time e <? now)) l.

Fixpoint evict (n : nat) (l : list entry) (cs : list Z) : list entry * list Z :=
  match n, l with
  | S k, e :: r => evict k r (bump cs (Z.to_nat (e_src e)) (-1))
  | _, _ => (l, cs)
  end.

Definition push (c : cfg) (s : alist) (src : Z) (addrs : list (Z * Z * Z)) : alist :=
  let now := clock s + 1 in
  let es := flat_map (fun a => let '(ip, port, prio) := a in
                               if filtered c ip port then []
                               else [{| e_ip := ip; e_port := port; e_src := src; e_prio := prio; e_time := now |}]) addrs in
  let '(l1, cs1) := fold_left add_one es (items s, counts s) in
  let l2 := resort now l1 in
  let cs2 := bump cs1 (Z.to_nat src) (zlen es) in
  let delta := zlen l2 - maxItems c in
  let '(l3, cs3) := if delta >? 0 then evict (Z.to_nat delta) l2 cs2 else (l2, cs2) in
  {| items := l3; counts := cs3; clock := now |}.

Fixpoint max_prio (l : list entry) (best : option entry) : option entry :=
  match l with
  | [] => best
  | x :: r => max_prio r (match best with
                          | Some b => if e_prio b <? e_prio x then Some x else best
                          | None => Some x
                          end)
  end.

Fixpoint remove_prio (l : list entry) (p : Z) : list entry :=
  match l with
  | [] => []
  | x :: r => if e_prio x =? p then r else x :: remove_prio r p
  end.

Definition pop (s : alist) : alist * option entry :=
  match max_prio (items s) None with
  | None => (s, None)
  | Some e => ({| items := remove_prio (items s) (e_prio e);
                  counts := bump (counts s) (Z.to_nat (e_src e)) (-1); clock := clock s |}, Some e)
  end.

Definition reset (s : alist) : alist := {| items := []; counts := empty_counts; clock := clock s |}.

(* ---- case codec, kind 1803 ----
   in = [maxItems; listenPort; clientIP|-1; nranges|-1; (a b)*; ops...]
   ops: 0 src n (ip port prio)* | 1 | 2 ; out per op: push/reset -> len c0..c4 ; pop -> ip port src len c0..c4 *)
Fixpoint rd_addrs (n : nat) (l : list Z) : list (Z * Z * Z) * list Z :=
  match n, l with
  | S k, ip :: port :: prio :: r => let '(as_, rest) := rd_addrs k r in ((ip, port, prio) :: as_, rest)
  | _, _ => ([], l)
  end.

Definition obs_of (s : alist) : list Z := zlen (items s) :: counts s.

Fixpoint run_al_go (fuel : nat) (c : cfg) (s : alist) (l : list Z) : list Z :=
  match fuel with
  | O => []
  | S f =>
    match l with
    | 0 :: src :: n :: r => let '(as_, rest) := rd_addrs (Z.to_nat n) r in
                            let s' := push c s src as_ in obs_of s' ++ run_al_go f c s' rest
    | 1 :: r => let '(s', o) := pop s in
                (match o with Some e => [e_ip e; e_port e; e_src e] | None => [-1; -1; -1] end)
                ++ obs_of s' ++ run_al_go f c s' r
    | 2 :: r => let s' := reset s in obs_of s' ++ run_al_go f c s' r
    | _ => []
    end
  end.

Definition decode_cfg (inp : list Z) : option (cfg * list Z) :=
  match inp with
  | mi :: lp :: cip :: nr :: r =>
      if nr <? 0 then Some ({| maxItems := mi; listenPort := lp; clientIP := if cip <? 0 then None else Some cip;
                               blockRanges := None |}, r)
      else let '(rs, rest) := rd_pairs (Z.to_nat nr) r in
           Some ({| maxItems := mi; listenPort := lp; clientIP := if cip <? 0 then None else Some cip;
                    blockRanges := Some rs |}, rest)
  | _ => None
  end.

Definition run_addrlist (inp : list Z) : list Z :=
  match decode_cfg inp with
  | Some (c, ops) => run_al_go (length ops) c al_init ops
  | None => [-779]
  end.

(* monitor over observables: lengths within the bound, counters equal to the length and
   non-negative, popped addresses pass the filter, pops come out in decreasing priority between
   pushes (priorities recovered from the pushed input) *)
Fixpoint prio_of (ops : list Z) (fuel : nat) (ip port : Z) : option Z :=
  match fuel with
  | O => None
  | S f =>
    match ops with
    | 0 :: _ :: n :: r =>
        let '(as_, rest) := rd_addrs (Z.to_nat n) r in
        match find (fun a => let '(i, p, _) := a in (i =? ip) && (p =? port)) as_ with
        | Some (_, _, pr) => Some pr
        | None => prio_of rest f ip port
        end
    | 1 :: r => prio_of r f ip port
    | 2 :: r => prio_of r f ip port
    | _ => None
    end
  end.

Definition sum_list (l : list Z) : Z := fold_right Z.add 0 l.

Fixpoint mon_al_go (fuel : nat) (c : cfg) (allops : list Z) (lastpop : option Z) (l obs : list Z) : bool :=
  match fuel with
  | O => true
  | S f =>
    let chk (o : list Z) := match o with
                            | len :: c0 :: c1 :: c2 :: c3 :: c4 :: rest =>
                                Some ((0 <=? len) && (len <=? Z.max 0 (maxItems c)) && (len =? c0 + c1 + c2 + c3 + c4)
                                      && forallb (fun x => 0 <=? x) [c0; c1; c2; c3; c4], rest)
                            | _ => None
                            end in
    match l with
    | 0 :: src :: n :: r =>
        let '(_, rest) := rd_addrs (Z.to_nat n) r in
        match chk obs with Some (ok, obs') => ok && mon_al_go f c allops None rest obs' | None => false end
    | 1 :: r =>
        match obs with
        | ip :: port :: src :: obs1 =>
            let okpop :=
              if ip =? -1 then true
              else negb (filtered c ip port) &&
                   match prio_of allops (length allops) ip port, lastpop with
                   | Some p, Some lp => p <? lp
                   | Some _, None => true
                   | None, _ => false
                   end in
            let lp' := if ip =? -1 then lastpop else prio_of allops (length allops) ip port in
            match chk obs1 with Some (ok, obs') => okpop && ok && mon_al_go f c allops lp' r obs' | None => false end
        | _ => false
        end
    | 2 :: r => match chk obs with Some (ok, obs') => ok && mon_al_go f c allops None r obs' | None => false end
    | [] => match obs with [] => true | _ => false end
    | _ => false
    end
  end.

Definition mon_addrlist (inp obs : list Z) : bool :=
  match decode_cfg inp with
  | Some (c, ops) => mon_al_go (S (length ops)) c ops None ops obs
  | None => false
  end.

(* kind 1804: a queued address whose peer was banned meanwhile is not dialled (variant 0: banned, not dialled;
   variant 1: the honest peer left, its address is dialled) *)
Definition run_bandial (inp : list Z) : list Z :=
  match inp with [v] => if v =? 0 then [1; 0] else [0; 1] | _ => [-779] end.

//go:build verif

package verifhook

import (
	"context"
	"encoding/binary"
	"math"
	"math/rand"
	"net"
	"net/http"
	"net/http/httptest"
	"net/url"
	"sync"
	"time"

	"github.com/cenkalti/rain/v2/internal/tracker"
	"github.com/cenkalti/rain/v2/internal/tracker/httptracker"
	"github.com/cenkalti/rain/v2/internal/tracker/udptracker"
)

func decodeAreq(in []int64) (tracker.AnnounceRequest, []int64) {
	var t tracker.Torrent
	t.BytesDownloaded, t.BytesLeft, t.BytesUploaded = in[0], in[1], in[2]
	ev, nw := in[3], in[4]
	t.Port = int(in[5])
	for i := 0; i < 20; i++ {
		t.InfoHash[i] = byte(in[6+i])
		t.PeerID[i] = byte(in[26+i])
	}
	return tracker.AnnounceRequest{Torrent: t, Event: tracker.Event(ev), NumWant: int(nw)}, in[46:]
}

func genAreq(r *rand.Rand) []int64 {
	cnt := func() int64 { return pick(r, 0, 1, 1<<32, math.MaxInt64, int64(r.Uint32()), 16384) }
	in := []int64{cnt(), cnt(), cnt(), int64(r.Intn(4)), pick(r, 0, 50, 200, 1000), pick(r, 6881, 1, 65535, 51413, 256)}
	for i := 0; i < 40; i++ {
		b := int64(r.Intn(256))
		if r.Intn(4) == 0 {
			b = pick(r, 0, 255, '%', '&', '=', ' ', '+', '-', 'a')
		}
		in = append(in, b)
	}
	return in
}

func runUDPPacket(in []int64) []int64 {
	connID, txID := in[0], int32(in[1])
	req, rest := decodeAreq(in[2:])
	urlData, _ := takeLP(rest)
	b := udptracker.AnnouncePacket(req, connID, txID, string(urlData))
	obs := make([]int64, len(b))
	for i, c := range b {
		obs[i] = int64(c)
	}
	return obs
}

func genUDPPacket(r *rand.Rand, tier string) Case {
	in := []int64{pick(r, 0x41727101980, int64(r.Uint64()>>1), -1, math.MinInt64), int64(int32(r.Uint32()))}
	in = append(in, genAreq(r)...)
	var url []byte
	switch r.Intn(4) {
	case 0:
		url = []byte("/announce?passkey=abc")
	case 1:
		url = make([]byte, []int{254, 255, 256, 300, 600}[r.Intn(5)])
		for i := range url {
			url[i] = byte('a' + i%26)
		}
	}
	in = append(in, lpBytes(url)...)
	return Case{In: in, Obs: Guard(func() []int64 { return runUDPPacket(in) })}
}

var httpSrvOnce sync.Once
var httpSrv *httptest.Server
var httpMu sync.Mutex
var httpBodies = map[string][]byte{}
var httpSeen = map[string]string{}

func httpServer() *httptest.Server {
	httpSrvOnce.Do(func() {
		httpSrv = httptest.NewServer(http.HandlerFunc(func(w http.ResponseWriter, rq *http.Request) {
			id := rq.URL.Path
			httpMu.Lock()
			httpSeen[id] = rq.URL.RawQuery
			body := httpBodies[id]
			httpMu.Unlock()
			w.Header().Set("Content-Type", "text/plain")
			_, _ = w.Write(body)
		}))
	})
	return httpSrv
}

var httpCounter int64

func httpAnnounce(req tracker.AnnounceRequest, trackerID string, body []byte) (string, *tracker.AnnounceResponse, error) {
	srv := httpServer()
	httpMu.Lock()
	httpCounter++
	id := "/t" + itoa(int(httpCounter))
	httpBodies[id] = body
	httpMu.Unlock()
	raw := srv.URL + id
	u, _ := url.Parse(raw)
	tp := &http.Transport{}
	defer tp.CloseIdleConnections() // thousands of cases per process: do not pile up idle connections
	tr := httptracker.New(raw, u, 5*time.Second, tp, "verif-agent", 1<<20)
	if trackerID != "" {
		// first announce teaches the tracker id
		httpMu.Lock()
		httpBodies[id] = []byte("d8:intervali1e10:tracker id" + itoa(len(trackerID)) + ":" + trackerID + "e")
		httpMu.Unlock()
		_, _ = tr.Announce(context.Background(), req)
		httpMu.Lock()
		httpBodies[id] = body
		httpMu.Unlock()
	}
	resp, err := tr.Announce(context.Background(), req)
	httpMu.Lock()
	q := httpSeen[id]
	delete(httpBodies, id)
	delete(httpSeen, id)
	httpMu.Unlock()
	return q, resp, err
}

func runHTTPQuery(in []int64) []int64 {
	req, rest := decodeAreq(in)
	tid, _ := takeLP(rest)
	q, _, _ := httpAnnounce(req, string(tid), []byte("d8:intervali1800ee"))
	obs := make([]int64, len(q))
	for i := 0; i < len(q); i++ {
		obs[i] = int64(q[i])
	}
	return obs
}

func genHTTPQuery(r *rand.Rand, tier string) Case {
	in := genAreq(r)
	var tid []byte
	if r.Intn(3) == 0 {
		tid = []byte("tid123")
	}
	in = append(in, lpBytes(tid)...)
	return Case{In: in, Obs: Guard(func() []int64 { return runHTTPQuery(in) })}
}

func peersObs(peers []*net.TCPAddr) []int64 {
	var o []int64
	for _, p := range peers {
		ip4 := p.IP.To4()
		if ip4 == nil {
			o = append(o, -1, int64(p.Port)) // not a well-formed IPv4 address
		} else {
			o = append(o, int64(binary.BigEndian.Uint32(ip4)), int64(p.Port))
		}
	}
	return o
}

func runUDPParse(in []int64) []int64 {
	b := make([]byte, len(in))
	for i, c := range in {
		b[i] = byte(c)
	}
	iv, le, se, peers, err := udptracker.ParseAnnounceResponse(b)
	if err != nil {
		return []int64{0}
	}
	return append([]int64{1, int64(iv), int64(le), int64(se), int64(len(peers))}, peersObs(peers)...)
}

func genUDPParse(r *rand.Rand, tier string) Case {
	n := []int{0, 1, 7, 8, 11, 12, 16, 19, 20, 21, 25, 26, 32, 38, 20 + 6*r.Intn(20), 20 + r.Intn(60)}[r.Intn(16)]
	b := make([]byte, n)
	r.Read(b)
	if n >= 4 && r.Intn(4) != 0 {
		binary.BigEndian.PutUint32(b, uint32(pick(r, 1, 1, 1, 0, 2, 3)))
	}
	in := make([]int64, n)
	for i, c := range b {
		in[i] = int64(c)
	}
	return Case{In: in, Obs: Guard(func() []int64 { return runUDPParse(in) })}
}

func runHTTPParse(in []int64) []int64 {
	body := make([]byte, len(in))
	for i, c := range in {
		body[i] = byte(c)
	}
	var req tracker.AnnounceRequest
	_, resp, err := httpAnnounce(req, "", body)
	if err != nil {
		if te, ok := err.(*tracker.Error); ok {
			return []int64{2, int64(te.RetryIn / time.Minute)}
		}
		return []int64{0}
	}
	return append([]int64{1, int64(resp.Interval / time.Second), int64(resp.MinInterval / time.Second), int64(len(resp.Peers))}, peersObs(resp.Peers)...)
}

func genHTTPParse(r *rand.Rand, tier string) Case {
	var body []byte
	d := func(k string, v []byte) { body = append(append(body, benStr([]byte(k))...), v...) }
	body = append(body, 'd')
	// keys must be sorted for a canonical dictionary
	if r.Intn(5) == 0 {
		d("failure reason", benStr([]byte("nope")))
	}
	if r.Intn(2) == 0 {
		d("interval", benInt(pick(r, 0, -1, 1, 1800, math.MaxInt32, math.MaxInt32+1, math.MinInt32)))
	}
	if r.Intn(3) == 0 {
		d("min interval", benInt(pick(r, 0, -5, 60, math.MaxInt32)))
	}
	if r.Intn(3) != 0 {
		n := []int{0, 6, 12, 5, 7, 60}[r.Intn(6)]
		p := make([]byte, n)
		r.Read(p)
		d("peers", benStr(p))
	}
	if r.Intn(6) == 0 {
		d("retry in", benStr([]byte([]string{"5", "never", "-3", "", "10x"}[r.Intn(5)])))
	}
	body = append(body, 'e')
	switch r.Intn(10) {
	case 0:
		body = body[:r.Intn(len(body))] // truncated
	case 1:
		body = []byte("<html>not bencode</html>")
	}
	in := make([]int64, len(body))
	for i, c := range body {
		in[i] = int64(c)
	}
	return Case{In: in, Obs: Guard(func() []int64 { return runHTTPParse(in) })}
}

func init() {
	Register(1501, "UDP announce datagram built by udptracker for generated requests", genUDPPacket)
	RegisterReplay(1501, runUDPPacket)
	Register(1502, "HTTP announce query as received by a local HTTP server", genHTTPQuery)
	RegisterReplay(1502, runHTTPQuery)
	Register(1602, "udptracker.parseAnnounceResponse on generated datagrams", genUDPParse)
	RegisterReplay(1602, runUDPParse)
	Register(1603, "httptracker response interpretation on generated bodies via a local HTTP server", genHTTPParse)
	RegisterReplay(1603, runHTTPParse)
}

(* Resume record codec (internal/resumer/boltdbresumer): the scalar fields are stored as decimal /
   "true"/"false" text; byte fields raw; string lists through encoding/json (trusted, sampled).
   Definitions only. *)
From RainV Require Import Lib Bencode.

(* strconv.Itoa / FormatInt(…, 10) and Atoi / ParseInt(…, 10, 64) on the text they produce *)
Definition fmt_int (z : Z) : list Z := bytes_of_Z z.
Definition parse_int (s : list Z) : option Z :=
  match dec_int (s ++ [101]) with Some (z, []) => Some z | _ => None end.

(* strconv.FormatBool / ParseBool *)
Definition fmt_bool (b : bool) : list Z := if b then [116; 114; 117; 101] else [102; 97; 108; 115; 101].
Definition parse_bool (s : list Z) : option bool :=
  if list_eqb_Z s [116; 114; 117; 101] || list_eqb_Z s [49] || list_eqb_Z s [116] || list_eqb_Z s [84] then Some true
  else if list_eqb_Z s [102; 97; 108; 115; 101] || list_eqb_Z s [48] || list_eqb_Z s [102] || list_eqb_Z s [70] then Some false
  else None.

(* kind 1401: the record read back equals the record written, up to: version 0 is stored as the latest
   version (3), the added-at time is stored with second precision.
   in = [port bd bu bw seeded started sad sam ccr seq version addedSec addedNanos | rest (lengths and bytes of name,
         trackers, url list, fixed peers, info, bitfield)]; obs = the same layout read back *)
Definition run_resume (inp : list Z) : list Z :=
  match inp with
  | port :: bd :: bu :: bw :: seeded :: st :: sad :: sam :: ccr :: sq :: version :: asec :: anano :: rest =>
      port :: bd :: bu :: bw :: seeded :: st :: sad :: sam :: ccr :: sq :: (if version =? 0 then 3 else version) :: asec :: 0 :: rest
  | _ => [-779]
  end.

//go:build verif

// rainverif <kind> <seed> <count> <tier> [start]   -> prints <count> case lines
// rainverif replay <kind> < file-with-input-lines    -> re-runs the implementation on given inputs
package main

import (
	"bufio"
	"fmt"
	"math/rand"
	"os"
	"runtime"
	"strconv"
	"sync"
	"time"

	"github.com/cenkalti/rain/v2/verifhook"
)

const caseTimeout = 90 * time.Second

func caseSeed(seed int64, kind, idx int) int64 {
	x := uint64(seed)*0x9E3779B97F4A7C15 + uint64(kind)*0xBF58476D1CE4E5B9 + uint64(idx)*0x94D049BB133111EB
	x ^= x >> 31
	x *= 0xD6E8FEB86659FD93
	x ^= x >> 29
	return int64(x & 0x7fffffffffffffff)
}

func main() {
	if len(os.Args) >= 3 && os.Args[1] == "replay" {
		kind, _ := strconv.Atoi(os.Args[2])
		rp := verifhook.Replayers[kind]
		if rp == nil {
			fmt.Fprintln(os.Stderr, "no replayer for kind", kind)
			os.Exit(2)
		}
		sc := bufio.NewScanner(os.Stdin)
		sc.Buffer(make([]byte, 1<<20), 1<<28)
		w := bufio.NewWriter(os.Stdout)
		defer w.Flush()
		for sc.Scan() {
			c, err := verifhook.ParseLine(sc.Text())
			if err != nil {
				continue
			}
			in := c.In
			c.Obs = verifhook.Guard(func() []int64 { return rp(in) })
			fmt.Fprintln(w, verifhook.Line(c))
		}
		return
	}
	if len(os.Args) < 5 {
		fmt.Fprintln(os.Stderr, "usage: rainverif <kind> <seed> <count> <tier> [start] | rainverif replay <kind>")
		os.Exit(2)
	}
	kind, _ := strconv.Atoi(os.Args[1])
	seed, _ := strconv.ParseInt(os.Args[2], 10, 64)
	count, _ := strconv.Atoi(os.Args[3])
	tier := os.Args[4]
	start := 0
	if len(os.Args) > 5 {
		start, _ = strconv.Atoi(os.Args[5])
	}
	verifhook.CaseCount = count
	g := verifhook.Kinds[kind]
	if g == nil {
		fmt.Fprintln(os.Stderr, "unknown kind", kind)
		os.Exit(2)
	}
	hung := false
	lines := make([]string, count)
	notes := make([]string, count)
	var wg sync.WaitGroup
	sem := make(chan struct{}, 16)
	for i := 0; i < count; i++ {
		wg.Add(1)
		sem <- struct{}{}
		go func(i int) {
			defer wg.Done()
			defer func() { <-sem }()
			r := rand.New(rand.NewSource(caseSeed(seed, kind, start+i)))
			// a case that does not come back (the client under test hangs) is reported, not waited for
			done := make(chan verifhook.Case, 1)
			go func() { done <- g(r, tier) }()
			var c verifhook.Case
			select {
			case c = <-done:
				verifhook.Unmark(r)
			case <-time.After(caseTimeout):
				c = verifhook.Case{In: []int64{0}, Obs: []int64{verifhook.HangMark}, Note: "hang"}
				hung = true
				// where every goroutine is, for the report
				buf := make([]byte, 8<<20)
				buf = buf[:runtime.Stack(buf, true)]
				buf = append([]byte("progress marks of the case:\n"+verifhook.Marks(r)+"\n"), buf...)
				_ = os.WriteFile(fmt.Sprintf("/verif/.work/hang_%d_%d_%d.txt", kind, seed, start+i), buf, 0o644)
			}
			c.Kind = kind
			lines[i] = verifhook.Line(c)
			notes[i] = c.Note
		}(i)
	}
	wg.Wait()
	w := bufio.NewWriter(os.Stdout)
	defer w.Flush()
	for i, l := range lines {
		if notes[i] != "" {
			fmt.Fprintln(w, l+"|#"+notes[i])
		} else {
			fmt.Fprintln(w, l)
		}
	}
	if hung {
		w.Flush()
		os.Exit(0) // stuck goroutines of hung cases must not keep the process alive
	}
}

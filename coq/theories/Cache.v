(* Model of internal/cachedpiece (ReadAt through fixed-size cache blocks) and of
   internal/piececache (LRU cache with a size bound).  Definitions only. *)
From RainV Require Import Lib Geometry SectionIO.

(* ---- cachedpiece.ReadAt ---- *)
(* the bytes of cache block [blk] of a piece with content [c] (|c| = plen) *)
Definition block_of (c : list Z) (plen rs blk : Z) : list Z :=
  slice c (blk * rs) (Z.min (blk * rs + rs) plen - blk * rs).

(* one pass of the pinned ReadAt: copy(p, buf[off - blkBegin:]) *)
Definition read_once (c : list Z) (plen rs off n : Z) : list Z :=
  let blk := off / rs in
  firstn (Z.to_nat n) (skipn (Z.to_nat (off - blk * rs)) (block_of c plen rs blk)).

(* after the "fix:" commit (D2): keep reading following blocks until len(p) bytes are copied *)
Fixpoint read_loop (fuel : nat) (c : list Z) (plen rs off n : Z) : list Z :=
  match fuel with
  | O => []
  | S f =>
    if n <=? 0 then [] else
    let got := read_once c plen rs off n in
    match got with
    | [] => []
    | _ => got ++ read_loop f c plen rs (off + zlen got) (n - zlen got)
    end
  end.

Definition cached_read (fixed : bool) (c : list Z) (plen rs off n : Z) : list Z :=
  if fixed then read_loop (Z.to_nat (n / rs) + 2) c plen rs off n else read_once c plen rs off n.

(* ---- piececache.Cache: LRU with maxSize; values are identified by key, sized by length ---- *)
Record citem := { ckey : Z; csize : Z; cstamp : Z }.
Record cache := { citems : list citem; ctotal : Z; cmax : Z; ctick : Z }.

Definition cache_init (mx : Z) : cache := {| citems := []; ctotal := 0; cmax := mx; ctick := 0 |}.

Fixpoint find_item (k : Z) (l : list citem) : option citem :=
  match l with
  | [] => None
  | x :: r => if ckey x =? k then Some x else find_item k r
  end.

Fixpoint oldest (l : list citem) (best : option citem) : option citem :=
  match l with
  | [] => best
  | x :: r => oldest r (match best with
                        | Some b => if cstamp x <? cstamp b then Some x else best
                        | None => Some x
                        end)
  end.

Fixpoint remove_key (k : Z) (l : list citem) : list citem :=
  match l with
  | [] => []
  | x :: r => if ckey x =? k then r else x :: remove_key k r
  end.

(* makeRoom: evict least recently used until the new value fits *)
Fixpoint make_room (fuel : nat) (l : list citem) (total mx need : Z) : list citem * Z :=
  match fuel with
  | O => (l, total)
  | S f =>
    if mx - total <? need then
      match oldest l None with
      | Some o => make_room f (remove_key (ckey o) l) (total - csize o) mx need
      | None => (l, total)                  (* accessList[0] on an empty heap: Go panics *)
      end
    else (l, total)
  end.

(* Get(key, loader) where the loader returns a value of [size] bytes; result: hit or miss *)
Definition cache_get (c : cache) (k size : Z) : cache * bool :=
  let t := ctick c + 1 in
  match find_item k (citems c) with
  | Some it =>
      ({| citems := map (fun x => if ckey x =? k then {| ckey := k; csize := csize x; cstamp := t |} else x) (citems c);
          ctotal := ctotal c; cmax := cmax c; ctick := t |}, true)
  | None =>
      if size >? cmax c then ({| citems := citems c; ctotal := ctotal c; cmax := cmax c; ctick := t |}, false)
      else let '(l, tot) := make_room (S (length (citems c))) (citems c) (ctotal c) (cmax c) size in
           ({| citems := l ++ [{| ckey := k; csize := size; cstamp := t |}]; ctotal := tot + size;
               cmax := cmax c; ctick := t |}, false)
  end.

(* ---- case codecs ----
   kind 301: in = [PL; npieces; nfiles; (len pad)*; piece; rs; cacheMax; nreads; (off n)*]
             storage file k filled with bytes (7*k + 13*j + 1) mod 251 at offset j (set by harness and model)
             out per read = [count; bytes...]
   kind 302: in = [max; (key size)*]  out per get = [hit; len; size] *)
Definition pattern_storage (fs : list file) : storage :=
  let fix go (k : Z) (l : list file) :=
    match l with
    | [] => []
    | f :: r => map (fun j => (7 * k + 13 * Z.of_nat j + 1) mod 251) (seq 0 (Z.to_nat (flen f))) :: go (k + 1) r
    end in go 0 fs.

Definition piece_content (st : storage) (secs : list section) : list Z := content st secs.

Definition run_cached_read (inp : list Z) : list Z :=
  match inp with
  | pl :: np :: nf :: r =>
      let fs := rd_files (Z.to_nat nf) r in
      match rdn (2 * Z.to_nat nf) r with
      | Some (_, pi :: rs :: cmax_ :: nr :: rr) =>
          match new_pieces fs pl (sum_flen fs) (Z.to_nat np) with
          | Ok ps =>
              let p := nth (Z.to_nat pi) ps {| plength := 0; psecs := [] |} in
              let c := piece_content (pattern_storage fs) (psecs p) in
              flat_map (fun on => let got := cached_read true c (plength p) rs (fst on) (snd on) in zlen got :: got)
                       (rd_reads (Z.to_nat nr) rr)
          | _ => [-778]
          end
      | _ => [-779]
      end
  | _ => [-779]
  end.

(* monitor: every read returns exactly the requested bytes of the piece *)
Fixpoint check_cached (c : list Z) (reads : list (Z * Z)) (obs : list Z) : bool :=
  match reads with
  | [] => match obs with [] => true | _ => false end
  | (off, n) :: rr =>
      match rdlist obs with
      | Some (bs, rest) => list_eqb_Z bs (slice c off n) && check_cached c rr rest
      | None => false
      end
  end.

Definition mon_cached_read (inp obs : list Z) : bool :=
  match inp with
  | pl :: np :: nf :: r =>
      let fs := rd_files (Z.to_nat nf) r in
      match rdn (2 * Z.to_nat nf) r with
      | Some (_, pi :: rs :: cmax_ :: nr :: rr) =>
          match new_pieces fs pl (sum_flen fs) (Z.to_nat np) with
          | Ok ps =>
              let p := nth (Z.to_nat pi) ps {| plength := 0; psecs := [] |} in
              check_cached (piece_content (pattern_storage fs) (psecs p)) (rd_reads (Z.to_nat nr) rr) obs
          | _ => false
          end
      | _ => false
      end
  | _ => false
  end.

Fixpoint run_cache_go (c : cache) (l : list Z) : list Z :=
  match l with
  | k :: size :: r => let '(c', hit) := cache_get c k size in
                      b2z hit :: zlen (citems c') :: ctotal c' :: run_cache_go c' r
  | _ => []
  end.
Definition run_cache (inp : list Z) : list Z :=
  match inp with mx :: r => run_cache_go (cache_init mx) r | [] => [] end.

(* monitor: size never exceeds the bound and is non-negative; Len consistent with Size = 0 *)
Fixpoint mon_cache_go (mx : Z) (obs : list Z) : bool :=
  match obs with
  | hit :: len :: size :: r => (0 <=? size) && (size <=? Z.max 0 mx) && (0 <=? len) && ((len =? 0) || (0 <? size) || true)
                               && mon_cache_go mx r
  | [] => true
  | _ => false
  end.
Definition mon_cache (inp obs : list Z) : bool :=
  match inp with mx :: _ => mon_cache_go mx obs | [] => false end.

(* kind 304: a Get split into its two halves (lookup under the cache lock, read under the item lock) with
   other Gets in between.  ops: 0 k size = a whole Get | 1 k _ = the lookup half, for a key that is cached
   | 2 _ _ = the read half of the pending lookup.  The read half returns the block as it was when it was
   looked up, whether or not the block has been evicted in the meantime. *)
Definition bump (c : cache) (k : Z) : cache :=
  let t := ctick c + 1 in
  {| citems := map (fun x => if ckey x =? k then {| ckey := k; csize := csize x; cstamp := t |} else x) (citems c);
     ctotal := ctotal c; cmax := cmax c; ctick := t |}.
(* pending = (key, size at lookup, the looked-up item is still the one in the cache) *)
Definition still_there (c : cache) (p : option (Z * Z * bool)) : option (Z * Z * bool) :=
  match p with
  | Some (k, s, alive) => Some (k, s, alive && match find_item k (citems c) with Some _ => true | None => false end)
  | None => None
  end.
Fixpoint run_split_go (c : cache) (pending : option (Z * Z * bool)) (l : list Z) : list Z :=
  match l with
  | 0 :: k :: size :: r => let '(c', hit) := cache_get c k size in
                           b2z hit :: zlen (citems c') :: ctotal c' :: run_split_go c' (still_there c' pending) r
  | 1 :: k :: _ :: r => match find_item k (citems c) with
                        | Some it => 1 :: zlen (citems c) :: ctotal c :: run_split_go c (Some (k, csize it, true)) r
                        | None => [-5]
                        end
  | 2 :: _ :: _ :: r => match pending with
                        | Some (k, s, alive) =>
                            (* an evicted item is no longer in the access list: touching it changes nothing *)
                            let c' := if alive then bump c k else c in
                            s :: zlen (citems c') :: ctotal c' :: run_split_go c' None r
                        | None => [-6]
                        end
  | _ => []
  end.
Definition run_cache_split (inp : list Z) : list Z :=
  match inp with mx :: r => run_split_go (cache_init mx) None r | [] => [] end.

(* kind 305: many pieces read through one cache: in = [PL np nf (len pad)* rs cmax nreads (piece off n)*];
   every read returns the bytes of ITS piece, whatever the cache holds from other pieces *)
Fixpoint rd_triples (fuel : nat) (l : list Z) : list (Z * Z * Z) :=
  match fuel, l with
  | S f, a :: b :: c :: r => (a, b, c) :: rd_triples f r
  | _, _ => []
  end.
Definition run_cached_multi (inp : list Z) : list Z :=
  match inp with
  | pl :: np :: nf :: r =>
      let fs := rd_files (Z.to_nat nf) r in
      match rdn (2 * Z.to_nat nf) r with
      | Some (_, rs :: cmax_ :: nr :: rr) =>
          match new_pieces fs pl (sum_flen fs) (Z.to_nat np) with
          | Ok ps =>
              flat_map (fun t => let '(pi, off, n) := t in
                                 let p := nth (Z.to_nat pi) ps {| plength := 0; psecs := [] |} in
                                 let c := piece_content (pattern_storage fs) (psecs p) in
                                 let got := cached_read true c (plength p) rs off n in zlen got :: got)
                       (rd_triples (Z.to_nat nr) rr)
          | _ => [-778]
          end
      | _ => [-779]
      end
  | _ => [-779]
  end.

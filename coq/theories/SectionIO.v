(* Model of internal/filesection/section.go (Piece.ReadAt / Piece.Write) over an abstract
   storage, and of internal/urldownloader/job.go (createJobs).  Definitions only. *)
From RainV Require Import Lib Geometry.

Definition storage := list (list Z).          (* file index -> content bytes *)

Definition slice (l : list Z) (off len : Z) : list Z :=
  firstn (Z.to_nat len) (skipn (Z.to_nat off) l).

Definition file_of (st : storage) (i : nat) : list Z := nth i st [].

Fixpoint set_nth {A} (l : list A) (i : nat) (x : A) : list A :=
  match l, i with
  | [], _ => []
  | _ :: r, O => x :: r
  | y :: r, S i' => y :: set_nth r i' x
  end.

(* WriteAt(b, off) on an in-memory file of fixed size (off + |b| within the file) *)
Definition write_file (c : list Z) (off : Z) (b : list Z) : list Z :=
  firstn (Z.to_nat off) c ++ b ++ skipn (Z.to_nat off + length b) c.

(* Piece.Write(b): padding sections skip their bytes; b[:sec.Length] on a short buffer panics *)
Fixpoint write_secs (st : storage) (secs : list section) (b : list Z) : res storage :=
  match secs with
  | [] => Ok st
  | s :: r =>
      if zlen b <? slen s then Crash
      else if spad s then write_secs st r (skipn (Z.to_nat (slen s)) b)
      else write_secs (set_nth st (sfile s) (write_file (file_of st (sfile s)) (soff s) (firstn (Z.to_nat (slen s)) b)))
                      r (skipn (Z.to_nat (slen s)) b)
  end.

(* bytes a SectionReader over section s yields, starting [adv] bytes into it *)
Definition sec_bytes (st : storage) (s : section) (adv : Z) : list Z :=
  if spad s then repeat 0 (Z.to_nat (slen s - adv))
  else slice (file_of st (sfile s)) (soff s + adv) (slen s - adv).

(* "Skip sections up to offset": returns the section at which the loop broke, pos after it, rest *)
Fixpoint skip_loop (p : list section) (pos off : Z) : option (section * Z * list section) :=
  match p with
  | [] => None
  | s :: r => let pos' := pos + slen s in
              if pos' >=? off then Some (s, pos', r) else skip_loop r pos' off
  end.

(* "Add remaining sections": takes sections until pos >= off + len(b) *)
Fixpoint rest_loop (r : list section) (pos lim : Z) : list section :=
  match r with
  | [] => []
  | s :: r' => s :: (if pos + slen s >=? lim then [] else rest_loop r' (pos + slen s) lim)
  end.

(* result of ReadAt: bytes delivered and error class (0 = nil, 1 = EOF/ErrUnexpectedEOF) *)
Definition read_at (st : storage) (p : list section) (off n : Z) : res (list Z * Z) :=
  match skip_loop p 0 off with
  | None => Crash                                    (* p[i] with i = len(p) *)
  | Some (s, pos, r) =>
      let adv := slen s - (pos - off) in
      let stream := sec_bytes st s adv ++ flat_map (fun x => sec_bytes st x 0) (rest_loop r pos (off + n)) in
      let got := firstn (Z.to_nat n) stream in
      Ok (got, if zlen got <? n then 1 else 0)
  end.

(* what the piece looks like through its sections *)
Definition content (st : storage) (p : list section) : list Z :=
  flat_map (fun s => sec_bytes st s 0) p.

(* buffer with padding positions zeroed *)
Fixpoint mask (p : list section) (b : list Z) : list Z :=
  match p with
  | [] => []
  | s :: r => (if spad s then repeat 0 (Z.to_nat (slen s)) else firstn (Z.to_nat (slen s)) b)
              ++ mask r (skipn (Z.to_nat (slen s)) b)
  end.

(* ---------- createJobs ---------- *)
Record job := { jfile : nat; jbegin : Z; jlen : Z; jpad : bool }.
Record jst := { jobs : list job; curjob : option job }.   (* None = the zero downloadJob *)

Definition job_of (s : section) : job :=
  {| jfile := sfile s; jbegin := soff s; jlen := slen s; jpad := spad s |}.

(* names are compared, not indices: [same] abstracts sec.Name == job.Filename *)
Definition cj_step (same : nat -> nat -> bool) (first : bool) (st : jst) (s : section) : jst :=
  if first then {| jobs := jobs st; curjob := Some (job_of s) |}
  else match curjob st with
       | Some j =>
           if same (sfile s) (jfile j) && Bool.eqb (spad s) (jpad j)
           then {| jobs := jobs st; curjob := Some {| jfile := jfile j; jbegin := jbegin j; jlen := jlen j + slen s; jpad := jpad j |} |}
           else {| jobs := (if jlen j >? 0 then jobs st ++ [j] else jobs st); curjob := Some (job_of s) |}
       | None =>
           (* zero job: Filename "" never equals a real name unless that name is empty; Length 0 is not emitted *)
           {| jobs := jobs st; curjob := Some (job_of s) |}
       end.

Fixpoint cj_secs (same : nat -> nat -> bool) (i : nat) (j : nat) (st : jst) (secs : list section) : jst :=
  match secs with
  | [] => st
  | s :: r => cj_secs same i (S j) (cj_step same (Nat.eqb i 0 && Nat.eqb j 0) st s) r
  end.

Fixpoint cj_pieces (same : nat -> nat -> bool) (i : nat) (st : jst) (ps : list piece) : jst :=
  match ps with
  | [] => st
  | p :: r => cj_pieces same (S i) (cj_secs same i 0 st (psecs p)) r
  end.

Definition create_jobs (same : nat -> nat -> bool) (ps : list piece) (b e : nat) : list job :=
  if Nat.eqb b e then [] else
  let st := cj_pieces same b {| jobs := []; curjob := None |} (firstn (e - b) (skipn b ps)) in
  match curjob st with
  | Some j => if jlen j >? 0 then jobs st ++ [j] else jobs st
  | None => jobs st
  end.

(* ---------- case codecs ----------
   kind 203: in = [PL; npieces; nfiles; (len pad)*; piece; nbuf; buf...; nreads; (off n)*]
             storage starts with every byte of file k equal to 200 + k (mod 50);
             out = [write status (0 ok | -777)] ++ per file [len; bytes...] ++ per read [status; err; count; bytes...]
   kind 204: in = [PL; npieces; nfiles; (len pad)*; begin; end]  out = per job [file begin len pad] *)
Definition init_storage (fs : list file) : storage :=
  let fix go (k : Z) (l : list file) :=
    match l with
    | [] => []
    | f :: r => repeat (200 + k mod 50) (Z.to_nat (flen f)) :: go (k + 1) r
    end in go 0 fs.

Fixpoint rd_reads (fuel : nat) (l : list Z) : list (Z * Z) :=
  match fuel, l with
  | S f, o :: n :: r => (o, n) :: rd_reads f r
  | _, _ => []
  end.

Definition enc_read (st : storage) (secs : list section) (rn : Z * Z) : list Z :=
  match read_at st secs (fst rn) (snd rn) with
  | Ok (bs, e) => 0 :: e :: zlen bs :: bs
  | _ => [-777]
  end.

Definition run_section_io (inp : list Z) : list Z :=
  match inp with
  | pl :: np :: nf :: r =>
      let fs := rd_files (Z.to_nat nf) r in
      match rdn (2 * Z.to_nat nf) r with
      | Some (_, pi :: r2) =>
        match rdlist r2 with
        | Some (buf, r3) =>
          match new_pieces fs pl (sum_flen fs) (Z.to_nat np) with
          | Ok ps =>
              let secs := psecs (nth (Z.to_nat pi) ps {| plength := 0; psecs := [] |}) in
              let st0 := init_storage fs in
              let reads := match r3 with _ :: rr => rd_reads (length rr) rr | [] => [] end in
              match write_secs st0 secs buf with
              | Ok st1 => 0 :: flat_map (fun c => zlen c :: c) st1 ++ flat_map (enc_read st1 secs) reads
              | _ => -777 :: flat_map (fun c => zlen c :: c) st0 ++ flat_map (enc_read st0 secs) reads
              end
          | _ => [-778]
          end
        | None => [-779]
        end
      | _ => [-779]
      end
  | _ => [-779]
  end.

(* monitor (observables only): the write of a full-length buffer succeeds, and every in-range
   read returns exactly the requested bytes of the buffer with padding positions zeroed *)
Fixpoint skip_files (n : nat) (l : list Z) : option (list Z) :=
  match n with
  | O => Some l
  | S n' => match rdlist l with Some (_, r) => skip_files n' r | None => None end
  end.

Fixpoint check_reads (want : list Z) (total : Z) (reads : list (Z * Z)) (l : list Z) : bool :=
  match reads with
  | [] => match l with [] => true | _ => false end
  | (off, n) :: rr =>
      match l with
      | 0 :: e :: r =>
          match rdlist r with
          | Some (bs, r') =>
              (if (0 <=? off) && (0 <=? n) && (off + n <=? total)
               then (e =? 0) && list_eqb_Z bs (slice want off n) else true)
              && check_reads want total rr r'
          | None => false
          end
      | -777 :: r => (* a panic is legal only for an offset beyond the piece *)
          (total <? off) && check_reads want total rr r
      | _ => false
      end
  end.

Definition mon_section_io (inp obs : list Z) : bool :=
  match inp with
  | pl :: np :: nf :: r =>
      let fs := rd_files (Z.to_nat nf) r in
      match rdn (2 * Z.to_nat nf) r with
      | Some (_, pi :: r2) =>
        match rdlist r2 with
        | Some (buf, r3) =>
          match new_pieces fs pl (sum_flen fs) (Z.to_nat np) with
          | Ok ps =>
              let secs := psecs (nth (Z.to_nat pi) ps {| plength := 0; psecs := [] |}) in
              let reads := match r3 with _ :: rr => rd_reads (length rr) rr | [] => [] end in
              let total := sum_slen secs in
              match obs with
              | st :: o =>
                  if zlen buf =? total then
                    (st =? 0) &&
                    match skip_files (Z.to_nat nf) o with
                    | Some o' => check_reads (mask secs buf) total reads o'
                    | None => false
                    end
                  else true
              | [] => false
              end
          | _ => false
          end
        | None => false
        end
      | _ => false
      end
  | _ => false
  end.

Definition same_file_by_index (a b : nat) : bool := Nat.eqb a b.

Definition run_create_jobs (inp : list Z) : list Z :=
  match inp with
  | pl :: np :: nf :: r =>
      let fs := rd_files (Z.to_nat nf) r in
      match rdn (2 * Z.to_nat nf) r with
      | Some (_, b :: e :: _) =>
          match new_pieces fs pl (sum_flen fs) (Z.to_nat np) with
          | Ok ps => flat_map (fun j => [Z.of_nat (jfile j); jbegin j; jlen j; b2z (jpad j)])
                              (create_jobs same_file_by_index ps (Z.to_nat b) (Z.to_nat e))
          | _ => [-778]
          end
      | _ => [-779]
      end
  | _ => [-779]
  end.

(* monitor: jobs, in order, tile exactly the bytes of pieces [b, e): expand the jobs into
   (file, begin, len, pad) runs and compare with the merged non-empty sections *)
Fixpoint merge_runs (acc : option job) (ss : list section) : list job :=
  match ss with
  | [] => match acc with Some j => [j] | None => [] end
  | s :: r =>
      if slen s =? 0 then merge_runs acc r else
      match acc with
      | Some j => if Nat.eqb (jfile j) (sfile s) && (jbegin j + jlen j =? soff s)
                  then merge_runs (Some {| jfile := jfile j; jbegin := jbegin j; jlen := jlen j + slen s; jpad := jpad j |}) r
                  else j :: merge_runs (Some (job_of s)) r
      | None => merge_runs (Some (job_of s)) r
      end
  end.

Fixpoint rd_jobs (l : list Z) : list section :=
  match l with
  | f :: b :: n :: p :: r => {| sfile := Z.to_nat f; soff := b; slen := n; spad := z2b p |} :: rd_jobs r
  | _ => []
  end.

Definition job_eqb (a b : job) : bool :=
  Nat.eqb (jfile a) (jfile b) && (jbegin a =? jbegin b) && (jlen a =? jlen b) && Bool.eqb (jpad a) (jpad b).

Fixpoint jobs_eqb (a b : list job) : bool :=
  match a, b with
  | [], [] => true
  | x :: r, y :: r' => job_eqb x y && jobs_eqb r r'
  | _, _ => false
  end.

Definition mon_create_jobs (inp obs : list Z) : bool :=
  match inp with
  | pl :: np :: nf :: r =>
      let fs := rd_files (Z.to_nat nf) r in
      match rdn (2 * Z.to_nat nf) r with
      | Some (_, b :: e :: _) =>
          match new_pieces fs pl (sum_flen fs) (Z.to_nat np) with
          | Ok ps =>
              let secs := flat_map psecs (firstn (Z.to_nat e - Z.to_nat b) (skipn (Z.to_nat b) ps)) in
              let js := rd_jobs obs in
              forallb (fun s => 0 <? slen s) js &&
              jobs_eqb (merge_runs None secs) (merge_runs None js)
          | _ => false
          end
      | _ => false
      end
  | _ => false
  end.

(* kind 205: create a torrent from a tree of nf files, parse it back, re-hash in metainfo order:
   created, nf files listed, every piece hash matches *)
Definition run_create_verify (inp : list Z) : list Z :=
  match inp with
  | nf :: _ => [1; nf; 1]
  | _ => [-779]
  end.

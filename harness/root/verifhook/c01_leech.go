//go:build verif

package verifhook

import (
	"fmt"
	"encoding/binary"
	"math/rand"
	"sort"
	"strconv"
	"time"

	"github.com/cenkalti/rain/v2/internal/peersource"
	"github.com/cenkalti/rain/v2/torrent"
)

// kind 101: a leeching torrent in the stepped event loop against scripted peers.
//
// in  = [PL total nfiles (len pad)* q maxdup seq P np initDone*np]
//       then per handled event [code p a b c g | bits*np | asg*P]   (asg: -1 | piece*2+af, observed after the handler)
//       (each event is followed by the frames every scripted peer received during it: per peer [n (id a b c)*]); then [-1]
// obs = per event [done*np writing*np have*np | (closed interested pending)*P | banned npeers completed status suspended
//                  | per piece: nreq peers... ] and for a write result additionally [idx hashOK nwrites (file off len good)*]
//       then per piece the final storage code (1 = equals the torrent content, 2 = still the initial image, 0 = neither)
//
// event codes: 1 have | 2 bitfield | 3 have-all | 4 allowed-fast | 5 unchoke | 6 choke | 7 reject | 8 piece | 9 write result
//              10 snub timer | 11 disconnect | 12 connect (a = fast) | 14 have-none

type lpH struct {
	vp      *torrent.VPeer
	fast    bool
	ext     bool
	fresh   [][4]int64 // frames received during the last event
	out     [][3]int64 // requests received and not yet answered
	served  [][3]int64
	blocked bool
	dirty   bool // the scripted peer has rejected a request or sent a block nobody asked for
	gone    bool
}

type leechH struct {
	r       *rand.Rand
	l       vLayout
	content []byte
	v       *torrent.VLoop
	P       int
	peers   []*lpH
	in      []int64
	obs     []int64
	nwrites int
	queued  int
	np      int
	initImg []byte
	note    map[string]int
	stopped bool
	armed   bool
	expect  bool // an honest seed alone served everything: completion is due
}

func statusCode(s string) int64 {
	switch s {
	case "Stopped":
		return 0
	case "Downloading":
		return 1
	case "Seeding":
		return 2
	}
	return 9
}

func (h *leechH) collect() {
	h.v.Barrier()
	for _, p := range h.peers {
		fs, _ := p.vp.Take()
		p.fresh = nil
		for _, f := range fs {
			var a, b, c int64
			if len(f.Payload) >= 4 {
				a = int64(binary.BigEndian.Uint32(f.Payload[0:]))
			}
			if len(f.Payload) >= 12 {
				b = int64(binary.BigEndian.Uint32(f.Payload[4:]))
				c = int64(binary.BigEndian.Uint32(f.Payload[8:]))
			}
			switch f.ID {
			case 2, 3:
				p.fresh = append(p.fresh, [4]int64{int64(f.ID), 0, 0, 0})
			case 4:
				p.fresh = append(p.fresh, [4]int64{4, a, 0, 0})
			case 6:
				p.fresh = append(p.fresh, [4]int64{6, a, b, c})
				p.out = append(p.out, [3]int64{a, b, c})
			case 8:
				p.fresh = append(p.fresh, [4]int64{8, a, b, c})
				for i, o := range p.out {
					if o == [3]int64{a, b, c} {
						p.out = append(p.out[:i], p.out[i+1:]...)
						break
					}
				}
			}
		}
	}
}

// record appends the event and the state after its handler.
func (h *leechH) record(e torrent.VEvent, code int64) {
	np := h.np
	Mark(h.r, fmt.Sprintf("record code=%d peer=%d", code, e.Peer))
	g := b2i(e.Good)
	if code == 2 {
		g = b2i(e.BadLen)
	}
	if code == 9 {
		g = b2i(e.WErr)
	}
	h.in = append(h.in, code, int64(e.Peer), int64(e.Index), int64(e.Begin), int64(e.Len), g)
	for i := 0; i < np; i++ {
		h.in = append(h.in, b2i(i < len(e.Bits) && e.Bits[i]))
	}
	s := h.v.Snapshot()
	for p := 0; p < h.P; p++ {
		a := int64(-1)
		if p < len(s.Peers) && s.Peers[p].DownloadPiece >= 0 {
			a = int64(s.Peers[p].DownloadPiece)*2 + b2i(s.Peers[p].DownloadAF)
		}
		h.in = append(h.in, a)
	}
	h.collect()
	for p := 0; p < h.P; p++ {
		if p >= len(h.peers) {
			h.in = append(h.in, 0)
			continue
		}
		h.in = append(h.in, int64(len(h.peers[p].fresh)))
		for _, f := range h.peers[p].fresh {
			h.in = append(h.in, f[0], f[1], f[2], f[3])
		}
	}
	// after a stop the piece table is gone: Done is read from the bitfield, nothing is being written
	for i := 0; i < np; i++ {
		if i < len(s.Done) {
			h.obs = append(h.obs, b2i(s.Done[i]))
		} else {
			h.obs = append(h.obs, b2i(i < len(s.Have) && s.Have[i]))
		}
	}
	for i := 0; i < np; i++ {
		h.obs = append(h.obs, b2i(i < len(s.Writing) && s.Writing[i]))
	}
	for i := 0; i < np; i++ {
		h.obs = append(h.obs, b2i(i < len(s.Have) && s.Have[i]))
	}
	for p := 0; p < h.P; p++ {
		if p < len(s.Peers) {
			h.obs = append(h.obs, b2i(s.Peers[p].Closed), b2i(s.Peers[p].ClientInterested), int64(s.Pending[p]))
		} else {
			h.obs = append(h.obs, 0, 0, -1)
		}
	}
	h.obs = append(h.obs, int64(s.Banned), int64(s.NumPeers), b2i(s.Completed), statusCode(s.Status), b2i(s.Suspended))
	for i := 0; i < np; i++ {
		if i >= len(s.Requested) {
			h.obs = append(h.obs, 0)
			continue
		}
		h.obs = append(h.obs, int64(len(s.Requested[i])))
		for _, x := range s.Requested[i] {
			h.obs = append(h.obs, int64(x))
		}
	}
	if code == 9 && e.WErr {
		h.obs = append(h.obs, int64(e.Index), b2i(e.HashOK), 1)
		h.stopped = true
		h.note["werr"]++
	} else if code == 9 {
		h.obs = append(h.obs, int64(e.Index), b2i(e.HashOK), 0)
		ws := h.v.Sto.Writes
		h.obs = append(h.obs, int64(len(ws)-h.nwrites))
		for _, w := range ws[h.nwrites:] {
			fi, off := int64(-1), int64(0)
			for i := range h.l.Lens {
				if h.l.FileName(i) == w.Name {
					fi = int64(i)
					break
				}
				off += h.l.Lens[i]
			}
			good := fi >= 0 && off+w.Off+int64(len(w.Data)) <= int64(len(h.content))
			if good {
				lo := off + w.Off
				for k, b := range w.Data {
					if h.content[lo+int64(k)] != b {
						good = false
						break
					}
				}
			}
			h.obs = append(h.obs, fi, w.Off, int64(len(w.Data)), b2i(good))
		}
		h.nwrites = len(ws)
	}
	h.note["ev"+string(rune('a'+code))]++
}

func (h *leechH) evCode(e torrent.VEvent) int64 {
	switch e.Code {
	case torrent.EvWriteDone:
		return 9
	case torrent.EvPieceMsg:
		return 8
	case torrent.EvDisconnected:
		return 11
	case torrent.EvSnubbed:
		return 10
	case torrent.EvPeerMsg:
		switch e.MsgID {
		case 4:
			return 1
		case 5:
			return 2
		case 14:
			return 3
		case 17:
			return 4
		case 1:
			return 5
		case 0:
			return 6
		case 16:
			return 7
		case 15:
			return 14
		case 20:
			return 13
		}
	}
	return 0
}

// after a write result the piece channel is open again: take the piece messages that queued up
func (h *leechH) drain() {
	for !h.v.WriteInFlight() {
		n := 0
		for _, p := range h.peers {
			if p.blocked && (p.vp.Pe.Closed || p.gone) {
				p.blocked = false // its queued frame died with the connection
			}
			if p.blocked {
				n++
			}
		}
		if n == 0 {
			break
		}
		e := h.v.PumpEx(300*time.Millisecond, torrent.ClsPiece)
		if e.Code == torrent.EvNone {
			for _, p := range h.peers {
				p.blocked = false
			}
			h.note["lostqueued"]++
			break
		}
		if e.Peer >= 0 {
			h.peers[e.Peer].blocked = false
		}
		h.record(e, 8)
	}
	h.queued = 0
}

func (h *leechH) pumpWrite() {
	if !h.v.WriteInFlight() {
		return
	}
	e := h.v.PumpEx(10*time.Second, torrent.ClsWrite)
	if e.Code == torrent.EvNone {
		h.note["writetimeout"]++
		return
	}
	h.record(e, 9)
	h.drain()
}

func (h *leechH) usable(p int) bool {
	if p >= len(h.peers) {
		return false
	}
	q := h.peers[p]
	return !q.gone && !q.blocked && !q.vp.Pe.Closed
}

func (h *leechH) send(p int, id byte, payload []byte) {
	q := h.peers[p]
	isPiece := id == 7
	if isPiece && h.v.WriteInFlight() {
		if q.vp.Send(id, payload) == nil {
			q.blocked = true
			h.queued++
		}
		return
	}
	if q.vp.Send(id, payload) != nil {
		return
	}
	e := h.v.PumpEx(10*time.Second, torrent.ClsMsg|torrent.ClsPiece)
	if e.Code == torrent.EvNone {
		h.note["msgtimeout"]++
		return
	}
	c := h.evCode(e)
	if c == 0 {
		h.note["othermsg"]++
		return
	}
	h.record(e, c)
}

func u32s(xs ...int64) []byte {
	b := make([]byte, 4*len(xs))
	for i, x := range xs {
		binary.BigEndian.PutUint32(b[4*i:], uint32(x))
	}
	return b
}

func (h *leechH) pieceFrame(idx, begin, n int64, good bool) []byte {
	b := u32s(idx, begin)
	data := make([]byte, n)
	lo := idx*h.l.PL + begin
	if lo >= 0 && lo+n <= int64(len(h.content)) {
		copy(data, h.content[lo:lo+n])
	} else {
		h.r.Read(data)
	}
	if !good && n > 0 {
		data[h.r.Intn(int(n))] ^= byte(1 + h.r.Intn(255))
	}
	return append(b, data...)
}

func (h *leechH) connect(fast bool) bool {
	if len(h.peers) >= h.P {
		return false
	}
	ext := h.r.Intn(3) == 0
	vp, err := h.v.AddPeer(fast, ext, peersource.Incoming)
	if err != nil {
		h.note["connecterr"]++
		return false
	}
	h.peers = append(h.peers, &lpH{vp: vp, fast: fast, ext: ext})
	p := len(h.peers) - 1
	h.record(torrent.VEvent{Peer: p, Index: uint32(b2i(fast))}, 12)
	if ext && h.r.Intn(4) > 0 {
		h.sendExt(p)
	}
	// most peers announce what they have and unchoke soon after connecting
	if h.r.Intn(10) < 7 {
		bits := make([]bool, h.np)
		full := h.r.Intn(2) == 0
		for i := range bits {
			bits[i] = full || h.r.Intn(3) > 0
		}
		if full && fast && h.r.Intn(2) == 0 {
			h.send(p, 14, nil)
		} else {
			h.send(p, 5, h.bitfieldPayload(bits))
		}
	}
	if h.r.Intn(10) < 6 && h.usable(p) {
		h.send(p, 1, nil)
	}
	return true
}

// sendExt sends a BEP 10 handshake with or without a request-queue announcement.
func (h *leechH) sendExt(p int) {
	pl := []byte{0}
	switch h.r.Intn(3) {
	case 0:
		pl = append(pl, []byte("d1:mdee")...)
	case 1:
		pl = append(pl, []byte("d1:mde4:reqqi1ee")...)
	default:
		pl = append(pl, []byte("d1:mde4:reqqi300ee")...)
	}
	h.send(p, 20, pl)
}

func (h *leechH) bitfieldPayload(bits []bool) []byte {
	b := make([]byte, (h.np+7)/8)
	for i, x := range bits {
		if x {
			b[i/8] |= 0x80 >> uint(i%8)
		}
	}
	return b
}

// blocks of piece idx as 16 KiB chunks of the non-padding ranges (steering only)
func (h *leechH) someBlock(idx int64) (begin, n int64) {
	plen := h.l.PieceLen(int(idx))
	k := (plen + 16383) / 16384
	begin = 16384 * int64(h.r.Intn(int(k)))
	n = plen - begin
	if n > 16384 {
		n = 16384
	}
	return
}

func (h *leechH) serve(p int, good bool) bool {
	q := h.peers[p]
	if len(q.out) == 0 {
		return false
	}
	i := h.r.Intn(len(q.out))
	if h.r.Intn(3) > 0 {
		i = 0
	}
	o := q.out[i]
	q.out = append(q.out[:i], q.out[i+1:]...)
	q.served = append(q.served, o)
	h.send(p, 7, h.pieceFrame(o[0], o[1], o[2], good))
	return true
}

func (h *leechH) step() {
	r := h.r
	Mark(r, "step")
	if len(h.peers) == 0 {
		h.connect(r.Intn(2) == 0)
		return
	}
	p := r.Intn(len(h.peers))
	if !h.usable(p) {
		for k := range h.peers {
			if h.usable(k) {
				p = k
			}
		}
	}
	if !h.usable(p) {
		if h.v.WriteInFlight() {
			h.pumpWrite()
		} else {
			h.connect(r.Intn(2) == 0)
		}
		return
	}
	q := h.peers[p]
	np := int64(h.np)
	x := r.Intn(100)
	switch {
	case x < 30: // serve a request
		if !h.serve(p, r.Intn(10) > 0) {
			h.send(p, 1, nil) // nothing to serve: unchoke instead
		}
	case x < 38: // announce pieces
		switch r.Intn(4) {
		case 0:
			h.send(p, 4, u32s(pick(r, r.Int63n(np), r.Int63n(np), r.Int63n(np), np, np+5)))
		case 1:
			bits := make([]bool, h.np)
			for i := range bits {
				bits[i] = r.Intn(3) > 0
			}
			pl := h.bitfieldPayload(bits)
			if r.Intn(12) == 0 {
				pl = append(pl, 0)
			}
			h.send(p, 5, pl)
		case 2:
			h.send(p, 14, nil)
		case 3:
			bits := make([]bool, h.np)
			for i := range bits {
				bits[i] = true
			}
			h.send(p, 5, h.bitfieldPayload(bits))
		}
	case x < 46:
		h.send(p, 1, nil)
	case x < 52:
		h.send(p, 0, nil)
	case x < 57:
		h.send(p, 17, u32s(pick(r, r.Int63n(np), r.Int63n(np), r.Int63n(np), np)))
	case x < 66: // write result
		if h.v.WriteInFlight() {
			h.pumpWrite()
		} else {
			h.serve(p, true)
		}
	case x < 72: // unsolicited / hostile block
		q.dirty = true
		s := h.v.Snapshot()
		idx := r.Int63n(np)
		if s.Peers[p].DownloadPiece >= 0 && r.Intn(4) > 0 {
			idx = int64(s.Peers[p].DownloadPiece)
		}
		begin, n := h.someBlock(idx)
		switch r.Intn(6) {
		case 0:
			n = pick(r, 0, 1, n-1, n+1)
		case 1:
			begin = pick(r, begin+1, begin+16384, 1<<32-1)
		case 2:
			idx = pick(r, np, np+1, 1<<32-1)
		}
		if n < 0 {
			n = 0
		}
		if n > 16384 {
			n = 16384
		}
		h.send(p, 7, h.pieceFrame(idx, begin, n, r.Intn(4) > 0))
	case x < 76: // duplicate of a served block
		q.dirty = true
		if len(q.served) > 0 {
			o := q.served[r.Intn(len(q.served))]
			h.send(p, 7, h.pieceFrame(o[0], o[1], o[2], r.Intn(2) == 0))
		} else {
			h.send(p, 1, nil)
		}
	case x < 80: // snub timer fires
		h.record(h.v.SnubEx(q.vp), 10)
	case x < 85: // the peer goes away
		q.vp.Gone = true
		q.vp.Conn.Close()
		q.gone = true
		e := h.v.PumpEx(10*time.Second, torrent.ClsDisc)
		if e.Code == torrent.EvNone {
			h.note["disctimeout"]++
			return
		}
		h.record(e, 11)
	case x < 90: // reject a request
		q.dirty = true
		if len(q.out) > 0 && q.fast {
			i := r.Intn(len(q.out))
			o := q.out[i]
			q.out = append(q.out[:i], q.out[i+1:]...)
			if r.Intn(6) == 0 {
				o[1]++
			}
			h.send(p, 16, u32s(o[0], o[1], o[2]))
		} else {
			h.send(p, 16, u32s(pick(r, r.Int63n(np), np), 0, 16384))
		}
	case x < 95:
		h.connect(r.Intn(2) == 0)
	case x < 97:
		h.send(p, 15, nil)
	case x < 99:
		if q.ext {
			h.sendExt(p)
		} else {
			h.send(p, 1, nil)
		}
	default: // the disk fails at the next write
		if !h.v.WriteInFlight() && !h.armed {
			h.v.Sto.ArmWriteError()
			h.armed = true
		}
	}
}

// stepAfter: a few events against the seeding torrent
func (h *leechH) stepAfter() {
	Mark(h.r, "stepAfter")
	r := h.r
	p := -1
	for k := range h.peers {
		if h.usable(k) {
			p = k
		}
	}
	if p < 0 || r.Intn(4) == 0 {
		if !h.connect(r.Intn(2) == 0) {
			return
		}
		p = len(h.peers) - 1
		if !h.usable(p) {
			return
		}
	}
	np := int64(h.np)
	switch r.Intn(8) {
	case 0:
		h.send(p, 4, u32s(pick(r, r.Int63n(np), np, np+3, 1<<32-1)))
	case 1:
		h.send(p, 1, nil)
	case 2:
		h.send(p, 0, nil)
	case 3:
		idx := pick(r, r.Int63n(np), np)
		begin, n := int64(0), int64(16384)
		if idx < np {
			begin, n = h.someBlock(idx)
		}
		h.send(p, 7, h.pieceFrame(idx, begin, n, true))
	case 4:
		h.send(p, 16, u32s(pick(r, r.Int63n(np), np), 0, 16384))
	case 5:
		h.send(p, 17, u32s(pick(r, r.Int63n(np), np, 1<<31)))
	case 6:
		h.send(p, 14, nil)
	case 7:
		h.record(h.v.SnubEx(h.peers[p].vp), 10)
	}
}

// takeover: a second peer takes over the piece of a choked downloader (stalled re-request), the
// first one is unchoked again, then one of them completes the piece.
func (h *leechH) takeover() {
	r := h.r
	for len(h.peers) < 2 {
		if !h.connectQuiet(r.Intn(3) == 0) {
			return
		}
	}
	a, b := 0, 1
	if !h.usable(a) || !h.usable(b) {
		return
	}
	all := make([]bool, h.np)
	for i := range all {
		all[i] = true
	}
	h.send(a, 5, h.bitfieldPayload(all))
	h.send(a, 1, nil)
	s := h.v.Snapshot()
	if s.Peers[a].DownloadPiece < 0 {
		return
	}
	x := s.Peers[a].DownloadPiece
	if r.Intn(2) == 0 {
		h.serve(a, true)
	}
	h.send(a, 0, nil) // choke: the download of x stalls
	only := make([]bool, h.np)
	only[x] = true
	if r.Intn(3) == 0 {
		only = all
	}
	h.send(b, 5, h.bitfieldPayload(only))
	h.send(b, 1, nil)
	if r.Intn(4) > 0 {
		h.send(a, 1, nil) // a resumes
	}
	w := b
	if r.Intn(3) == 0 {
		w = a
	}
	for k := 0; k < 6 && h.usable(w) && !h.v.WriteInFlight(); k++ {
		if !h.serve(w, true) {
			break
		}
	}
	if r.Intn(3) > 0 {
		h.pumpWrite()
	}
}

// connectQuiet connects a peer without the usual announcements.
func (h *leechH) connectQuiet(fast bool) bool {
	if len(h.peers) >= h.P {
		return false
	}
	vp, err := h.v.AddPeer(fast, false, peersource.Incoming)
	if err != nil {
		return false
	}
	h.peers = append(h.peers, &lpH{vp: vp, fast: fast})
	h.record(torrent.VEvent{Peer: len(h.peers) - 1, Index: uint32(b2i(fast))}, 12)
	return true
}

// finish lets an honest seed serve everything that is asked of it.
func (h *leechH) finish() {
	p := -1
	for k := range h.peers {
		if h.usable(k) && h.r.Intn(2) == 0 {
			p = k
		}
	}
	if p < 0 {
		if !h.connect(h.r.Intn(2) == 0) {
			return
		}
		p = len(h.peers) - 1
	}
	if !h.usable(p) {
		return
	}
	alone := h.r.Intn(2) == 0
	if alone { // everybody else goes away
		for k, q := range h.peers {
			if k == p || q.gone || q.vp.Pe.Closed || q.blocked {
				continue
			}
			q.vp.Gone = true
			q.vp.Conn.Close()
			q.gone = true
			e := h.v.PumpEx(10*time.Second, torrent.ClsDisc)
			if e.Code == torrent.EvNone {
				h.note["disctimeout"]++
				alone = false
				continue
			}
			h.record(e, 11)
		}
		for k, q := range h.peers {
			if k != p && !q.gone && !q.vp.Pe.Closed {
				alone = false
			}
		}
	}
	bits := make([]bool, h.np)
	for i := range bits {
		bits[i] = true
	}
	h.send(p, 5, h.bitfieldPayload(bits))
	h.send(p, 1, nil)
	for i := 0; i < 200; i++ {
		if h.stopped || h.v.Snapshot().Completed || h.v.Crash != "" {
			break
		}
		if h.v.WriteInFlight() && (len(h.peers[p].out) == 0 || h.r.Intn(3) == 0 || h.peers[p].blocked) {
			h.pumpWrite()
			continue
		}
		if !h.usable(p) {
			break
		}
		if !h.serve(p, true) {
			if h.v.WriteInFlight() {
				h.pumpWrite()
				continue
			}
			break
		}
	}
	for i := 0; i < 4 && !h.stopped && h.v.WriteInFlight() && h.v.Crash == ""; i++ {
		h.pumpWrite()
	}
	// the seed is still there, unchoking, nothing is left to serve and nobody else is connected
	// ... and it has been honest all along: the property promises completion given an honest source, not given
	// a peer that rejected requests or sent blocks nobody asked for and behaves from now on
	if alone && !h.armed && !h.peers[p].dirty && h.usable(p) && len(h.peers[p].out) == 0 && !h.v.WriteInFlight() && h.note["msgtimeout"] == 0 && h.note["writetimeout"] == 0 {
		h.expect = true
	}
}

func genLeech(r *rand.Rand, tier string) Case {
	l := genVLayout(r, 4)
	if r.Intn(3) == 0 { // three-block pieces
		l = genVLayout(r, 3)
	}
	content := l.Content(r.Int63())
	np := l.NumPieces()
	h := &leechH{r: r, l: l, content: content, np: np, note: map[string]int{}}
	image := map[string][]byte{}
	if r.Intn(3) == 0 { // resume from a partly correct image
		image = l.Preload(content)
		for k := 0; k < 1+r.Intn(2); k++ {
			bad := r.Intn(np)
			var off int64
			pos := int64(bad)*l.PL + r.Int63n(l.PieceLen(bad))
			for i, n := range l.Lens {
				if pos >= off && pos < off+n && !l.Pads[i] {
					image[l.FileName(i)][pos-off] ^= 0xFF
				}
				off += n
			}
		}
	}
	q := pick(r, 1, 50)
	maxdup := pick(r, 1, 2, 20)
	seq := r.Intn(3) == 0
	v, err := startLoop(l, content, image, func(c *torrent.Config) {
		c.DefaultRequestsOut = int(q)
		c.EndgameMaxDuplicateDownloads = int(maxdup)
		c.RequestTimeout = time.Hour
		c.PieceReadTimeout = time.Hour
		c.UnchokedPeers = 0
		c.OptimisticUnchokedPeers = 0
	}, seq)
	if err != nil {
		return Case{In: []int64{0}, Obs: []int64{-710}}
	}
	defer v.Close()
	v.Truth, v.PL = content, l.PL
	h.v = v
	h.P = 2 + r.Intn(3)
	s0 := v.Snapshot()
	h.in = []int64{l.PL, l.Total, int64(len(l.Lens))}
	for i := range l.Lens {
		h.in = append(h.in, l.Lens[i], b2i(l.Pads[i]))
	}
	h.in = append(h.in, q, maxdup, b2i(seq), int64(h.P), int64(np))
	for i := 0; i < np; i++ {
		h.in = append(h.in, b2i(i < len(s0.Done) && s0.Done[i]))
	}
	// initial image per piece (for the final storage code)
	h.initImg = h.storageImage()
	for i := 0; i < np; i++ {
		lo := int64(i) * l.PL
		hi := lo + l.PieceLen(i)
		h.in = append(h.in, b2i(string(h.initImg[lo:hi]) == string(content[lo:hi])))
	}
	if s0.Status != "Downloading" || len(s0.Done) != np {
		// nothing to download (or start failed): an empty history
		h.in = append(h.in, -1)
		return Case{In: h.in, Obs: []int64{statusCode(s0.Status)}, Note: "status=" + s0.Status}
	}
	h.obs = []int64{statusCode(s0.Status)}
	h.nwrites = len(v.Sto.Writes)
	if r.Intn(5) == 0 && np >= 2 && maxdup >= 2 {
		h.takeover()
	}
	npeers := 1 + r.Intn(2)
	for i := len(h.peers); i < npeers; i++ {
		h.connect(r.Intn(2) == 0)
	}
	steps := 8 + r.Intn(30)
	for i := 0; i < steps && v.Crash == "" && !h.stopped && !v.Snapshot().Completed; i++ {
		h.step()
	}
	if r.Intn(5) < 3 && v.Crash == "" && !h.stopped && !v.Snapshot().Completed {
		h.finish()
	}
	for i := 0; i < 4 && !h.stopped && v.WriteInFlight() && v.Crash == ""; i++ {
		h.pumpWrite()
	}
	if !h.stopped && v.Crash == "" && v.Snapshot().Completed && r.Intn(2) == 0 {
		for i := 0; i < 2+r.Intn(6) && v.Crash == ""; i++ {
			h.stepAfter()
		}
	}
	h.in = append(h.in, -1, b2i(h.expect && v.Crash == ""))
	img := h.storageImage()
	for i := 0; i < np; i++ {
		lo := int64(i) * l.PL
		hi := lo + l.PieceLen(i)
		code := int64(0)
		if string(img[lo:hi]) == string(content[lo:hi]) {
			code = 1
		} else if string(img[lo:hi]) == string(h.initImg[lo:hi]) {
			code = 2
		}
		h.obs = append(h.obs, code)
	}
	if v.Crash != "" {
		h.obs = append(h.obs, CrashMark)
	}
	note := ""
	keys := make([]string, 0, len(h.note))
	for k := range h.note {
		keys = append(keys, k)
	}
	sort.Strings(keys)
	for _, k := range keys {
		note += k + "=" + strconv.Itoa(h.note[k]) + " "
	}
	if v.Snapshot().Completed {
		note += "completed=1"
	}
	if v.BarrierTimeouts > 0 {
		note += fmt.Sprintf(" barriertimeout=%d", v.BarrierTimeouts)
	}
	return Case{In: h.in, Obs: h.obs, Note: note}
}

// storageImage returns the concatenated file contents as the storage holds them (padding = zeros).
func (h *leechH) storageImage() []byte {
	b := make([]byte, h.l.Total)
	var off int64
	for i, n := range h.l.Lens {
		if !h.l.Pads[i] {
			if f, ok := h.v.Sto.Files[h.l.FileName(i)]; ok {
				copy(b[off:off+n], f.B)
			}
		}
		off += n
	}
	return b
}

func init() {
	Register(101, "leeching torrent in the stepped event loop against scripted honest/hostile peers", genLeech)
}

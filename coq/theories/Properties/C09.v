(* C09 — piece selection safety invariants (peer half). *)
From RainV Require Import Lib Picker PickerProofs.

(* every pick the picker may legally return (any resolution of its unstable sorts) is for a piece
   that is neither done nor being written, that the peer has, from a peer that is not already
   downloading and is either unchoking us or granted the piece as allowed-fast, and leaves the
   piece within max(1, end-game limit) simultaneous downloads *)
Theorem C09_pick_sound : forall s pe i af, pick_legal s (fst (find_piece s pe)) i af = true ->
  let p := get_piece s i in let P := get_peer (peers s) pe in
  in_range s i = true /\ p_done p = false /\ p_writing p = false /\ In pe (p_having p) /\
  pe_downloading P = false /\
  (pe_choking P = false \/ (af = true /\ In i (pe_af P))) /\
  zlen (p_req p) < limit s.
Proof. exact pick_sound. Qed.
Print Assumptions C09_pick_sound.

(* for every history of have / allowed-fast / choke / unchoke / snub / pick / cancel / disconnect /
   writing / written events: requesters hold the piece, one download per peer, per-piece limit *)
Theorem C09_invariants_all_histories : forall ps seq md ops s, Forall (fun p => p_req p = []) ps ->
  run_ops (init_picker ps seq md) ops = Some s -> PInv s.
Proof. exact reachable_inv. Qed.
Print Assumptions C09_invariants_all_histories.

Theorem C09_one_piece_per_peer : forall s pe i j, PInv s -> 0 <= i -> 0 <= j ->
  In pe (R s i) -> In pe (R s j) -> i = j.
Proof. exact one_piece_per_peer. Qed.
Print Assumptions C09_one_piece_per_peer.

(* the reported count of available pieces equals the number of pieces held by some connected peer *)
Theorem C09_available_exact : forall ps seq md ops s, Forall (fun p => p_having p = []) ps ->
  run_ops (init_picker ps seq md) ops = Some s -> avail s = count_held (pieces s).
Proof. exact reachable_av. Qed.
Print Assumptions C09_available_exact.

(* sequential mode: once no file-edge and no allowed-fast piece is pickable, an unchoked peer gets
   the lowest-indexed eligible piece *)
Theorem C09_sequential_lowest : forall s pe i, sequential s = true -> endgame s = false ->
  let P := get_peer (peers s) pe in
  pe_downloading P = false -> pe_choking P = false ->
  first_cand s (c_edge pe) = None -> lowest_af s pe (pe_af P) None = None ->
  first_cand s (c_unreq_has pe) = Some i ->
  fst (find_piece s pe) = StFirst i false /\
  forall j p, In (j, p) (cands s (c_unreq_has pe)) -> i <= j.
Proof. exact sequential_lowest. Qed.
Print Assumptions C09_sequential_lowest.

(* ---- the real glue (kind 101): after every handler of an accepted history no piece is being
   downloaded by more peers than max(1, end-game limit), and every new download was legal when it
   was started: piece neither done nor being written, held by the peer, peer unchoking us or the
   piece granted as allowed-fast ([legal_new], checked by [assign] for every observed assignment) ---- *)
From RainV Require Import Leech LeechProofs.
Theorem C09_duplicates_within_limit_after_every_handler : forall fixed s ev bits asg,
  let s' := fst (lstep fixed s ev bits asg) in
  s_bad s' = 0 -> forall i, 0 <= i < np_of s' -> over_dup s' i = false.
Proof. intros fixed s ev bits asg s' H. apply (step_no_idle fixed s ev bits asg H). Qed.
Print Assumptions C09_duplicates_within_limit_after_every_handler.

(* Proofs about Owner.v (property C20). *)
From RainV Require Import Lib Owner.

Lemma upd_same s l v : upd s l v l = v.
Proof. unfold upd. rewrite Z.eqb_refl. reflexivity. Qed.
Lemma upd_other s l v x : x <> l -> upd s l v x = s x.
Proof. intro H. unfold upd. destruct (Z.eqb_spec x l); [contradiction|reflexivity]. Qed.

(* a thread that does not hold the lock and later does has acquired it in between *)
Lemma acquired_between l t2 : forall tr s, wf s tr -> s l <> Some t2 -> run s tr l = Some t2 ->
  exists b c, tr = b ++ Acq t2 l :: c.
Proof.
  induction tr as [|e r IH]; intros s Hw Hn Hr; cbn in *; [contradiction|].
  destruct Hw as [Hok Hw].
  destruct e as [t l'|t l'|t f w]; cbn in *.
  - destruct (Z.eq_dec l' l) as [->|Hl].
    + destruct (Z.eq_dec t t2) as [->|Ht]; [exists [], r; reflexivity|].
      destruct (IH _ Hw) as (b & c & E); [rewrite upd_same; congruence|exact Hr|]. exists (Acq t l :: b), c. rewrite E. reflexivity.
    + destruct (IH _ Hw) as (b & c & E); [rewrite upd_other by congruence; exact Hn|exact Hr|]. exists (Acq t l' :: b), c. rewrite E. reflexivity.
  - destruct (IH _ Hw) as (b & c & E); [|exact Hr|exists (Rel t l' :: b), c; rewrite E; reflexivity].
    destruct (Z.eq_dec l' l) as [->|Hl]; [rewrite upd_same; discriminate|rewrite upd_other by congruence; exact Hn].
  - destruct (IH _ Hw Hn Hr) as (b & c & E). exists (Acc t f w :: b), c. rewrite E. reflexivity.
Qed.

(* mutual exclusion turned into ordering: if one thread holds the lock and later another one does, the first
   has released it and the second has acquired it afterwards, in that order *)
Lemma release_then_acquire l t1 t2 : t1 <> t2 -> forall tr s, wf s tr -> s l = Some t1 -> run s tr l = Some t2 ->
  exists a b c, tr = a ++ Rel t1 l :: b ++ Acq t2 l :: c.
Proof.
  intro Hne. induction tr as [|e r IH]; intros s Hw Hs Hr; cbn in *; [congruence|].
  destruct Hw as [Hok Hw].
  destruct e as [t l'|t l'|t f w]; cbn in *.
  - destruct (Z.eq_dec l' l) as [->|Hl]; [congruence|].
    destruct (IH _ Hw) as (a & b & c & E); [rewrite upd_other by congruence; exact Hs|exact Hr|].
    exists (Acq t l' :: a), b, c. rewrite E. reflexivity.
  - destruct (Z.eq_dec l' l) as [->|Hl].
    + assert (t = t1) by congruence. subst t.
      destruct (acquired_between l t2 r _ Hw) as (b & c & E); [rewrite upd_same; discriminate|exact Hr|].
      exists [], b, c. rewrite E. reflexivity.
    + destruct (IH _ Hw) as (a & b & c & E); [rewrite upd_other by congruence; exact Hs|exact Hr|].
      exists (Rel t l' :: a), b, c. rewrite E. reflexivity.
  - destruct (IH _ Hw Hs Hr) as (a & b & c & E). exists (Acc t f w :: a), b, c. rewrite E. reflexivity.
Qed.

(* two accesses of a field by different threads that both hold the field's lock are ordered by the lock:
   between them the first thread releases it and the second acquires it (program order, then the
   unlock-before-lock edge of the Go memory model, then program order) *)
Theorem guarded_accesses_are_ordered l f t1 t2 w1 w2 pre mid post s0 :
  t1 <> t2 ->
  wf s0 (pre ++ Acc t1 f w1 :: mid ++ Acc t2 f w2 :: post) ->
  run s0 pre l = Some t1 ->                          (* the first access is made holding l *)
  run s0 (pre ++ Acc t1 f w1 :: mid) l = Some t2 ->  (* and so is the second *)
  exists a b c, mid = a ++ Rel t1 l :: b ++ Acq t2 l :: c.
Proof.
  intros Hne Hw H1 H2.
  assert (Wsplit : forall tr1 tr2 s, wf s (tr1 ++ tr2) -> wf s tr1 /\ wf (run s tr1) tr2).
  { induction tr1 as [|e r IH]; intros tr2 s H; cbn in *; [auto|]. destruct H as [Hok H]. destruct (IH _ _ H) as [A B]. auto. }
  destruct (Wsplit _ _ _ Hw) as [_ Hw1]. cbn in Hw1. destruct Hw1 as [_ Hw1].
  change (mid ++ Acc t2 f w2 :: post) with (mid ++ (Acc t2 f w2 :: post)) in Hw1.
  destruct (Wsplit _ _ _ Hw1) as [Hwm _].
  unfold run in H2. rewrite fold_left_app in H2. cbn [fold_left step] in H2.
  exact (release_then_acquire l t1 t2 Hne mid _ Hwm H1 H2).
Qed.

(* the rule, read back: an entry that passes for a field that is written after construction and is not on
   the justified list holds the field's lock *)
Lemma access_ok_holds_lock field func locks flock :
  access_ok field func locks flock true = true -> is_justified field func = false -> Z.land locks flock <> 0.
Proof.
  unfold access_ok. intros H J. rewrite J in H. cbn in H. rewrite orb_false_r in H.
  apply negb_true_iff, Z.eqb_neq in H. exact H.
Qed.

(* a field that only the loop touches is touched by one thread: nothing to order *)
Lemma confined_same_thread (loop : Z) (t1 t2 : Z) : t1 = loop -> t2 = loop -> t1 = t2.
Proof. congruence. Qed.

Lemma acyclic_no_self_loop es a : acyclic es = true -> In (a, a) es -> False.
Proof.
  unfold acyclic. intros H Hin. rewrite forallb_forall in H. specialize (H _ Hin). cbn in H.
  rewrite Z.eqb_refl in H. rewrite andb_false_r in H. discriminate.
Qed.

Example rule_examples :
  (access_ok 1 2 16 16 true, access_ok 1 2 0 16 true, access_ok 1 2 0 0 false, access_ok 1115858697 2057374617 16 0 true,
   acyclic [(3, 4); (2, 0); (3, 0); (3, 2)], acyclic [(3, 4); (4, 3)], acyclic [(1, 2); (2, 3); (3, 1)])
  = (true, false, true, true, true, false, false).
Proof. vm_compute. reflexivity. Qed.

(* The segment tree answers exactly "v lies in some range", for every list of ranges. *)
From RainV Require Import Lib Stree.
From Coq Require Import ZifyBool.
Ltac Zify.zify_post_hook ::= Z.div_mod_to_equations.
Ltac tt := intuition (subst; auto; try congruence; try lia).

(* ---------- sort / dedup ---------- *)
Fixpoint sorted (l : list Z) : Prop :=
  match l with
  | [] => True
  | x :: r => (forall y, In y r -> x <= y) /\ sorted r
  end.
Fixpoint ssorted (l : list Z) : Prop :=          (* strictly increasing *)
  match l with
  | [] => True
  | x :: r => (forall y, In y r -> x < y) /\ ssorted r
  end.

Lemma insert_sorted_in x l y : In y (insert_sorted x l) <-> y = x \/ In y l.
Proof.
  induction l as [|z r IH]; cbn [insert_sorted In]; [tt|].
  destruct (x <=? z); cbn [In]; [tt|]. rewrite IH. tt.
Qed.

Lemma insert_sorted_sorted x l : sorted l -> sorted (insert_sorted x l).
Proof.
  induction l as [|z r IH]; intros H; cbn [insert_sorted]; [cbn; tt|].
  destruct H as [Hz Hr]. destruct (x <=? z) eqn:E; cbn [sorted].
  - split; [|split; assumption]. intros y [<-|Hy]; [lia|]. specialize (Hz _ Hy). lia.
  - split; [|apply IH; assumption]. intros y Hy. apply insert_sorted_in in Hy as [->|Hy]; [lia|auto].
Qed.

Lemma sort_in l y : In y (sort l) <-> In y l.
Proof.
  induction l as [|x r IH]; cbn [sort fold_right In]; [tt|].
  fold (sort r). rewrite insert_sorted_in, IH. tt.
Qed.

Lemma sort_sorted l : sorted (sort l).
Proof. induction l as [|x r IH]; cbn [sort fold_right]; [exact I|]. apply insert_sorted_sorted. exact IH. Qed.

Lemma dedup_go_spec : forall l p, sorted l -> (forall y, In y l -> p <= y) ->
  (forall x, In x (dedup_go p l) <-> In x l /\ x <> p) /\
  ssorted (dedup_go p l) /\ (forall x, In x (dedup_go p l) -> p < x).
Proof.
  induction l as [|z r IH]; intros p Hs Hlb; cbn [dedup_go].
  - cbn. split; [tt|]. split; [exact I|tt].
  - destruct Hs as [Hz Hr]. destruct (z =? p) eqn:E.
    + assert (z = p) by lia. subst z.
      destruct (IH p Hr) as (H1 & H2 & H3); [intros; apply Hlb; right; assumption|].
      split; [|split; assumption]. intros x. rewrite H1. cbn [In]. split; [tt|]. intros [[->|H] Hn]; tt.
    + destruct (IH z Hr Hz) as (H1 & H2 & H3).
      assert (Hpz : p < z) by (specialize (Hlb z (or_introl eq_refl)); lia).
      split; [|split].
      * intros x. cbn [In]. rewrite H1. split.
        -- intros [<-|[Hx Hn]]; [split; [left; reflexivity|lia]|]. split; [right; assumption|].
           specialize (Hz _ Hx). lia.
        -- intros [[<-|Hx] Hn]; [left; reflexivity|]. destruct (Z.eq_dec x z) as [->|Hne]; [left; reflexivity|right; tt].
      * cbn [ssorted]. split; [exact H3|exact H2].
      * intros x [<-|Hx]; [lia|]. specialize (H3 _ Hx). lia.
Qed.

Definition u32l (l : list Z) : Prop := Forall (fun x => 0 <= x < two32s) l.

Lemma dedup_spec l : u32l l -> (forall x, In x (dedup l) <-> In x l) /\ ssorted (dedup l).
Proof.
  intros Hu. unfold dedup. pose proof (sort_sorted l) as Hs. pose proof (sort_in l) as Hin.
  destruct (sort l) as [|x r] eqn:E.
  - split; [|exact I]. intros y. rewrite <- Hin. tt.
  - assert (Hx : 0 <= x < two32s).
    { unfold u32l in Hu. rewrite Forall_forall in Hu. apply Hu. apply Hin. left; reflexivity. }
    cbn [dedup_go]. destruct (x =? (x + 1) mod two32s) eqn:Ex; [unfold two32s in *; lia|].
    destruct Hs as [Hz Hr]. destruct (dedup_go_spec r x Hr Hz) as (H1 & H2 & H3).
    split.
    + intros y. rewrite <- Hin. cbn [In]. rewrite H1. split.
      * intros [<-|[Hy _]]; tt.
      * intros [<-|Hy]; [left; reflexivity|]. destruct (Z.eq_dec y x) as [->|Hne]; [left; reflexivity|right; tt].
    + cbn [ssorted]. split; assumption.
Qed.

(* ---------- elementary intervals ---------- *)
Definition inseg (s : seg) (v : Z) : Prop := sfrom s <= v <= sto s.

Lemma elementary_cons2 p q r : elementary (p :: q :: r) =
  {| sfrom := p; sto := p |} :: {| sfrom := p; sto := q |} :: elementary (q :: r).
Proof. reflexivity. Qed.

Lemma elementary_point : forall es v, In v es -> In {| sfrom := v; sto := v |} (elementary es).
Proof.
  induction es as [|p r IH]; intros v H; [destruct H|].
  destruct r as [|q r'].
  - destruct H as [<-|[]]. left; reflexivity.
  - rewrite elementary_cons2. destruct H as [<-|H]; [left; reflexivity|]. right; right. apply IH. exact H.
Qed.

Lemma elementary_gap : forall es v, ssorted es -> es <> [] -> ~ In v es ->
  hd 0 es <= v <= last es 0 ->
  exists l, In l (elementary es) /\ sfrom l < v < sto l /\ forall e, In e es -> e <= sfrom l \/ sto l <= e.
Proof.
  induction es as [|p r IH]; intros v Hs Hne Hnin Hr; [congruence|].
  destruct r as [|q r'].
  - cbn in Hr. exfalso. apply Hnin. left. lia.
  - rewrite elementary_cons2. destruct Hs as [Hp Hs']. cbn [hd] in Hr.
    assert (Hpq : p < q) by (apply Hp; left; reflexivity).
    destruct (Z_lt_le_dec v q) as [Hlt|Hge].
    + exists {| sfrom := p; sto := q |}. split; [right; left; reflexivity|]. cbn [sfrom sto].
      split; [split; [|assumption]|].
      * destruct (Z.eq_dec v p) as [->|]; [exfalso; apply Hnin; left; reflexivity|lia].
      * intros e [<-|He]; [left; lia|]. right. destruct He as [<-|He]; [lia|].
        destruct Hs' as [Hq _]. specialize (Hq _ He). lia.
    + destruct (IH v Hs') as (l & Hl & Hv & He); [discriminate| | |].
      * intros Hin. apply Hnin. right. exact Hin.
      * cbn [hd]. split; [lia|]. change (last (p :: q :: r') 0) with (last (q :: r') 0) in Hr. lia.
      * exists l. split; [right; right; exact Hl|]. split; [exact Hv|].
        intros e [<-|Hin]; [|apply He; exact Hin].
        left. assert (q <= sfrom l \/ sto l <= q) as [H|H] by (apply He; left; reflexivity); lia.
Qed.

(* from/to are monotone along the leaf list, every leaf is non-degenerate-or-point *)
Fixpoint mono (ls : list seg) : Prop :=
  match ls with
  | [] => True
  | l :: r => sfrom l <= sto l /\ (forall l', In l' r -> sfrom l <= sfrom l' /\ sto l <= sto l') /\ mono r
  end.

Lemma elementary_bounds : forall es l, ssorted es -> In l (elementary es) ->
  In (sfrom l) es /\ In (sto l) es /\ sfrom l <= sto l.
Proof.
  induction es as [|p r IH]; intros l Hs H; [destruct H|].
  destruct r as [|q r'].
  - destruct H as [<-|[]]. cbn. split; [auto|split; [auto|lia]].
  - rewrite elementary_cons2 in H. destruct Hs as [Hp Hs'].
    destruct H as [<-|[<-|H]].
    + cbn. split; [auto|split; [auto|lia]].
    + cbn [sfrom sto]. split; [left; reflexivity|]. split; [right; left; reflexivity|].
      assert (p < q) by (apply Hp; left; reflexivity). lia.
    + destruct (IH _ Hs' H) as (H1 & H2 & H3). split; [right; exact H1|split; [right; exact H2|exact H3]].
Qed.

Lemma elementary_mono : forall es, ssorted es -> mono (elementary es).
Proof.
  induction es as [|p r IH]; intros Hs; [exact I|].
  destruct r as [|q r'].
  - cbn. split; [lia|]. split; [tt|exact I].
  - rewrite elementary_cons2. pose proof Hs as Hs0. destruct Hs as [Hp Hs'].
    assert (Hpq : p < q) by (apply Hp; left; reflexivity).
    assert (Hrest : forall l', In l' (elementary (q :: r')) -> q <= sfrom l' /\ q <= sto l').
    { intros l' Hl'. destruct (elementary_bounds _ _ Hs' Hl') as (H1 & H2 & H3).
      destruct Hs' as [Hq _]. destruct H1 as [H1|H1]; [lia|]. specialize (Hq _ H1). lia. }
    cbn [mono sfrom sto]. split; [lia|]. split.
    + intros l' [<-|Hl']; [cbn; lia|]. specialize (Hrest _ Hl'). lia.
    + split; [lia|]. split; [|apply IH; exact Hs'].
      intros l' Hl'. specialize (Hrest _ Hl'). lia.
Qed.

(* ---------- the tree ---------- *)
Inductive shape : tree -> list seg -> Prop :=
| shape_leaf l ov : shape (Leaf l ov) [l]
| shape_node ov tl tr ls1 ls2 : ls1 <> [] -> ls2 <> [] -> shape tl ls1 -> shape tr ls2 ->
    shape (Node (hull (ls1 ++ ls2)) ov tl tr) (ls1 ++ ls2).

Lemma shape_tseg t ls : shape t ls -> tseg t = hull ls.
Proof. destruct 1 as [l ov|]; [destruct l; reflexivity|reflexivity]. Qed.

Lemma shape_nonempty t ls : shape t ls -> ls <> [].
Proof. destruct 1; [discriminate|]. destruct ls1; [congruence|discriminate]. Qed.

Lemma insert_nodes_shape : forall fuel ls, ls <> [] -> (length ls < fuel)%nat ->
  exists t, insert_nodes fuel ls = Some t /\ shape t ls.
Proof.
  induction fuel as [|f IH]; intros ls Hne Hf; [lia|]. cbn [insert_nodes].
  destruct ls as [|l0 r]; [congruence|]. destruct r as [|l1 r'].
  - eexists; split; [reflexivity|constructor].
  - set (ls := l0 :: l1 :: r') in *. set (c := Nat.div (length ls) 2).
    assert (Hlen : (2 <= length ls)%nat) by (unfold ls; cbn; lia).
    assert (Hc : (1 <= c /\ c < length ls)%nat).
    { unfold c. pose proof (Nat.div_mod (length ls) 2 ltac:(lia)).
      pose proof (Nat.mod_upper_bound (length ls) 2 ltac:(lia)). lia. }
    assert (H1 : firstn c ls <> []).
    { intros E. apply (f_equal (@length _)) in E. rewrite firstn_length in E. change (length (@nil seg)) with 0%nat in E. lia. }
    assert (H2 : skipn c ls <> []).
    { intros E. apply (f_equal (@length _)) in E. rewrite skipn_length in E. change (length (@nil seg)) with 0%nat in E. lia. }
    destruct (IH (firstn c ls) H1) as (tl & El & Sl); [rewrite firstn_length; lia|].
    destruct (IH (skipn c ls) H2) as (tr & Er & Sr); [rewrite skipn_length; lia|].
    rewrite El, Er. eexists; split; [reflexivity|].
    pose proof (shape_node [] tl tr _ _ H1 H2 Sl Sr) as Hs. rewrite (firstn_skipn c ls) in Hs. exact Hs.
Qed.

Lemma insert_interval_shape t ls i : shape t ls -> shape (insert_interval t i) ls.
Proof.
  induction 1 as [l ov|ov tl tr ls1 ls2 H1 H2 Sl IHl Sr IHr]; cbn [insert_interval].
  - destruct (subset_of l (iseg i)); constructor.
  - destruct (subset_of _ (iseg i)); [constructor; assumption|].
    constructor; try assumption; [destruct (intersects _ _)|destruct (intersects _ _)]; assumption.
Qed.

(* intervals stored somewhere in the tree, with the node they sit at *)
Inductive stored : itv -> seg -> tree -> Prop :=
| st_leaf i s ov : In i ov -> stored i s (Leaf s ov)
| st_here i s ov l r : In i ov -> stored i s (Node s ov l r)
| st_left i n s ov l r : stored i n l -> stored i n (Node s ov l r)
| st_right i n s ov l r : stored i n r -> stored i n (Node s ov l r).

Lemma query_stored t v id : In id (query t v v) -> exists i n, stored i n t /\ iid i = id /\ inseg n v.
Proof.
  induction t as [s ov|s ov l IHl r IHr]; cbn [query]; intros H.
  - destruct (disjoint s v v) eqn:E; [destruct H|]. apply in_map_iff in H as (i & Hi & Hin).
    exists i, s. split; [constructor; assumption|]. split; [assumption|].
    unfold disjoint, inseg in *. lia.
  - destruct (disjoint s v v) eqn:E; [destruct H|].
    apply in_app_or in H as [H|H]; [|apply in_app_or in H as [H|H]].
    + apply in_map_iff in H as (i & Hi & Hin). exists i, s. split; [apply st_here; assumption|].
      split; [assumption|]. unfold disjoint, inseg in *. lia.
    + destruct (IHr H) as (i & n & Hs & Hi & Hn). exists i, n. split; [apply st_right; assumption|auto].
    + destruct (IHl H) as (i & n & Hs & Hi & Hn). exists i, n. split; [apply st_left; assumption|auto].
Qed.

Lemma stored_insert t j i n : stored i n (insert_interval t j) ->
  (i = j /\ subset_of n (iseg j) = true) \/ stored i n t.
Proof.
  induction t as [s ov|s ov l IHl r IHr]; cbn [insert_interval]; intros H.
  - destruct (subset_of s (iseg j)) eqn:E; [|right; assumption].
    inversion H; subst. match goal with Hin : In _ (_ ++ _) |- _ => apply in_app_or in Hin as [Hin|[<-|[]]] end.
    + right. constructor. assumption.
    + left. auto.
  - destruct (subset_of s (iseg j)) eqn:E.
    + inversion H; subst.
      * match goal with Hin : In _ (_ ++ _) |- _ => apply in_app_or in Hin as [Hin|[<-|[]]] end;
          [right; apply st_here; assumption|left; auto].
      * right. apply st_left. assumption.
      * right. apply st_right. assumption.
    + inversion H; subst.
      * right. apply st_here. assumption.
      * destruct (intersects (tseg l) (iseg j)).
        -- match goal with Hs : stored _ _ (insert_interval l j) |- _ => destruct (IHl Hs) as [Hl|Hl] end;
             [left; assumption|right; apply st_left; assumption].
        -- right. apply st_left. assumption.
      * destruct (intersects (tseg r) (iseg j)).
        -- match goal with Hs : stored _ _ (insert_interval r j) |- _ => destruct (IHr Hs) as [Hl|Hl] end;
             [left; assumption|right; apply st_right; assumption].
        -- right. apply st_right. assumption.
Qed.

Lemma stored_fold : forall base t i n, stored i n (fold_left insert_interval base t) ->
  (In i base /\ subset_of n (iseg i) = true) \/ stored i n t.
Proof.
  induction base as [|j r IH]; intros t i n H; cbn [fold_left] in H; [right; assumption|].
  destruct (IH _ _ _ H) as [[Hin Hs]|Hst]; [left; split; [right; assumption|assumption]|].
  destruct (stored_insert _ _ _ _ Hst) as [[-> Hs]|Hs]; [left; split; [left; reflexivity|assumption]|right; assumption].
Qed.

Lemma no_stored_fresh : forall fuel ls t, insert_nodes fuel ls = Some t -> forall i n, ~ stored i n t.
Proof.
  induction fuel as [|f IH]; intros ls t H i n Hs; [discriminate|]. cbn [insert_nodes] in H.
  destruct ls as [|l0 r]; [discriminate|]. destruct r as [|l1 r'].
  - inversion H; subst. inversion Hs; subst. match goal with Hin : In _ [] |- _ => destruct Hin end.
  - destruct (insert_nodes f (firstn _ _)) as [tl|] eqn:El; [|discriminate].
    destruct (insert_nodes f (skipn _ _)) as [tr|] eqn:Er; [|discriminate].
    inversion H; subst. inversion Hs; subst.
    + match goal with Hin : In _ [] |- _ => destruct Hin end.
    + eapply (IH _ _ El); eassumption.
    + eapply (IH _ _ Er); eassumption.
Qed.

(* hull contains every member when from/to are monotone *)
Lemma last_in {A} (l : list A) d : l <> [] -> In (last l d) l.
Proof.
  induction l as [|x r IH]; intros H; [congruence|]. destruct r as [|y r']; [left; reflexivity|].
  right. apply IH. discriminate.
Qed.

Lemma mono_app ls1 ls2 : mono (ls1 ++ ls2) -> mono ls1 /\ mono ls2.
Proof.
  induction ls1 as [|l r IH]; cbn [app mono]; intros H; [split; [exact I|assumption]|].
  destruct H as (H0 & H1 & H2). destruct (IH H2) as [Ha Hb]. split; [|assumption].
  split; [assumption|]. split; [|assumption]. intros l' Hl'. apply H1. apply in_or_app. left; assumption.
Qed.

Lemma mono_last : forall ls l0 l, mono ls -> In l ls -> sto l <= sto (last ls l0).
Proof.
  induction ls as [|x r IH]; intros l0 l Hm Hin; [destruct Hin|].
  destruct Hm as (H0 & H1 & H2). destruct r as [|y r'].
  - destruct Hin as [<-|[]]. cbn. lia.
  - change (last (x :: y :: r') l0) with (last (y :: r') l0).
    destruct Hin as [<-|Hin]; [|apply IH; assumption].
    assert (Hl : In (last (y :: r') l0) (y :: r')) by (apply last_in; discriminate).
    destruct (H1 _ Hl). lia.
Qed.

Lemma hull_contains ls l v : mono ls -> In l ls -> inseg l v -> inseg (hull ls) v.
Proof.
  intros Hm Hin Hv. destruct ls as [|l0 r]; [destruct Hin|]. unfold hull, inseg in *. cbn [sfrom sto].
  pose proof (mono_last _ l0 _ Hm Hin) as Hl. destruct Hm as (H0 & H1 & _).
  destruct Hin as [<-|Hin]; [lia|]. destruct (H1 _ Hin). lia.
Qed.

Lemma mono_nonempty_seg ls l : mono ls -> In l ls -> sfrom l <= sto l.
Proof.
  induction ls as [|x r IH]; intros Hm Hin; [destruct Hin|]. destruct Hm as (H0 & _ & H2).
  destruct Hin as [<-|Hin]; [assumption|apply IH; assumption].
Qed.

(* inserting R stores it on the root-to-leaf path of any leaf it covers *)
Lemma complete_insert t ls : shape t ls -> mono ls -> forall l v i, In l ls -> inseg l v ->
  subset_of l (iseg i) = true -> In (iid i) (query (insert_interval t i) v v).
Proof.
  induction 1 as [l0 ov|ov tl tr ls1 ls2 H1 H2 Sl IHl Sr IHr]; intros Hm l v i Hin Hv Hsub.
  - destruct Hin as [<-|[]]. cbn [insert_interval]. rewrite Hsub. cbn [query].
    destruct (disjoint l0 v v) eqn:E; [unfold disjoint, inseg in *; lia|].
    apply in_map_iff. exists i. split; [reflexivity|apply in_or_app; right; left; reflexivity].
  - pose proof (hull_contains _ _ _ Hm Hin Hv) as Hh.
    cbn [insert_interval]. destruct (subset_of (hull (ls1 ++ ls2)) (iseg i)) eqn:Es; cbn [query].
    + destruct (disjoint _ v v) eqn:E; [unfold disjoint, inseg in *; lia|].
      apply in_or_app. left. apply in_map_iff. exists i. split; [reflexivity|apply in_or_app; right; left; reflexivity].
    + destruct (disjoint _ v v) eqn:E; [unfold disjoint, inseg in *; lia|].
      destruct (mono_app _ _ Hm) as [Hm1 Hm2].
      apply in_or_app. right. apply in_app_or in Hin as [Hin|Hin].
      * apply in_or_app. right.
        assert (Hint : intersects (tseg tl) (iseg i) = true).
        { rewrite (shape_tseg _ _ Sl). pose proof (hull_contains _ _ _ Hm1 Hin Hv) as Hc.
          pose proof (mono_nonempty_seg _ _ Hm1 Hin). unfold intersects, subset_of, inseg in *. lia. }
        rewrite Hint. eapply IHl; eauto.
      * apply in_or_app. left.
        assert (Hint : intersects (tseg tr) (iseg i) = true).
        { rewrite (shape_tseg _ _ Sr). pose proof (hull_contains _ _ _ Hm2 Hin Hv) as Hc.
          pose proof (mono_nonempty_seg _ _ Hm2 Hin). unfold intersects, subset_of, inseg in *. lia. }
        rewrite Hint. eapply IHr; eauto.
Qed.

(* later insertions never remove an answer *)
Lemma query_insert_mono t j v id : In id (query t v v) -> In id (query (insert_interval t j) v v).
Proof.
  induction t as [s ov|s ov l IHl r IHr]; cbn [insert_interval query]; intros H.
  - destruct (subset_of s (iseg j)); cbn [query]; [|assumption].
    destruct (disjoint s v v); [assumption|]. rewrite map_app. apply in_or_app. left; assumption.
  - destruct (subset_of s (iseg j)); cbn [query].
    + destruct (disjoint s v v); [assumption|]. rewrite map_app, <- app_assoc.
      apply in_app_or in H as [H|H]; apply in_or_app; [left; assumption|right; apply in_or_app; right; assumption].
    + destruct (disjoint s v v); [assumption|].
      apply in_app_or in H as [H|H]; [apply in_or_app; left; assumption|].
      apply in_or_app; right. apply in_app_or in H as [H|H]; apply in_or_app.
      * left. destruct (intersects (tseg r) (iseg j)); [apply IHr|]; assumption.
      * right. destruct (intersects (tseg l) (iseg j)); [apply IHl|]; assumption.
Qed.

Lemma query_fold_mono : forall base t v id, In id (query t v v) ->
  In id (query (fold_left insert_interval base t) v v).
Proof.
  induction base as [|j r IH]; intros t v id H; cbn [fold_left]; [assumption|].
  apply IH. apply query_insert_mono. assumption.
Qed.

Lemma complete_fold : forall base t ls, shape t ls -> mono ls -> forall i l v, In i base ->
  In l ls -> inseg l v -> subset_of l (iseg i) = true ->
  In (iid i) (query (fold_left insert_interval base t) v v).
Proof.
  induction base as [|j r IH]; intros t ls Hs Hm i l v Hin Hl Hv Hsub; [destruct Hin|].
  cbn [fold_left]. destruct Hin as [->|Hin].
  - apply query_fold_mono. eapply complete_insert; eauto.
  - eapply IH; eauto. apply insert_interval_shape. assumption.
Qed.

(* ---------- numbering ---------- *)
Lemma number_in : forall rs k i, In i (number k rs) -> In (sfrom (iseg i), sto (iseg i)) rs.
Proof.
  induction rs as [|[a b] r IH]; intros k i H; [destruct H|]. cbn [number] in H.
  destruct H as [<-|H]; [left; reflexivity|right; eapply IH; eauto].
Qed.

Lemma in_number : forall rs k a b, In (a, b) rs -> exists i, In i (number k rs) /\ iseg i = {| sfrom := a; sto := b |}.
Proof.
  induction rs as [|[a' b'] r IH]; intros k a b H; [destruct H|]. cbn [number].
  destruct H as [E|H].
  - inversion E; subst. eexists; split; [left; reflexivity|reflexivity].
  - destruct (IH (k + 1) _ _ H) as (i & Hi & Hs). exists i. split; [right; assumption|assumption].
Qed.

Definition wf_ranges (rs : list (Z * Z)) : Prop :=
  Forall (fun r => 0 <= fst r /\ fst r <= snd r /\ snd r < two32s) rs.

Lemma hd_le_all : forall es x, ssorted es -> In x es -> hd 0 es <= x.
Proof. intros [|p r] x Hs Hin; [destruct Hin|]. destruct Hs as [Hp _]. destruct Hin as [<-|Hin]; [cbn; lia|]. specialize (Hp _ Hin). cbn. lia. Qed.

Lemma all_le_last : forall es x, ssorted es -> In x es -> x <= last es 0.
Proof.
  induction es as [|p r IH]; intros x Hs Hin; [destruct Hin|]. destruct Hs as [Hp Hs'].
  destruct r as [|q r']; [destruct Hin as [<-|[]]; cbn; lia|].
  change (last (p :: q :: r') 0) with (last (q :: r') 0).
  destruct Hin as [<-|Hin]; [|apply IH; assumption].
  assert (In (last (q :: r') 0) (q :: r')) by (apply last_in; discriminate).
  specialize (Hp _ H). lia.
Qed.

Lemma build_nonempty rs : rs <> [] ->
  build rs = match insert_nodes (S (length (elementary (endpoints (number 0 rs))))) (elementary (endpoints (number 0 rs))) with
             | Some t => Some (fold_left insert_interval (number 0 rs) t)
             | None => None
             end.
Proof. destruct rs; [congruence|reflexivity]. Qed.

(* C18 core: the tree built from any list of ranges answers exactly "v is in some range" *)
Theorem stree_exact rs v : wf_ranges rs -> contains (build rs) v = in_some_range rs v.
Proof.
  intros Hwf. destruct (list_eq_dec (fun a b : Z * Z => ltac:(decide equality; apply Z.eq_dec)) rs []) as [->|Hne]; [reflexivity|].
  assert (Hr0 : exists a b, In (a, b) rs) by (destruct rs as [|[a b] r]; [congruence|exists a, b; left; reflexivity]).
  rewrite build_nonempty by assumption.
  set (base := number 0 rs). set (es := endpoints base). set (leaves := elementary es).
  (* endpoints *)
  assert (Hu : u32l (map (fun i => sfrom (iseg i)) base ++ map (fun i => sto (iseg i)) base)).
  { unfold u32l. apply Forall_forall. intros x Hx. unfold wf_ranges in Hwf. rewrite Forall_forall in Hwf.
    apply in_app_or in Hx as [Hx|Hx]; apply in_map_iff in Hx as (i & <- & Hi);
      apply number_in in Hi; specialize (Hwf _ Hi); cbn [fst snd] in Hwf; lia. }
  destruct (dedup_spec _ Hu) as [Hes_in Hes_s]. fold (endpoints base) in Hes_in, Hes_s. fold es in Hes_in, Hes_s.
  assert (Hends : forall a b, In (a, b) rs -> In a es /\ In b es).
  { intros a b Hab. destruct (in_number rs 0 a b Hab) as (i & Hi & Hs). fold base in Hi.
    split; apply Hes_in; apply in_or_app; [left|right]; apply in_map_iff; exists i; rewrite Hs; auto. }
  assert (Hes_ne : es <> []).
  { destruct Hr0 as (a & b & Hab). destruct (Hends a b Hab) as [Ha _]. intros E; rewrite E in Ha; destruct Ha. }
  assert (Hl_ne : leaves <> []).
  { unfold leaves. destruct es as [|p r]; [congruence|]. destruct r; discriminate. }
  destruct (insert_nodes_shape (S (length leaves)) leaves Hl_ne) as (t & Et & St); [lia|].
  rewrite Et. pose proof (elementary_mono es Hes_s) as Hmono. fold leaves in Hmono.
  unfold contains. destruct (in_some_range rs v) eqn:Ein.
  - (* completeness *)
    unfold in_some_range in Ein. apply existsb_exists in Ein as ([a b] & Hab & Hv). cbn [fst snd] in Hv.
    destruct (Hends a b Hab) as [Ha Hb].
    destruct (in_number rs 0 a b Hab) as (i & Hi & Hs). fold base in Hi.
    assert (Hleaf : exists l, In l leaves /\ inseg l v /\ subset_of l (iseg i) = true).
    { destruct (in_dec Z.eq_dec v es) as [Hin|Hnin].
      - exists {| sfrom := v; sto := v |}. split; [apply elementary_point; assumption|].
        split; [unfold inseg; cbn; lia|]. rewrite Hs. unfold subset_of. cbn. lia.
      - destruct (elementary_gap es v Hes_s Hes_ne Hnin) as (l & Hl & Hlv & Hnone).
        { pose proof (hd_le_all es a Hes_s Ha). pose proof (all_le_last es b Hes_s Hb). lia. }
        exists l. split; [assumption|]. split; [unfold inseg; lia|].
        rewrite Hs. unfold subset_of. cbn [sfrom sto].
        destruct (Hnone a Ha), (Hnone b Hb); lia. }
    destruct Hleaf as (l & Hl & Hlv & Hsub).
    pose proof (complete_fold base t leaves St Hmono i l v Hi Hl Hlv Hsub) as Hq.
    destruct (query (fold_left insert_interval base t) v v); [destruct Hq|reflexivity].
  - (* soundness *)
    destruct (query (fold_left insert_interval base t) v v) as [|id rest] eqn:Eq; [reflexivity|exfalso].
    assert (Hq : In id (query (fold_left insert_interval base t) v v)) by (rewrite Eq; left; reflexivity).
    destruct (query_stored _ _ _ Hq) as (i & n & Hst & _ & Hn).
    destruct (stored_fold _ _ _ _ Hst) as [[Hi Hsub]|Hfresh]; [|eapply no_stored_fresh; eauto].
    apply number_in in Hi.
    assert (existsb (fun r => (fst r <=? v) && (v <=? snd r)) rs = true).
    { apply existsb_exists. eexists; split; [exact Hi|]. cbn [fst snd]. unfold subset_of, inseg in *. lia. }
    unfold in_some_range in Ein. congruence.
Qed.

(* CIDR: /k covers exactly [ip & mask, ip | ~mask] *)
Theorem cidr_range_spec ip k v : 0 <= ip < two32s -> 0 <= k <= 32 ->
  let '(a, b) := cidr_range ip k in
  0 <= a /\ a <= b /\ b < two32s /\ (a <= v <= b <-> v / 2 ^ (32 - k) = ip / 2 ^ (32 - k)).
Proof.
  intros Hip Hk. unfold cidr_range. set (m := 2 ^ (32 - k)).
  assert (Hm : 0 < m) by (apply Z.pow_pos_nonneg; lia).
  assert (Hm32 : m * 2 ^ k = two32s).
  { unfold m, two32s. rewrite <- Z.pow_add_r by lia. replace (32 - k + k) with 32 by lia. reflexivity. }
  assert (Hk2 : 0 < 2 ^ k) by (apply Z.pow_pos_nonneg; lia).
  assert (Hq : 0 <= ip / m < 2 ^ k).
  { split; [apply Z.div_pos; lia|]. apply Z.div_lt_upper_bound; lia. }
  repeat split; nia.
Qed.

(* a failed reload keeps the previous tree *)
Theorem reload_atomic b ls : load ls = None -> fst (reload b ls) = b.
Proof. unfold reload. intros ->. reflexivity. Qed.

Example stree_example : contains (build [(5, 9); (7, 12); (20, 20)]) 10 = true /\ wf_ranges [(5, 9); (7, 12); (20, 20)].
Proof. split; [vm_compute; reflexivity|]. repeat constructor; unfold two32s; cbn; lia. Qed.

Definition ranges_of (ls : list line) : list (Z * Z) :=
  flat_map (fun l => match l with LRule ip k => [cidr_range ip k] | _ => [] end) ls.
Definition line_ok (l : line) : Prop :=
  match l with LRule ip k => 0 <= ip < two32s /\ 0 <= k <= 32 | _ => True end.

Lemma ranges_of_wf ls : Forall line_ok ls -> wf_ranges (ranges_of ls).
Proof.
  induction 1 as [|l r Hl Hr IH]; [constructor|]. unfold ranges_of in *. cbn [flat_map].
  destruct l as [ip k| |]; cbn [app]; [|assumption|assumption].
  constructor; [|assumption]. destruct Hl as [Hip Hk].
  pose proof (cidr_range_spec ip k 0 Hip Hk) as H. destruct (cidr_range ip k) as [a b]. cbn [fst snd]. tt.
Qed.

(* blocked exactly when the address lies in at least one rule of the last successful load *)
Theorem load_exact ls t n v : Forall line_ok ls -> load ls = Some (t, n) ->
  contains t v = in_some_range (ranges_of ls) v /\ n = zlen (ranges_of ls).
Proof.
  intros Hok H. unfold load in H. fold (ranges_of ls) in H.
  destruct (Nat.eqb (length (ranges_of ls)) 0 && _); [discriminate|]. inversion H; subst.
  split; [|reflexivity]. apply stree_exact. apply ranges_of_wf. assumption.
Qed.

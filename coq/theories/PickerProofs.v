(* C09 (peer half): soundness of every legal pick and the inductive invariants of the picker
   state under every operation sequence of the glue. *)
From RainV Require Import Lib Picker.
From Coq Require Import ZifyBool Permutation.
Ltac tt := intuition (subst; auto; try congruence; try lia).

(* ---------- basic list-set facts ---------- *)
Lemma mem_true x l : mem x l = true <-> In x l.
Proof.
  unfold mem. rewrite existsb_exists. split.
  - intros (y & Hy & E). assert (x = y) by lia. subst. exact Hy.
  - intros H. exists x. split; [exact H|lia].
Qed.
Lemma mem_false x l : mem x l = false <-> ~ In x l.
Proof. rewrite <- mem_true. destruct (mem x l); split; intros; congruence. Qed.

Lemma in_sadd x y l : In x (sadd y l) <-> x = y \/ In x l.
Proof.
  unfold sadd. destruct (mem y l) eqn:E.
  - apply mem_true in E. split; [tt|]. intros [->|H]; auto.
  - rewrite in_app_iff. cbn. tt.
Qed.
Lemma in_srem x y l : In x (srem y l) <-> In x l /\ x <> y.
Proof. unfold srem. rewrite filter_In. split; intros [H1 H2]; split; auto; lia. Qed.

Lemma nodup_sadd y l : NoDup l -> NoDup (sadd y l).
Proof.
  intros H. unfold sadd. destruct (mem y l) eqn:E; [exact H|]. apply mem_false in E.
  eapply Permutation_NoDup; [apply Permutation_cons_append|]. constructor; assumption.
Qed.
Lemma nodup_srem y l : NoDup l -> NoDup (srem y l).
Proof. intros H. unfold srem. apply NoDup_filter. exact H. Qed.

Lemma zlen_sadd_le y l : zlen (sadd y l) <= zlen l + 1.
Proof. unfold sadd. destruct (mem y l); [lia|]. rewrite zlen_app. cbn. lia. Qed.
Lemma filter_len_le {A} (f : A -> bool) l : (length (filter f l) <= length l)%nat.
Proof. induction l as [|x r IH]; cbn [filter length]; [lia|]. destruct (f x); cbn [length]; lia. Qed.
Lemma zlen_srem_le y l : zlen (srem y l) <= zlen l.
Proof. unfold srem, zlen. pose proof (filter_len_le (fun z => negb (z =? y)) l). lia. Qed.

(* ---------- state access ---------- *)
Lemma nth_upd_nth_same {A} (l : list A) i f d : (i < length l)%nat -> nth i (upd_nth l i f) d = f (nth i l d).
Proof. revert i; induction l as [|x r IH]; intros [|i] H; cbn [length] in H; try lia; cbn [upd_nth nth]; auto. apply IH. lia. Qed.
Lemma nth_upd_nth_other {A} (l : list A) i j f d : i <> j -> nth j (upd_nth l i f) d = nth j l d.
Proof. revert i j; induction l as [|x r IH]; intros [|i] [|j] H; cbn [upd_nth nth]; auto; try congruence. Qed.
Lemma length_upd_nth {A} (l : list A) i f : length (upd_nth l i f) = length l.
Proof. revert i; induction l as [|x r IH]; intros [|i]; cbn [upd_nth length]; auto. Qed.

Lemma get_upd_same s i f : in_range s i = true -> get_piece (upd_piece s i f) i = f (get_piece s i).
Proof.
  unfold in_range, get_piece, upd_piece, with_pieces, zlen. cbn [pieces]. intros H.
  apply nth_upd_nth_same. lia.
Qed.
Lemma get_upd_other s i j f : 0 <= i -> 0 <= j -> i <> j -> get_piece (upd_piece s i f) j = get_piece s j.
Proof.
  unfold get_piece, upd_piece, with_pieces. cbn [pieces]. intros Hi Hj H. apply nth_upd_nth_other. lia.
Qed.
Lemma in_range_upd s i f j : in_range (upd_piece s i f) j = in_range s j.
Proof. unfold in_range, upd_piece, with_pieces, zlen. cbn [pieces]. rewrite length_upd_nth. reflexivity. Qed.

Lemma get_set_peer_same l id v : get_peer (set_peer l id v) id = v.
Proof.
  induction l as [|[k w] r IH]; cbn [set_peer get_peer]; [rewrite Z.eqb_refl; reflexivity|].
  destruct (k =? id) eqn:E; cbn [get_peer]; rewrite E; [reflexivity|exact IH].
Qed.
Lemma get_set_peer_other l id id' v : id <> id' -> get_peer (set_peer l id v) id' = get_peer l id'.
Proof.
  intros H. induction l as [|[k w] r IH]; cbn [set_peer get_peer].
  - destruct (id =? id') eqn:E; [lia|reflexivity].
  - destruct (k =? id) eqn:E; cbn [get_peer].
    + assert (k = id) by lia. subst k. destruct (id =? id') eqn:E2; [lia|reflexivity].
    + destruct (k =? id'); [reflexivity|exact IH].
Qed.

(* membership in the indexed piece list *)
Lemma indexed_in s i p : In (i, p) (indexed s) -> in_range s i = true /\ get_piece s i = p.
Proof.
  unfold indexed, in_range, get_piece, zlen. intros H.
  apply In_nth with (d := (0, default_piece)) in H. destruct H as (n & Hn & E).
  rewrite combine_length, map_length, seq_length, Nat.min_id in Hn.
  rewrite combine_nth in E by (rewrite map_length, seq_length; reflexivity).
  pose proof (f_equal fst E) as E1. pose proof (f_equal snd E) as E2. cbn [fst snd] in E1, E2.
  change 0 with (Z.of_nat 0) in E1. rewrite (map_nth Z.of_nat (seq 0 (length (pieces s))) 0%nat n) in E1.
  rewrite seq_nth in E1 by assumption.
  split; [lia|]. replace (Z.to_nat i) with n by lia. exact E2.
Qed.

Lemma cands_in s c i p : In (i, p) (cands s c) -> in_range s i = true /\ get_piece s i = p /\ c p = true.
Proof. unfold cands. rewrite filter_In. cbn [snd]. intros [H Hc]. apply indexed_in in H. tt. Qed.

Lemma legal_min_cand s c key i : legal_min s c key i = true ->
  in_range s i = true /\ c (get_piece s i) = true.
Proof.
  unfold legal_min. destruct (min_key key (cands s c)); [|discriminate].
  rewrite existsb_exists. intros ([j p] & Hin & H). cbn [fst snd] in H.
  assert (j = i) by lia. subst j. apply cands_in in Hin. destruct Hin as (H1 & H2 & H3). rewrite H2. auto.
Qed.

Lemma first_cand_spec s c i : first_cand s c = Some i -> in_range s i = true /\ c (get_piece s i) = true.
Proof.
  unfold first_cand. destruct (cands s c) as [|[j p] r] eqn:E; [discriminate|]. intros H; inversion H; subst.
  assert (Hin : In (i, p) (cands s c)) by (rewrite E; left; reflexivity).
  apply cands_in in Hin. destruct Hin as (H1 & H2 & H3). rewrite H2. auto.
Qed.

Lemma first_af_spec s pe : forall af i, first_af s pe af = Some i -> In i af /\ af_cand s pe i = true.
Proof.
  induction af as [|j r IH]; intros i H; cbn [first_af] in H; [discriminate|].
  destruct (af_cand s pe j) eqn:E; [inversion H; subst; split; [left; reflexivity|exact E]|].
  destruct (IH _ H). split; [right; assumption|assumption].
Qed.
Lemma lowest_af_spec s pe : forall af best i, lowest_af s pe af best = Some i ->
  (In i af /\ af_cand s pe i = true) \/ best = Some i.
Proof.
  induction af as [|j r IH]; intros best i H; cbn [lowest_af] in H; [right; exact H|].
  destruct (IH _ _ H) as [[H1 H2]|Hb]; [left; split; [right; assumption|assumption]|].
  destruct (af_cand s pe j) eqn:E; [|right; exact Hb].
  destruct best as [b|].
  - destruct (j <? b); [inversion Hb; subst; left; split; [left; reflexivity|exact E]|right; exact Hb].
  - inversion Hb; subst. left. split; [left; reflexivity|exact E].
Qed.

(* ---------- C09: every legal pick is sound ---------- *)
Definition limit (s : picker) : Z := Z.max 1 (maxdup s).

Theorem pick_sound s pe i af : pick_legal s (fst (find_piece s pe)) i af = true ->
  let p := get_piece s i in let P := get_peer (peers s) pe in
  in_range s i = true /\ p_done p = false /\ p_writing p = false /\ In pe (p_having p) /\
  pe_downloading P = false /\
  (pe_choking P = false \/ (af = true /\ In i (pe_af P))) /\
  zlen (p_req p) < limit s.
Proof.
  intros H p P. unfold find_piece in H. fold P in H.
  destruct (pe_downloading P) eqn:Ed; [discriminate|].
  assert (Hopen : forall q, open_ q = true -> p_done q = false /\ p_writing q = false).
  { intros q Hq. unfold open_ in Hq. destruct (p_done q), (p_writing q); cbn in Hq; auto; discriminate. }
  assert (Hlim : 1 <= limit s) by (unfold limit; lia).
  (* file edge *)
  destruct (if sequential s && negb (pe_choking P) then first_cand s (c_edge pe) else None) as [j|] eqn:E1.
  { cbn [fst pick_legal] in H. destruct (sequential s && negb (pe_choking P)) eqn:Es; [|discriminate].
    apply first_cand_spec in E1 as [Hr Hc]. assert (i = j) by lia. subst j.
    unfold c_edge, c_unreq_has in Hc. fold p in Hc.
    destruct (open_ p) eqn:Eo; [|destruct (p_head p || p_tail p); discriminate].
    destruct (Hopen _ Eo). destruct (Nat.eqb (length (p_req p)) 0) eqn:El; [|destruct (p_head p || p_tail p); discriminate].
    destruct (mem pe (p_having p)) eqn:Em; [|destruct (p_head p || p_tail p); discriminate]. apply mem_true in Em.
    repeat split; auto; try (unfold zlen; lia).
    all: try (left; destruct (pe_choking P); [destruct (sequential s); discriminate|reflexivity]). }
  (* allowed fast *)
  destruct (if sequential s then lowest_af s pe (pe_af P) None else first_af s pe (pe_af P)) as [j|] eqn:E2.
  { cbn [fst pick_legal] in H. assert (i = j) by lia. subst j.
    assert (Haf : In i (pe_af P) /\ af_cand s pe i = true).
    { destruct (sequential s); [apply lowest_af_spec in E2 as [E2|E2]; [exact E2|discriminate]|apply first_af_spec in E2; exact E2]. }
    destruct Haf as [Hin Hc]. unfold af_cand in Hc. fold p in Hc.
    destruct (in_range s i) eqn:Er; [|discriminate]. destruct (open_ p) eqn:Eo; [|discriminate].
    destruct (Hopen _ Eo). destruct (Nat.eqb (length (p_req p)) 0) eqn:El; [|discriminate].
    destruct (mem pe (p_having p)) eqn:Em; [|discriminate]. apply mem_true in Em.
    repeat split; auto; try (unfold zlen; lia).
    all: try (right; split; [|exact Hin]; destruct af; [reflexivity|]; rewrite Z.eqb_refl in H; discriminate). }
  destruct (pe_choking P) eqn:Ec; [discriminate|].
  assert (Hend : legal_min s (c_endgame s pe) running i = true ->
            in_range s i = true /\ p_done p = false /\ p_writing p = false /\ In pe (p_having p) /\ zlen (p_req p) < limit s).
  { intros Hl. apply legal_min_cand in Hl as [Hr Hc]. unfold c_endgame in Hc. fold p in Hc.
    destruct (open_ p) eqn:Eo; [|discriminate]. destruct (Hopen _ Eo).
    destruct (zlen (p_req p) <? maxdup s) eqn:El; [|discriminate].
    destruct (mem pe (p_having p)) eqn:Em; [|discriminate]. apply mem_true in Em. unfold limit. repeat split; auto; lia. }
  destruct (endgame s).
  { cbn [fst pick_legal] in H. apply andb_prop in H as [_ H]. destruct (Hend H) as (A & B & C & D & E). repeat split; auto. }
  destruct (if sequential s then first_cand s (c_unreq_has pe) else match cands s (c_unreq_has pe) with [] => None | _ => Some 0 end) as [j|] eqn:E3.
  { assert (Hc : in_range s i = true /\ c_unreq_has pe p = true).
    { destruct (sequential s).
      - cbn [fst pick_legal] in H. apply first_cand_spec in E3. assert (i = j) by lia. subst j. exact E3.
      - cbn [fst pick_legal] in H. apply andb_prop in H as [_ H]. apply legal_min_cand in H. exact H. }
    destruct Hc as [Hr Hc]. unfold c_unreq_has in Hc.
    destruct (open_ p) eqn:Eo; [|discriminate]. destruct (Hopen _ Eo).
    destruct (Nat.eqb (length (p_req p)) 0) eqn:El; [|discriminate].
    destruct (mem pe (p_having p)) eqn:Em; [|discriminate]. apply mem_true in Em.
    repeat split; auto. unfold zlen; lia. }
  destruct (match cands s c_unreq with [] => true | _ => false end).
  { cbn [fst pick_legal] in H. apply andb_prop in H as [_ H]. destruct (Hend H) as (A & B & C & D & E). repeat split; auto. }
  cbn [fst pick_legal] in H. apply andb_prop in H as [_ H]. apply legal_min_cand in H as [Hr Hc].
  unfold c_stalled in Hc. fold p in Hc.
  destruct (open_ p) eqn:Eo; [|discriminate]. destruct (Hopen _ Eo).
  destruct (negb (running p >? 0)); [|discriminate].
  destruct (zlen (p_req p) <? maxdup s) eqn:El; [|discriminate].
  destruct (mem pe (p_having p)) eqn:Em; [|discriminate]. apply mem_true in Em. unfold limit. repeat split; auto; lia.
Qed.

(* in sequential mode an unchoked peer with no file-edge and no allowed-fast candidate gets the
   lowest-indexed piece that is open, unrequested and held by the peer *)
Theorem sequential_lowest s pe i : sequential s = true -> endgame s = false ->
  let P := get_peer (peers s) pe in
  pe_downloading P = false -> pe_choking P = false ->
  first_cand s (c_edge pe) = None -> lowest_af s pe (pe_af P) None = None ->
  first_cand s (c_unreq_has pe) = Some i ->
  fst (find_piece s pe) = StFirst i false /\
  forall j p, In (j, p) (cands s (c_unreq_has pe)) -> i <= j.
Proof.
  intros Hs He P Hd Hc H1 H2 H3. split.
  - unfold find_piece. fold P. rewrite Hd, Hs, Hc. cbn [negb andb]. rewrite H1, H2, He, H3. reflexivity.
  - unfold first_cand in H3. unfold cands in *. intros j p Hin.
    (* indexes of [indexed s] are increasing, so the first candidate has the least index *)
    unfold indexed in *. remember (pieces s) as ps eqn:Eps. clear Eps.
    assert (G : forall (k : nat) (l : list ppiece) i0,
              match filter (fun ip : Z * ppiece => c_unreq_has pe (snd ip)) (combine (map Z.of_nat (seq k (length l))) l) with
              | [] => None | ip :: _ => Some (fst ip) end = Some i0 ->
              forall j0 p0, In (j0, p0) (filter (fun ip : Z * ppiece => c_unreq_has pe (snd ip)) (combine (map Z.of_nat (seq k (length l))) l)) -> i0 <= j0).
    { clear. intros k l; revert k. induction l as [|x r IH]; intros k i0 Hf j0 p0 Hin; [destruct Hin|].
      cbn [length seq map combine filter snd] in *. destruct (c_unreq_has pe x) eqn:E.
      - cbn [fst] in Hf. inversion Hf; subst. destruct Hin as [Hin|Hin]; [inversion Hin; lia|].
        apply filter_In in Hin as [Hin _]. apply in_combine_l in Hin. apply in_map_iff in Hin as (n & <- & Hn).
        apply in_seq in Hn. lia.
      - eapply IH; eauto. }
    eapply (G 0%nat ps); eauto.
Qed.

(* ---------- invariants over every operation sequence ---------- *)
Definition R (s : picker) (i : Z) : list Z := p_req (get_piece s i).
Definition Hv (s : picker) (i : Z) : list Z := p_having (get_piece s i).
Definition PP (s : picker) (pe : Z) : option (Z * bool) := pe_piece (get_peer (peers s) pe).
Definition Dl (s : picker) (pe : Z) : bool := pe_downloading (get_peer (peers s) pe).

Record PInv (s : picker) : Prop := {
  inv_a : forall i pe, 0 <= i -> In pe (R s i) -> In pe (Hv s i);
  inv_b : forall i pe, 0 <= i -> In pe (R s i) -> in_range s i = true /\ exists af, PP s pe = Some (i, af);
  inv_c : forall pe i af, PP s pe = Some (i, af) -> 0 <= i /\ In pe (R s i) /\ Dl s pe = true;
  inv_d : forall pe, PP s pe = None -> Dl s pe = false;
  inv_e : forall i, 0 <= i -> zlen (R s i) <= limit s /\ NoDup (R s i)
}.

(* a peer downloads at most one piece at a time *)
Lemma one_piece_per_peer s pe i j : PInv s -> 0 <= i -> 0 <= j -> In pe (R s i) -> In pe (R s j) -> i = j.
Proof.
  intros I Hi Hj H1 H2. destruct (inv_b s I i pe Hi H1) as (_ & a1 & E1). destruct (inv_b s I j pe Hj H2) as (_ & a2 & E2).
  congruence.
Qed.

(* generic transfer: a state whose views relate to those of [s] as described keeps the invariant *)
Lemma get_piece_default s i : in_range s i = false -> 0 <= i -> get_piece s i = default_piece.
Proof. unfold in_range, get_piece, zlen. intros H Hi. apply nth_overflow. lia. Qed.

Lemma R_out s i : in_range s i = false -> 0 <= i -> R s i = [].
Proof. intros H Hi. unfold R. rewrite get_piece_default by assumption. reflexivity. Qed.

(* piece-only updates *)
Lemma upd_views s i f : 0 <= i -> in_range s i = true ->
  (forall j, 0 <= j -> get_piece (upd_piece s i f) j = if j =? i then f (get_piece s i) else get_piece s j) /\
  peers (upd_piece s i f) = peers s /\ maxdup (upd_piece s i f) = maxdup s.
Proof.
  intros Hi Hr. split; [|split; reflexivity]. intros j Hj. destruct (j =? i) eqn:E.
  - assert (j = i) by lia. subst j. apply get_upd_same. exact Hr.
  - apply get_upd_other; lia.
Qed.

Lemma inv_same_RH s s' : PInv s ->
  (forall i, 0 <= i -> R s' i = R s i) -> (forall i, 0 <= i -> forall pe, In pe (Hv s i) -> In pe (Hv s' i)) ->
  (forall i, in_range s' i = in_range s i) ->
  (forall pe, PP s' pe = PP s pe) -> (forall pe, Dl s' pe = Dl s pe) -> maxdup s' = maxdup s -> PInv s'.
Proof.
  intros I HR HH Hrange HP HD Hm. constructor.
  - intros i pe Hi H. rewrite HR in H by assumption. apply HH; [assumption|]. eapply inv_a; eauto.
  - intros i pe Hi H. rewrite HR in H by assumption. rewrite Hrange, HP. eapply inv_b; eauto.
  - intros pe i af H. rewrite HP in H. destruct (inv_c s I pe i af H) as (A & B & C). rewrite HR, HD by assumption. auto.
  - intros pe H. rewrite HP in H. rewrite HD. eapply inv_d; eauto.
  - intros i Hi. rewrite HR by assumption. unfold limit. rewrite Hm. apply (inv_e s I i Hi).
Qed.

(* --- OHave --- *)
Lemma have_views s pe i : in_range s i = true -> 0 <= i ->
  (forall j, 0 <= j -> R (handle_have s pe i) j = R s j) /\
  (forall j, 0 <= j -> forall q, In q (Hv s j) -> In q (Hv (handle_have s pe i) j)) /\
  peers (handle_have s pe i) = peers s /\ maxdup (handle_have s pe i) = maxdup s /\
  (forall j, in_range (handle_have s pe i) j = in_range s j).
Proof.
  intros Hr Hi. unfold handle_have. destruct (mem pe (p_having (get_piece s i))) eqn:E.
  - repeat split; auto.
  - destruct (upd_views s i (fun p => set_having p (p_having p ++ [pe])) Hi Hr) as (V1 & V2 & V3).
    split; [|split; [|split; [reflexivity|split; [reflexivity|]]]].
    + intros j Hj. unfold R, get_piece in *. cbn [pieces]. specialize (V1 j Hj). unfold get_piece in V1. rewrite V1.
      destruct (j =? i) eqn:Ej; [assert (j = i) by lia; subst j; reflexivity|reflexivity].
    + intros j Hj q Hq. unfold Hv, get_piece in *. cbn [pieces]. specialize (V1 j Hj). unfold get_piece in V1. rewrite V1.
      destruct (j =? i) eqn:Ej; [assert (j = i) by lia; subst j; cbn [set_having p_having]; apply in_or_app; left; exact Hq|exact Hq].
    + intros j. unfold in_range, zlen. cbn [pieces]. unfold upd_piece, with_pieces. cbn [pieces]. rewrite length_upd_nth. reflexivity.
Qed.

Lemma pstep_have s pe i s' : PInv s -> pstep s (OHave pe i) = Some s' -> PInv s'.
Proof.
  intros I H. cbn [pstep] in H. destruct (in_range s i) eqn:Er; [|discriminate]. inversion H; subst.
  assert (Hi : 0 <= i) by (unfold in_range in Er; lia).
  destruct (have_views s pe i Er Hi) as (V1 & V2 & V3 & V4 & V5).
  apply (inv_same_RH s); [exact I|exact V1|exact V2|exact V5| | |exact V4]; intros; unfold PP, Dl; rewrite V3; reflexivity.
Qed.

(* --- ops that touch only snub/choke marks or flags of one piece --- *)
Lemma marks_only s i f : PInv s -> 0 <= i -> in_range s i = true ->
  (forall p, p_req (f p) = p_req p /\ p_having (f p) = p_having p) -> PInv (upd_piece s i f).
Proof.
  intros I Hi Hr Hf. destruct (upd_views s i f Hi Hr) as (V1 & V2 & V3).
  apply (inv_same_RH s); [exact I| | | | | |exact V3].
  - intros j Hj. unfold R. rewrite V1 by assumption. destruct (j =? i) eqn:E; [assert (j = i) by lia; subst; apply Hf|reflexivity].
  - intros j Hj q Hq. unfold Hv in *. rewrite V1 by assumption. destruct (j =? i) eqn:E; [assert (j = i) by lia; subst; destruct (Hf (get_piece s i)) as [_ ->]; exact Hq|exact Hq].
  - intros j. apply in_range_upd.
  - intros q. unfold PP. rewrite V2. reflexivity.
  - intros q. unfold Dl. rewrite V2. reflexivity.
Qed.

(* peer-record updates that keep pe_piece / pe_downloading *)
Lemma peer_only s pe v : PInv s -> pe_piece v = PP s pe -> pe_downloading v = Dl s pe -> PInv (with_peer s pe v).
Proof.
  intros I H1 H2. apply (inv_same_RH s); [exact I|reflexivity|auto|reflexivity| | |reflexivity].
  - intros q. unfold PP. cbn [with_peer peers]. destruct (Z.eq_dec pe q) as [->|Hne];
      [rewrite get_set_peer_same; exact H1|rewrite get_set_peer_other by assumption; reflexivity].
  - intros q. unfold Dl. cbn [with_peer peers]. destruct (Z.eq_dec pe q) as [->|Hne];
      [rewrite get_set_peer_same; exact H2|rewrite get_set_peer_other by assumption; reflexivity].
Qed.

Lemma pp_in_range s pe i af : PInv s -> PP s pe = Some (i, af) -> 0 <= i /\ in_range s i = true.
Proof. intros I H. destruct (inv_c s I pe i af H) as (A & B & _). split; [exact A|]. apply (inv_b s I i pe A B). Qed.

Lemma pstep_simple s o s' : PInv s -> pstep s o = Some s' ->
  match o with OAllowedFast _ _ | OUnchoke _ | OChoke _ | OSnub _ | OWriting _ | OWritten _ _ => PInv s' | _ => True end.
Proof.
  intros I H. destruct o as [pe i|pe i|pe|pe|pe|pe obs|pe|pe|i|i ok]; try exact I0; try exact Logic.I; cbn [pstep] in H.
  - destruct (in_range s i); [|discriminate]. inversion H; subst. apply peer_only; auto.
  - set (P := get_peer (peers s) pe) in *.
    assert (I1 : PInv (with_peer s pe {| pe_choking := false; pe_downloading := pe_downloading P; pe_af := pe_af P; pe_piece := pe_piece P |}))
      by (apply peer_only; auto).
    destruct (pe_piece P) as [[i [|]]|] eqn:Ep; inversion H; subst; auto.
    destruct (pp_in_range s pe i false I Ep) as [Hi Hr].
    apply marks_only; auto; intros p0; split; reflexivity.
  - set (P := get_peer (peers s) pe) in *.
    assert (I1 : PInv (with_peer s pe {| pe_choking := true; pe_downloading := pe_downloading P; pe_af := pe_af P; pe_piece := pe_piece P |}))
      by (apply peer_only; auto).
    destruct (pe_piece P) as [[i [|]]|] eqn:Ep; inversion H; subst; auto.
    destruct (pp_in_range s pe i false I Ep) as [Hi Hr].
    apply marks_only; auto; intros p0; split; reflexivity.
  - set (P := get_peer (peers s) pe) in *. destruct (pe_piece P) as [[i af]|] eqn:Ep; [|inversion H; subst; exact I].
    destruct (pe_choking P); [inversion H; subst; exact I|].
    destruct (mem pe (p_chok (get_piece s i))); [discriminate|]. inversion H; subst.
    destruct (pp_in_range s pe i af I Ep) as [Hi Hr]. apply marks_only; auto; intros p0; split; reflexivity.
  - destruct (in_range s i) eqn:Er; [|discriminate]. inversion H; subst.
    apply marks_only; auto; try (unfold in_range in Er; lia); intros p0; split; reflexivity.
  - destruct (in_range s i) eqn:Er; [|discriminate]. inversion H; subst.
    apply marks_only; auto; try (unfold in_range in Er; lia); intros p0; split; reflexivity.
Qed.

(* --- OPick --- *)
Lemma dl_false_pp_none s pe : PInv s -> Dl s pe = false -> PP s pe = None.
Proof.
  intros I H. destruct (PP s pe) as [[i af]|] eqn:E; [|reflexivity].
  destruct (inv_c s I pe i af E) as (_ & _ & C). congruence.
Qed.

Lemma pstep_pick s pe obs s' : PInv s -> pstep s (OPick pe obs) = Some s' -> PInv s'.
Proof.
  intros I H. cbn [pstep] in H. unfold pick_check in H.
  destruct (find_piece s pe) as [st eg] eqn:Ef.
  assert (Ieg : PInv (with_endgame s eg)).
  { apply (inv_same_RH s); auto; reflexivity. }
  destruct obs as [[i af]|].
  2:{ destruct (pick_possible s st); [discriminate|]. inversion H; subst. exact Ieg. }
  destruct (pick_legal s st i af) eqn:El; [|discriminate]. inversion H; subst. clear H.
  assert (Hl : pick_legal s (fst (find_piece s pe)) i af = true) by (rewrite Ef; exact El).
  destruct (pick_sound s pe i af Hl) as (Hr & _ & _ & Hhave & Hdl & _ & Hlim).
  assert (Hi : 0 <= i) by (unfold in_range in Hr; lia).
  pose proof (dl_false_pp_none s pe I Hdl) as Hnone.
  set (s1 := with_endgame s eg) in *.
  set (f := fun p => set_marks p (sadd pe (p_req p)) (p_snub p) (p_chok p)).
  destruct (upd_views s1 i f Hi Hr) as (V1 & V2 & V3).
  set (P := get_peer (peers s1) pe).
  set (v := {| pe_choking := pe_choking P; pe_downloading := true; pe_af := pe_af P; pe_piece := Some (i, af) |}).
  assert (HR : forall j, 0 <= j -> R (with_peer (upd_piece s1 i f) pe v) j = if j =? i then sadd pe (R s i) else R s j).
  { intros j Hj. unfold R. change (get_piece (with_peer (upd_piece s1 i f) pe v) j) with (get_piece (upd_piece s1 i f) j).
    rewrite V1 by assumption. destruct (j =? i); reflexivity. }
  assert (HH : forall j, 0 <= j -> Hv (with_peer (upd_piece s1 i f) pe v) j = Hv s j).
  { intros j Hj. unfold Hv. change (get_piece (with_peer (upd_piece s1 i f) pe v) j) with (get_piece (upd_piece s1 i f) j).
    rewrite V1 by assumption. destruct (j =? i) eqn:E; [assert (j = i) by lia; subst; reflexivity|reflexivity]. }
  assert (HPP : forall q, PP (with_peer (upd_piece s1 i f) pe v) q = if q =? pe then Some (i, af) else PP s q).
  { intros q. unfold PP. cbn [with_peer peers]. rewrite V2. destruct (q =? pe) eqn:E.
    - assert (q = pe) by lia. subst. rewrite get_set_peer_same. reflexivity.
    - rewrite get_set_peer_other by lia. reflexivity. }
  assert (HD : forall q, Dl (with_peer (upd_piece s1 i f) pe v) q = if q =? pe then true else Dl s q).
  { intros q. unfold Dl. cbn [with_peer peers]. rewrite V2. destruct (q =? pe) eqn:E.
    - assert (q = pe) by lia. subst. rewrite get_set_peer_same. reflexivity.
    - rewrite get_set_peer_other by lia. reflexivity. }
  assert (Hrange : forall j, in_range (with_peer (upd_piece s1 i f) pe v) j = in_range s j).
  { intros j. change (in_range (with_peer (upd_piece s1 i f) pe v) j) with (in_range (upd_piece s1 i f) j). rewrite in_range_upd. reflexivity. }
  constructor.
  - intros j q Hj Hq. rewrite HR in Hq by assumption. rewrite HH by assumption. destruct (j =? i) eqn:E.
    + assert (j = i) by lia. subst j. apply in_sadd in Hq as [->|Hq]; [exact Hhave|eapply inv_a; eauto].
    + eapply inv_a; eauto.
  - intros j q Hj Hq. rewrite HR in Hq by assumption. rewrite Hrange, HPP. destruct (j =? i) eqn:E.
    + assert (j = i) by lia. subst j. apply in_sadd in Hq as [->|Hq].
      * rewrite Z.eqb_refl. split; [exact Hr|eauto].
      * destruct (inv_b s I i q Hi Hq) as (A & af' & B). split; [exact A|].
        destruct (q =? pe) eqn:Eq; [assert (q = pe) by lia; subst; congruence|eauto].
    + destruct (inv_b s I j q Hj Hq) as (A & af' & B). split; [exact A|].
      destruct (q =? pe) eqn:Eq; [assert (q = pe) by lia; subst; congruence|eauto].
  - intros q j a Hq. rewrite HPP in Hq. rewrite HD. destruct (q =? pe) eqn:Eq.
    + assert (q = pe) by lia. subst q. inversion Hq; subst. split; [exact Hi|]. split; [|reflexivity].
      rewrite HR by assumption. rewrite Z.eqb_refl. apply in_sadd. left; reflexivity.
    + destruct (inv_c s I q j a Hq) as (A & B & C). split; [exact A|]. split; [|exact C].
      rewrite HR by assumption. destruct (j =? i) eqn:E; [assert (j = i) by lia; subst; apply in_sadd; right; exact B|exact B].
  - intros q Hq. rewrite HPP in Hq. rewrite HD. destruct (q =? pe); [discriminate|]. eapply inv_d; eauto.
  - intros j Hj. rewrite HR by assumption.
    match goal with |- context [limit ?x] => change (limit x) with (limit s) end.
    destruct (inv_e s I j Hj) as [A B]. destruct (j =? i) eqn:E.
    + assert (j = i) by lia. subst j. split; [pose proof (zlen_sadd_le pe (R s i)); unfold R in *; lia|apply nodup_sadd; exact B].
    + split; assumption.
Qed.

(* --- OCancel (closePieceDownloader) --- *)
Lemma close_dl_inv s pe : PInv s -> PInv (close_dl s pe) /\ PP (close_dl s pe) pe = None /\
  (forall q, q <> pe -> PP (close_dl s pe) q = PP s q).
Proof.
  intros I. unfold close_dl. fold (PP s pe). destruct (PP s pe) as [[i af]|] eqn:Ep; [|split; [exact I|split; [exact Ep|reflexivity]]].
  destruct (pp_in_range s pe i af I Ep) as [Hi Hr].
  set (f := fun p => set_marks p (srem pe (p_req p)) (srem pe (p_snub p)) (srem pe (p_chok p))).
  unfold cancel_download. fold f. destruct (upd_views s i f Hi Hr) as (V1 & V2 & V3).
  set (P := get_peer (peers s) pe).
  set (v := {| pe_choking := pe_choking P; pe_downloading := false; pe_af := pe_af P; pe_piece := None |}).
  set (s' := with_peer (upd_piece s i f) pe v).
  assert (HR : forall j, 0 <= j -> R s' j = if j =? i then srem pe (R s i) else R s j).
  { intros j Hj. unfold R. change (get_piece s' j) with (get_piece (upd_piece s i f) j). rewrite V1 by assumption.
    destruct (j =? i); reflexivity. }
  assert (HH : forall j, 0 <= j -> Hv s' j = Hv s j).
  { intros j Hj. unfold Hv. change (get_piece s' j) with (get_piece (upd_piece s i f) j). rewrite V1 by assumption.
    destruct (j =? i) eqn:E; [assert (j = i) by lia; subst; reflexivity|reflexivity]. }
  assert (HPP : forall q, PP s' q = if q =? pe then None else PP s q).
  { intros q. unfold PP, s'. cbn [with_peer peers]. rewrite V2. destruct (q =? pe) eqn:E.
    - assert (q = pe) by lia. subst. rewrite get_set_peer_same. reflexivity.
    - rewrite get_set_peer_other by lia. reflexivity. }
  assert (HD : forall q, Dl s' q = if q =? pe then false else Dl s q).
  { intros q. unfold Dl, s'. cbn [with_peer peers]. rewrite V2. destruct (q =? pe) eqn:E.
    - assert (q = pe) by lia. subst. rewrite get_set_peer_same. reflexivity.
    - rewrite get_set_peer_other by lia. reflexivity. }
  assert (Hrange : forall j, in_range s' j = in_range s j).
  { intros j. change (in_range s' j) with (in_range (upd_piece s i f) j). apply in_range_upd. }
  assert (Hsub : forall j q, 0 <= j -> In q (R s' j) -> In q (R s j) /\ q <> pe).
  { intros j q Hj Hq. rewrite HR in Hq by assumption. destruct (j =? i) eqn:E.
    - assert (j = i) by lia. subst j. apply in_srem in Hq. exact Hq.
    - split; [exact Hq|]. intros ->. destruct (inv_b s I j pe Hj Hq) as (_ & a & B). rewrite Ep in B. inversion B. lia. }
  split; [|split; [rewrite HPP, Z.eqb_refl; reflexivity|intros q Hq; rewrite HPP; destruct (q =? pe) eqn:E; [lia|reflexivity]]].
  constructor.
  - intros j q Hj Hq. rewrite HH by assumption. destruct (Hsub j q Hj Hq). eapply inv_a; eauto.
  - intros j q Hj Hq. destruct (Hsub j q Hj Hq) as [Hq' Hne]. rewrite Hrange, HPP.
    destruct (q =? pe) eqn:E; [lia|]. eapply inv_b; eauto.
  - intros q j a Hq. rewrite HPP in Hq. rewrite HD. destruct (q =? pe) eqn:E; [discriminate|].
    destruct (inv_c s I q j a Hq) as (A & B & C). split; [exact A|]. split; [|exact C].
    rewrite HR by assumption. destruct (j =? i) eqn:Ej; [assert (j = i) by lia; subst; apply in_srem; split; [exact B|lia]|exact B].
  - intros q Hq. rewrite HPP in Hq. rewrite HD. destruct (q =? pe); [reflexivity|]. eapply inv_d; eauto.
  - intros j Hj. rewrite HR by assumption.
    match goal with |- context [limit ?x] => change (limit x) with (limit s) end. destruct (inv_e s I j Hj) as [A B].
    destruct (j =? i) eqn:E; [|split; assumption].
    assert (j = i) by lia. subst j. split; [pose proof (zlen_srem_le pe (R s i)); lia|apply nodup_srem; exact B].
Qed.


(* --- ODisconnect --- *)
Lemma filter_id {A} (f : A -> bool) l : (forall x, In x l -> f x = true) -> filter f l = l.
Proof. induction l as [|x r IH]; intros H; [reflexivity|]. cbn [filter]. rewrite (H x (or_introl eq_refl)). f_equal. apply IH. intros y Hy. apply H. right; exact Hy. Qed.

Lemma get_peer_filter pe : forall l q,
  get_peer (filter (fun kv : Z * ppeer => negb (fst kv =? pe)) l) q = if q =? pe then default_peer else get_peer l q.
Proof.
  induction l as [|[k w] r IH]; intros q; cbn [filter get_peer fst]; [destruct (q =? pe); reflexivity|].
  destruct (k =? pe) eqn:Ek; cbn [negb get_peer].
  - rewrite IH. destruct (q =? pe) eqn:Eq; [reflexivity|]. destruct (k =? q) eqn:Ekq; [lia|reflexivity].
  - destruct (k =? q) eqn:Ekq; [destruct (q =? pe) eqn:Eq; [lia|reflexivity]|apply IH].
Qed.

(* effect of cancel_download / remove_having on one piece, of disconnect_go on all *)
Lemma cancel_views s pe i j : 0 <= i -> 0 <= j ->
  R (cancel_download s pe i) j = (if (j =? i) && in_range s i then srem pe (R s j) else R s j) /\
  Hv (cancel_download s pe i) j = Hv s j.
Proof.
  intros Hi Hj. unfold cancel_download, R, Hv. destruct (in_range s i) eqn:Er.
  - destruct (upd_views s i (fun p => set_marks p (srem pe (p_req p)) (srem pe (p_snub p)) (srem pe (p_chok p))) Hi Er) as (V1 & _).
    rewrite V1 by assumption. destruct (j =? i) eqn:E; [assert (j = i) by lia; subst; split; reflexivity|split; reflexivity].
  - rewrite andb_false_r. unfold upd_piece, with_pieces, get_piece. cbn [pieces].
    assert (Hn : upd_nth (pieces s) (Z.to_nat i) (fun p => set_marks p (srem pe (p_req p)) (srem pe (p_snub p)) (srem pe (p_chok p))) = pieces s).
    { unfold in_range, zlen in Er. assert (Hlen : (length (pieces s) <= Z.to_nat i)%nat) by lia. clear -Hlen.
      revert Hlen. generalize (Z.to_nat i). induction (pieces s) as [|x r IH]; intros n Hlen; [destruct n; reflexivity|].
      destruct n; cbn [length] in Hlen; [lia|]. cbn [upd_nth]. f_equal. apply IH. lia. }
    rewrite Hn. split; reflexivity.
Qed.

Lemma remove_having_views s pe i j : 0 <= i -> 0 <= j ->
  R (remove_having s pe i) j = R s j /\
  (forall q, In q (Hv (remove_having s pe i) j) -> In q (Hv s j)) /\
  (j = i -> in_range s i = true -> ~ In pe (Hv (remove_having s pe i) j)) /\
  peers (remove_having s pe i) = peers s /\ maxdup (remove_having s pe i) = maxdup s /\
  (forall k, in_range (remove_having s pe i) k = in_range s k).
Proof.
  intros Hi Hj. unfold remove_having. destruct (mem pe (p_having (get_piece s i))) eqn:Em.
  - destruct (in_range s i) eqn:Er.
    + destruct (upd_views s i (fun p => set_having p (srem pe (p_having p))) Hi Er) as (V1 & V2 & V3).
      unfold R, Hv, get_piece in *. cbn [pieces peers maxdup].
      specialize (V1 j Hj). unfold get_piece in V1. rewrite V1.
      split; [destruct (j =? i) eqn:E; [assert (j = i) by lia; subst; reflexivity|reflexivity]|].
      split; [intros q Hq; destruct (j =? i) eqn:E; [assert (j = i) by lia; subst; cbn [set_having p_having] in Hq; apply in_srem in Hq; tt|exact Hq]|].
      split; [intros -> _; rewrite Z.eqb_refl; cbn [set_having p_having]; intros Hc; apply in_srem in Hc; tt|].
      split; [reflexivity|split; [reflexivity|]]. intros k. unfold in_range, zlen. cbn [pieces]. unfold upd_piece, with_pieces. cbn [pieces].
      rewrite length_upd_nth. reflexivity.
    + exfalso. rewrite get_piece_default in Em by assumption. discriminate.
  - apply mem_false in Em. repeat split; auto. intros -> _. exact Em.
Qed.

Lemma disconnect_views s pe : forall n, (n <= length (pieces s))%nat ->
  let s' := disconnect_go n s pe in
  (forall j, 0 <= j -> R s' j = if j <? Z.of_nat n then srem pe (R s j) else R s j) /\
  (forall j q, 0 <= j -> In q (Hv s' j) -> In q (Hv s j)) /\
  (forall j, 0 <= j -> j < Z.of_nat n -> ~ In pe (Hv s' j)) /\
  peers s' = peers s /\ maxdup s' = maxdup s /\ (forall k, in_range s' k = in_range s k).
Proof.
  induction n as [|n IH]; intros Hn s'.
  - unfold s'. cbn [disconnect_go]. split; [intros j Hj; destruct (j <? Z.of_nat 0) eqn:E; [lia|reflexivity]|].
    split; [auto|]. split; [intros j Hj Hlt; cbn in Hlt; lia|]. repeat split; auto.
  - unfold s'. cbn [disconnect_go]. specialize (IH ltac:(lia)). cbv zeta in IH.
    set (s1 := disconnect_go n s pe) in *. destruct IH as (I1 & I2 & I3 & I4 & I5 & I6).
    set (k := Z.of_nat n). assert (Hk : 0 <= k) by (unfold k; lia).
    assert (Hkr : in_range s1 k = true) by (rewrite I6; unfold in_range, zlen, k; lia).
    set (s2 := cancel_download s1 pe k).
    assert (Hr2 : forall kk, in_range s2 kk = in_range s1 kk) by (intros kk; unfold s2, cancel_download; apply in_range_upd).
    split; [|split; [|split; [|split; [|split]]]].
    + intros j Hj. destruct (remove_having_views s2 pe k j Hk Hj) as (A & _). rewrite A.
      destruct (cancel_views s1 pe k j Hk Hj) as (B & _). unfold s2. rewrite B, Hkr, I1 by assumption.
      destruct (j =? k) eqn:E1.
      * assert (j = k) by lia. subst j. cbn [andb]. destruct (k <? Z.of_nat n) eqn:E2; [unfold k in E2; lia|].
        destruct (k <? Z.of_nat (S n)) eqn:E3; [reflexivity|unfold k in E3; lia].
      * cbn [andb]. destruct (j <? Z.of_nat n) eqn:E2; destruct (j <? Z.of_nat (S n)) eqn:E3; try reflexivity; unfold k in *; lia.
    + intros j q Hj Hq. destruct (remove_having_views s2 pe k j Hk Hj) as (_ & A & _). apply A in Hq.
      destruct (cancel_views s1 pe k j Hk Hj) as (_ & B). unfold s2 in Hq. rewrite B in Hq. apply I2; assumption.
    + intros j Hj Hlt Hin. destruct (remove_having_views s2 pe k j Hk Hj) as (_ & A & A2 & _).
      destruct (Z.eq_dec j k) as [->|Hne].
      * apply (A2 eq_refl); [rewrite Hr2; exact Hkr|exact Hin].
      * apply A in Hin. destruct (cancel_views s1 pe k j Hk Hj) as (_ & B). unfold s2 in Hin. rewrite B in Hin.
        apply (I3 j Hj); [unfold k in *; lia|exact Hin].
    + destruct (remove_having_views s2 pe k 0 Hk ltac:(lia)) as (_ & _ & _ & A & _). rewrite A. exact I4.
    + destruct (remove_having_views s2 pe k 0 Hk ltac:(lia)) as (_ & _ & _ & _ & A & _). rewrite A. exact I5.
    + intros kk. destruct (remove_having_views s2 pe k 0 Hk ltac:(lia)) as (_ & _ & _ & _ & _ & A). rewrite A, Hr2. apply I6.
Qed.

Lemma pstep_disconnect s pe s' : PInv s -> pstep s (ODisconnect pe) = Some s' -> PInv s'.
Proof.
  intros I H. cbn [pstep] in H. inversion H; subst; clear H.
  destruct (close_dl_inv s pe I) as (I1 & Hnone & Hoth). set (s1 := close_dl s pe) in *.
  assert (Hnot : forall j, 0 <= j -> ~ In pe (R s1 j)).
  { intros j Hj Hin. destruct (inv_b s1 I1 j pe Hj Hin) as (_ & a & B). congruence. }
  destruct (disconnect_views s1 pe (length (pieces s1)) (le_n _)) as (V1 & V2 & V3 & V4 & V5 & V6).
  fold (handle_disconnect s1 pe) in *. set (s2 := handle_disconnect s1 pe) in *.
  assert (HR : forall j, 0 <= j -> R s2 j = R s1 j).
  { intros j Hj. rewrite V1 by assumption. destruct (j <? Z.of_nat (length (pieces s1))); [|reflexivity].
    unfold srem. apply filter_id. intros x Hx. specialize (Hnot j Hj).
    destruct (x =? pe) eqn:E; [assert (x = pe) by lia; subst; tauto|reflexivity]. }
  set (s3 := {| pieces := pieces s2; peers := filter (fun kv => negb (fst kv =? pe)) (peers s2); avail := avail s2;
                endgame := endgame s2; sequential := sequential s2; maxdup := maxdup s2 |}).
  assert (HR3 : forall j, R s3 j = R s2 j) by reflexivity.
  assert (HH3 : forall j, Hv s3 j = Hv s2 j) by reflexivity.
  assert (HPP : forall q, PP s3 q = if q =? pe then None else PP s1 q).
  { intros q. unfold PP, s3. cbn [peers]. rewrite get_peer_filter, V4. destruct (q =? pe); reflexivity. }
  assert (HD : forall q, Dl s3 q = if q =? pe then false else Dl s1 q).
  { intros q. unfold Dl, s3. cbn [peers]. rewrite get_peer_filter, V4. destruct (q =? pe); reflexivity. }
  constructor.
  - intros j q Hj Hq. rewrite HR3, HR in Hq by assumption. rewrite HH3.
    assert (Hne : q <> pe) by (intros ->; exact (Hnot j Hj Hq)).
    pose proof (inv_a s1 I1 j q Hj Hq) as Hh.
    (* q is still in Having: only pe was removed *)
    clear -Hh Hne Hj V1 V2 V3 V6 I1. unfold s2, handle_disconnect.
    assert (G : forall n, (n <= length (pieces s1))%nat -> In q (Hv (disconnect_go n s1 pe) j)).
    { induction n as [|n IHn]; intros Hn; [exact Hh|]. cbn [disconnect_go].
      set (k := Z.of_nat n). assert (Hk : 0 <= k) by (unfold k; lia).
      set (sa := disconnect_go n s1 pe) in *. specialize (IHn ltac:(lia)).
      destruct (cancel_views sa pe k j Hk Hj) as (_ & B).
      set (sb := cancel_download sa pe k) in *. rewrite <- B in IHn.
      unfold remove_having. destruct (mem pe (p_having (get_piece sb k))) eqn:Em; [|exact IHn].
      destruct (in_range sb k) eqn:Er.
      - destruct (upd_views sb k (fun p => set_having p (srem pe (p_having p))) Hk Er) as (W1 & _).
        unfold Hv, get_piece in *. cbn [pieces]. specialize (W1 j Hj). unfold get_piece in W1. rewrite W1.
        destruct (j =? k) eqn:E; [assert (j = k) by lia; subst j; cbn [set_having p_having]; apply in_srem; split; [exact IHn|exact Hne]|exact IHn].
      - rewrite get_piece_default in Em by assumption. discriminate. }
    apply G. apply le_n.
  - intros j q Hj Hq. rewrite HR3, HR in Hq by assumption.
    assert (Hne : q <> pe) by (intros ->; exact (Hnot j Hj Hq)).
    destruct (inv_b s1 I1 j q Hj Hq) as (A & a & B). split; [change (in_range s3 j) with (in_range s2 j); rewrite V6; exact A|].
    rewrite HPP. destruct (q =? pe) eqn:E; [lia|eauto].
  - intros q j a Hq. rewrite HPP in Hq. rewrite HD. destruct (q =? pe) eqn:E; [discriminate|].
    destruct (inv_c s1 I1 q j a Hq) as (A & B & C). split; [exact A|]. split; [rewrite HR3, HR by assumption; exact B|exact C].
  - intros q Hq. rewrite HPP in Hq. rewrite HD. destruct (q =? pe); [reflexivity|]. eapply inv_d; eauto.
  - intros j Hj. rewrite HR3, HR by assumption. change (limit s3) with (Z.max 1 (maxdup s2)). rewrite V5. apply (inv_e s1 I1 j Hj).
Qed.

(* ---------- all reachable states ---------- *)
Theorem pstep_inv s o s' : PInv s -> pstep s o = Some s' -> PInv s'.
Proof.
  intros I H. destruct o as [pe i|pe i|pe|pe|pe|pe obs|pe|pe|i|i ok].
  - eapply pstep_have; eauto.
  - exact (pstep_simple s _ s' I H).
  - exact (pstep_simple s _ s' I H).
  - exact (pstep_simple s _ s' I H).
  - exact (pstep_simple s _ s' I H).
  - eapply pstep_pick; eauto.
  - cbn [pstep] in H. inversion H; subst. apply close_dl_inv. exact I.
  - eapply pstep_disconnect; eauto.
  - exact (pstep_simple s _ s' I H).
  - exact (pstep_simple s _ s' I H).
Qed.

Fixpoint run_ops (s : picker) (ops : list pop) : option picker :=
  match ops with
  | [] => Some s
  | o :: r => match pstep s o with Some s' => run_ops s' r | None => None end
  end.

Definition init_picker (ps : list ppiece) (seq : bool) (md : Z) : picker :=
  {| pieces := ps; peers := []; avail := 0; endgame := false; sequential := seq; maxdup := md |}.

Lemma init_inv ps seq md : Forall (fun p => p_req p = []) ps -> PInv (init_picker ps seq md).
Proof.
  intros Hreq.
  assert (HR : forall i, R (init_picker ps seq md) i = []).
  { intros i. unfold R, get_piece. cbn [pieces init_picker].
    destruct (nth_in_or_default (Z.to_nat i) ps default_piece) as [Hin|Hd]; [rewrite Forall_forall in Hreq; apply Hreq; exact Hin|rewrite Hd; reflexivity]. }
  constructor.
  - intros i pe _ H. rewrite HR in H. destruct H.
  - intros i pe _ H. rewrite HR in H. destruct H.
  - intros pe i af H. discriminate.
  - intros pe _. reflexivity.
  - intros i _. rewrite HR. split; [unfold limit; cbn; lia|constructor].
Qed.

(* C09 (peer half): in every state reachable by any sequence of glue-level operations whose
   picks the real picker made legally, a peer downloads at most one piece, every requester of a
   piece has it, and no piece has more simultaneous downloads than max(1, end-game limit) *)
Theorem reachable_inv ps seq md ops s : Forall (fun p => p_req p = []) ps ->
  run_ops (init_picker ps seq md) ops = Some s -> PInv s.
Proof.
  intros Hreq. assert (G : forall ops s0, PInv s0 -> run_ops s0 ops = Some s -> PInv s).
  { induction ops0 as [|o r IH]; intros s0 I0 H; cbn [run_ops] in H; [inversion H; subst; exact I0|].
    destruct (pstep s0 o) as [s1|] eqn:E; [|discriminate]. eapply IH; [eapply pstep_inv; eauto|exact H]. }
  apply G. apply init_inv. exact Hreq.
Qed.

(* ---------- the availability counter ---------- *)
Definition held (p : ppiece) : Z := if Nat.eqb (length (p_having p)) 0 then 0 else 1.
Definition count_held (l : list ppiece) : Z := fold_right (fun p a => held p + a) 0 l.
Definition AvInv (s : picker) : Prop := avail s = count_held (pieces s).

Lemma count_upd : forall l i f, (i < length l)%nat ->
  count_held (upd_nth l i f) = count_held l - held (nth i l default_piece) + held (f (nth i l default_piece)).
Proof.
  induction l as [|x r IH]; intros i f H; cbn [length] in H; [lia|].
  destruct i as [|i]; cbn [upd_nth count_held fold_right nth]; fold (count_held r).
  - lia.
  - fold (count_held (upd_nth r i f)). rewrite IH by lia. lia.
Qed.

Lemma count_upd_same_having s i f : (forall p, p_having (f p) = p_having p) ->
  count_held (pieces (upd_piece s i f)) = count_held (pieces s).
Proof.
  intros Hf. unfold upd_piece, with_pieces. cbn [pieces].
  destruct (Nat.lt_ge_cases (Z.to_nat i) (length (pieces s))) as [Hlt|Hge].
  - rewrite count_upd by assumption. unfold held. rewrite Hf. lia.
  - f_equal. clear -Hge. revert Hge. generalize (Z.to_nat i). induction (pieces s) as [|x r IH]; intros n Hn; [destruct n; reflexivity|].
    destruct n; cbn [length] in Hn; [lia|]. cbn [upd_nth]. f_equal. apply IH. lia.
Qed.

Lemma have_av s pe i : in_range s i = true -> AvInv s -> AvInv (handle_have s pe i).
Proof.
  intros Hr A. unfold AvInv, handle_have in *. destruct (mem pe (p_having (get_piece s i))) eqn:Em; [exact A|].
  cbn [avail pieces]. unfold upd_piece, with_pieces. cbn [pieces].
  unfold in_range, zlen in Hr. rewrite count_upd by lia. fold (get_piece s i).
  unfold held at 2. cbn [set_having p_having]. rewrite app_length. cbn [length].
  replace (Nat.eqb (length (p_having (get_piece s i)) + 1) 0) with false by (symmetry; apply Nat.eqb_neq; lia).
  unfold held. destruct (Nat.eqb (length (p_having (get_piece s i))) 0); lia.
Qed.

Lemma remove_having_av s pe i : 0 <= i -> AvInv s -> AvInv (remove_having s pe i).
Proof.
  intros Hi A. unfold AvInv, remove_having in *. destruct (mem pe (p_having (get_piece s i))) eqn:Em; [|exact A].
  destruct (in_range s i) eqn:Hr; [|rewrite get_piece_default in Em by assumption; discriminate].
  cbn [avail pieces]. unfold upd_piece, with_pieces. cbn [pieces].
  unfold in_range, zlen in Hr. rewrite count_upd by lia. fold (get_piece s i).
  apply mem_true in Em.
  assert (Hne : held (get_piece s i) = 1).
  { unfold held. destruct (p_having (get_piece s i)); [destruct Em|reflexivity]. }
  rewrite Hne. unfold held at 1. cbn [set_having p_having].
  destruct (Nat.eqb (length (srem pe (p_having (get_piece s i)))) 0); lia.
Qed.

Lemma cancel_av s pe i : AvInv s -> AvInv (cancel_download s pe i).
Proof. intros A. unfold AvInv, cancel_download in *. rewrite count_upd_same_having by reflexivity. exact A. Qed.

Lemma disconnect_av s pe : forall n, AvInv s -> AvInv (disconnect_go n s pe).
Proof.
  induction n as [|n IH]; intros A; [exact A|]. cbn [disconnect_go].
  apply remove_having_av; [lia|]. apply cancel_av. apply IH. exact A.
Qed.

Lemma close_dl_av s pe : AvInv s -> AvInv (close_dl s pe).
Proof.
  intros A. unfold close_dl. destruct (pe_piece (get_peer (peers s) pe)) as [[i af]|]; [|exact A].
  unfold AvInv. cbn [with_peer avail pieces]. apply cancel_av. exact A.
Qed.

Theorem pstep_av s o s' : AvInv s -> pstep s o = Some s' -> AvInv s'.
Proof.
  intros A H. destruct o as [pe i|pe i|pe|pe|pe|pe obs|pe|pe|i|i ok]; cbn [pstep] in H.
  - destruct (in_range s i) eqn:Er; [|discriminate]. inversion H; subst. apply have_av; assumption.
  - destruct (in_range s i); [|discriminate]. inversion H; subst. exact A.
  - destruct (pe_piece (get_peer (peers s) pe)) as [[i [|]]|]; inversion H; subst; try exact A.
    unfold AvInv. rewrite count_upd_same_having by reflexivity. exact A.
  - destruct (pe_piece (get_peer (peers s) pe)) as [[i [|]]|]; inversion H; subst; try exact A.
    unfold AvInv. rewrite count_upd_same_having by reflexivity. exact A.
  - destruct (pe_piece (get_peer (peers s) pe)) as [[i af]|]; [|inversion H; subst; exact A].
    destruct (pe_choking (get_peer (peers s) pe)); [inversion H; subst; exact A|].
    destruct (mem pe (p_chok (get_piece s i))); [discriminate|]. inversion H; subst.
    unfold AvInv. rewrite count_upd_same_having by reflexivity. exact A.
  - unfold pick_check in H. destruct (find_piece s pe) as [st eg]. destruct obs as [[i af]|].
    + destruct (pick_legal s st i af); [|discriminate]. inversion H; subst.
      unfold AvInv. cbn [with_peer avail pieces]. rewrite count_upd_same_having by reflexivity. exact A.
    + destruct (pick_possible s st); [discriminate|]. inversion H; subst. exact A.
  - inversion H; subst. apply close_dl_av. exact A.
  - inversion H; subst. unfold AvInv. cbn [avail pieces]. apply disconnect_av. apply close_dl_av. exact A.
  - destruct (in_range s i); [|discriminate]. inversion H; subst. unfold AvInv. rewrite count_upd_same_having by reflexivity. exact A.
  - destruct (in_range s i); [|discriminate]. inversion H; subst. unfold AvInv. rewrite count_upd_same_having by reflexivity. exact A.
Qed.

Theorem reachable_av ps seq md ops s : Forall (fun p => p_having p = []) ps ->
  run_ops (init_picker ps seq md) ops = Some s -> avail s = count_held (pieces s).
Proof.
  intros Hh. assert (G : forall ops s0, AvInv s0 -> run_ops s0 ops = Some s -> AvInv s).
  { induction ops0 as [|o r IH]; intros s0 I0 H; cbn [run_ops] in H; [inversion H; subst; exact I0|].
    destruct (pstep s0 o) as [s1|] eqn:E; [|discriminate]. eapply IH; [eapply pstep_av; eauto|exact H]. }
  apply G. unfold AvInv, init_picker. cbn [avail pieces].
  induction Hh as [|p r Hp Hr IH]; [reflexivity|]. cbn [count_held fold_right]. fold (count_held r). unfold held. rewrite Hp. cbn. lia.
Qed.

(* ---------- C10: an idle unchoking holder of a needed, unrequested piece always gets a pick ---------- *)
Lemma indexed_has s i : in_range s i = true -> In (i, get_piece s i) (indexed s).
Proof.
  unfold in_range, indexed, get_piece, zlen. intros H.
  assert (Hn : (Z.to_nat i < length (pieces s))%nat) by lia.
  assert (G : forall (l : list ppiece) (a n : nat), (n < length l)%nat ->
            In (Z.of_nat (a + n), nth n l default_piece) (combine (map Z.of_nat (seq a (length l))) l)).
  { induction l as [|x r IH]; intros a n Hl; cbn [length] in Hl; [lia|]. cbn [length seq map combine]. destruct n as [|n].
    - left. rewrite Nat.add_0_r. reflexivity.
    - right. replace (a + S n)%nat with (S a + n)%nat by lia. apply IH. lia. }
  specialize (G (pieces s) 0%nat (Z.to_nat i) Hn). cbn [Nat.add] in G. rewrite Z2Nat.id in G by lia. exact G.
Qed.

Lemma cands_has s c i : in_range s i = true -> c (get_piece s i) = true -> In (i, get_piece s i) (cands s c).
Proof. intros Hr Hc. unfold cands. apply filter_In. split; [apply indexed_has; exact Hr|exact Hc]. Qed.

Lemma first_cand_some s c i : in_range s i = true -> c (get_piece s i) = true -> exists j, first_cand s c = Some j.
Proof.
  intros Hr Hc. unfold first_cand. pose proof (cands_has s c i Hr Hc) as H. destruct (cands s c) as [|ip r]; [destruct H|eauto].
Qed.

Theorem idle_holder_gets_a_pick s pe i : 1 <= maxdup s ->
  let P := get_peer (peers s) pe in let p := get_piece s i in
  pe_downloading P = false -> pe_choking P = false ->
  in_range s i = true -> p_done p = false -> p_writing p = false -> In pe (p_having p) -> p_req p = [] ->
  pick_possible s (fst (find_piece s pe)) = true.
Proof.
  intros Hm P p Hd Hc Hr Hdone Hwr Hhave Hreq.
  assert (Hopen : open_ p = true) by (unfold open_; rewrite Hdone, Hwr; reflexivity).
  assert (Hmem : mem pe (p_having p) = true) by (apply mem_true; exact Hhave).
  assert (Cun : c_unreq_has pe p = true) by (unfold c_unreq_has; rewrite Hopen, Hreq, Hmem; reflexivity).
  assert (Ceg : c_endgame s pe p = true).
  { unfold c_endgame. rewrite Hopen, Hreq, Hmem. unfold zlen. cbn [length Z.of_nat andb]. destruct (0 <? maxdup s) eqn:E; [reflexivity|lia]. }
  unfold find_piece. fold P. rewrite Hd, Hc. cbn [negb andb].
  destruct (if sequential s && true then first_cand s (c_edge pe) else None) as [j|]; [reflexivity|].
  destruct (if sequential s then lowest_af s pe (pe_af P) None else first_af s pe (pe_af P)) as [j|]; [reflexivity|].
  destruct (endgame s).
  - cbn [fst pick_possible]. pose proof (cands_has s (c_endgame s pe) i Hr Ceg) as H. destruct (cands s (c_endgame s pe)); [destruct H|reflexivity].
  - destruct (sequential s).
    + destruct (first_cand_some s (c_unreq_has pe) i Hr Cun) as (j & ->). reflexivity.
    + pose proof (cands_has s (c_unreq_has pe) i Hr Cun) as H. destruct (cands s (c_unreq_has pe)) as [|x r] eqn:E; [destruct H|].
      cbn [fst pick_possible]. rewrite E. reflexivity.
Qed.

(* hence "no piece" is not an answer the picker may give in that situation *)
Corollary no_pick_is_illegal s pe i : 1 <= maxdup s ->
  let P := get_peer (peers s) pe in let p := get_piece s i in
  pe_downloading P = false -> pe_choking P = false ->
  in_range s i = true -> p_done p = false -> p_writing p = false -> In pe (p_having p) -> p_req p = [] ->
  pick_check s pe None = None.
Proof.
  intros Hm P p H1 H2 H3 H4 H5 H6 H7. unfold pick_check.
  pose proof (idle_holder_gets_a_pick s pe i Hm H1 H2 H3 H4 H5 H6 H7) as H. destruct (find_piece s pe) as [st eg]. cbn [fst] in H. rewrite H. reflexivity.
Qed.

(* with an end-game limit of 0 the statement is false: once end-game mode is on, nothing is ever picked *)
Example endgame_limit_zero_starves :
  let p := {| p_done := false; p_writing := false; p_having := [7]; p_req := []; p_snub := []; p_chok := []; p_head := false; p_tail := false |} in
  let s := {| pieces := [p]; peers := [(7, {| pe_choking := false; pe_downloading := false; pe_af := []; pe_piece := None |})];
              avail := 1; endgame := true; sequential := false; maxdup := 0 |} in
  pick_possible s (fst (find_piece s 7)) = false.
Proof. vm_compute. reflexivity. Qed.

"""Per-property configuration of bin/check: correspondence kinds with their budgets, trusted
base strings, known-finding signatures (predicates over a failing case)."""

KIND_NAMES = {
    502: 'C05/osync: open flags of internal/storage/filestorage files (created and reopened) read back from /proc/self/fdinfo',
    501: 'session/crash: crash at a chosen instant of a download history (after any handler, at the entry/exit of any storage write of a piece), optional loss of files, restart of a fresh session on that resume database and storage image, vs Life.restart_bits + monitor',
    401: 'session/life: start/stop/verify commands interleaved with allocation, verification, piece-write and stop-announce results in any order and with changes to the files while stopped, vs Life.v (exact) + truthfulness monitor',
    101: 'session/leech: download path of the stepped event loop (message, write-result, snub, disconnect handlers) under scripted honest/hostile peers vs Leech.v (piece assignments validated, everything else predicted)',
    102: 'C01/piecedl: piecedownloader vs PieceDl.v',
    105: 'session/webseed: download whose honest source is a web seed (local HTTP server with range requests), alone or next to a peer that unchokes and never delivers or that chokes: completes, stored bytes equal the content',
    103: 'C01/verifier: verifier.Run over in-memory files that may be damaged or shorter than the metainfo says, neighbouring pieces often identical, vs PieceDl.run_verifier',
    1301: 'C13/infodl: infodownloader vs InfoDl.v',
    1302: 'C13/magnet: magnet.New(String()) vs Magnet.v (render then parse)',
    1303: 'session/metadata: metadata phase of a magnet torrent in the stepped event loop (extension handshakes, ut_metadata exchange, snub/disconnect, messages before the metadata is known, replay of queued messages) vs MetaSess.v',
    1702: 'session/connections: address batches (refusing and answering addresses), handshake results in arrival order, incoming connections, disconnects, stop and start through the real dialer, acceptor and handshakers of a torrent vs ConnLimit.v (addresses waiting, outgoing, incoming, peers, running after every event)',
    1704: 'C17/webseed_cap: AddTorrent of a torrent with k web seed URLs under WebseedMaxSources = c: no crash, min(k, c) kept',
    1703: 'session/ram_late_grant: write cache of one piece, two interested seeds, the second waits for memory; the grant is handled after the torrent completed or was stopped: allocated objects afterwards',
    1701: 'C17/ram: resourcemanager vs Ram.v (outcomes and notifications validated; allocation compared exactly)',
    901: 'C09/picker: piecepicker (peer half) under the torrent glue vs Picker.v (picks validated against the legal set; Available, RequestedPeers and the Snubbed / Choked sets of every piece compared after every operation)',
    1401: 'C14/resume: boltdbresumer Write then Read of generated records in a real bbolt file vs Resume.run_resume (identity up to the stored precision)',
    1402: 'C14/registry: Session API histories (add file/magnet, given and duplicate ids, failing adds, remove, start/stop, add tracker, close+reopen, compact+reopen) vs Registry.v (port choice validated)',
    1501: 'C15/udp_packet: UDP announce datagram vs Tracker.udp_announce',
    1502: 'C15/http_query: HTTP announce query vs Tracker.http_query',
    1503: 'C15/announcer: PeriodicalAnnouncer events and gaps vs Announcer.v (timing tolerance -25/+600 ms)',
    1602: 'C16/udp_parse: parseAnnounceResponse vs Tracker.parse_udp_announce',
    1604: 'C16/http_nesting: HTTP tracker response with an unknown key nested 1 .. 1,500,000 deep (closed or not), response limit 2 MiB, vs Meta.run_net_nesting',
    1603: 'C16/http_parse: HTTP response interpretation vs Tracker.http_response',
    301: 'C03/cached_read: cachedpiece.ReadAt vs Cache.cached_read',
    302: 'C03/cache: piececache.Cache vs Cache.cache_get (LRU)',
    304: 'C03/cache_split: piececache Get split into its lookup and read halves (export shim) with other Gets and evictions in between vs Cache.run_cache_split',
    303: 'C03/admission: request handling of the stepped event loop vs Admission.serve',
    1801: 'C18/blocklist: blocklist.Reload+Blocked vs Stree.reload/contains',
    1802: 'C18/stree: stree.Contains vs Stree.build/contains',
    1804: 'session/ban_dial: MaxPeerDial 1, the address of a connected scripted peer waits in the address list, the peer delivers a corrupt (or, as a control, a correct) piece, then the dial slot is freed: banned => not dialled; control => dialled',
    1803: 'C18/addrlist: addrlist Push/Pop/Reset vs AddrList.v',
    1106: 'C08/ext_nesting: extension handshake with an unknown key nested 1 .. 1,500,000 deep (closed or not) through a real PeerReader vs Meta.run_net_nesting; a crash of the process is the observation no model output matches',
    1105: 'C03/writer_queue: peerwriter with a blocked connection: pieces, choke, cancelled requests, other messages, queue bound 1..4 with and without the fast extension, then the connection is released: bytes written and upload counter vs Wire.run_wqueue',
    1101: 'C11/writer: peerwriter bytes vs Wire.enc_go (+ upload counter)',
    1102: 'C11/reader: peerreader messages vs Wire.parse',
    1103: 'C11/reader_slow: peerreader across piece timeouts vs Wire.parse',
    1104: 'C11/roundtrip: real writer -> real reader returns the sent messages',
    701: 'C07/accept_paths: metainfo.NewInfo file paths vs Paths.accept_paths',
    702: 'C07/open_path: FileStorage.Open path vs Paths.open_path',
    703: 'C07/tar: torrent.readData vs Paths.tar_target',
    704: 'C07/strfuncs: cleanName, TrimSpace, filepath.Clean, path.Ext vs Paths',
    602: 'C06/nesting: metainfo.New / NewInfo on documents with lists or dictionaries nested 1 .. 4,000,000 deep under an unknown key of the torrent file or of the info dictionary vs Meta.run_nesting (a crash of the process is the observation no model output matches)',
    601: 'C06/accept: metainfo.NewInfo vs Meta.accept',
    201: 'C02/new_pieces: metainfo.NewInfo+piece.NewPieces vs Geometry.new_pieces',
    202: 'C02/calc_blocks: piece.calculateBlocks vs Geometry.calc_blocks',
    203: 'C02/section_io: filesection.Piece.Write+ReadAt vs SectionIO.write_secs/read_at',
    204: 'C02/create_jobs: urldownloader.createJobs vs SectionIO.create_jobs',
    1601: 'C16/tier: tracker.Tier vs Tier.v (crun)',
    1201: 'C12/mse_honest: real HandshakeOutgoing against real HandshakeIncoming over a transport with scripted fragmentation; the four pads are steered through crypto/rand.Reader (0, 510, 511, small, random), keys, offers, policies (rain accept policy with/without force, hostile constant callback), initial payloads 0..65535 and wrong keys are generated; every byte on the wire in both directions, both outcomes, the selected method, the initial payload and the application data read on both sides vs Mse.honest',
    1202: 'C12/mse_responder: a scripted initiator (pads 0..712, bad req1 / key hash / VC, provide 0 and odd values, oversize PadC, lying payload length, truncation anywhere, short or garbage streams) against the real HandshakeIncoming vs Mse.responder (wire bytes, outcome class, selected method, everything the application reads)',
    1203: 'C12/mse_initiator: a scripted responder (pads 0..712, bad VC, selections 0 / several bits / not offered / high bits, oversize and lying PadD, truncation, short streams, second and fourth message coalesced) against the real HandshakeOutgoing vs Mse.initiator',
    1204: 'C12/policy: every consistent ForceIncoming/ForceOutgoing/DisableOutgoing setting through the real acceptor, incoming handshaker, dialer and outgoing handshaker of a torrent in the stepped loop, against scripted TCP peers (plain BitTorrent, MSE offering RC4 / clear / both; legacy clear-text-only listener, MSE listeners preferring RC4 / clear text / answering an invalid selection / hanging up) vs Mse.accept_policy and Mse.dial_policy: outcome class, connections made, which of them were clear text, clear text seen on the wire',
    2001: 'C20/owners: ownership table of package torrent regenerated from the Go source by the translator (fields of torrent and Session, accesses with the locks held and the goroutine contexts of the accessing function, sends on command channels, lock nesting incl. database transactions) checked entry by entry by Owner.mon_owner',
    2002: 'C20/api_stress: 4-11 client goroutines issue 40-120 public API calls each (stats, peers, trackers, web seeds, add peer by IP and host name, add tracker, start, stop, verify, announce, list/get, add+remove torrent, StartAll/StopAll, notify channels) on a live session with a 20 ms resume write interval: every call returns and the session closes',
    104: 'session/stop_write: a stop (files closed, os.File semantics) or a disk error while a verified piece waits at the disk, stepped loop: pieces reported vs bytes on disk vs WriteGate.v',
    205: 'C02/create_verify: metainfo.NewInfoBytes on directory trees with names that are prefixes of sibling names, parsed back and re-hashed in metainfo order',
    305: 'C03/cached_multi: cachedpiece.ReadAt over twelve or more pieces sharing one read cache (blocks of different pieces must not be confused) vs Cache.cached_read per piece',
    603: 'C06/depth_scan: bencodedepth.Check on generated byte strings (token soups, nests around the limit, huge and overflowing string length prefixes) vs Depth.depth_check',
    903: 'C09/picker_ws: piecepicker with web seeds (PickWebseed, stop-at, close, web-seed and peer steals, PickFor in web-seed mode) under the torrent glue vs PickerWs.v (answers validated against the legal set)',
    905: 'C09/file_edges: markFileEdges of the real picker (sequential mode) on generated layouts incl. zero-length, tiny, huge and padding files vs Edges.v',
    1605: 'C16/reply_limit: httptracker.Announce against a local server whose reply is around, below or above the configured limit, with a declared length or streamed in chunks vs Tracker.read_reply',
    1504: 'C15/stop_event: a real session against a scripted HTTP tracker that accepts, answers with a failure reason or with HTTP 500: the stopped event is sent only after an accepted announce',
    1903: 'C19/shared_tracker: a public and a private torrent of one session announcing to the same tracker URL (either one first): each identifies itself with its own user agent',
    1901: 'C19/private_flag: metainfo.NewInfo on generated encodings of the private field (integers incl. out of int64 range, strings, lists, dictionaries, absent) vs Priv.priv_of_raw',
    1902: 'session/private: private, public and magnet torrents in the stepped event loop with a scripted HTTP tracker and scripted peers, DHT/PEX/dial switches on and off, optionally after a session restart: addresses known by source, DHT announcer and request queue, PEX senders, magnet export, metadata adoption, user agent / peer id / client version, dial of a probe listener vs Priv.v',
}

def kind_name(k):
    return KIND_NAMES.get(k, str(k))

TRUSTED_COMMON = [
    'Coq 8.16.1 kernel; vm_compute (no native_compute); coqchk in the thorough tier',
    'extraction to OCaml 4.13 with ExtrOcamlBasic only (no Extract Constant; Z/N/positive/nat stay inductive); ocaml/main.ml line parser and printer',
    'Go harness under /verif/harness (generators, scripted endpoints, canonicalisation), injected with go build -overlay, tag verif',
    'models are hand-written; the correspondence check (same inputs through the real code and the extracted model) is what ties them to /repo',
]

PROPS = {
    'C01': {
        'kinds': {101: {'quick': 1500, 'thorough': 40000}, 102: {'quick': 800, 'thorough': 20000}, 103: {'quick': 3000, 'thorough': 60000}, 104: {'quick': 60, 'thorough': 1200}, 105: {'quick': 150, 'thorough': 3000}},
        'trusted': ['SHA-1: a buffer whose digest equals the recorded hash is the recorded content (collision resistance)'],
        'assumptions': [],
    },
    'C04': {
        'kinds': {1702: {'quick': 1000, 'thorough': 20000}, 401: {'quick': 1500, 'thorough': 40000}},
        'trusted': ['the dispatch of torrent.run() is generated from its source (bin/gen_dispatch.py) for the stepped loop', 'the harness reports which files exist and which pieces on disk equal the torrent content (environment data of the model)'],
        'assumptions': ['observed "piece i downloaded" events are legal (torrent downloading, piece not yet held): checked per case by the model'],
    },
    'C05': {
        'kinds': {501: {'quick': 1500, 'thorough': 40000}, 502: {'quick': 16, 'thorough': 64}},
        'trusted': ['bbolt: a resume update is one atomic transaction; the database reopens to the state of some completed update (the harness copies the database file only between handlers and at storage-write boundaries, never inside a transaction)', 'O_SYNC of internal/storage/filestorage: a returned write is durable (the scenarios use the in-memory storage; the open flags of the real storage are outside this check)', 'the harness reports which files exist and which pieces on disk equal the torrent content'],
        'assumptions': ['only the client writes to the files during the history (external changes are C04)'],
    },
    'C08': {
        'kinds': {1102: {'quick': 2500, 'thorough': 60000}, 1103: {'quick': 48, 'thorough': 600}, 101: {'quick': 1500, 'thorough': 40000}, 1303: {'quick': 1500, 'thorough': 40000}, 303: {'quick': 1500, 'thorough': 30000}, 1106: {'quick': 300, 'thorough': 5000}},
        'trusted': ['the dispatch of torrent.run() is generated from its source (bin/gen_dispatch.py) for the stepped loop', 'Go runtime: a panic in a handler is caught by the harness and reported as a crash; a handler that does not return within the per-case limit is reported as a hang'],
        'assumptions': [],
    },
    'C10': {
        'kinds': {101: {'quick': 2500, 'thorough': 60000}, 102: {'quick': 800, 'thorough': 20000}, 105: {'quick': 150, 'thorough': 3000}, 901: {'quick': 600, 'thorough': 20000}, 903: {'quick': 600, 'thorough': 20000}},
        'trusted': ['the dispatch of torrent.run() is generated from its source (bin/gen_dispatch.py) for the stepped loop', 'WriteCacheSize is large enough that the write-cache manager never defers a piece download in the generated scenarios'],
        'assumptions': ['the history was accepted by the model (s_bad = 0), which the correspondence establishes per generated history'],
    },
    'C12': {
        'kinds': {1201: {'quick': 500, 'thorough': 8000}, 1202: {'quick': 700, 'thorough': 12000}, 1203: {'quick': 700, 'thorough': 12000}, 1204: {'quick': 600, 'thorough': 12000}},
        'trusted': ['SHA-1 and the Diffie-Hellman arithmetic of math/big: each side\'s req1/req2/req3 hashes and RC4 keys are oracle inputs of the model, recomputed by the harness from the private keys it served through crypto/rand.Reader (C12_dh_shared_secret proves that both secrets are equal)', 'crypto/rand.Reader is replaced while these cases run (pad lengths steered, private keys remembered); rand.Int(reader, 512) reads two bytes', 'the TCP stack of the loopback interface for kind 1204'],
        'assumptions': ['the synchronisation patterns do not occur in the random padding before their position (a 20-byte SHA-1 value, 8 bytes of key stream: probability below 2^-50 per handshake); stated as the no_early premises', 'the transport cannot deliver bytes of a message before it was sent: the first read of a side returns at most its peer\'s first message'],
    },
    'C20': {
        'kinds': {2001: {'quick': 600, 'thorough': 600}, 2002: {'quick': 64, 'thorough': 1500}},
        'trusted': ['the translator harness/root/verifhook/c20_owners.go: syntactic field/lock/call/goroutine extraction from /repo/torrent/*.go (go/parser, go/ast only; no type information: a *torrent is recognised by receiver, parameter type and the selector .torrent), static call graph, contexts by reachability', 'the Go memory model: an Unlock is synchronized before any later Lock of the same mutex; `go` statements and channel operations order as documented', 'the justified list in Owner.v (six accesses safe by publication, fork order or after Close)'],
        'assumptions': ['one event-loop goroutine per torrent; constructors finish before the object is shared', 'pointees with their own synchronisation (counters, channels, the resource manager) are outside the table: only the fields of torrent and Session are tracked'],
    },
    'C19': {
        'kinds': {1901: {'quick': 3000, 'thorough': 60000}, 1902: {'quick': 1200, 'thorough': 30000}, 1903: {'quick': 32, 'thorough': 400}},
        'trusted': ['zeebo/bencode decoding of the private field beyond sampled agreement with Bencode.decode', 'the nictuku/dht node itself (the session is observed up to its request queue dhtPeerRequests; what the node sends is not observed)'],
        'assumptions': ['the metainfo of a torrent does not change once known (info is set once)'],
    },
    'C14': {
        'kinds': {1401: {'quick': 2000, 'thorough': 50000}, 1402: {'quick': 1200, 'thorough': 30000}},
        'trusted': ['bbolt (transactions, bucket iteration)', 'encoding/json, time.Format/Parse(RFC3339), time.Duration.String/ParseDuration for the list, time and duration fields (sampled by kind 1401, not modelled)', 'uuid generation of torrent ids (ids are compared by identity only)'],
        'assumptions': ['strings stored in resume records are valid UTF-8 (encoding/json replaces invalid sequences)', 'API calls are made one at a time (concurrent callers: C20)'],
    },
    'C13': {
        'kinds': {1301: {'quick': 2500, 'thorough': 50000}, 1302: {'quick': 3000, 'thorough': 60000}, 1303: {'quick': 1500, 'thorough': 40000}},
        'trusted': ['net/url (Parse, ParseQuery, QueryEscape) beyond sampled agreement with the byte-level model', 'SHA-1 (adoption compares the digest of the assembled bytes with the info-hash)'],
        'assumptions': [],
    },
    'C17': {
        'kinds': {102: {'quick': 800, 'thorough': 20000}, 1105: {'quick': 1500, 'thorough': 30000}, 1701: {'quick': 1200, 'thorough': 20000}, 1702: {'quick': 1000, 'thorough': 20000}, 1703: {'quick': 300, 'thorough': 6000}, 1704: {'quick': 200, 'thorough': 2000}, 302: {'quick': 3000, 'thorough': 60000}, 1803: {'quick': 3000, 'thorough': 60000}},
        'trusted': ['Go select semantics: one ready case is chosen; channel operations are atomic steps of the manager loop'],
        'assumptions': ['callers release only reservations they were granted (caller protocol)'],
    },
    'C09': {
        'kinds': {901: {'quick': 1500, 'thorough': 40000}, 903: {'quick': 1500, 'thorough': 40000}, 905: {'quick': 1500, 'thorough': 30000}, 101: {'quick': 1500, 'thorough': 40000}, 1303: {'quick': 1500, 'thorough': 40000}},
        'trusted': ['slices.SortFunc returns a permutation sorted by the key (ties in any order)', 'in kinds 901/903 the file head/tail flags are taken from the real picker (markFileEdges itself is kind 905)'],
        'assumptions': ['the torrent loop calls the picker under the glue discipline modelled by Picker.pstep'],
    },
    'C03': {
        'kinds': {301: {'quick': 3000, 'thorough': 60000}, 302: {'quick': 3000, 'thorough': 60000}, 303: {'quick': 1500, 'thorough': 30000}, 304: {'quick': 3000, 'thorough': 60000}, 305: {'quick': 1500, 'thorough': 30000}, 1105: {'quick': 3000, 'thorough': 60000}},
        'trusted': ['container/heap keeps the least recently used item at index 0; time.AfterFunc TTL expiry is not exercised (TTL one hour)'],
        'assumptions': ['0 < ReadCacheBlockSize < 2^31; piece length < 2^32'],
    },
    'C18': {
        'kinds': {1801: {'quick': 3000, 'thorough': 60000}, 1802: {'quick': 4000, 'thorough': 100000}, 1803: {'quick': 3000, 'thorough': 60000}, 1804: {'quick': 200, 'thorough': 4000}},
        'trusted': ['net.ParseCIDR / bufio.Scanner / bytes.TrimSpace (the model starts from parsed rules)', 'slices.Sort returns the sorted permutation'],
        'assumptions': [],
    },
    'C11': {
        'kinds': {1101: {'quick': 1500, 'thorough': 30000}, 1102: {'quick': 2500, 'thorough': 60000}, 1103: {'quick': 48, 'thorough': 600}, 1104: {'quick': 1200, 'thorough': 20000}},
        'trusted': ['bufio/io.ReadFull deliver the same bytes for every chunking (the reader model works on the whole stream; chunkings are sampled)', 'zeebo/bencode struct encoding of the three extension payloads beyond sampled agreement'],
        'assumptions': [],
    },
    'C07': {
        'kinds': {701: {'quick': 3000, 'thorough': 60000}, 702: {'quick': 1500, 'thorough': 20000}, 703: {'quick': 800, 'thorough': 10000}, 704: {'quick': 3000, 'thorough': 60000}},
        'trusted': ['path/filepath, unicode/utf8, strings.TrimSpace, path.Ext beyond sampled agreement with the component-level model', 'the kernel resolves a ..-free, symlink-free relative path below the directory it is joined to'],
        'assumptions': ['data directory is absolute and contains no symlinks planted by a third party'],
    },
    'C06': {
        'kinds': {601: {'quick': 4000, 'thorough': 100000}, 602: {'quick': 400, 'thorough': 6000}, 603: {'quick': 3000, 'thorough': 60000}},
        'trusted': ['zeebo/bencode decodes the generated dictionaries into the struct fields the model starts from'],
        'assumptions': ['file lengths and the single length are int64 values; len(pieces)/20 < 2^31'],
    },
    'C02': {
        'kinds': {201: {'quick': 3000, 'thorough': 60000}, 202: {'quick': 3000, 'thorough': 60000},
                  203: {'quick': 1500, 'thorough': 20000}, 204: {'quick': 2000, 'thorough': 40000}, 205: {'quick': 300, 'thorough': 6000}},
        'trusted': [],
        'assumptions': [],
    },
    'C15': {
        'kinds': {1501: {'quick': 2000, 'thorough': 40000}, 1502: {'quick': 600, 'thorough': 8000}, 1503: {'quick': 160, 'thorough': 2400}, 1504: {'quick': 48, 'thorough': 600}},
        'trusted': ['net/http client and server deliver the raw query unchanged', 'encoding/binary struct layout'],
        'assumptions': [],
    },
    'C16': {
        'kinds': {1601: {'quick': 1500, 'thorough': 20000}, 1602: {'quick': 3000, 'thorough': 60000}, 1603: {'quick': 800, 'thorough': 10000}, 1604: {'quick': 300, 'thorough': 5000}, 1605: {'quick': 300, 'thorough': 5000}},
        'trusted': ['sync/atomic CompareAndSwap/Load are linearizable (the model runs an announce as two atomic steps)',
                    'Go scheduler: the scripted member blocks inside Announce, so the harness decides the order of loads and CASes'],
        'assumptions': ['tier size fits int32; index never reaches 2^31 (true with the fix: it stays below n)'],
    },
}

def nontrivial(c):
    return len(c['in'].split()) >= 4

def distribution(pid, cases):
    d = {}
    for c in cases:
        n = len(c['in'].split())
        b = '<8' if n < 8 else '<32' if n < 32 else '<128' if n < 128 else '<512' if n < 512 else '>=512'
        k = kind_name(c['kind']).split(':')[0] + ' input ints ' + b
        d[k] = d.get(k, 0) + 1
        if c['obs'].startswith('-777'):
            d['impl crashed (recovered panic)'] = d.get('impl crashed (recovered panic)', 0) + 1
    return d

# kinds whose observations carry wall-clock measurements: agreement is decided by the monitor
# (model prediction compared with a tolerance), not by exact equality of the two outputs
MONITOR_DECIDES = {1503, 1701, 2001}

# kind -> (tag kind, names): the model is run a second time to histogram the branches the cases reach
TAG_KINDS = {901: (902, {1: 'peer already downloading', 2: 'no pick allowed (choked)', 3: 'allowed-fast / sequential-first', 4: 'file edge or sequential', 5: 'stage reached, no candidate', 6: 'end-game pick', 7: 'end-game starts', 8: 'stalled re-request', 9: 'rarest'}),
             903: (904, {0: 'illegal answer', 1: 'web seed: no gap, nothing to steal', 2: 'web seed steals from a web seed', 3: 'web seed steal refused', 4: 'sequential: tail piece first', 5: 'sequential: first gap', 6: 'largest gap', 11: 'peer busy or choked in web-seed mode', 12: 'last piece of the smallest gap', 13: 'peer steals from a web seed', 14: 'web-seed mode: nothing for the peer', 21: 'stop-at keeps the downloader', 22: 'stop-at closes the downloader', 23: 'completed piece has no web-seed owner'})}

# known-finding signatures: id -> predicate over a case dict (kind, in, obs, exp, mon)
def _life_events(c):
    inp = c['in'] if isinstance(c['in'], list) else [int(x) for x in str(c['in']).split()]
    np_, nf = inp[0], inp[1]
    evs = inp[2 + nf + np_:]
    i = 0
    out = []
    while i < len(evs):
        ev = evs[i]
        skip = {4: 2 + np_ + np_ + nf, 7: 1, 8: nf + np_}.get(ev, 0)
        out.append((ev, evs[i + 1:i + 1 + skip]))
        i += 1 + skip
    return np_, nf, out

def _sig_external_corruption(c):
    # K-C04-g: the disk was changed while the torrent was stopped, every file stayed present, a piece is damaged
    if c.get('kind') != 401:
        return False
    try:
        np_, nf, evs = _life_events(c)
    except Exception:
        return False
    for ev, args in evs:
        if ev == 8 and all(args[:nf]) and not all(args[nf:nf + np_]):
            return True
    return False

def _sig_alloc_cancelled(c):
    # K-C04-h: files were lost while stopped; a start's allocation (which re-creates them) is cancelled by a
    # stop before its result is handled; the next allocation finds every file present and trusts the resume data
    if c.get('kind') != 401:
        return False
    try:
        np_, nf, evs = _life_events(c)
    except Exception:
        return False
    lost = started = cancelled = False
    for ev, args in evs:
        if ev == 8 and 0 in args[:nf]:
            lost, cancelled = True, False
        elif ev == 1 and lost:
            started = True
        elif ev == 2 and started:
            cancelled = True
        elif ev == 4:
            if cancelled and args[1] == 0:
                return True
            started = False
            if not cancelled:
                lost = False
    return False

def _sig_alloc_window(c):
    # K-C05-a: crash between the allocator re-creating lost files and the loop handling its result
    if c.get('kind') != 501:
        return False
    inp = c['in'] if isinstance(c['in'], list) else [int(x) for x in str(c['in']).split()]
    return len(inp) > 3 and inp[-1] == 1


def _h31(s):
    h = 0x811c9dc5
    for c in s.encode():
        h ^= c
        h = (h * 0x01000193) & 0xffffffff
    return h & 0x7fffffff

C20_KNOWN = {
    'K-C20-a': [('torrent.info', 'Torrent.AddTracker'), ('torrent.info', 'torrent.Files'), ('torrent.info', 'torrent.Magnet'), ('torrent.info', 'torrent.Torrent')],
    'K-C20-b': [('torrent.port', 'Torrent.Port')],
    'K-C20-c': [('torrent.pieces', 'torrent.FileStats')],
    'K-C20-d': [('torrent.trackers', 'torrent.getTieredTrackers')],
    'K-C20-e': [('Session.torrents', 'Session.CompactDatabase'), ('torrent.info', 'Session.CompactDatabase'), ('torrent.port', 'Session.CompactDatabase'),
                ('torrent.completeCmdRun', 'Session.CompactDatabase'), ('torrent.allocator', 'torrent.status'), ('torrent.completed', 'torrent.status'),
                ('torrent.errC', 'torrent.status'), ('torrent.info', 'torrent.status'), ('torrent.stoppedEventAnnouncer', 'torrent.status'), ('torrent.verifier', 'torrent.status')],
    'K-C20-f': [('Session.invalidTorrentIDs', 'Session.CleanDatabase')],
}

def _sig_c20(pairs):
    hs = {(_h31(f), _h31(g)) for f, g in pairs}
    def sig(c):
        inp = c['in'] if isinstance(c['in'], list) else [int(x) for x in str(c['in']).split()]
        return c.get('kind') == 2001 and len(inp) >= 3 and inp[0] == 1 and (inp[1], inp[2]) in hs
    return sig

SIGNATURES = {'K-C04-g': _sig_external_corruption, 'K-C04-h': _sig_alloc_cancelled, 'K-C05-a': _sig_alloc_window}
for _k, _v in C20_KNOWN.items():
    SIGNATURES[_k] = _sig_c20(_v)

From RainV Require Import Lib Admission.
From Coq Require Import ZifyBool.

(* data is sent only for in-bounds, non-empty, at most 16 KiB requests of pieces the client has;
   while choking, only to fast-extension peers and only for pieces granted as allowed-fast *)
Theorem served_only_if PL total np done fast idx b len cc af :
  serve PL total np done fast idx b len cc af = DPiece ->
  idx < np /\ done idx = true /\ 0 < len <= 16384 /\ b + len <= piece_len PL total np idx /\
  (cc = false \/ (fast = true /\ af = true)) \/ len < 0.
Proof.
  unfold serve, valid_request. intros H.
  destruct (len >? 16384) eqn:E1; [discriminate|]. destruct (idx >=? np) eqn:E2; [discriminate|].
  destruct (len =? 0) eqn:E3; cbn [negb andb] in H; [discriminate|].
  destruct (b + len <=? piece_len PL total np idx) eqn:E4; cbn [negb] in H; [|discriminate].
  destruct (done idx) eqn:E5; cbn [negb] in H; [|discriminate].
  destruct (Z_lt_le_dec len 0) as [Hn|Hn]; [right; exact Hn|left].
  destruct cc; [destruct fast; [destruct af; [|discriminate]|discriminate]|]; repeat split; auto; lia.
Qed.

(* no 32-bit request triple makes the bounds check wrap: begin + length is computed exactly *)
Theorem no_wraparound begin len plen : 0 <= begin < two32a -> 0 <= len < two32a -> 0 <= plen < two32a ->
  valid_request begin len plen = true -> begin < plen /\ begin + len <= plen /\ len <> 0.
Proof. unfold valid_request. intros. lia. Qed.

Example serve_example : serve 16384 40000 3 (fun _ => true) true 2 7000 200 true true = DPiece.
Proof. reflexivity. Qed.

(* Model of internal/piecepicker (peer half): per-piece indexes, PickFor with its stages
   (file edge, allowed-fast, end-game, rarest / sequential, stalled) and the caller glue of the
   torrent loop that keeps pe.Downloading / pe.PeerChoking in step.  The sorts are unstable, so a
   pick is validated against the set of legal picks ([pick_legal]) instead of being predicted.
   Definitions only. *)
From RainV Require Import Lib.

Record ppiece := { p_done : bool; p_writing : bool;
                   p_having : list Z; p_req : list Z; p_snub : list Z; p_chok : list Z;
                   p_head : bool; p_tail : bool }.
Record ppeer := { pe_choking : bool; pe_downloading : bool; pe_af : list Z;  (* allowed-fast piece indexes, arrival order *)
                  pe_piece : option (Z * bool) }.                               (* glue: current download (piece, allowedFast) *)
Record picker := { pieces : list ppiece; peers : list (Z * ppeer);
                   avail : Z; endgame : bool; sequential : bool; maxdup : Z }.

Definition mem (x : Z) (l : list Z) : bool := existsb (Z.eqb x) l.
Definition sadd (x : Z) (l : list Z) : list Z := if mem x l then l else l ++ [x].
Definition srem (x : Z) (l : list Z) : list Z := filter (fun y => negb (y =? x)) l.

Definition default_peer : ppeer := {| pe_choking := true; pe_downloading := false; pe_af := []; pe_piece := None |}.
Fixpoint get_peer (l : list (Z * ppeer)) (id : Z) : ppeer :=
  match l with
  | [] => default_peer
  | (k, v) :: r => if k =? id then v else get_peer r id
  end.
Fixpoint set_peer (l : list (Z * ppeer)) (id : Z) (v : ppeer) : list (Z * ppeer) :=
  match l with
  | [] => [(id, v)]
  | (k, w) :: r => if k =? id then (k, v) :: r else (k, w) :: set_peer r id v
  end.

Definition default_piece : ppiece :=
  {| p_done := false; p_writing := false; p_having := []; p_req := []; p_snub := []; p_chok := [];
     p_head := false; p_tail := false |}.
Definition get_piece (s : picker) (i : Z) : ppiece := nth (Z.to_nat i) (pieces s) default_piece.

Fixpoint upd_nth {A} (l : list A) (i : nat) (f : A -> A) : list A :=
  match l, i with
  | [], _ => []
  | x :: r, O => f x :: r
  | x :: r, S k => x :: upd_nth r k f
  end.

Definition with_pieces (s : picker) (ps : list ppiece) : picker :=
  {| pieces := ps; peers := peers s; avail := avail s; endgame := endgame s; sequential := sequential s; maxdup := maxdup s |}.
Definition upd_piece (s : picker) (i : Z) (f : ppiece -> ppiece) : picker :=
  with_pieces s (upd_nth (pieces s) (Z.to_nat i) f).
Definition with_peer (s : picker) (id : Z) (v : ppeer) : picker :=
  {| pieces := pieces s; peers := set_peer (peers s) id v; avail := avail s; endgame := endgame s;
     sequential := sequential s; maxdup := maxdup s |}.

Definition set_having (p : ppiece) (h : list Z) : ppiece :=
  {| p_done := p_done p; p_writing := p_writing p; p_having := h; p_req := p_req p; p_snub := p_snub p;
     p_chok := p_chok p; p_head := p_head p; p_tail := p_tail p |}.
Definition set_marks (p : ppiece) (rq sn ch : list Z) : ppiece :=
  {| p_done := p_done p; p_writing := p_writing p; p_having := p_having p; p_req := rq; p_snub := sn;
     p_chok := ch; p_head := p_head p; p_tail := p_tail p |}.
Definition set_flags (p : ppiece) (d w : bool) : ppiece :=
  {| p_done := d; p_writing := w; p_having := p_having p; p_req := p_req p; p_snub := p_snub p;
     p_chok := p_chok p; p_head := p_head p; p_tail := p_tail p |}.

Definition in_range (s : picker) (i : Z) : bool := (0 <=? i) && (i <? zlen (pieces s)).

(* ---- picker API ---- *)
Definition handle_have (s : picker) (pe i : Z) : picker :=
  let p := get_piece s i in
  if mem pe (p_having p) then s
  else let s1 := upd_piece s i (fun p => set_having p (p_having p ++ [pe])) in
       {| pieces := pieces s1; peers := peers s1;
          avail := if Nat.eqb (length (p_having p)) 0 then avail s + 1 else avail s;
          endgame := endgame s1; sequential := sequential s1; maxdup := maxdup s1 |}.

Definition cancel_download (s : picker) (pe i : Z) : picker :=
  upd_piece s i (fun p => set_marks p (srem pe (p_req p)) (srem pe (p_snub p)) (srem pe (p_chok p))).

Definition remove_having (s : picker) (pe i : Z) : picker :=
  let p := get_piece s i in
  if mem pe (p_having p) then
    let s1 := upd_piece s i (fun p => set_having p (srem pe (p_having p))) in
    {| pieces := pieces s1; peers := peers s1;
       avail := if Nat.eqb (length (srem pe (p_having p))) 0 then avail s - 1 else avail s;
       endgame := endgame s1; sequential := sequential s1; maxdup := maxdup s1 |}
  else s.

Fixpoint disconnect_go (n : nat) (s : picker) (pe : Z) : picker :=
  match n with
  | O => s
  | S k => let s1 := disconnect_go k s pe in
           remove_having (cancel_download s1 pe (Z.of_nat k)) pe (Z.of_nat k)
  end.
Definition handle_disconnect (s : picker) (pe : Z) : picker := disconnect_go (length (pieces s)) s pe.

(* ---- PickFor: the set of legal picks ---- *)
Definition running (p : ppiece) : Z := zlen (p_req p) - (zlen (p_snub p) + zlen (p_chok p)).
Definition stalled (p : ppiece) : Z := zlen (p_snub p) + zlen (p_chok p).
Definition open_ (p : ppiece) : bool := negb (p_done p || p_writing p).

Definition indexed (s : picker) : list (Z * ppiece) := combine (map Z.of_nat (seq 0 (length (pieces s)))) (pieces s).

(* candidates of a stage: pieces satisfying [c]; with a sort key the pick is any candidate whose
   key is minimal among the candidates (unstable sort + first match) *)
Definition cands (s : picker) (c : ppiece -> bool) : list (Z * ppiece) := filter (fun ip => c (snd ip)) (indexed s).
Definition min_key (key : ppiece -> Z) (l : list (Z * ppiece)) : option Z :=
  match l with
  | [] => None
  | x :: r => Some (fold_left (fun m ip => Z.min m (key (snd ip))) r (key (snd x)))
  end.
Definition legal_min (s : picker) (c : ppiece -> bool) (key : ppiece -> Z) (i : Z) : bool :=
  match min_key key (cands s c) with
  | None => false
  | Some m => existsb (fun ip => (fst ip =? i) && (key (snd ip) =? m)) (cands s c)
  end.
Definition first_cand (s : picker) (c : ppiece -> bool) : option Z :=
  match cands s c with [] => None | ip :: _ => Some (fst ip) end.

(* result of findPiece for peer [pe]: the stage that decides, as (legal i af) predicate, whether a
   pick is possible at all, and the end-game flag afterwards *)
Inductive stage := StNone | StFirst (i : Z) (af : bool) | StMin (c : ppiece -> bool) (key : ppiece -> Z).

Definition af_cand (s : picker) (pe : Z) (i : Z) : bool :=
  let p := get_piece s i in in_range s i && open_ p && Nat.eqb (length (p_req p)) 0 && mem pe (p_having p).

Fixpoint first_af (s : picker) (pe : Z) (af : list Z) : option Z :=
  match af with
  | [] => None
  | i :: r => if af_cand s pe i then Some i else first_af s pe r
  end.
Fixpoint lowest_af (s : picker) (pe : Z) (af : list Z) (best : option Z) : option Z :=
  match af with
  | [] => best
  | i :: r => lowest_af s pe r (if af_cand s pe i
                                then match best with Some b => if i <? b then Some i else best | None => Some i end
                                else best)
  end.

Definition c_unreq_has (pe : Z) (p : ppiece) : bool := open_ p && Nat.eqb (length (p_req p)) 0 && mem pe (p_having p).
Definition c_unreq (p : ppiece) : bool := open_ p && Nat.eqb (length (p_req p)) 0.
Definition c_edge (pe : Z) (p : ppiece) : bool := (p_head p || p_tail p) && c_unreq_has pe p.
Definition c_endgame (s : picker) (pe : Z) (p : ppiece) : bool := open_ p && (zlen (p_req p) <? maxdup s) && mem pe (p_having p).
Definition c_stalled (s : picker) (pe : Z) (p : ppiece) : bool :=
  open_ p && negb (running p >? 0) && (zlen (p_req p) <? maxdup s) && mem pe (p_having p).

(* find_piece returns (stage, endgame flag after the call) *)
Definition find_piece (s : picker) (pe : Z) : stage * bool :=
  let P := get_peer (peers s) pe in
  if pe_downloading P then (StNone, endgame s) else
  match (if sequential s && negb (pe_choking P) then first_cand s (c_edge pe) else None) with
  | Some i => (StFirst i false, endgame s)
  | None =>
    match (if sequential s then lowest_af s pe (pe_af P) None else first_af s pe (pe_af P)) with
    | Some i => (StFirst i true, endgame s)
    | None =>
      if pe_choking P then (StNone, endgame s) else
      if endgame s then (StMin (c_endgame s pe) running, true) else
      match (if sequential s then first_cand s (c_unreq_has pe) else
               match cands s (c_unreq_has pe) with [] => None | _ => Some 0 end) with
      | Some i => ((if sequential s then StFirst i false else StMin (c_unreq_has pe) (fun p => zlen (p_having p))), false)
      | None =>
          (* nothing unrequested that the peer has: end-game starts iff nothing unrequested at all *)
          let eg := match cands s c_unreq with [] => true | _ => false end in
          if eg then (StMin (c_endgame s pe) running, true)
          else (StMin (c_stalled s pe) stalled, false)
      end
    end
  end.

Definition pick_possible (s : picker) (st : stage) : bool :=
  match st with
  | StNone => false
  | StFirst _ _ => true
  | StMin c _ => match cands s c with [] => false | _ => true end
  end.
Definition pick_legal (s : picker) (st : stage) (i : Z) (af : bool) : bool :=
  match st with
  | StNone => false
  | StFirst j a => (i =? j) && Bool.eqb af a
  | StMin c key => negb af && legal_min s c key i
  end.

(* PickFor with the observed choice: None = the real picker returned no piece *)
Definition with_endgame (s : picker) (e : bool) : picker :=
  {| pieces := pieces s; peers := peers s; avail := avail s; endgame := e; sequential := sequential s; maxdup := maxdup s |}.

Definition pick_check (s : picker) (pe : Z) (obs : option (Z * bool)) : option picker :=
  let '(st, eg) := find_piece s pe in
  let s1 := with_endgame s eg in
  match obs with
  | None => if pick_possible s st then None else Some s1
  | Some (i, af) =>
      if pick_legal s st i af then
        let P := get_peer (peers s1) pe in
        let s2 := upd_piece s1 i (fun p => set_marks p (sadd pe (p_req p)) (p_snub p) (p_chok p)) in
        (* glue: pieceDownloaders[pe] = pd; pe.Downloading = true *)
        Some (with_peer s2 pe {| pe_choking := pe_choking P; pe_downloading := true; pe_af := pe_af P; pe_piece := Some (i, af) |})
      else None
  end.

(* ---- glue-level operations (what the torrent loop does around the picker) ---- *)
Inductive pop :=
| OHave (pe i : Z) | OAllowedFast (pe i : Z)
| OUnchoke (pe : Z) | OChoke (pe : Z) | OSnub (pe : Z)
| OPick (pe : Z) (obs : option (Z * bool))
| OCancel (pe : Z)                 (* closePieceDownloader *)
| ODisconnect (pe : Z)
| OWriting (i : Z)                  (* piece assembled: Writing := true *)
| OWritten (i : Z) (ok : bool).     (* write result: Writing := false, Done := ok *)

Definition close_dl (s : picker) (pe : Z) : picker :=
  let P := get_peer (peers s) pe in
  match pe_piece P with
  | Some (i, _) => with_peer (cancel_download s pe i) pe
                     {| pe_choking := pe_choking P; pe_downloading := false; pe_af := pe_af P; pe_piece := None |}
  | None => s
  end.

Definition pstep (s : picker) (o : pop) : option picker :=
  match o with
  | OHave pe i => if in_range s i then Some (handle_have s pe i) else None
  | OAllowedFast pe i =>
      if in_range s i then
        let P := get_peer (peers s) pe in
        Some (with_peer s pe {| pe_choking := pe_choking P; pe_downloading := pe_downloading P;
                                pe_af := sadd i (pe_af P); pe_piece := pe_piece P |})
      else None
  | OUnchoke pe =>
      let P := get_peer (peers s) pe in
      let s1 := with_peer s pe {| pe_choking := false; pe_downloading := pe_downloading P; pe_af := pe_af P; pe_piece := pe_piece P |} in
      match pe_piece P with
      | Some (i, false) => Some (upd_piece s1 i (fun p => set_marks p (p_req p) (p_snub p) (srem pe (p_chok p))))
      | _ => Some s1
      end
  | OChoke pe =>
      let P := get_peer (peers s) pe in
      let s1 := with_peer s pe {| pe_choking := true; pe_downloading := pe_downloading P; pe_af := pe_af P; pe_piece := pe_piece P |} in
      match pe_piece P with
      | Some (i, false) => Some (upd_piece s1 i (fun p => set_marks p (p_req p) (srem pe (p_snub p)) (sadd pe (p_chok p))))
      | _ => Some s1
      end
  | OSnub pe =>
      let P := get_peer (peers s) pe in
      match pe_piece P with
      | Some (i, _) =>
          if pe_choking P then Some s
          else if mem pe (p_chok (get_piece s i)) then None          (* panic("peer snubbed while choked") *)
          else Some (upd_piece s i (fun p => set_marks p (p_req p) (sadd pe (p_snub p)) (p_chok p)))
      | None => Some s
      end
  | OPick pe obs => pick_check s pe obs
  | OCancel pe => Some (close_dl s pe)
  | ODisconnect pe =>
      let s1 := close_dl s pe in
      let s2 := handle_disconnect s1 pe in
      Some {| pieces := pieces s2; peers := filter (fun kv => negb (fst kv =? pe)) (peers s2); avail := avail s2;
              endgame := endgame s2; sequential := sequential s2; maxdup := maxdup s2 |}
  | OWriting i => if in_range s i then Some (upd_piece s i (fun p => set_flags p (p_done p) true)) else None
  | OWritten i ok => if in_range s i then Some (upd_piece s i (fun p => set_flags p ok false)) else None
  end.

(* ---- observables after every operation: Available(), RequestedPeers(i) and the Snubbed / Choked sets as sorted sets ---- *)
Definition sort_z (l : list Z) : list Z :=
  fold_right (fun x acc => (fix ins (l : list Z) := match l with [] => [x] | y :: r => if x <=? y then x :: l else y :: ins r end) acc) [] l.
Definition obs_picker (s : picker) : list Z :=
  avail s :: flat_map (fun p => (zlen (p_req p) :: sort_z (p_req p)) ++ (zlen (p_snub p) :: sort_z (p_snub p))
                               ++ (zlen (p_chok p) :: sort_z (p_chok p))) (pieces s).

(* ---- case codec, kind 901 ----
   in = [npieces; sequential; maxdup; (head tail)*npieces; ops...]
   ops: 1 pe i | 2 pe i | 3 pe | 4 pe | 5 pe | 6 pe res (res = -1 | i*2+af) | 7 pe | 8 pe | 9 i | 10 i ok
   (the pick result is the real picker's answer, recorded by the harness as part of the input to
    the model run; obs = observables after each op) *)
Fixpoint rd_flags (n : nat) (l : list Z) : list ppiece * list Z :=
  match n, l with
  | S k, h :: t :: r => let '(ps, rest) := rd_flags k r in
                        ({| p_done := false; p_writing := false; p_having := []; p_req := []; p_snub := []; p_chok := [];
                            p_head := z2b h; p_tail := z2b t |} :: ps, rest)
  | _, _ => ([], l)
  end.

Definition rd_op (l : list Z) : option (pop * list Z) :=
  match l with
  | 1 :: pe :: i :: r => Some (OHave pe i, r)
  | 2 :: pe :: i :: r => Some (OAllowedFast pe i, r)
  | 3 :: pe :: r => Some (OUnchoke pe, r)
  | 4 :: pe :: r => Some (OChoke pe, r)
  | 5 :: pe :: r => Some (OSnub pe, r)
  | 6 :: pe :: res :: r => Some (OPick pe (if res <? 0 then None else Some (res / 2, z2b (res mod 2))), r)
  | 7 :: pe :: r => Some (OCancel pe, r)
  | 8 :: pe :: r => Some (ODisconnect pe, r)
  | 9 :: i :: r => Some (OWriting i, r)
  | 10 :: i :: ok :: r => Some (OWritten i (z2b ok), r)
  | _ => None
  end.

Fixpoint run_pk_go (fuel : nat) (s : picker) (l : list Z) : list Z :=
  match fuel with
  | O => []
  | S f => match rd_op l with
           | Some (o, rest) => match pstep s o with
                               | Some s' => obs_picker s' ++ run_pk_go f s' rest
                               | None => [-555]               (* illegal pick / panic predicted *)
                               end
           | None => []
           end
  end.

Definition run_picker (inp : list Z) : list Z :=
  match inp with
  | np :: sq :: md :: r =>
      let '(ps, ops) := rd_flags (Z.to_nat np) r in
      run_pk_go (length ops) {| pieces := ps; peers := []; avail := 0; endgame := false; sequential := z2b sq; maxdup := md |} ops
  | _ => [-779]
  end.

(* branch tags of every OPick in a run: which stage of findPiece decided (coverage of the tie) *)
Definition stage_tag (s : picker) (pe : Z) (obs : option (Z * bool)) : Z :=
  let P := get_peer (peers s) pe in
  if pe_downloading P then 1 else
  match fst (find_piece s pe), obs with
  | StNone, _ => 2                                   (* choked / nothing allowed *)
  | StFirst _ true, _ => 3                           (* allowed-fast *)
  | StFirst _ false, _ => if negb (pe_choking P) && sequential s then 4 else 3   (* file edge / sequential *)
  | StMin _ _, None => 5                             (* stage reached, no candidate *)
  | StMin _ _, Some _ =>
      if endgame s then 6                            (* end-game (already active) *)
      else if snd (find_piece s pe) then 7           (* end-game starts with this pick *)
      else match cands s (c_unreq_has pe) with [] => 8 (* stalled re-request *) | _ => 9 (* rarest *) end
  end.

Fixpoint tags_go (fuel : nat) (s : picker) (l : list Z) : list Z :=
  match fuel with
  | O => []
  | S f => match rd_op l with
           | Some (o, rest) =>
               let t := match o with OPick pe obs => [stage_tag s pe obs] | _ => [] end in
               match pstep s o with
               | Some s' => t ++ tags_go f s' rest
               | None => t
               end
           | None => []
           end
  end.
Definition tags_picker (inp : list Z) : list Z :=
  match inp with
  | np :: sq :: md :: r =>
      let '(ps, ops) := rd_flags (Z.to_nat np) r in
      tags_go (length ops) {| pieces := ps; peers := []; avail := 0; endgame := false; sequential := z2b sq; maxdup := md |} ops
  | _ => []
  end.

(* A bencode value model: encoder and fuelled decoder (the spec of what zeebo/bencode is used
   for on canonical input).  Definitions only. *)
From RainV Require Import Lib.
From Coq Require Import Decimal DecimalZ.

Inductive bval :=
| BInt (z : Z)
| BStr (s : list Z)
| BList (l : list bval)
| BDict (d : list (list Z * bval)).

(* ---- decimal <-> bytes via the standard library's Decimal.uint ---- *)
Fixpoint bytes_of_uint (u : Decimal.uint) : list Z :=
  match u with
  | Nil => []
  | D0 r => 48 :: bytes_of_uint r | D1 r => 49 :: bytes_of_uint r | D2 r => 50 :: bytes_of_uint r
  | D3 r => 51 :: bytes_of_uint r | D4 r => 52 :: bytes_of_uint r | D5 r => 53 :: bytes_of_uint r
  | D6 r => 54 :: bytes_of_uint r | D7 r => 55 :: bytes_of_uint r | D8 r => 56 :: bytes_of_uint r
  | D9 r => 57 :: bytes_of_uint r
  end.

Definition is_digit (c : Z) : bool := (48 <=? c) && (c <=? 57).

(* reads the maximal digit prefix *)
Fixpoint uint_of_bytes (s : list Z) : Decimal.uint * list Z :=
  match s with
  | c :: r =>
      if is_digit c then
        let '(u, rest) := uint_of_bytes r in
        ((match c with
          | 48 => D0 u | 49 => D1 u | 50 => D2 u | 51 => D3 u | 52 => D4 u
          | 53 => D5 u | 54 => D6 u | 55 => D7 u | 56 => D8 u | _ => D9 u
          end), rest)
      else (Nil, s)
  | [] => (Nil, [])
  end.

Definition bytes_of_Z (z : Z) : list Z :=
  match Z.to_int z with
  | Decimal.Pos u => bytes_of_uint u
  | Decimal.Neg u => 45 :: bytes_of_uint u
  end.

(* ---- encoder ---- *)
Definition enc_str (s : list Z) : list Z := bytes_of_Z (zlen s) ++ 58 :: s.

Fixpoint enc (v : bval) : list Z :=
  match v with
  | BInt z => 105 :: bytes_of_Z z ++ [101]
  | BStr s => enc_str s
  | BList l => 108 :: flat_map enc l ++ [101]
  | BDict d => 100 :: flat_map (fun kv => enc_str (fst kv) ++ enc (snd kv)) d ++ [101]
  end.

(* ---- decoder ---- *)
Definition dec_int (s : list Z) : option (Z * list Z) :=   (* after 'i' *)
  match s with
  | 45 :: r => match uint_of_bytes r with
               | (Nil, _) => None
               | (u, 101 :: rest) => Some (Z.of_int (Decimal.Neg u), rest)
               | _ => None
               end
  | _ => match uint_of_bytes s with
         | (Nil, _) => None
         | (u, 101 :: rest) => Some (Z.of_int (Decimal.Pos u), rest)
         | _ => None
         end
  end.

Definition dec_str (s : list Z) : option (list Z * list Z) :=
  match uint_of_bytes s with
  | (Nil, _) => None
  | (u, 58 :: rest) =>
      let n := Z.of_uint u in
      if n <=? zlen rest then Some (firstn (Z.to_nat n) rest, skipn (Z.to_nat n) rest) else None
  | _ => None
  end.

Fixpoint dec_val (fuel : nat) (s : list Z) : option (bval * list Z) :=
  match fuel with
  | O => None
  | S f =>
    match s with
    | 105 :: r => match dec_int r with Some (z, rest) => Some (BInt z, rest) | None => None end
    | 108 :: r => match dec_list f r with Some (l, rest) => Some (BList l, rest) | None => None end
    | 100 :: r => match dec_dict f r with Some (d, rest) => Some (BDict d, rest) | None => None end
    | c :: _ => if is_digit c then match dec_str s with Some (b, rest) => Some (BStr b, rest) | None => None end
                else None
    | [] => None
    end
  end
with dec_list (fuel : nat) (s : list Z) : option (list bval * list Z) :=
  match fuel with
  | O => None
  | S f =>
    match s with
    | 101 :: rest => Some ([], rest)
    | _ => match dec_val f s with
           | Some (v, rest) => match dec_list f rest with
                               | Some (l, rest') => Some (v :: l, rest')
                               | None => None
                               end
           | None => None
           end
    end
  end
with dec_dict (fuel : nat) (s : list Z) : option (list (list Z * bval) * list Z) :=
  match fuel with
  | O => None
  | S f =>
    match s with
    | 101 :: rest => Some ([], rest)
    | _ => match dec_str s with
           | Some (k, rest) =>
               match dec_val f rest with
               | Some (v, rest') => match dec_dict f rest' with
                                    | Some (d, rest'') => Some ((k, v) :: d, rest'')
                                    | None => None
                                    end
               | None => None
               end
           | None => None
           end
    end
  end.

Definition decode (s : list Z) : option (bval * list Z) := dec_val (S (length s)) s.

(* nesting depth of the encoded text: the guard a caller can apply before decoding *)
Fixpoint depth_scan (s : list Z) (cur mx : Z) (skip : nat) : Z :=
  match s with
  | [] => mx
  | c :: r =>
      match skip with
      | S k => depth_scan r cur mx k
      | O => if (c =? 108) || (c =? 100) then depth_scan r (cur + 1) (Z.max mx (cur + 1)) O
             else if c =? 101 then depth_scan r (cur - 1) mx O
             else depth_scan r cur mx O
      end
  end.

(* dictionary lookup by key *)
Fixpoint bytes_eqb (a b : list Z) : bool :=
  match a, b with
  | [], [] => true
  | x :: r, y :: r' => (x =? y) && bytes_eqb r r'
  | _, _ => false
  end.

Fixpoint dict_get (k : list Z) (d : list (list Z * bval)) : option bval :=
  match d with
  | [] => None
  | (k', v) :: r => if bytes_eqb k k' then Some v else dict_get k r
  end.

(* Metadata phase: for every event history and every observed choice of info downloaders,
   (1) metadata is adopted only when the announced size equals the size of the true info dictionary
       and the last bytes copied into every 16 KiB block were the true bytes (so the assembled buffer is
       the info dictionary whose SHA-1 is the info-hash);
   (2) an info downloader -- whose creation allocates a buffer of the announced size -- exists only
       for an announced size in (0, MaxMetadataSize]. *)
From RainV Require Import Lib InfoDl MetaSess.
From Coq Require Import ZifyBool.

Definition idl_ok (s : mst) (q : mpeer) : Prop :=
  forall d, m_idl q = Some d -> 0 < d_size d <= t_max s.
Record MInv (s : mst) : Prop := {
  mi_idl : Forall (idl_ok s) (t_peers s);
  mi_adopt : forall sz recv, t_adopted_from s = Some (sz, recv) -> sz = t_truesize s /\ forallb (fun x => x =? 1) recv = true;
  mi_flag : t_adopted s = true -> t_adopted_from s <> None
}.

Definition mconsts (s : mst) := (t_truesize s, t_max s, t_adopted s, t_adopted_from s).

Lemma mupd_list_Forall (P : mpeer -> Prop) f : forall l i, Forall P l -> (forall x, P x -> P (f x)) -> Forall P (mupd_list l i f).
Proof.
  induction l as [|x r IH]; intros i Hl Hf; cbn; [constructor|]. inversion Hl; subst.
  destruct i; constructor; auto.
Qed.

Lemma minv_peers s ps : mconsts (mwith_peers s ps) = mconsts s. Proof. reflexivity. Qed.

Lemma idl_ok_consts s s' q : t_max s' = t_max s -> idl_ok s q -> idl_ok s' q.
Proof. unfold idl_ok. intros E H d Hd. rewrite E. auto. Qed.

Lemma minv_upd s p f : MInv s -> (forall q, idl_ok s q -> idl_ok s (f q)) -> MInv (mupd s p f).
Proof.
  intros [A B C] Hf. unfold mupd. destruct (p <? 0); [constructor; auto|]. constructor; cbn; auto.
  apply mupd_list_Forall; [|exact Hf]. eapply Forall_impl; [|exact A]. intros q Hq. exact Hq.
Qed.
Lemma minv_bad s w : MInv s -> MInv (mbad s w).
Proof. intros [A B C]. constructor; cbn; auto. Qed.

Lemma ok_mset_same s q closed shake snub chok queue fr : idl_ok s q -> idl_ok s (mset q closed shake (m_idl q) snub chok queue fr).
Proof. unfold idl_ok, mset; cbn. auto. Qed.
Lemma ok_mset_none s q closed shake snub chok queue fr : idl_ok s (mset q closed shake None snub chok queue fr).
Proof. unfold idl_ok, mset; cbn. intros d H; discriminate. Qed.
Lemma ok_close s q : idl_ok s q -> idl_ok s (mclose_q q).
Proof. intros H. unfold mclose_q. destruct (negb (m_present q)); [exact H|apply ok_mset_none]. Qed.
Lemma ok_add_frames s q fs : idl_ok s q -> idl_ok s (madd_frames q fs).
Proof. intros H. unfold madd_frames. destruct (m_closed q); [exact H|]. apply ok_mset_same. exact H. Qed.

Lemma minv_close s p : MInv s -> MInv (mclose s p).
Proof. intros H. apply minv_upd; [exact H|]. intros q. apply ok_close. Qed.

Lemma mget_ok s p : MInv s -> idl_ok s (mget s p).
Proof.
  intros [A _ _]. unfold mget. revert A. generalize (Z.to_nat p). induction (t_peers s) as [|x r IH]; intros n A; destruct n; cbn;
    try (intros d H; discriminate); inversion A; subst; auto.
Qed.

Lemma minv_request s p : MInv s -> MInv (mrequest s p).
Proof.
  intros H. unfold mrequest. destruct (m_idl (mget s p)) as [d|] eqn:Ed; [|exact H].
  destruct (request_blocks _ _ _ _) as [dl' idx]. apply minv_upd; [exact H|].
  intros q Hq. apply ok_add_frames. unfold idl_ok, mset; cbn. intros d' E. inversion E; subst. cbn.
  apply (mget_ok s p H). exact Ed.
Qed.

Lemma minv_massign_go : forall obs s tries p, MInv s -> MInv (massign_go s tries obs p).
Proof.
  induction obs as [|o r IH]; intros s tries p H; cbn [massign_go]; [exact H|]. apply IH.
  destruct (m_idl (mget s p)) eqn:Ed, (z2b o); try exact H; try (apply minv_bad; exact H).
  destruct (tries && meligible s (mget s p)) eqn:El; [|apply minv_bad; exact H].
  destruct (m_shake (mget s p)) as [[[has size] rq]|] eqn:Es; [|apply minv_bad; exact H].
  apply minv_request. apply minv_upd; [exact H|]. intros q _. unfold idl_ok, mset; cbn. intros d E. inversion E; subst. cbn.
  apply andb_prop in El as [_ El]. unfold meligible in El. rewrite Es in El. destruct has; [|rewrite !Bool.andb_false_r in El; discriminate].
  rewrite !Bool.andb_true_iff in El. lia.
Qed.
Lemma minv_massign s tries obs : MInv s -> MInv (massign s tries obs).
Proof.
  intros H. unfold massign. destruct (negb _); [apply minv_bad; exact H|].
  pose proof (minv_massign_go obs s tries 0 H) as H1.
  destruct (_ >? _); [apply minv_bad; exact H1|]. destruct (_ && _); [apply minv_bad|]; exact H1.
Qed.

Lemma minv_clear s : MInv s -> MInv (mclear s).
Proof.
  intros [A B C]. constructor; cbn; auto. apply Forall_forall. intros q Hq. apply in_map_iff in Hq as (q0 & <- & H0).
  rewrite Forall_forall in A. apply ok_mset_same. apply A. exact H0.
Qed.

Lemma minv_data s p piece len good : MInv s -> MInv (fst (m_data s p piece len good)).
Proof.
  intros H. unfold m_data. destruct (m_idl (mget s p)) as [d|] eqn:Ed; [|exact H].
  destruct (mgot (d_dl d) piece len) as [dl' r]. destruct r; try (apply minv_close; exact H).
  match goal with |- context [all_blocks_in ?x] => set (d' := x) end.
  pose proof (mget_ok s p H d Ed) as Hsz.
  destruct (negb (all_blocks_in d')).
  - cbn [fst]. apply minv_request. apply minv_upd; [exact H|]. intros q _. unfold idl_ok, mset; cbn. intros d2 E. inversion E; subst. exact Hsz.
  - destruct (forallb (fun x => x =? 1) (d_recv d') && (d_size d' =? t_truesize s)) eqn:Ea; [|cbn [fst]; apply minv_close; exact H].
    cbn [fst]. destruct H as [A B C]. apply andb_prop in Ea as [E1 E2]. constructor; cbn.
    + apply Forall_forall. intros q Hq. apply in_map_iff in Hq as (q0 & <- & H0). apply ok_mset_none.
    + intros sz recv E. inversion E; subst. split; [cbn in *; lia|exact E1].
    + intros _ E. discriminate.
Qed.

Lemma minv_reqfp s p a : MInv s -> MInv (fst (m_request_from_peer s p a)).
Proof.
  intros H. unfold m_request_from_peer. destruct (m_shake _) as [[[[|] ?] ?]|]; try exact H.
  destruct (_ || _); [|exact H]. cbn [fst]. apply minv_upd; [exact H|]. intros q. apply ok_add_frames.
Qed.
Lemma minv_other s p a b : MInv s -> MInv (fst (m_other s p a b)).
Proof.
  intros H. unfold m_other. destruct (_ || _); [apply minv_close; exact H|]. destruct (_ || _); [cbn [fst]; apply minv_upd; [exact H|intros q; apply ok_mset_same]|].
  destruct (a =? 1); [cbn [fst]; apply minv_upd; [exact H|intros q; apply ok_mset_same]|].
  destruct (a =? 0); [cbn [fst]; apply minv_upd; [exact H|intros q; apply ok_mset_same]|exact H].
Qed.
Lemma minv_connect s p e : MInv s -> MInv (fst (m_connect s p e)).
Proof.
  intros H. unfold m_connect. destruct (m_present _); [apply minv_bad; exact H|]. cbn [fst]. apply minv_upd; [exact H|]. intros q _ d0 E. discriminate.
Qed.

Lemma minv_dispatch s code p a b c d : MInv s -> MInv (fst (mdispatch s code p a b c d)).
Proof.
  intros H. unfold mdispatch. destruct (t_adopted s).
  { destruct (code =? 5); [apply minv_close; exact H|]. destruct (code =? 6); [apply minv_reqfp; exact H|].
    destruct (code =? 7); [apply minv_other; exact H|]. destruct (code =? 12); [apply minv_connect; exact H|apply minv_bad; exact H]. }
  destruct (code =? 1).
  { unfold m_handshake. destruct (m_shake (mget s p)); [exact H|]. cbn [fst]. apply minv_upd; [exact H|]. intros q. apply ok_mset_same. }
  destruct (code =? 2); [apply minv_data; exact H|].
  destruct (code =? 3); [unfold m_reject; destruct (m_idl _); [apply minv_close|]; exact H|].
  destruct (code =? 4); [unfold m_snubbed; destruct (m_idl _); [cbn [fst]; apply minv_upd; [exact H|intros q; apply ok_mset_same]|exact H]|].
  destruct (code =? 5); [apply minv_close; exact H|].
  destruct (code =? 6); [apply minv_reqfp; exact H|].
  destruct (code =? 7); [apply minv_other; exact H|].
  destruct (code =? 12); [apply minv_connect; exact H|].
  exact H.
Qed.

Theorem minv_step s ev idls : MInv s -> MInv (fst (mstep s ev idls)).
Proof.
  intros H. unfold mstep. pose proof (minv_clear s H) as H0.
  destruct ev as [|code [|p [|a [|b [|c [|d [|x r]]]]]]]; try (apply minv_bad; exact H0).
  pose proof (minv_dispatch (mclear s) code p a b c d H0) as H1.
  destruct (mdispatch (mclear s) code p a b c d) as [s1 tries]. cbn [fst] in *. apply minv_massign. exact H1.
Qed.

Inductive mreach (s0 : mst) : mst -> Prop :=
| mreach_init : mreach s0 s0
| mreach_step s ev idls : mreach s0 s -> mreach s0 (fst (mstep s ev idls))
| mreach_bad s w : mreach s0 s -> mreach s0 (mbad s w).

Definition minit (truesize mx par q np : Z) (P : nat) : mst :=
  {| t_peers := repeat mdefault P; t_adopted := false; t_truesize := truesize; t_max := mx;
     t_parallel := par; t_q := q; t_np := np; t_adopted_from := None; t_bad := 0 |}.

Lemma minv_init truesize mx par q np P : MInv (minit truesize mx par q np P).
Proof.
  constructor; cbn; [|intros; discriminate|intros; discriminate].
  apply Forall_forall. intros x Hx. apply repeat_spec in Hx. subst. intros d E. discriminate.
Qed.

Theorem mreach_inv truesize mx par q np P s : mreach (minit truesize mx par q np P) s -> MInv s.
Proof.
  intros Hr. induction Hr; [apply minv_init|apply minv_step; assumption|apply minv_bad; assumption].
Qed.

(* constants never change *)
Definition mk (s : mst) := (t_truesize s, t_max s).
Lemma mk_upd s p f : mk (mupd s p f) = mk s. Proof. unfold mupd. destruct (_ <? _); reflexivity. Qed.
Lemma mk_bad s w : mk (mbad s w) = mk s. Proof. reflexivity. Qed.
Lemma mk_request s p : mk (mrequest s p) = mk s.
Proof. unfold mrequest. destruct (m_idl _); [|reflexivity]. destruct (request_blocks _ _ _ _). apply mk_upd. Qed.
Lemma mk_close s p : mk (mclose s p) = mk s. Proof. apply mk_upd. Qed.
Ltac kk := repeat first [progress cbn [fst] | rewrite mk_request | rewrite mk_upd | rewrite mk_close | rewrite mk_bad | reflexivity].
Lemma mk_massign_go : forall obs s tries p, mk (massign_go s tries obs p) = mk s.
Proof.
  induction obs as [|o r IH]; intros s tries p; cbn [massign_go]; [reflexivity|]. rewrite IH.
  destruct (m_idl _), (z2b o); kk. destruct (_ && _); kk. destruct (m_shake _) as [[[? ?] ?]|]; kk.
Qed.
Lemma mk_massign s tries obs : mk (massign s tries obs) = mk s.
Proof. unfold massign. destruct (negb _); kk. destruct (_ >? _); kk; rewrite ?mk_massign_go; kk. destruct (_ && _); kk; apply mk_massign_go. Qed.
Lemma mk_dispatch s code p a b c d : mk (fst (mdispatch s code p a b c d)) = mk s.
Proof.
  assert (K6 : mk (fst (m_request_from_peer s p a)) = mk s).
  { unfold m_request_from_peer; destruct (m_shake _) as [[[[|] ?] ?]|]; kk. destruct (_ || _); kk. }
  assert (K7 : mk (fst (m_other s p a b)) = mk s).
  { unfold m_other; destruct (_ || _); kk; destruct (_ || _); kk; destruct (a =? 1); kk; destruct (a =? 0); kk. }
  assert (K12 : forall e, mk (fst (m_connect s p e)) = mk s) by (intros e; unfold m_connect; destruct (m_present _); kk).
  unfold mdispatch. destruct (t_adopted _).
  { destruct (code =? 5); kk. destruct (code =? 6); [exact K6|]. destruct (code =? 7); [exact K7|]. destruct (code =? 12); [apply K12|kk]. }
  destruct (code =? 1); [unfold m_handshake; destruct (m_shake _); kk|].
  destruct (code =? 2).
  { unfold m_data. destruct (m_idl _) as [d1|]; kk. destruct (mgot _ _ _) as [dl' r1]. destruct r1; kk.
    destruct (negb _); kk. destruct (_ && _); kk. }
  destruct (code =? 3); [unfold m_reject; destruct (m_idl _); kk|].
  destruct (code =? 4); [unfold m_snubbed; destruct (m_idl _); kk|].
  destruct (code =? 5); kk.
  destruct (code =? 6); [exact K6|].
  destruct (code =? 7); [exact K7|].
  destruct (code =? 12); [apply K12|]. kk.
Qed.
Lemma mk_step s ev idls : mk (fst (mstep s ev idls)) = mk s.
Proof.
  unfold mstep. destruct ev as [|code [|p [|a [|b [|c [|d [|x r]]]]]]]; try reflexivity.
  pose proof (mk_dispatch (mclear s) code p a b c d) as H.
  destruct (mdispatch (mclear s) code p a b c d) as [s1 tries]. cbn [fst] in *. rewrite mk_massign. exact H.
Qed.
Lemma mk_reach s0 s : mreach s0 s -> mk s = mk s0.
Proof. intros Hr. induction Hr; [reflexivity|rewrite mk_step; assumption|assumption]. Qed.

(* ---- statements used by Properties/C13.v ---- *)
Theorem adoption_sound truesize mx par q np P s : mreach (minit truesize mx par q np P) s ->
  (t_adopted s = true -> exists recv, t_adopted_from s = Some (truesize, recv) /\ forallb (fun x => x =? 1) recv = true) /\
  (forall p d, m_idl (mget s p) = Some d -> 0 < d_size d <= mx).
Proof.
  intros Hr. pose proof (mreach_inv _ _ _ _ _ _ _ Hr) as Hi. pose proof (mk_reach _ _ Hr) as Hk. unfold mk in Hk. cbn in Hk.
  inversion Hk as [[H1 H2]]. split.
  - intros Ha. destruct (t_adopted_from s) as [[sz recv]|] eqn:E; [|exfalso; apply (mi_flag _ Hi Ha); exact E].
    destruct (mi_adopt _ Hi sz recv E) as [A B]. exists recv. split; [f_equal; f_equal; lia|exact B].
  - intros p d Hd. pose proof (mget_ok s p Hi d Hd) as Hz. lia.
Qed.

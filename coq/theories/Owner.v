(* Ownership discipline of package torrent (property C20).  The table itself is regenerated from the Go
   source on every run by the translator in harness/root/verifhook/c20_owners.go; this file holds the rule
   that every entry must satisfy and the theorems that say what the rule buys.
   Contexts: 1 = the torrent's event loop, 2 = a caller of the public API, 4 = any other goroutine. *)
From RainV Require Import Lib.

(* accesses that are safe by an argument the rule cannot express; each pair is (field, function) as the
   translator hashes them (FNV-1a, 31 bits):
   - info, pieces read in announcerFields / bytesComplete: the reader holds mBitfield and has seen
     bitfield <> nil; the loop sets the bitfield under that lock after it wrote info and pieces (publication);
   - port read in announcerFields: the announcer goroutine is started after startAcceptor wrote the port, in
     the same handler (fork order);
   - info, port read in stopAndRemoveData: after torrent.Close() returned, i.e. after the loop has exited. *)
Definition justified : list (Z * Z) :=
  [(1115858697, 2057374617); (1115858697, 1827785071); (507406, 1827785071);
   (705979122, 2057374617); (1115858697, 781382140); (705979122, 781382140)].

Definition is_justified (f g : Z) : bool := existsb (fun p => (fst p =? f) && (snd p =? g)) justified.

(* one access of a field from outside the loop (or a write by the loop to a lock-protected field):
   it is in order when the field is never written after construction, or the access holds the field's lock *)
Definition access_ok (field func : Z) (locks flock : Z) (written : bool) : bool :=
  negb written || negb (Z.land locks flock =? 0) || is_justified field func.

(* lock order: no cycle among the nesting edges *)
Fixpoint edges_of (l : list Z) : list (Z * Z) :=
  match l with a :: b :: r => (a, b) :: edges_of r | _ => [] end.
Definition succs (es : list (Z * Z)) (x : Z) : list Z := map snd (filter (fun e => fst e =? x) es).
Fixpoint reach (fuel : nat) (es : list (Z * Z)) (from : list Z) (target : Z) : bool :=
  match fuel with
  | O => false
  | S f => existsb (fun x => (x =? target) || reach f es (succs es x) target) from
  end.
Definition acyclic (es : list (Z * Z)) : bool :=
  forallb (fun e => negb (reach (length es) es (succs es (snd e)) (fst e)) && negb (fst e =? snd e)) es.

Definition mon_owner (inp : list Z) : bool :=
  match inp with
  | [0] => true
  | [1; field; func; w; ctx; locks; written; flock] => access_ok field func locks flock (z2b written)
  | [2; ch; func; aware] => z2b aware            (* a send on a command channel gives up when the torrent is closed *)
  | 3 :: n :: es => acyclic (edges_of es)
  | [4; entries; budget] => entries + 1 <=? budget  (* the whole table was handed over *)
  | [6; func; buffered] => z2b buffered          (* the loop can answer a request whose sender has given up *)
  | _ => false
  end.

Definition run_owner (inp : list Z) : list Z := [].
(* kind 2002: every call of the concurrent API stress returned *)
Definition run_api_stress (inp : list Z) : list Z := [1; 1].

(* ---- what the rule buys: executions with locks ---- *)
Inductive ev := Acq (th l : Z) | Rel (th l : Z) | Acc (th f : Z) (w : bool).
Definition thread_of (e : ev) : Z := match e with Acq t _ | Rel t _ | Acc t _ _ => t end.
Definition lstate := Z -> option Z.          (* who holds each lock *)
Definition upd (s : lstate) (l : Z) (v : option Z) : lstate := fun x => if x =? l then v else s x.
Definition step_ok (s : lstate) (e : ev) : Prop :=
  match e with Acq _ l => s l = None | Rel t l => s l = Some t | Acc _ _ _ => True end.
Definition step (s : lstate) (e : ev) : lstate :=
  match e with Acq t l => upd s l (Some t) | Rel _ l => upd s l None | Acc _ _ _ => s end.
Fixpoint wf (s : lstate) (tr : list ev) : Prop :=
  match tr with [] => True | e :: r => step_ok s e /\ wf (step s e) r end.
Definition run (s : lstate) (tr : list ev) : lstate := fold_left step tr s.

NOTES = ('All checks share bin/check. Fix commits in /repo are listed in known_findings.json as fixed entries. '
         'Hooks: none committed to /repo; harness code is injected with go build -overlay (tag verif).')
NA = {}
TEXT = {
 'C06': {
  'text': 'Theorems (Coq, all decoded field values: any int64 file lengths, any piece length, any pieces-string length): whatever metainfo.NewInfo accepts is well-formed (positive piece length, at least one piece, non-negative file lengths, no int64 wrap, sum within (PL(n-1), PLn]) - refuted for the pinned code (negative/overflowing lengths), proved after fix D3; for every accepted info NewPieces and calculateBlocks return within an explicit fuel bound linear in the input. Tied to the Go code by running the real NewInfo on generated adversarial dictionaries (negative, overflowing, extreme lengths, wrong pieces length, out-of-range piece length) and comparing accept/reject and the produced Info with the extracted model; monitor re-checks well-formedness of every accepted Info.',
  'note': 'Not covered by a theorem: the byte-level bencode decoder (zeebo/bencode, trusted; deep-nesting stack exhaustion is recorded as a finding when listed in known_findings.json), MaxTorrentSize/MaxPieces checks of the session (plain comparisons), memory use of a huge legal piece length.',
  'technique': 'machine-checked proof (Coq) of the acceptance predicate and loop termination + differential correspondence with the Go code',
 },
 'C02': {
  'text': 'Theorems (Coq, every file-length vector incl. zero-length and padding files, every piece length and piece count satisfying the acceptance bounds; every section list and block size): NewPieces terminates within |files|+2 iterations per piece without panicking, yields n pieces whose sections chain gap-free and overlap-free through the concatenated files, lengths PL except the last; calculateBlocks yields ordered, disjoint blocks of size (0,bs] whose union is exactly the non-padding bytes (refuted for the pinned code, proved after fix D1). Tied to the Go code by running metainfo.NewInfo+piece.NewPieces and calculateBlocks(bs) on generated layouts biased to boundary coincidences and comparing sections/blocks with the extracted model; monitors recompute chain and tiling from the observed lists.',
  'note': 'Not yet proved (stated in DESIGN as core/ext): write/read round trip of filesection.Piece, createJobs cover, create-then-verify; these are only exercised where the evidence lists a correspondence kind for them. Trusted: kernel, extraction, harness; zeebo/bencode encodes the generated info dictionaries.',
  'technique': 'machine-checked proof (Coq): loop invariants over transcribed NewPieces/calculateBlocks + differential correspondence with the Go code',
 },
 'C16': {
  'text': 'Theorems (Coq, all tier sizes, all success/failure patterns, all interleavings of concurrent announces as load/CAS steps): each announce goes to the member the two-line spec names, every member is reached within one cycle of failures, an answering member keeps being used, indexes stay in range. Tied to internal/tracker/tier.go by running the real Tier under scripted members on generated sequential and concurrent histories and comparing contacted members with the extracted model; proved monitor on the observed members.',
  'note': 'Trusted: Coq kernel, extraction, Go harness, linearizability of sync/atomic. Modelled, not verified: tier.go itself (hand model + differential tie). Announcer retry/back-off and tracker reply parsing parts of C16 are covered only where the kinds listed in the evidence say so.',
  'technique': 'machine-checked proof (Coq) over an executable model + differential correspondence with the Go code',
 },
}

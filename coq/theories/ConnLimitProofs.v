(* Proofs about ConnLimit.v. *)
From RainV Require Import Lib ConnLimit.
From Coq Require Import ZifyBool.

Definition CInv (md ma : Z) (s : cl) : Prop :=
  0 <= c_addrs s /\ 0 <= c_oh s /\ 0 <= c_op s /\ 0 <= c_ih s /\ 0 <= c_ip s /\
  c_oh s + c_op s <= md /\ c_ih s + c_ip s <= ma.

Lemma dial_inv md ma : forall fuel s, CInv md ma s -> CInv md ma (dial fuel md s).
Proof.
  induction fuel as [|f IH]; intros s H; cbn [dial]; [exact H|].
  destruct ((c_oh s + c_op s <? md) && (0 <? c_addrs s)) eqn:E; [|exact H].
  apply IH. unfold CInv in *. cbn. lia.
Qed.

Lemma cstep_inv md ma s e : 0 <= md -> 0 <= ma -> (match e with CAdd n => 0 <= n | _ => True end) -> CInv md ma s -> CInv md ma (cstep md ma s e).
Proof.
  intros Hmd Hma He H. destruct e; cbn [cstep];
    repeat match goal with |- context [if ?b then _ else _] => destruct b eqn:? end;
    try exact H; try (apply dial_inv); unfold CInv in *; cbn; lia.
Qed.

Lemma cl_init_inv md ma : 0 <= md -> 0 <= ma -> CInv md ma cl_init.
Proof. intros. unfold CInv. cbn. lia. Qed.

(* for every history of address batches, handshake results, incoming connections, disconnects, stops and
   starts: the outgoing connections (handshaking + established) never exceed MaxPeerDial and the incoming
   ones never exceed MaxPeerAccept *)
Theorem connection_limits_hold md ma evs : 0 <= md -> 0 <= ma ->
  Forall (fun e => match e with CAdd n => 0 <= n | _ => True end) evs ->
  CInv md ma (fold_left (cstep md ma) evs cl_init).
Proof.
  intros Hmd Hma Hf.
  assert (G : forall s, CInv md ma s -> CInv md ma (fold_left (cstep md ma) evs s)).
  { induction evs as [|e r IH]; intros s H; [exact H|]. inversion Hf; subst. cbn. apply IH; [assumption|]. apply cstep_inv; assumption. }
  apply G. apply cl_init_inv; assumption.
Qed.

(* a stop leaves no connection, no handshake and no address behind *)
Lemma stop_clears md ma s : obs_cl (cstep md ma s CStop) = [0; 0; 0; 0; 0].
Proof. reflexivity. Qed.

(* the dialer does not leave a slot unused while an address waits *)
Lemma dial_uses_slots md : forall fuel s, Z.of_nat fuel >= c_addrs s -> 0 <= c_addrs s ->
  let s' := dial fuel md s in c_oh s' + c_op s' >= md \/ c_addrs s' = 0.
Proof.
  induction fuel as [|f IH]; intros s Hf Ha; cbn [dial]; cbv zeta; [right; lia|].
  destruct ((c_oh s + c_op s <? md) && (0 <? c_addrs s)) eqn:E; [|lia].
  apply IH; cbn; lia.
Qed.

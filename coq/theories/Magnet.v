(* Byte-level model of internal/magnet: String() and New() with Go's query escaping
   (url.QueryEscape / url.ParseQuery) as far as magnet links use it.
   [fixed = false]: pinned String() writes x.pe values unescaped; [fixed = true]: after fix D15.
   Definitions only. *)
From RainV Require Import Lib Bencode Tracker.

Record magnet := { m_ih : list Z; m_name : list Z; m_tiers : list (list (list Z)); m_peers : list (list Z) }.

Definition unreserved (c : Z) : bool :=
  ((48 <=? c) && (c <=? 57)) || ((65 <=? c) && (c <=? 90)) || ((97 <=? c) && (c <=? 122)) ||
  (c =? 45) || (c =? 95) || (c =? 46) || (c =? 126).
Definition hexu (n : Z) : Z := if n <? 10 then 48 + n else 55 + n.
Definition esc1 (c : Z) : list Z := if unreserved c then [c] else if c =? 32 then [43] else [37; hexu (c / 16); hexu (c mod 16)].
Definition escape (s : list Z) : list Z := flat_map esc1 s.

Definition unhex (c : Z) : option Z :=
  if (48 <=? c) && (c <=? 57) then Some (c - 48)
  else if (65 <=? c) && (c <=? 70) then Some (c - 55)
  else if (97 <=? c) && (c <=? 102) then Some (c - 87) else None.
Fixpoint unescape (fuel : nat) (s : list Z) : option (list Z) :=
  match fuel with
  | O => Some []
  | S f =>
    match s with
    | [] => Some []
    | 37 :: a :: b :: r => match unhex a, unhex b, unescape f r with
                           | Some x, Some y, Some t => Some ((x * 16 + y) :: t)
                           | _, _, _ => None
                           end
    | 37 :: _ => None
    | 43 :: r => match unescape f r with Some t => Some (32 :: t) | None => None end
    | c :: r => match unescape f r with Some t => Some (c :: t) | None => None end
    end
  end.

Definition amp : Z := 38.  Definition eq_ : Z := 61.

Fixpoint split_on (sep : Z) (cur : list Z) (s : list Z) : list (list Z) :=
  match s with
  | [] => [rev cur]
  | c :: r => if c =? sep then rev cur :: split_on sep [] r else split_on sep (c :: cur) r
  end.
Fixpoint cut_eq (cur : list Z) (s : list Z) : list Z * list Z :=
  match s with
  | [] => (rev cur, [])
  | c :: r => if c =? eq_ then (rev cur, r) else cut_eq (c :: cur) r
  end.

(* url.ParseQuery: pairs with ';' or bad escapes are dropped; empty pairs skipped *)
Definition parse_pair (p : list Z) : option (list Z * list Z) :=
  match p with
  | [] => None
  | _ => if existsb (Z.eqb 59) p then None else
         let '(k, v) := cut_eq [] p in
         match unescape (S (length k)) k, unescape (S (length v)) v with
         | Some k', Some v' => Some (k', v')
         | _, _ => None
         end
  end.
Definition parse_query (q : list Z) : list (list Z * list Z) :=
  flat_map (fun p => match parse_pair p with Some kv => [kv] | None => [] end) (split_on amp [] q).

Definition str_xt := [120;116].  Definition str_dn := [100;110].  Definition str_tr := [116;114].
Definition str_xpe := [120;46;112;101].
Definition pfx_btih := [117;114;110;58;98;116;105;104;58].
Definition pfx_magnet := [109;97;103;110;101;116;58;63].     (* "magnet:?" *)

Definition values (k : list Z) (ps : list (list Z * list Z)) : list (list Z) :=
  map snd (filter (fun kv => bytes_eqb (fst kv) k) ps).

(* hex info hash (String() always emits lower-case hex) *)
Fixpoint unhex_all (s : list Z) : option (list Z) :=
  match s with
  | [] => Some []
  | a :: b :: r => match unhex a, unhex b, unhex_all r with
                   | Some x, Some y, Some t => Some ((x * 16 + y) :: t)
                   | _, _, _ => None
                   end
  | _ => None
  end.

Fixpoint strip_prefix (p s : list Z) : option (list Z) :=
  match p, s with
  | [], _ => Some s
  | x :: r, y :: r' => if x =? y then strip_prefix r r' else None
  | _, [] => None
  end.

Fixpoint first_btih (xts : list (list Z)) : option (list Z) :=
  match xts with
  | [] => None
  | x :: r => match strip_prefix pfx_btih x with Some s => Some s | None => first_btih r end
  end.

(* "tr.N" keys *)
Definition tier_index (k : list Z) : option Z :=
  match strip_prefix [116;114;46] k with
  | Some d => match d with
              | [] => None
              | _ => match uint_of_bytes d with
                     | (Decimal.Nil, _) => None
                     | (u, []) => Some (Z.of_uint u)
                     | _ => None
                     end
              end
  | None => None
  end.

Fixpoint insert_tier (t : Z * list (list Z)) (l : list (Z * list (list Z))) : list (Z * list (list Z)) :=
  match l with
  | [] => [t]
  | x :: r => if fst t <? fst x then t :: l else x :: insert_tier t r
  end.

Fixpoint keys_in_order (ps : list (list Z * list Z)) (seen : list (list Z)) : list (list Z) :=
  match ps with
  | [] => []
  | (k, _) :: r => if existsb (bytes_eqb k) seen then keys_in_order r seen else k :: keys_in_order r (k :: seen)
  end.

(* New(): None = error.  Tiers: "tr" values as singleton tiers first (in order), then "tr.N" tiers by N *)
Definition parse_magnet (s : list Z) : option magnet :=
  if existsb (fun c => (c <? 32) || (c =? 127)) s then None else       (* url.Parse: control characters *)
  match strip_prefix pfx_magnet s with
  | None => None
  | Some rest =>
      let q := hd [] (split_on 35 [] rest) in                           (* fragment cut at '#' *)
      let ps := parse_query q in
      match first_btih (values str_xt ps) with
      | None => None
      | Some h =>
          if negb (Nat.eqb (length h) 40) then None else                 (* base32 form not modelled *)
          match unhex_all h with
          | None => None
          | Some ih =>
              let singles := map (fun t => [t]) (values str_tr ps) in
              let multis := fold_right insert_tier []
                              (flat_map (fun k => match tier_index k with
                                                  | Some n => [(n, values k ps)]
                                                  | None => [] end) (keys_in_order ps [])) in
              Some {| m_ih := ih; m_name := hd [] (values str_dn ps);
                      m_tiers := singles ++ map snd multis; m_peers := values str_xpe ps |}
          end
      end
  end.

Definition hexl (n : Z) : Z := if n <? 10 then 48 + n else 87 + n.
Definition render_magnet (fixed : bool) (m : magnet) : list Z :=
  let fix tiers (i : Z) (l : list (list (list Z))) : list Z :=
    match l with
    | [] => []
    | t :: r => (match t with
                 | [x] => amp :: str_tr ++ eq_ :: escape x
                 | _ => flat_map (fun x => amp :: str_tr ++ 46 :: bytes_of_Z i ++ eq_ :: escape x) t
                 end) ++ tiers (i + 1) r
    end in
  pfx_magnet ++ str_xt ++ eq_ :: pfx_btih ++ flat_map (fun b => [hexl (b / 16); hexl (b mod 16)]) (m_ih m)
  ++ (match m_name m with [] => [] | n => amp :: str_dn ++ eq_ :: escape n end)
  ++ tiers 0 (m_tiers m)
  ++ flat_map (fun p => amp :: str_xpe ++ eq_ :: (if fixed then escape p else p)) (m_peers m).

(* ---- case codec, kind 1302 ----
   in = ih(20 bytes) ++ lp name ++ [ntiers; per tier: n; lp...] ++ [npeers; lp...]
   out = [0] | [1] ++ ih ++ lp name ++ tiers ++ peers   (same layout) *)
Fixpoint rd_lps (n : nat) (l : list Z) : option (list (list Z) * list Z) :=
  match n with
  | O => Some ([], l)
  | S k => match rdlist l with
           | Some (s, r) => match rd_lps k r with Some (ss, r') => Some (s :: ss, r') | None => None end
           | None => None
           end
  end.
Fixpoint rd_tiers (n : nat) (l : list Z) : option (list (list (list Z)) * list Z) :=
  match n with
  | O => Some ([], l)
  | S k => match l with
           | c :: r => match rd_lps (Z.to_nat c) r with
                       | Some (t, r') => match rd_tiers k r' with Some (ts, r'') => Some (t :: ts, r'') | None => None end
                       | None => None end
           | [] => None
           end
  end.
Definition rd_magnet (l : list Z) : option magnet :=
  match rdn 20 l with
  | Some (ih, r) => match rdlist r with
      | Some (name, nt :: r1) => match rd_tiers (Z.to_nat nt) r1 with
          | Some (ts, np :: r2) => match rd_lps (Z.to_nat np) r2 with
              | Some (ps, _) => Some {| m_ih := ih; m_name := name; m_tiers := ts; m_peers := ps |}
              | None => None end
          | _ => None end
      | _ => None end
  | None => None
  end.
Definition enc_lp (s : list Z) : list Z := zlen s :: s.
Definition enc_magnet (m : magnet) : list Z :=
  m_ih m ++ enc_lp (m_name m) ++ zlen (m_tiers m) :: flat_map (fun t => zlen t :: flat_map enc_lp t) (m_tiers m)
  ++ zlen (m_peers m) :: flat_map enc_lp (m_peers m).

Definition run_magnet (inp : list Z) : list Z :=
  match rd_magnet inp with
  | Some m => match parse_magnet (render_magnet true m) with
              | Some m' => 1 :: enc_magnet m'
              | None => [0]
              end
  | None => [-779]
  end.

(* monitor: the exported link parses back to the same info-hash, name, peers, and the same tiers
   up to their order *)
Fixpoint lbytes_eqb (a b : list (list Z)) : bool :=
  match a, b with
  | [], [] => true
  | x :: r, y :: r' => bytes_eqb x y && lbytes_eqb r r'
  | _, _ => false
  end.
Fixpoint remove_tier (t : list (list Z)) (l : list (list (list Z))) : option (list (list (list Z))) :=
  match l with
  | [] => None
  | x :: r => if lbytes_eqb t x then Some r else match remove_tier t r with Some r' => Some (x :: r') | None => None end
  end.
Fixpoint tiers_perm (a b : list (list (list Z))) : bool :=
  match a with
  | [] => match b with [] => true | _ => false end
  | t :: r => match remove_tier t b with Some b' => tiers_perm r b' | None => false end
  end.

Definition mon_magnet (inp obs : list Z) : bool :=
  match rd_magnet inp, obs with
  | Some m, 1 :: o => match rd_magnet o with
                      | Some m' => bytes_eqb (m_ih m) (m_ih m') && bytes_eqb (m_name m) (m_name m') &&
                                   lbytes_eqb (m_peers m) (m_peers m') && tiers_perm (m_tiers m) (m_tiers m')
                      | None => false
                      end
  | _, _ => false
  end.

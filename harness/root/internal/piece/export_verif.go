//go:build verif

package piece

// CalculateBlocksN exposes calculateBlocks with a caller-chosen block size.
func (p *Piece) CalculateBlocksN(blockSize uint32) []Block { return p.calculateBlocks(blockSize) }

(* Peer wire protocol: message alphabet, encoder written from the BEPs ([encode]), transcription of
   the Go writer ([enc_go]: peerwriter.messageWriter + the messages' Read/WriteTo), and
   transcription of the Go reader ([parse]: peerreader.Run) over a whole byte stream.
   Definitions only. *)
From RainV Require Import Lib Bencode.

Definition be16 (x : Z) : list Z := [(x / 256) mod 256; x mod 256].
Definition be32 (x : Z) : list Z :=
  [(x / 16777216) mod 256; (x / 65536) mod 256; (x / 256) mod 256; x mod 256].
Definition rd_be32 (a b c d : Z) : Z := a * 16777216 + b * 65536 + c * 256 + d.
Definition two32 : Z := 4294967296.

Inductive msg :=
| Choke | Unchoke | Interested | NotInterested | HaveAll | HaveNone
| Have (i : Z) | AllowedFast (i : Z)
| Bitfield (data : list Z)
| Request (i b l : Z) | Cancel (i b l : Z) | Reject (i b l : Z)
| PieceM (i b : Z) (data : list Z)
| Port (p : Z)
| ExtHandshake (m : list (list Z * Z)) (v yourip : list Z) (msize reqq : Z)
| ExtMetadata (ty piece total : Z) (data : list Z)
| ExtPex (added dropped : list Z).

Definition msg_id (m : msg) : Z :=
  match m with
  | Choke => 0 | Unchoke => 1 | Interested => 2 | NotInterested => 3
  | Have _ => 4 | Bitfield _ => 5 | Request _ _ _ => 6 | PieceM _ _ _ => 7 | Cancel _ _ _ => 8
  | Port _ => 9 | HaveAll => 14 | HaveNone => 15 | Reject _ _ _ => 16 | AllowedFast _ => 17
  | ExtHandshake _ _ _ _ _ | ExtMetadata _ _ _ _ | ExtPex _ _ => 20
  end.

(* ---- extension payloads (BEP 10 / 9 / 11): bencoded dictionaries with sorted keys ---- *)
Definition key (s : list Z) := s.
Definition k_m := [109]. Definition k_v := [118].
Definition k_yourip := [121; 111; 117; 114; 105; 112].
Definition k_metadata_size := [109; 101; 116; 97; 100; 97; 116; 97; 95; 115; 105; 122; 101].
Definition k_reqq := [114; 101; 113; 113].
Definition k_msg_type := [109; 115; 103; 95; 116; 121; 112; 101].
Definition k_piece := [112; 105; 101; 99; 101].
Definition k_total_size := [116; 111; 116; 97; 108; 95; 115; 105; 122; 101].
Definition k_added := [97; 100; 100; 101; 100].
Definition k_dropped := [100; 114; 111; 112; 112; 101; 100].

Definition ext_body (m : msg) : list Z :=
  match m with
  | ExtHandshake mm v yourip msize reqq =>
      0 :: enc (BDict ([(k_m, BDict (map (fun kv => (fst kv, BInt (snd kv))) mm))]
                       ++ (if msize =? 0 then [] else [(k_metadata_size, BInt msize)])
                       ++ [(k_reqq, BInt reqq); (k_v, BStr v)]
                       ++ (match yourip with [] => [] | _ => [(k_yourip, BStr yourip)] end)))
  | ExtMetadata ty piece total data =>
      1 :: enc (BDict ([(k_msg_type, BInt ty); (k_piece, BInt piece)]
                       ++ (if total =? 0 then [] else [(k_total_size, BInt total)]))) ++ data
  | ExtPex added dropped =>
      2 :: enc (BDict [(k_added, BStr added); (k_dropped, BStr dropped)])
  | _ => []
  end.

(* payload after the message id *)
Definition body (m : msg) : list Z :=
  match m with
  | Choke | Unchoke | Interested | NotInterested | HaveAll | HaveNone => []
  | Have i | AllowedFast i => be32 i
  | Bitfield d => d
  | Request i b l | Cancel i b l | Reject i b l => be32 i ++ be32 b ++ be32 l
  | PieceM i b d => be32 i ++ be32 b ++ d
  | Port p => be16 p
  | _ => ext_body m
  end.

(* BEP 3/6/10 framing with the per-message length constants of the specification *)
Definition spec_len (m : msg) : Z :=
  match m with
  | Choke | Unchoke | Interested | NotInterested | HaveAll | HaveNone => 1
  | Have _ | AllowedFast _ => 5
  | Bitfield d => 1 + zlen d
  | Request _ _ _ | Cancel _ _ _ | Reject _ _ _ => 13
  | PieceM _ _ d => 9 + zlen d
  | Port _ => 3
  | _ => 1 + zlen (ext_body m)
  end.
Definition encode (m : msg) : list Z := be32 (spec_len m) ++ msg_id m :: body m.

(* the Go writer: five reserved bytes, body appended by Read/WriteTo, then length := 1 + produced *)
Definition enc_go (m : msg) : list Z :=
  let b := body m in
  be32 ((1 + zlen b) mod two32) ++ msg_id m :: b.

Definition keepalive : list Z := [0; 0; 0; 0].

(* handshake: pstr, 8 reserved bytes, info hash, peer id *)
Definition pstr : list Z := [19; 66; 105; 116; 84; 111; 114; 114; 101; 110; 116; 32; 112; 114; 111; 116; 111; 99; 111; 108].
Definition handshake (ext ih id : list Z) : list Z := pstr ++ ext ++ ih ++ id.
Definition rd_handshake (s : list Z) : option (list Z * list Z * list Z * list Z) :=
  if list_eqb_Z (firstn 20 s) pstr && (68 <=? zlen s)
  then Some (firstn 8 (skipn 20 s), firstn 20 (skipn 28 s), firstn 20 (skipn 48 s), skipn 68 s)
  else None.

(* ---- the reader ---- *)
Inductive rend := EndEOF | EndShort | EndError (code : Z).
(* codes: 1 too large, 2 request block size, 3 piece block size, 4 extension decode, 5 bad ext id *)

Definition take (n : Z) (s : list Z) : option (list Z * list Z) :=
  if (0 <=? n) && (n <=? zlen s) then Some (firstn (Z.to_nat n) s, skipn (Z.to_nat n) s) else None.

Definition get_int (k : list Z) (d : list (list Z * bval)) : option Z :=
  match dict_get k d with
  | None => Some 0
  | Some (BInt z) => Some z
  | Some _ => None
  end.
Definition get_str (k : list Z) (d : list (list Z * bval)) : option (list Z) :=
  match dict_get k d with
  | None => Some []
  | Some (BStr s) => Some s
  | Some _ => None
  end.
Fixpoint get_m (d : list (list Z * bval)) : option (list (list Z * Z)) :=
  match d with
  | [] => Some []
  | (k, BInt z) :: r => if (0 <=? z) && (z <=? 255)
                        then match get_m r with Some l => Some ((k, z) :: l) | None => None end
                        else None
  | _ => None
  end.

Definition unmarshal_ext (buf : list Z) : option msg :=
  match buf with
  | [] => None
  | extid :: payload =>
      match decode payload with
      | Some (BDict d, rest) =>
          if extid =? 0 then
            match (match dict_get k_m d with None => Some [] | Some (BDict md) => get_m md | Some _ => None end),
                  get_str k_v d, get_str k_yourip d, get_int k_metadata_size d, get_int k_reqq d with
            | Some mm, Some v, Some ip, Some ms, Some rq => Some (ExtHandshake mm v ip (Z.max 0 ms) (Z.max 0 rq))
            | _, _, _, _, _ => None
            end
          else if extid =? 1 then
            match get_int k_msg_type d, get_int k_piece d, get_int k_total_size d with
            | Some ty, Some pc, Some tot => if (0 <=? pc) && (pc <? two32) then Some (ExtMetadata ty pc tot rest) else None
            | _, _, _ => None
            end
          else if extid =? 2 then
            match get_str k_added d, get_str k_dropped d with
            | Some a, Some dr => Some (ExtPex a dr)
            | _, _ => None
            end
          else None
      | _ => None
      end
  end.

Fixpoint parse (fuel : nat) (maxmsg : Z) (s : list Z) : list msg * rend :=
  match fuel with
  | O => ([], EndError 99)
  | S f =>
    match s with
    | [] => ([], EndEOF)
    | a :: b :: c :: d :: r =>
        let length := rd_be32 a b c d in
        if length =? 0 then parse f maxmsg r
        else match r with
        | [] => ([], EndShort)
        | id :: r1 =>
            let len := length - 1 in
            if len >? maxmsg then ([], EndError 1) else
            let emit (m : msg) (rest : list Z) := let '(ms, e) := parse f maxmsg rest in (m :: ms, e) in
            let fixed (n : Z) (k : list Z -> option msg) :=
              match take n r1 with
              | Some (p, rest) => match k p with Some m => emit m rest | None => ([], EndError 2) end
              | None => ([], EndShort)
              end in
            let three (mk : Z -> Z -> Z -> msg) (p : list Z) :=
              match p with
              | [a1;a2;a3;a4;b1;b2;b3;b4;c1;c2;c3;c4] => Some (mk (rd_be32 a1 a2 a3 a4) (rd_be32 b1 b2 b3 b4) (rd_be32 c1 c2 c3 c4))
              | _ => None
              end in
            let one (mk : Z -> msg) (p : list Z) :=
              match p with [a1;a2;a3;a4] => Some (mk (rd_be32 a1 a2 a3 a4)) | _ => None end in
            match id with
            | 0 => emit Choke r1 | 1 => emit Unchoke r1 | 2 => emit Interested r1 | 3 => emit NotInterested r1
            | 14 => emit HaveAll r1 | 15 => emit HaveNone r1
            | 4 => fixed 4 (one Have)
            | 17 => fixed 4 (one AllowedFast)
            | 5 => match take len r1 with
                   | Some (p, rest) => emit (Bitfield p) rest
                   | None => ([], EndShort)
                   end
            | 6 => fixed 12 (fun p => match three Request p with
                                      | Some (Request i b l) => if l >? 16384 then None else Some (Request i b l)
                                      | o => o end)
            | 16 => fixed 12 (three Reject)
            | 8 => fixed 12 (three Cancel)
            | 7 => match take 8 r1 with
                   | Some ([a1;a2;a3;a4;b1;b2;b3;b4], r2) =>
                       let dl := (len - 8) mod two32 in
                       if dl >? 16384 then ([], EndError 3)
                       else match take dl r2 with
                            | Some (p, rest) => emit (PieceM (rd_be32 a1 a2 a3 a4) (rd_be32 b1 b2 b3 b4) p) rest
                            | None => ([], EndShort)
                            end
                   | _ => ([], EndShort)
                   end
            | 9 => fixed 2 (fun p => match p with [a1; a2] => Some (Port (a1 * 256 + a2)) | _ => None end)
            | 20 => match take len r1 with
                    | Some (p, rest) => match unmarshal_ext p with
                                        | Some m => emit m rest
                                        | None => ([], EndError 4)
                                        end
                    | None => ([], EndShort)
                    end
            | _ => match take len r1 with
                   | Some (_, rest) => parse f maxmsg rest
                   | None => ([], EndShort)
                   end
            end
        end
    | _ => ([], EndShort)
    end
  end.

Definition parse_all (maxmsg : Z) (s : list Z) : list msg * rend := parse (S (length s)) maxmsg s.

(* largest single buffer the reader allocates while parsing (bitfield / extension / piece) *)
Definition alloc_of (m : msg) : Z :=
  match m with
  | Bitfield d => zlen d
  | PieceM _ _ d => zlen d
  | ExtHandshake _ _ _ _ _ | ExtMetadata _ _ _ _ | ExtPex _ _ => zlen (ext_body m) 
  | _ => 0
  end.

(* ---- flat encoding of messages for the case files ---- *)
Definition lp (s : list Z) : list Z := zlen s :: s.
Definition enc_msg (m : msg) : list Z :=
  match m with
  | Choke => [0] | Unchoke => [1] | Interested => [2] | NotInterested => [3]
  | HaveAll => [14] | HaveNone => [15]
  | Have i => [4; i] | AllowedFast i => [17; i]
  | Bitfield d => 5 :: lp d
  | Request i b l => [6; i; b; l] | Cancel i b l => [8; i; b; l] | Reject i b l => [16; i; b; l]
  | PieceM i b d => 7 :: i :: b :: lp d
  | Port p => [9; p]
  | ExtHandshake mm v ip ms rq => 100 :: zlen mm :: flat_map (fun kv => lp (fst kv) ++ [snd kv]) mm ++ lp v ++ lp ip ++ [ms; rq]
  | ExtMetadata ty pc tot d => 101 :: ty :: pc :: tot :: lp d
  | ExtPex a d => 102 :: lp a ++ lp d
  end.

Fixpoint rd_mm (n : nat) (l : list Z) : option (list (list Z * Z) * list Z) :=
  match n with
  | O => Some ([], l)
  | S n' => match rdlist l with
            | Some (k, v :: r) => match rd_mm n' r with Some (mm, r') => Some ((k, v) :: mm, r') | None => None end
            | _ => None
            end
  end.

Definition dec_msg (l : list Z) : option (msg * list Z) :=
  match l with
  | 0 :: r => Some (Choke, r) | 1 :: r => Some (Unchoke, r) | 2 :: r => Some (Interested, r)
  | 3 :: r => Some (NotInterested, r) | 14 :: r => Some (HaveAll, r) | 15 :: r => Some (HaveNone, r)
  | 4 :: i :: r => Some (Have i, r) | 17 :: i :: r => Some (AllowedFast i, r)
  | 5 :: r => match rdlist r with Some (d, r') => Some (Bitfield d, r') | None => None end
  | 6 :: i :: b :: n :: r => Some (Request i b n, r)
  | 8 :: i :: b :: n :: r => Some (Cancel i b n, r)
  | 16 :: i :: b :: n :: r => Some (Reject i b n, r)
  | 7 :: i :: b :: r => match rdlist r with Some (d, r') => Some (PieceM i b d, r') | None => None end
  | 9 :: p :: r => Some (Port p, r)
  | 100 :: n :: r =>
      match rd_mm (Z.to_nat n) r with
      | Some (mm, r1) => match rdlist r1 with
          | Some (v, r2) => match rdlist r2 with
              | Some (ip, ms :: rq :: r3) => Some (ExtHandshake mm v ip ms rq, r3)
              | _ => None end
          | None => None end
      | None => None end
  | 101 :: ty :: pc :: tot :: r => match rdlist r with Some (d, r') => Some (ExtMetadata ty pc tot d, r') | None => None end
  | 102 :: r => match rdlist r with
                | Some (a, r1) => match rdlist r1 with Some (d, r2) => Some (ExtPex a d, r2) | None => None end
                | None => None end
  | _ => None
  end.

Fixpoint dec_msgs (fuel : nat) (l : list Z) : list msg :=
  match fuel with
  | O => []
  | S f => match l with
           | [] => []
           | _ => match dec_msg l with Some (m, r) => m :: dec_msgs f r | None => [] end
           end
  end.

(* kind 1101 (writer): in = messages; out = bytes the writer must put on the wire
   kind 1102 (reader): in = [maxmsg; nbytes; bytes...]; out = messages delivered (flat) ++ [-1; end code] *)
Definition uploaded_of (m : msg) : Z := match m with PieceM _ _ d => zlen d | _ => 0 end.

(* the writer answers a second piece for the same (index, begin, length) with a reject and
   does not count it (servedRequests) *)
Fixpoint mem3 (k : Z * Z * Z) (l : list (Z * Z * Z)) : bool :=
  match l with
  | [] => false
  | (a, b, c) :: r => let '(x, y, z) := k in ((a =? x) && (b =? y) && (c =? z)) || mem3 k r
  end.

Fixpoint served_filter (served : list (Z * Z * Z)) (ms : list msg) : list msg :=
  match ms with
  | [] => []
  | PieceM i b d :: r =>
      if mem3 (i, b, zlen d) served then Reject i b (zlen d) :: served_filter served r
      else PieceM i b d :: served_filter ((i, b, zlen d) :: served) r
  | m :: r => m :: served_filter served r
  end.

Definition run_writer (inp : list Z) : list Z :=
  let ms := served_filter [] (dec_msgs (length inp) inp) in
  flat_map enc_go ms ++ [-1; fold_right (fun m a => uploaded_of m + a) 0 ms].

Definition end_code (e : rend) : Z :=
  match e with EndEOF => 0 | EndShort => 0 | EndError c => 1 end.

Definition run_reader (inp : list Z) : list Z :=
  match inp with
  | maxmsg :: r => match rdlist r with
                   | Some (bytes, _) => let '(ms, e) := parse_all maxmsg bytes in flat_map enc_msg ms
                   | None => [-779]
                   end
  | [] => [-779]
  end.

(* monitors *)
Definition mon_writer (inp obs : list Z) : bool :=
  let ms := served_filter [] (dec_msgs (length inp) inp) in
  list_eqb_Z (flat_map encode ms ++ [-1; fold_right (fun m a => uploaded_of m + a) 0 ms]) obs.

(* kind 1104: messages pushed through the real writer and then the real reader must come back
   identical (the property's round trip, stated on the implementation's own output) *)
Definition run_roundtrip (inp : list Z) : list Z :=
  flat_map enc_msg (served_filter [] (dec_msgs (length inp) inp)).
Definition mon_roundtrip (inp obs : list Z) : bool := list_eqb_Z (run_roundtrip inp) obs.

(* every delivered message respects the allocation bound; request lengths and piece data <= 16 KiB *)
Definition msg_bounded (maxmsg : Z) (m : msg) : bool :=
  (alloc_of m <=? Z.max maxmsg 16384) &&
  match m with
  | Request _ _ l => l <=? 16384
  | PieceM _ _ d => zlen d <=? 16384
  | _ => true
  end.

Definition mon_reader (inp obs : list Z) : bool :=
  match inp with
  | maxmsg :: _ => forallb (msg_bounded maxmsg) (dec_msgs (length obs) obs)
  | [] => false
  end.

(* ---- the writer's queue (peerwriter.Run: queueMessage, cancelQueuedPieceMessages, cancelRequest) ----
   kind 1105: the first message is being written (the connection is blocked) while the others arrive *)
Definition is_piece (m : msg) : bool := match m with PieceM _ _ _ => true | _ => false end.
Fixpoint remove_first_piece (i b l : Z) (q : list msg) : list msg :=
  match q with
  | [] => []
  | PieceM i' b' d :: r => if (i' =? i) && (b' =? b) && (zlen d =? l) then r else PieceM i' b' d :: remove_first_piece i b l r
  | m :: r => m :: remove_first_piece i b l r
  end.
Definition count_pieces (q : list msg) : Z := zlen (filter is_piece q).
(* one operation on the queue; Cancel stands for the peer cancelling its request (CancelRequest) *)
Definition wq_op (maxq : Z) (fast : bool) (q : list msg) (m : msg) : list msg :=
  match m with
  | Choke => filter (fun x => negb (is_piece x)) q ++ [Choke]
  | Cancel i b l => remove_first_piece i b l q
  | PieceM i b d => if maxq <=? count_pieces q then (if fast then q ++ [Reject i b (zlen d)] else q) else q ++ [m]
  | _ => q ++ [m]
  end.
Definition run_wqueue (inp : list Z) : list Z :=
  match inp with
  | maxq :: fast :: r =>
      match dec_msgs (length r) r with
      | m0 :: rest =>
          let ms := served_filter [] (m0 :: fold_left (wq_op maxq (z2b fast)) rest []) in
          flat_map enc_go ms ++ [-1; fold_right (fun m a => uploaded_of m + a) 0 ms]
      | [] => [-779]
      end
  | _ => [-779]
  end.

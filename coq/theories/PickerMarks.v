From RainV Require Import Lib Picker PickerProofs.
From Coq Require Import Lia ZArith List Bool.
Import ListNotations.
Open Scope Z_scope.

(* ---------- the stalled-download marks: Choked and Snubbed describe the peer's current download ---------- *)
Definition SN (s : picker) (i : Z) : list Z := p_snub (get_piece s i).
Definition CH (s : picker) (i : Z) : list Z := p_chok (get_piece s i).
Definition CK (s : picker) (pe : Z) : bool := pe_choking (get_peer (peers s) pe).

Record MInv (s : picker) : Prop := {
  m_ch : forall i pe, 0 <= i -> In pe (CH s i) -> CK s pe = true /\ PP s pe = Some (i, false);
  m_sn : forall i pe, 0 <= i -> In pe (SN s i) -> exists af, PP s pe = Some (i, af);
  m_dj : forall i pe, 0 <= i -> In pe (CH s i) -> ~ In pe (SN s i)
}.

(* a state with the same marks and the same peer records *)
Lemma minv_same s s' : MInv s -> (forall i, 0 <= i -> SN s' i = SN s i) -> (forall i, 0 <= i -> CH s' i = CH s i) ->
  (forall pe, PP s' pe = PP s pe) -> (forall pe, CK s' pe = CK s pe) -> MInv s'.
Proof.
  intros M HS HC HP HK. constructor.
  - intros i pe Hi H. rewrite HC in H by assumption. rewrite HK, HP. apply (m_ch s M); assumption.
  - intros i pe Hi H. rewrite HS in H by assumption. rewrite HP. apply (m_sn s M); assumption.
  - intros i pe Hi H. rewrite HC in H by assumption. rewrite HS by assumption. apply (m_dj s M); assumption.
Qed.

Lemma upd_marks s i f : 0 <= i -> in_range s i = true ->
  (forall j, 0 <= j -> SN (upd_piece s i f) j = if j =? i then p_snub (f (get_piece s i)) else SN s j) /\
  (forall j, 0 <= j -> CH (upd_piece s i f) j = if j =? i then p_chok (f (get_piece s i)) else CH s j).
Proof.
  intros Hi Hr. destruct (upd_views s i f Hi Hr) as (V1 & _). split; intros j Hj; unfold SN, CH; rewrite V1 by assumption; destruct (j =? i); reflexivity.
Qed.

Lemma upd_marks_out s i f : 0 <= i -> in_range s i = false -> upd_piece s i f = s \/ True.
Proof. auto. Qed.

(* the panic of HandleSnubbed ("peer snubbed while choked") cannot fire *)
Lemma snub_no_panic s pe : MInv s -> pstep s (OSnub pe) <> None.
Proof.
  intros M. cbn [pstep]. destruct (pe_piece (get_peer (peers s) pe)) as [[i af]|] eqn:Ep; [|discriminate].
  destruct (pe_choking (get_peer (peers s) pe)) eqn:Ec; [discriminate|].
  destruct (mem pe (p_chok (get_piece s i))) eqn:Em; [|discriminate].
  exfalso. apply mem_true in Em. destruct (Z_lt_ge_dec i 0) as [Hneg|Hi].
  - (* negative index: Z.to_nat i = 0, same piece as index 0 *)
    assert (get_piece s i = get_piece s 0) by (unfold get_piece; replace (Z.to_nat i) with (Z.to_nat 0) by lia; reflexivity).
    rewrite H in Em. destruct (m_ch s M 0 pe ltac:(lia) Em) as [C _]. unfold CK in C. congruence.
  - destruct (m_ch s M i pe ltac:(lia) Em) as [C _]. unfold CK in C. congruence.
Qed.

Lemma gp_pieces s s' j : pieces s' = pieces s -> get_piece s' j = get_piece s j.
Proof. intros H. unfold get_piece. rewrite H. reflexivity. Qed.

Lemma marks_pieces s s' : pieces s' = pieces s -> (forall i, SN s' i = SN s i) /\ (forall i, CH s' i = CH s i).
Proof. intros H. split; intros i; unfold SN, CH; rewrite (gp_pieces s s' i H); reflexivity. Qed.

Lemma pk_peers s s' : peers s' = peers s -> (forall pe, PP s' pe = PP s pe) /\ (forall pe, CK s' pe = CK s pe).
Proof. intros H. split; intros pe; unfold PP, CK; rewrite H; reflexivity. Qed.

(* with_peer changes one peer record *)
Lemma with_peer_views s pe v : (forall q, PP (with_peer s pe v) q = if q =? pe then pe_piece v else PP s q) /\
  (forall q, CK (with_peer s pe v) q = if q =? pe then pe_choking v else CK s q) /\
  (forall i, SN (with_peer s pe v) i = SN s i) /\ (forall i, CH (with_peer s pe v) i = CH s i).
Proof.
  split; [|split; [|split; intros i; reflexivity]]; intros q; unfold PP, CK; cbn [with_peer peers]; destruct (q =? pe) eqn:E.
  - assert (q = pe) by lia. subst. rewrite get_set_peer_same. reflexivity.
  - rewrite get_set_peer_other by lia. reflexivity.
  - assert (q = pe) by lia. subst. rewrite get_set_peer_same. reflexivity.
  - rewrite get_set_peer_other by lia. reflexivity.
Qed.

Lemma nowhere_marked s pe : MInv s -> (forall i, PP s pe <> Some (i, false)) ->
  forall i, 0 <= i -> ~ In pe (CH s i).
Proof. intros M H i Hi Hin. destruct (m_ch s M i pe Hi Hin) as [_ E]. exact (H i E). Qed.

Lemma mstep_simple s o s' : PInv s -> MInv s -> pstep s o = Some s' ->
  match o with OAllowedFast _ _ | OUnchoke _ | OChoke _ | OSnub _ | OWriting _ | OWritten _ _ => MInv s' | _ => True end.
Proof.
  intros I M H. destruct o as [pe i|pe i|pe|pe|pe|pe obs|pe|pe|i|i ok]; try exact Logic.I; cbn [pstep] in H.
  - (* allowed fast *)
    destruct (in_range s i); [|discriminate]. inversion H; subst.
    destruct (with_peer_views s pe {| pe_choking := pe_choking (get_peer (peers s) pe); pe_downloading := pe_downloading (get_peer (peers s) pe);
                                      pe_af := sadd i (pe_af (get_peer (peers s) pe)); pe_piece := pe_piece (get_peer (peers s) pe) |}) as (V1 & V2 & V3 & V4).
    apply (minv_same s); auto; intros q; [rewrite V1|rewrite V2]; destruct (q =? pe) eqn:E; try reflexivity; assert (q = pe) by lia; subst; reflexivity.
  - (* unchoke *)
    set (P := get_peer (peers s) pe) in *.
    set (v := {| pe_choking := false; pe_downloading := pe_downloading P; pe_af := pe_af P; pe_piece := pe_piece P |}) in *.
    destruct (with_peer_views s pe v) as (V1 & V2 & V3 & V4).
    assert (HP : forall q, PP (with_peer s pe v) q = PP s q).
    { intros q. rewrite V1. destruct (q =? pe) eqn:E; [assert (q = pe) by lia; subst; reflexivity|reflexivity]. }
    destruct (pe_piece P) as [[i [|]]|] eqn:Ep; inversion H; subst; clear H.
    + (* allowed-fast download: pe is in no Choked set *)
      constructor.
      * intros j q Hj Hq. rewrite V4 in Hq. rewrite V2, HP. destruct (m_ch s M j q Hj Hq) as [A B]. destruct (q =? pe) eqn:E; [|split; assumption].
        assert (q = pe) by lia. subst q. unfold PP in B. fold P in B. congruence.
      * intros j q Hj Hq. rewrite V3 in Hq. rewrite HP. apply (m_sn s M); assumption.
      * intros j q Hj Hq. rewrite V4 in Hq. rewrite V3. apply (m_dj s M); assumption.
    + destruct (pp_in_range s pe i false I Ep) as [Hi Hr].
      assert (Hr1 : in_range (with_peer s pe v) i = true) by exact Hr.
      destruct (upd_marks (with_peer s pe v) i (fun p => set_marks p (p_req p) (p_snub p) (srem pe (p_chok p))) Hi Hr1) as (U1 & U2).
      assert (HP2 : forall q, PP (upd_piece (with_peer s pe v) i (fun p => set_marks p (p_req p) (p_snub p) (srem pe (p_chok p)))) q = PP s q) by (intros q; exact (HP q)).
      assert (HK2 : forall q, CK (upd_piece (with_peer s pe v) i (fun p => set_marks p (p_req p) (p_snub p) (srem pe (p_chok p)))) q = if q =? pe then false else CK s q) by (intros q; exact (V2 q)).
      constructor.
      * intros j q Hj Hq. rewrite U2 in Hq by assumption. rewrite HK2, HP2.
        assert (Hq' : In q (CH s j) /\ (j = i -> q <> pe)).
        { destruct (j =? i) eqn:E; [assert (j = i) by lia; subst j; cbn [set_marks p_chok] in Hq; apply in_srem in Hq as [A B]; split; [exact A|intros _; exact B]|split; [exact Hq|lia]]. }
        destruct Hq' as [A B]. destruct (m_ch s M j q Hj A) as [C D]. destruct (q =? pe) eqn:E; [|split; assumption].
        assert (q = pe) by lia. subst q. unfold PP in D. fold P in D. rewrite Ep in D. inversion D; subst. exfalso. apply B; reflexivity.
      * intros j q Hj Hq. rewrite U1 in Hq by assumption. rewrite HP2.
        assert (In q (SN s j)) by (destruct (j =? i) eqn:E; [assert (j = i) by lia; subst j; exact Hq|exact Hq]). apply (m_sn s M); assumption.
      * intros j q Hj Hq. rewrite U2 in Hq by assumption. rewrite U1 by assumption.
        assert (A : In q (CH s j)) by (destruct (j =? i) eqn:E; [assert (j = i) by lia; subst j; cbn [set_marks p_chok] in Hq; apply in_srem in Hq as [A _]; exact A|exact Hq]).
        pose proof (m_dj s M j q Hj A) as N. destruct (j =? i) eqn:E; [assert (j = i) by lia; subst j; exact N|exact N].
    + constructor.
      * intros j q Hj Hq. rewrite V4 in Hq. rewrite V2, HP. destruct (m_ch s M j q Hj Hq) as [A B]. destruct (q =? pe) eqn:E; [|split; assumption].
        assert (q = pe) by lia. subst q. unfold PP in B. fold P in B. congruence.
      * intros j q Hj Hq. rewrite V3 in Hq. rewrite HP. apply (m_sn s M); assumption.
      * intros j q Hj Hq. rewrite V4 in Hq. rewrite V3. apply (m_dj s M); assumption.
  - (* choke *)
    set (P := get_peer (peers s) pe) in *.
    set (v := {| pe_choking := true; pe_downloading := pe_downloading P; pe_af := pe_af P; pe_piece := pe_piece P |}) in *.
    destruct (with_peer_views s pe v) as (V1 & V2 & V3 & V4).
    assert (HP : forall q, PP (with_peer s pe v) q = PP s q).
    { intros q. rewrite V1. destruct (q =? pe) eqn:E; [assert (q = pe) by lia; subst; reflexivity|reflexivity]. }
    assert (Plain : MInv (with_peer s pe v)).
    { constructor.
      - intros j q Hj Hq. rewrite V4 in Hq. rewrite V2, HP. destruct (m_ch s M j q Hj Hq) as [A B]. destruct (q =? pe); split; auto.
      - intros j q Hj Hq. rewrite V3 in Hq. rewrite HP. apply (m_sn s M); assumption.
      - intros j q Hj Hq. rewrite V4 in Hq. rewrite V3. apply (m_dj s M); assumption. }
    destruct (pe_piece P) as [[i [|]]|] eqn:Ep; inversion H; subst; clear H; try exact Plain.
    destruct (pp_in_range s pe i false I Ep) as [Hi Hr].
    assert (Hr1 : in_range (with_peer s pe v) i = true) by exact Hr.
    set (f := fun p => set_marks p (p_req p) (srem pe (p_snub p)) (sadd pe (p_chok p))).
    destruct (upd_marks (with_peer s pe v) i f Hi Hr1) as (U1 & U2).
    assert (HP2 : forall q, PP (upd_piece (with_peer s pe v) i f) q = PP s q) by (intros q; exact (HP q)).
    assert (HK2 : forall q, CK (upd_piece (with_peer s pe v) i f) q = if q =? pe then true else CK s q) by (intros q; exact (V2 q)).
    constructor.
    + intros j q Hj Hq. rewrite U2 in Hq by assumption. rewrite HK2, HP2. destruct (j =? i) eqn:E.
      * assert (j = i) by lia. subst j. cbn [f set_marks p_chok] in Hq. apply in_sadd in Hq as [->|Hq].
        -- rewrite Z.eqb_refl. split; [reflexivity|]. unfold PP. fold P. exact Ep.
        -- destruct (m_ch s M i q Hj Hq) as [A B]. destruct (q =? pe); split; auto.
      * destruct (m_ch s M j q Hj Hq) as [A B]. destruct (q =? pe); split; auto.
    + intros j q Hj Hq. rewrite U1 in Hq by assumption. rewrite HP2.
      assert (In q (SN s j)) by (destruct (j =? i) eqn:E; [assert (j = i) by lia; subst j; cbn [f set_marks p_snub] in Hq; apply in_srem in Hq as [A _]; exact A|exact Hq]).
      apply (m_sn s M); assumption.
    + intros j q Hj Hq. rewrite U2 in Hq by assumption. rewrite U1 by assumption. destruct (j =? i) eqn:E.
      * assert (j = i) by lia. subst j. cbn [f set_marks p_chok p_snub] in *. intros Hs. apply in_srem in Hs as [Hs Hne].
        apply in_sadd in Hq as [->|Hq]; [apply Hne; reflexivity|]. exact (m_dj s M i q Hj Hq Hs).
      * apply (m_dj s M); assumption.
  - (* snub *)
    set (P := get_peer (peers s) pe) in *. destruct (pe_piece P) as [[i af]|] eqn:Ep; [|inversion H; subst; exact M].
    destruct (pe_choking P) eqn:Ec; [inversion H; subst; exact M|].
    destruct (mem pe (p_chok (get_piece s i))) eqn:Em; [discriminate|]. inversion H; subst; clear H.
    destruct (pp_in_range s pe i af I Ep) as [Hi Hr].
    set (f := fun p => set_marks p (p_req p) (sadd pe (p_snub p)) (p_chok p)).
    destruct (upd_marks s i f Hi Hr) as (U1 & U2). apply mem_false in Em.
    constructor.
    + intros j q Hj Hq. rewrite U2 in Hq by assumption.
      assert (In q (CH s j)) by (destruct (j =? i) eqn:E; [assert (j = i) by lia; subst j; exact Hq|exact Hq]). apply (m_ch s M); assumption.
    + intros j q Hj Hq. rewrite U1 in Hq by assumption. destruct (j =? i) eqn:E.
      * assert (j = i) by lia. subst j. cbn [f set_marks p_snub] in Hq. apply in_sadd in Hq as [->|Hq]; [exists af; unfold PP; fold P; exact Ep|apply (m_sn s M); assumption].
      * apply (m_sn s M); assumption.
    + intros j q Hj Hq. rewrite U2 in Hq by assumption. rewrite U1 by assumption. destruct (j =? i) eqn:E.
      * assert (j = i) by lia. subst j. cbn [f set_marks p_chok p_snub] in *. intros Hs. apply in_sadd in Hs as [->|Hs]; [exact (Em Hq)|exact (m_dj s M i q Hj Hq Hs)].
      * apply (m_dj s M); assumption.
  - (* writing *)
    destruct (in_range s i) eqn:Er; [|discriminate]. inversion H; subst. assert (Hi : 0 <= i) by (unfold in_range in Er; lia).
    destruct (upd_marks s i (fun p => set_flags p (p_done p) true) Hi Er) as (U1 & U2).
    apply (minv_same s); auto; intros j Hj; [rewrite U1 by assumption|rewrite U2 by assumption]; destruct (j =? i) eqn:E; try reflexivity; assert (j = i) by lia; subst; reflexivity.
  - (* written *)
    destruct (in_range s i) eqn:Er; [|discriminate]. inversion H; subst. assert (Hi : 0 <= i) by (unfold in_range in Er; lia).
    destruct (upd_marks s i (fun p => set_flags p ok false) Hi Er) as (U1 & U2).
    apply (minv_same s); auto; intros j Hj; [rewrite U1 by assumption|rewrite U2 by assumption]; destruct (j =? i) eqn:E; try reflexivity; assert (j = i) by lia; subst; reflexivity.
Qed.

(* cancel_download on marks, also for an index outside the torrent (nothing changes there) *)
Lemma cancel_marks s pe k j : 0 <= k -> 0 <= j ->
  SN (cancel_download s pe k) j = (if (j =? k) && in_range s k then srem pe (SN s j) else SN s j) /\
  CH (cancel_download s pe k) j = (if (j =? k) && in_range s k then srem pe (CH s j) else CH s j) /\
  peers (cancel_download s pe k) = peers s /\ (forall x, in_range (cancel_download s pe k) x = in_range s x).
Proof.
  intros Hk Hj. unfold cancel_download. split; [|split; [|split; [reflexivity|intros x; apply in_range_upd]]].
  - destruct (in_range s k) eqn:Er.
    + destruct (upd_marks s k (fun p => set_marks p (srem pe (p_req p)) (srem pe (p_snub p)) (srem pe (p_chok p))) Hk Er) as (U1 & _).
      rewrite U1 by assumption. destruct (j =? k) eqn:E; cbn [andb]; [assert (j = k) by lia; subst; reflexivity|reflexivity].
    + rewrite andb_false_r. unfold SN. f_equal. unfold get_piece, upd_piece, with_pieces. cbn [pieces].
      unfold in_range, zlen in Er. assert (Hlen : (length (pieces s) <= Z.to_nat k)%nat) by lia. clear -Hlen.
      revert Hlen. generalize (Z.to_nat k) (Z.to_nat j). induction (pieces s) as [|x r IH]; intros n m Hn; [destruct n; reflexivity|].
      destruct n; cbn [length] in Hn; [lia|]. cbn [upd_nth]. destruct m; cbn [nth]; [reflexivity|]. apply IH. lia.
  - destruct (in_range s k) eqn:Er.
    + destruct (upd_marks s k (fun p => set_marks p (srem pe (p_req p)) (srem pe (p_snub p)) (srem pe (p_chok p))) Hk Er) as (_ & U2).
      rewrite U2 by assumption. destruct (j =? k) eqn:E; cbn [andb]; [assert (j = k) by lia; subst; reflexivity|reflexivity].
    + rewrite andb_false_r. unfold CH. f_equal. unfold get_piece, upd_piece, with_pieces. cbn [pieces].
      unfold in_range, zlen in Er. assert (Hlen : (length (pieces s) <= Z.to_nat k)%nat) by lia. clear -Hlen.
      revert Hlen. generalize (Z.to_nat k) (Z.to_nat j). induction (pieces s) as [|x r IH]; intros n m Hn; [destruct n; reflexivity|].
      destruct n; cbn [length] in Hn; [lia|]. cbn [upd_nth]. destruct m; cbn [nth]; [reflexivity|]. apply IH. lia.
Qed.

Lemma remove_having_marks s pe k j : SN (remove_having s pe k) j = SN s j /\ CH (remove_having s pe k) j = CH s j /\
  peers (remove_having s pe k) = peers s /\ (forall x, in_range (remove_having s pe k) x = in_range s x).
Proof.
  unfold remove_having. destruct (mem pe (p_having (get_piece s k))); [|repeat split; reflexivity].
  assert (G : forall x, get_piece {| pieces := pieces (upd_piece s k (fun p => set_having p (srem pe (p_having p)))); peers := peers (upd_piece s k (fun p => set_having p (srem pe (p_having p))));
                                     avail := (if Nat.eqb (length (srem pe (p_having (get_piece s k)))) 0 then avail s - 1 else avail s);
                                     endgame := endgame (upd_piece s k (fun p => set_having p (srem pe (p_having p)))); sequential := sequential (upd_piece s k (fun p => set_having p (srem pe (p_having p))));
                                     maxdup := maxdup (upd_piece s k (fun p => set_having p (srem pe (p_having p)))) |} x
                      = get_piece (upd_piece s k (fun p => set_having p (srem pe (p_having p)))) x) by reflexivity.
  assert (Hsame : forall x, p_snub (get_piece (upd_piece s k (fun p => set_having p (srem pe (p_having p)))) x) = p_snub (get_piece s x) /\
                            p_chok (get_piece (upd_piece s k (fun p => set_having p (srem pe (p_having p)))) x) = p_chok (get_piece s x)).
  { intros x. unfold get_piece, upd_piece, with_pieces. cbn [pieces]. generalize (Z.to_nat k) (Z.to_nat x). 
    induction (pieces s) as [|y r IH]; intros n m; [destruct n, m; split; reflexivity|].
    destruct n; cbn [upd_nth]; destruct m; cbn [nth]; try (split; reflexivity). apply IH. }
  split; [unfold SN; rewrite G; apply Hsame|]. split; [unfold CH; rewrite G; apply Hsame|]. split; [reflexivity|].
  intros x. unfold in_range, zlen. cbn [pieces]. unfold upd_piece, with_pieces. cbn [pieces]. rewrite length_upd_nth. reflexivity.
Qed.

Lemma disconnect_marks s pe : forall n, (n <= length (pieces s))%nat ->
  let s' := disconnect_go n s pe in
  (forall j, 0 <= j -> SN s' j = if j <? Z.of_nat n then srem pe (SN s j) else SN s j) /\
  (forall j, 0 <= j -> CH s' j = if j <? Z.of_nat n then srem pe (CH s j) else CH s j) /\
  peers s' = peers s /\ (forall x, in_range s' x = in_range s x).
Proof.
  induction n as [|n IH]; intros Hn s'.
  - unfold s'. cbn [disconnect_go]. repeat split; auto; intros j Hj; destruct (j <? Z.of_nat 0) eqn:E; try reflexivity; lia.
  - unfold s'. cbn [disconnect_go]. specialize (IH ltac:(lia)). cbv zeta in IH. set (s1 := disconnect_go n s pe) in *.
    destruct IH as (I1 & I2 & I3 & I4). set (k := Z.of_nat n). assert (Hk : 0 <= k) by (unfold k; lia).
    assert (Hkr : in_range s1 k = true) by (rewrite I4; unfold in_range, zlen, k; lia).
    split; [|split; [|split]].
    + intros j Hj. destruct (remove_having_marks (cancel_download s1 pe k) pe k j) as (A & _). rewrite A.
      destruct (cancel_marks s1 pe k j Hk Hj) as (B & _). rewrite B, Hkr, I1 by assumption.
      destruct (j =? k) eqn:E1; cbn [andb].
      * assert (j = k) by lia. subst j. replace (k <? Z.of_nat n) with false by (unfold k; lia). replace (k <? Z.of_nat (S n)) with true by (unfold k; lia). reflexivity.
      * destruct (j <? Z.of_nat n) eqn:E2; destruct (j <? Z.of_nat (S n)) eqn:E3; try reflexivity; unfold k in *; lia.
    + intros j Hj. destruct (remove_having_marks (cancel_download s1 pe k) pe k j) as (_ & A & _). rewrite A.
      destruct (cancel_marks s1 pe k j Hk Hj) as (_ & B & _). rewrite B, Hkr, I2 by assumption.
      destruct (j =? k) eqn:E1; cbn [andb].
      * assert (j = k) by lia. subst j. replace (k <? Z.of_nat n) with false by (unfold k; lia). replace (k <? Z.of_nat (S n)) with true by (unfold k; lia). reflexivity.
      * destruct (j <? Z.of_nat n) eqn:E2; destruct (j <? Z.of_nat (S n)) eqn:E3; try reflexivity; unfold k in *; lia.
    + destruct (remove_having_marks (cancel_download s1 pe k) pe k 0) as (_ & _ & A & _). rewrite A.
      destruct (cancel_marks s1 pe k 0 Hk ltac:(lia)) as (_ & _ & B & _). rewrite B. exact I3.
    + intros x. destruct (remove_having_marks (cancel_download s1 pe k) pe k 0) as (_ & _ & _ & A). rewrite A.
      destruct (cancel_marks s1 pe k 0 Hk ltac:(lia)) as (_ & _ & _ & B). rewrite B. apply I4.
Qed.

Lemma pe_unmarked s pe : MInv s -> PP s pe = None -> forall j, 0 <= j -> ~ In pe (CH s j) /\ ~ In pe (SN s j).
Proof.
  intros M Hn j Hj. split; intros Hin.
  - destruct (m_ch s M j pe Hj Hin) as [_ E]. congruence.
  - destruct (m_sn s M j pe Hj Hin) as [af E]. congruence.
Qed.

Lemma close_dl_marks s pe : PInv s -> MInv s -> MInv (close_dl s pe) /\ PP (close_dl s pe) pe = None.
Proof.
  intros I M. unfold close_dl. set (P := get_peer (peers s) pe). destruct (pe_piece P) as [[i af]|] eqn:Ep; [|split; [exact M|exact Ep]].
  destruct (pp_in_range s pe i af I Ep) as [Hi Hr].
  set (v := {| pe_choking := pe_choking P; pe_downloading := false; pe_af := pe_af P; pe_piece := None |}).
  destruct (with_peer_views (cancel_download s pe i) pe v) as (V1 & V2 & V3 & V4).
  assert (C : forall j, 0 <= j -> SN (cancel_download s pe i) j = (if j =? i then srem pe (SN s j) else SN s j) /\
                                   CH (cancel_download s pe i) j = (if j =? i then srem pe (CH s j) else CH s j)).
  { intros j Hj. destruct (cancel_marks s pe i j Hi Hj) as (A & B & _). rewrite Hr, andb_true_r in A, B. split; assumption. }
  assert (HPq : forall q, q <> pe -> PP (with_peer (cancel_download s pe i) pe v) q = PP s q).
  { intros q Hq. rewrite V1. replace (q =? pe) with false by lia. unfold PP. destruct (cancel_marks s pe i 0 Hi ltac:(lia)) as (_ & _ & E & _). rewrite E. reflexivity. }
  assert (HKq : forall q, CK (with_peer (cancel_download s pe i) pe v) q = CK s q).
  { intros q. rewrite V2. unfold CK. destruct (cancel_marks s pe i 0 Hi ltac:(lia)) as (_ & _ & E & _). rewrite E.
    destruct (q =? pe) eqn:Eq; [assert (q = pe) by lia; subst; reflexivity|reflexivity]. }
  assert (Hpe : PP s pe = Some (i, af)) by exact Ep.
  split; [|rewrite V1, Z.eqb_refl; reflexivity].
  constructor.
  - intros j q Hj Hq. rewrite V4 in Hq. destruct (C j Hj) as [_ Cc]. rewrite Cc in Hq.
    assert (A : In q (CH s j) /\ (j = i -> q <> pe)) by (destruct (j =? i) eqn:E; [apply in_srem in Hq as [X Y]; split; [exact X|intros _; exact Y]|split; [exact Hq|lia]]).
    destruct A as [A B]. destruct (m_ch s M j q Hj A) as [K Pq]. rewrite HKq. split; [exact K|].
    destruct (Z.eq_dec q pe) as [->|Hne]; [|rewrite HPq by exact Hne; exact Pq].
    rewrite Hpe in Pq. inversion Pq; subst. exfalso. apply B; reflexivity.
  - intros j q Hj Hq. rewrite V3 in Hq. destruct (C j Hj) as [Cs _]. rewrite Cs in Hq.
    assert (A : In q (SN s j) /\ (j = i -> q <> pe)) by (destruct (j =? i) eqn:E; [apply in_srem in Hq as [X Y]; split; [exact X|intros _; exact Y]|split; [exact Hq|lia]]).
    destruct A as [A B]. destruct (m_sn s M j q Hj A) as [a Pq].
    destruct (Z.eq_dec q pe) as [->|Hne]; [|exists a; rewrite HPq by exact Hne; exact Pq].
    rewrite Hpe in Pq. inversion Pq; subst. exfalso. apply B; reflexivity.
  - intros j q Hj Hq. rewrite V4 in Hq. rewrite V3. destruct (C j Hj) as [Cs Cc]. rewrite Cc in Hq. rewrite Cs.
    destruct (j =? i) eqn:E.
    + apply in_srem in Hq as [X Y]. intros Hs. apply in_srem in Hs as [Z0 _]. exact (m_dj s M j q Hj X Z0).
    + apply (m_dj s M); assumption.
Qed.

Theorem mstep s o s' : PInv s -> MInv s -> pstep s o = Some s' -> MInv s'.
Proof.
  intros I M H. destruct o as [pe i|pe i|pe|pe|pe|pe obs|pe|pe|i|i ok];
    try exact (mstep_simple s _ s' I M H).
  - (* have *)
    cbn [pstep] in H. destruct (in_range s i) eqn:Er; [|discriminate]. inversion H; subst. unfold handle_have.
    destruct (mem pe (p_having (get_piece s i))); [exact M|]. assert (Hi : 0 <= i) by (unfold in_range in Er; lia).
    set (s1 := upd_piece s i (fun p => set_having p (p_having p ++ [pe]))).
    destruct (upd_marks s i (fun p => set_having p (p_having p ++ [pe])) Hi Er) as (U1 & U2). fold s1 in U1, U2.
    assert (M1 : MInv s1).
    { apply (minv_same s); auto.
      - intros j Hj. rewrite U1 by assumption. destruct (j =? i) eqn:E; [assert (j = i) by lia; subst; reflexivity|reflexivity].
      - intros j Hj. rewrite U2 by assumption. destruct (j =? i) eqn:E; [assert (j = i) by lia; subst; reflexivity|reflexivity]. }
    match goal with |- MInv ?r => destruct (marks_pieces s1 r eq_refl) as (A1 & A2); destruct (pk_peers s1 r eq_refl) as (A3 & A4) end.
    apply (minv_same s1); auto.
  - (* pick *)
    cbn [pstep] in H. unfold pick_check in H. destruct (find_piece s pe) as [st eg] eqn:Ef.
    destruct obs as [[i af]|].
    2:{ destruct (pick_possible s st); [discriminate|]. inversion H; subst. apply (minv_same s); auto. }
    destruct (pick_legal s st i af) eqn:El; [|discriminate]. inversion H; subst; clear H.
    assert (Hl : pick_legal s (fst (find_piece s pe)) i af = true) by (rewrite Ef; exact El).
    destruct (pick_sound s pe i af Hl) as (Hr & _ & _ & _ & Hdl & _ & _).
    assert (Hi : 0 <= i) by (unfold in_range in Hr; lia).
    pose proof (dl_false_pp_none s pe I Hdl) as Hnone.
    set (s1 := with_endgame s eg). set (f := fun p => set_marks p (sadd pe (p_req p)) (p_snub p) (p_chok p)).
    assert (Hr1 : in_range s1 i = true) by exact Hr.
    destruct (upd_marks s1 i f Hi Hr1) as (U1 & U2).
    set (P := get_peer (peers s1) pe).
    set (v := {| pe_choking := pe_choking P; pe_downloading := true; pe_af := pe_af P; pe_piece := Some (i, af) |}).
    destruct (with_peer_views (upd_piece s1 i f) pe v) as (V1 & V2 & V3 & V4).
    assert (S' : forall j, 0 <= j -> SN (with_peer (upd_piece s1 i f) pe v) j = SN s j).
    { intros j Hj. rewrite V3, U1 by assumption. destruct (j =? i) eqn:E; [assert (j = i) by lia; subst; reflexivity|reflexivity]. }
    assert (C' : forall j, 0 <= j -> CH (with_peer (upd_piece s1 i f) pe v) j = CH s j).
    { intros j Hj. rewrite V4, U2 by assumption. destruct (j =? i) eqn:E; [assert (j = i) by lia; subst; reflexivity|reflexivity]. }
    assert (K' : forall q, CK (with_peer (upd_piece s1 i f) pe v) q = CK s q).
    { intros q. rewrite V2. destruct (q =? pe) eqn:E; [assert (q = pe) by lia; subst; reflexivity|reflexivity]. }
    assert (P' : forall q, q <> pe -> PP (with_peer (upd_piece s1 i f) pe v) q = PP s q).
    { intros q Hq. rewrite V1. replace (q =? pe) with false by lia. reflexivity. }
    constructor.
    + intros j q Hj Hq. rewrite C' in Hq by assumption. rewrite K'. destruct (m_ch s M j q Hj Hq) as [A B]. split; [exact A|].
      destruct (Z.eq_dec q pe) as [->|Hne]; [congruence|rewrite P' by exact Hne; exact B].
    + intros j q Hj Hq. rewrite S' in Hq by assumption. destruct (m_sn s M j q Hj Hq) as [a B].
      destruct (Z.eq_dec q pe) as [->|Hne]; [congruence|exists a; rewrite P' by exact Hne; exact B].
    + intros j q Hj Hq. rewrite C' in Hq by assumption. rewrite S' by assumption. apply (m_dj s M); assumption.
  - (* cancel *)
    cbn [pstep] in H. inversion H; subst. apply close_dl_marks; assumption.
  - (* disconnect *)
    cbn [pstep] in H. inversion H; subst; clear H.
    destruct (close_dl_marks s pe I M) as [M1 Hn1]. set (s1 := close_dl s pe) in *.
    destruct (disconnect_marks s1 pe (length (pieces s1)) (le_n _)) as (D1 & D2 & D3 & D4).
    unfold handle_disconnect. set (s2 := disconnect_go (length (pieces s1)) s1 pe) in *.
    set (s3 := {| pieces := pieces s2; peers := filter (fun kv : Z * ppeer => negb (fst kv =? pe)) (peers s2); avail := avail s2;
                  endgame := endgame s2; sequential := sequential s2; maxdup := maxdup s2 |}).
    assert (S3 : forall j, 0 <= j -> SN s3 j = SN s1 j /\ CH s3 j = CH s1 j).
    { intros j Hj. change (SN s3 j) with (SN s2 j). change (CH s3 j) with (CH s2 j). rewrite D1, D2 by assumption.
      destruct (pe_unmarked s1 pe M1 Hn1 j Hj) as [A B].
      assert (forall l, ~ In pe l -> srem pe l = l).
      { intros l Hl. unfold srem. apply filter_id. intros x Hx. destruct (x =? pe) eqn:E; [assert (x = pe) by lia; subst; contradiction|reflexivity]. }
      destruct (j <? Z.of_nat (length (pieces s1))); [rewrite !H by assumption|]; split; reflexivity. }
    assert (G3 : forall q, get_peer (peers s3) q = if q =? pe then default_peer else get_peer (peers s1) q).
    { intros q. unfold s3. cbn [peers]. rewrite get_peer_filter, D3. reflexivity. }
    constructor.
    + intros j q Hj Hq. destruct (S3 j Hj) as [_ E]. rewrite E in Hq. destruct (m_ch s1 M1 j q Hj Hq) as [A B].
      assert (q <> pe) by (intros ->; congruence). unfold CK, PP. rewrite G3. replace (q =? pe) with false by lia. split; assumption.
    + intros j q Hj Hq. destruct (S3 j Hj) as [E _]. rewrite E in Hq. destruct (m_sn s1 M1 j q Hj Hq) as [a B].
      assert (q <> pe) by (intros ->; congruence). exists a. unfold PP. rewrite G3. replace (q =? pe) with false by lia. exact B.
    + intros j q Hj Hq. destruct (S3 j Hj) as [E1 E2]. rewrite E2 in Hq. rewrite E1. apply (m_dj s1 M1); assumption.
Qed.

Lemma init_minv ps seq md : Forall (fun p => p_snub p = [] /\ p_chok p = []) ps -> MInv (init_picker ps seq md).
Proof.
  intros H.
  assert (E : forall i, SN (init_picker ps seq md) i = [] /\ CH (init_picker ps seq md) i = []).
  { intros i. unfold SN, CH, get_piece. cbn [pieces init_picker].
    destruct (nth_in_or_default (Z.to_nat i) ps default_piece) as [Hin|Hd]; [rewrite Forall_forall in H; apply H; exact Hin|rewrite Hd; split; reflexivity]. }
  constructor; intros i pe Hi Hin; destruct (E i) as [E1 E2]; try (rewrite E2 in Hin; destruct Hin); try (rewrite E1 in Hin; destruct Hin).
Qed.

(* C09: in every reachable state the Choked and Snubbed marks of a piece name only peers that are
   downloading that piece (so Snubbed and Choked are subsets of Requested), a peer marked Choked is
   choking us and its download is not an allowed-fast one, no peer is in both sets, and the assertion
   "peer snubbed while choked" of HandleSnubbed cannot fire *)
Theorem reachable_marks ps seq md ops s : Forall (fun p => p_req p = [] /\ p_snub p = [] /\ p_chok p = []) ps ->
  run_ops (init_picker ps seq md) ops = Some s ->
  MInv s /\
  (forall i pe, 0 <= i -> In pe (CH s i) \/ In pe (SN s i) -> In pe (R s i)) /\
  (forall pe, pstep s (OSnub pe) <> None).
Proof.
  intros H0 Hrun.
  assert (G : forall ops s0, PInv s0 -> MInv s0 -> run_ops s0 ops = Some s -> PInv s /\ MInv s).
  { induction ops0 as [|o r IH]; intros s0 I0 M0 H; cbn [run_ops] in H; [inversion H; subst; split; assumption|].
    destruct (pstep s0 o) as [s1|] eqn:E; [|discriminate]. eapply IH; [eapply pstep_inv; eauto|eapply mstep; eauto|exact H]. }
  destruct (G ops (init_picker ps seq md)) as [I M]; [| |exact Hrun|].
  - apply init_inv. eapply Forall_impl; [|exact H0]. intros p (A & _). exact A.
  - apply init_minv. eapply Forall_impl; [|exact H0]. intros p (_ & A & B). split; assumption.
  - split; [exact M|]. split; [|intros pe; apply snub_no_panic; exact M].
    intros i pe Hi [Hc|Hs].
    + destruct (m_ch s M i pe Hi Hc) as [_ E]. destruct (inv_c s I pe i false E) as (_ & B & _). exact B.
    + destruct (m_sn s M i pe Hi Hs) as [af E]. destruct (inv_c s I pe i af E) as (_ & B & _). exact B.
Qed.

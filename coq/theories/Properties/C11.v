From RainV Require Import Lib Wire.
Theorem C11_placeholder : True. Proof. exact I. Qed.
Print Assumptions C11_placeholder.

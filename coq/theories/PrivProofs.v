(* Proofs about Priv.v (property C19). *)
From RainV Require Import Lib Bencode BencodeProofs Priv.

(* ---- the private flag ---- *)
Lemma bytes_eqb_eq a : forall b, bytes_eqb a b = true <-> a = b.
Proof.
  induction a as [|x r IH]; intros [|y r']; cbn [bytes_eqb]; split; intro H; try reflexivity; try discriminate.
  - apply andb_true_iff in H. destruct H as [H1 H2]. apply Z.eqb_eq in H1. apply IH in H2. subst. reflexivity.
  - injection H as -> ->. apply andb_true_iff. split; [apply Z.eqb_refl|apply IH; reflexivity].
Qed.

Lemma priv_of_val_false v : priv_of_val v = false <-> v = BInt 0 \/ v = BStr [] \/ v = BStr [48].
Proof.
  destruct v as [z|s|l|d]; cbn [priv_of_val].
  - split.
    + intro H. destruct (int64_ok z); [|discriminate]. apply negb_false_iff, Z.eqb_eq in H. subst. left. reflexivity.
    + intros [H|[H|H]]; try discriminate. injection H as ->. reflexivity.
  - split.
    + intro H. apply negb_false_iff, orb_true_iff in H. destruct H as [H|H]; apply bytes_eqb_eq in H; subst; auto.
    + intros [H|[H|H]]; try discriminate; injection H as ->; reflexivity.
  - split; [discriminate|]. intros [H|[H|H]]; discriminate.
  - split; [discriminate|]. intros [H|[H|H]]; discriminate.
Qed.

Lemma priv_of_raw_enc v : priv_of_raw (enc v) = priv_of_val v.
Proof.
  unfold priv_of_raw. destruct (enc_head v) as (c & r & E & _).
  pose proof (decode_encode v []) as D. rewrite app_nil_r in D. rewrite D. rewrite E. reflexivity.
Qed.

(* every encoding of the flag: absent, or any bencode value *)
Theorem private_flag_decoding :
  priv_of_raw [] = false /\
  forall v, priv_of_raw (enc v) = false <-> v = BInt 0 \/ v = BStr [] \/ v = BStr [48].
Proof. split; [reflexivity|]. intro v. rewrite priv_of_raw_enc. apply priv_of_val_false. Qed.

(* a value that cannot be decoded marks the torrent private *)
Lemma undecodable_is_private s : s <> [] -> decode s = None -> priv_of_raw s = true.
Proof. intros Hs D. unfold priv_of_raw. destruct s; [contradiction|]. rewrite D. reflexivity. Qed.

(* ---- the state machine ---- *)
Definition no_pex (l : list ppeer) : Prop := Forall (fun q => q_pex q = false) l.

Definition PInv (s : pst) : Prop :=
  p_info s = 2 -> p_d s = 0 /\ p_p s = 0 /\ p_ann s = false /\ no_pex (p_peers s).

Lemma add_addrs_fields fixed c s src n :
  let s' := add_addrs fixed c s src n in
  p_info s' = p_info s /\ p_run s' = p_run s /\ p_ann s' = p_ann s /\ p_peers s' = p_peers s.
Proof. unfold add_addrs. destruct (accepts fixed c s src); cbn; auto. Qed.

Lemma add_addrs_priv c s src n : p_info s = 2 ->
  p_d (add_addrs true c s src n) = p_d s /\ p_p (add_addrs true c s src n) = p_p s.
Proof.
  intro Hi. unfold add_addrs, accepts, is_priv. rewrite Hi. cbn [negb orb Z.eqb Pos.eqb].
  destruct (src =? 5) eqn:E5; [rewrite !andb_false_r; auto|].
  destruct (src =? 6) eqn:E6; [rewrite !andb_false_r; auto|].
  destruct (p_run s && true); cbn; auto.
Qed.

Lemma no_pex_upd l i f : no_pex l -> (forall q, q_pex q = false -> q_pex (f q) = false) -> no_pex (upd_peer l i f).
Proof.
  intros H Hf. revert i. induction H as [|q r Hq Hr IH]; intros i; [destruct i; constructor|].
  destruct i as [|k]; cbn [upd_peer]; constructor; auto. apply IH.
Qed.

Lemma no_pex_closed l : no_pex (map close_peer l).
Proof. induction l as [|q r IH]; cbn [map]; constructor; auto. Qed.

Lemma info_step fixed c s e : p_info s = 2 -> p_info (fst (pstep fixed c s e)) = 2.
Proof.
  intro Hi. destruct e; cbn [pstep].
  - destruct (p_run s); cbn [fst]; [exact Hi|]. rewrite (proj1 (add_addrs_fields _ _ _ _ _)). exact Hi.
  - exact Hi.
  - destruct (p_run s); exact Hi.
  - destruct (peer_open s p); exact Hi.
  - destruct (peer_open s p); cbn [fst]; [rewrite (proj1 (add_addrs_fields _ _ _ _ _))|]; exact Hi.
  - destruct ((src =? 6) || (src =? 7) || (src =? 8)); cbn [fst]; [rewrite (proj1 (add_addrs_fields _ _ _ _ _))|]; exact Hi.
  - exact Hi.
  - exact Hi.
  - destruct (p_run s && peer_open s p); [|exact Hi]. rewrite Hi. cbn. exact Hi.
  - destruct ((src =? 5) && negb (peer_open s p)); [exact Hi|].
    destruct ((5 <=? src) && (src <=? 8)); cbn [fst]; [rewrite (proj1 (add_addrs_fields _ _ _ _ _))|]; exact Hi.
  - exact Hi.
Qed.

Lemma PInv_add c s src n : PInv s -> PInv (add_addrs true c s src n).
Proof.
  intros H Hi. destruct (add_addrs_fields true c s src n) as (E1 & _ & E3 & E4). cbv zeta in *.
  rewrite E1 in Hi. destruct (H Hi) as (Hd & Hp & Ha & Hx). destruct (add_addrs_priv c s src n Hi) as [A B].
  rewrite A, B, E3, E4. auto.
Qed.

Lemma PInv_step c s e : PInv s -> PInv (fst (pstep true c s e)).
Proof.
  intro H. destruct e; cbn [pstep].
  - destruct (p_run s); cbn [fst]; [exact H|]. apply PInv_add. intro Hi. cbn in Hi. destruct (H Hi) as (_ & _ & _ & Hx).
    cbn. unfold is_priv. rewrite Hi. cbn. rewrite andb_false_r. auto.
  - intro Hi. cbn. repeat split; auto. apply no_pex_closed.
  - destruct (p_run s); cbn [fst]; [|exact H]. intro Hi. cbn in Hi. destruct (H Hi) as (Hd & Hp & Ha & Hx). cbn.
    repeat split; auto. apply Forall_app. split; [exact Hx|]. constructor; [reflexivity|constructor].
  - destruct (peer_open s p); cbn [fst]; [|exact H]. intro Hi. cbn in Hi. destruct (H Hi) as (Hd & Hp & Ha & Hx). cbn.
    repeat split; auto. apply no_pex_upd; [exact Hx|]. intros q Hq. destruct (q_shaken q); [exact Hq|]. cbn.
    rewrite Hi. cbn. apply andb_false_r.
  - destruct (peer_open s p); cbn [fst]; [apply PInv_add|]; exact H.
  - destruct ((src =? 6) || (src =? 7) || (src =? 8)); cbn [fst]; [apply PInv_add|]; exact H.
  - exact H.
  - exact H.
  - destruct (p_run s && peer_open s p); [|exact H].
    destruct (p_info s =? 0) eqn:E0; cbn [fst]; [intro Hi; discriminate Hi|].
    destruct (p_info s =? 3) eqn:E3; cbn [fst]; [|exact H].
    intro Hi. cbn in Hi. apply Z.eqb_eq in E3. congruence.
  - destruct ((src =? 5) && negb (peer_open s p)); [exact H|].
    destruct ((5 <=? src) && (src <=? 8)); cbn [fst]; [apply PInv_add|]; exact H.
  - exact H.
Qed.

Lemma PInv_init info : PInv (pinit info).
Proof. intro Hi. cbn. repeat split; constructor. Qed.

Lemma run_events_app fixed c s a b : run_events fixed c s (a ++ b) = run_events fixed c (run_events fixed c s a) b.
Proof. unfold run_events. apply fold_left_app. Qed.

Lemma reach_PInv c evs : forall s, PInv s -> PInv (run_events true c s evs).
Proof. induction evs as [|e r IH]; intros s H; [exact H|]. cbn. apply IH. apply PInv_step. exact H. Qed.

Lemma reach_info fixed c evs : forall s, p_info s = 2 -> p_info (run_events fixed c s evs) = 2.
Proof. induction evs as [|e r IH]; intros s H; [exact H|]. cbn. apply IH. apply info_step. exact H. Qed.

(* the torrent never uses the DHT or peer exchange, whatever happens and however it is configured *)
Lemma private_no_dht_no_pex c evs :
  let s := run_events true c (pinit 2) evs in
  p_info s = 2 /\ p_d s = 0 /\ p_p s = 0 /\ p_ann s = false /\ no_pex (p_peers s).
Proof.
  cbv zeta. assert (Hi : p_info (run_events true c (pinit 2) evs) = 2) by (apply reach_info; reflexivity).
  split; [exact Hi|]. apply (reach_PInv c evs (pinit 2) (PInv_init 2)). exact Hi.
Qed.

(* what the events themselves show, in any reachable state of a private torrent *)
Lemma private_outputs c evs e :
  let s := run_events true c (pinit 2) evs in
  let out := snd (pstep true c s e) in
  (e = PExport -> out = [1]) /\                                   (* magnet export refused *)
  (forall n, e = PStart n -> p_run s = false -> out = [1; 1]) /\   (* announce: private user agent and peer id *)
  (e = PConnect -> p_run s = true -> out = [1]) /\                 (* handshake: private client version *)
  (forall p, e = PProbe 5 p -> out = [0]) /\                       (* an address sent by peer exchange is never dialled *)
  (forall p, e = PProbe 6 p -> out = [0]).                         (* nor one delivered by the DHT *)
Proof.
  cbv zeta. assert (Hi : p_info (run_events true c (pinit 2) evs) = 2) by (apply reach_info; reflexivity).
  set (s := run_events true c (pinit 2) evs) in *.
  repeat split.
  - intros ->. cbn. unfold is_priv. rewrite Hi. reflexivity.
  - intros n -> Hr. cbn. rewrite Hr. cbn. unfold is_priv. rewrite Hi. reflexivity.
  - intros -> Hr. cbn. rewrite Hr. cbn. unfold is_priv. rewrite Hi. reflexivity.
  - intros p ->. cbn [pstep]. cbn [Z.eqb Pos.eqb andb]. destruct (negb (peer_open s p)); [reflexivity|].
    cbn [Z.leb Z.compare Pos.compare Pos.compare_cont andb snd]. unfold accepts, is_priv. rewrite Hi. cbn.
    rewrite !andb_false_r. reflexivity.
  - intros p ->. cbn [pstep]. cbn [Z.eqb Pos.eqb andb]. cbn [Z.leb Z.compare Pos.compare Pos.compare_cont andb snd].
    unfold accepts, is_priv. rewrite Hi. cbn. rewrite !andb_false_r. reflexivity.
Qed.

(* peers come only from the trackers and the user: the addresses a private torrent knows are bounded by
   what those two supplied *)
Definition offered (e : pev) : Z :=
  match e with
  | PStart n => n
  | PAddrs src n => if (src =? 7) || (src =? 8) then n else 0
  | PProbe src _ => if (src =? 7) || (src =? 8) then 1 else 0
  | _ => 0
  end.
Definition ev_nonneg (e : pev) : Prop :=
  match e with PStart n | PPex _ n | PAddrs _ n => 0 <= n | _ => True end.
Definition known (s : pst) : Z := p_t s + p_d s + p_p s + p_m s.
Definition nonneg_counts (s : pst) : Prop := 0 <= p_t s /\ 0 <= p_d s /\ 0 <= p_p s /\ 0 <= p_m s.

Lemma add_addrs_bound c s src n : p_info s = 2 -> 0 <= n -> nonneg_counts s ->
  let s' := add_addrs true c s src n in
  nonneg_counts s' /\ known s' <= known s + (if (src =? 7) || (src =? 8) then n else 0).
Proof.
  intros Hi Hn (A & B & C & D). cbv zeta. unfold add_addrs, accepts, is_priv, known, nonneg_counts. rewrite Hi.
  cbn [negb orb Z.eqb Pos.eqb].
  destruct (src =? 5) eqn:E5; [rewrite !andb_false_r; cbn; destruct ((src =? 7) || (src =? 8)); lia|].
  destruct (src =? 6) eqn:E6; [rewrite !andb_false_r; cbn; destruct ((src =? 7) || (src =? 8)); lia|].
  destruct (p_run s && true); cbn; [|destruct ((src =? 7) || (src =? 8)); lia].
  destruct (src =? 7) eqn:E7; destruct (src =? 8) eqn:E8; cbn; lia.
Qed.

Lemma known_step c s e : p_info s = 2 -> ev_nonneg e -> nonneg_counts s ->
  let s' := fst (pstep true c s e) in nonneg_counts s' /\ known s' <= known s + offered e.
Proof.
  intros Hi He Hs. cbv zeta. pose proof Hs as (A & B & C & D).
  assert (Same : nonneg_counts s /\ known s <= known s + 0) by (split; [exact Hs|lia]).
  destruct e; cbn [pstep offered]; cbn [ev_nonneg] in He.
  - destruct (p_run s); cbn [fst]; [split; [exact Hs|lia]|].
    match goal with |- context [add_addrs true c ?s1 7 n] =>
      destruct (add_addrs_bound c s1 7 n Hi He) as [X Y]; [cbn; unfold nonneg_counts; cbn; lia|] end.
    split; [exact X|]. cbn in Y. unfold known in *. cbn in *. lia.
  - cbn. unfold nonneg_counts, known. cbn. lia.
  - destruct (p_run s); cbn [fst]; exact Same.
  - destruct (peer_open s p); cbn [fst]; exact Same.
  - destruct (peer_open s p); cbn [fst]; [|exact Same].
    destruct (add_addrs_bound c s 5 n Hi He Hs) as [X Y]. split; [exact X|exact Y].
  - destruct ((src =? 6) || (src =? 7) || (src =? 8)) eqn:E; cbn [fst].
    + exact (add_addrs_bound c s src n Hi He Hs).
    + split; [exact Hs|]. destruct ((src =? 7) || (src =? 8)); lia.
  - exact Same.
  - exact Same.
  - destruct (p_run s && peer_open s p); [|exact Same]. rewrite Hi. cbn. exact Same.
  - destruct ((src =? 5) && negb (peer_open s p)); [cbn [fst]; split; [exact Hs|destruct ((src =? 7) || (src =? 8)); lia]|].
    destruct ((5 <=? src) && (src <=? 8)); cbn [fst].
    + exact (add_addrs_bound c s src 1 Hi ltac:(lia) Hs).
    + split; [exact Hs|destruct ((src =? 7) || (src =? 8)); lia].
  - exact Same.
Qed.

Lemma private_known_bounded c evs : Forall ev_nonneg evs ->
  known (run_events true c (pinit 2) evs) <= fold_right (fun e a => offered e + a) 0 evs.
Proof.
  assert (G : forall evs s, Forall ev_nonneg evs -> p_info s = 2 -> nonneg_counts s ->
            known (run_events true c s evs) <= known s + fold_right (fun e a => offered e + a) 0 evs).
  { clear evs. induction evs as [|e r IH]; intros s Hf Hi Hs; [cbn; lia|].
    inversion Hf as [|? ? He Hr]; subst. destruct (known_step c s e Hi He Hs) as [X Y].
    cbn [run_events fold_left fold_right]. specialize (IH _ Hr (info_step true c s e Hi) X).
    unfold run_events in IH. lia. }
  intro Hf. specialize (G evs (pinit 2) Hf eq_refl). cbn in G. apply G. unfold nonneg_counts. cbn. lia.
Qed.

(* a magnet link whose metadata turns out to be private: the metadata is never adopted, and its arrival stops the torrent *)
Lemma magnet_info_step fixed c s e : p_info s = 3 -> p_info (fst (pstep fixed c s e)) = 3.
Proof.
  intro Hi. destruct e; cbn [pstep].
  - destruct (p_run s); cbn [fst]; [exact Hi|]. rewrite (proj1 (add_addrs_fields _ _ _ _ _)). exact Hi.
  - exact Hi.
  - destruct (p_run s); exact Hi.
  - destruct (peer_open s p); exact Hi.
  - destruct (peer_open s p); cbn [fst]; [rewrite (proj1 (add_addrs_fields _ _ _ _ _))|]; exact Hi.
  - destruct ((src =? 6) || (src =? 7) || (src =? 8)); cbn [fst]; [rewrite (proj1 (add_addrs_fields _ _ _ _ _))|]; exact Hi.
  - exact Hi.
  - exact Hi.
  - destruct (p_run s && peer_open s p); [|exact Hi]. rewrite Hi. cbn. exact Hi.
  - destruct ((src =? 5) && negb (peer_open s p)); [exact Hi|].
    destruct ((5 <=? src) && (src <=? 8)); cbn [fst]; [rewrite (proj1 (add_addrs_fields _ _ _ _ _))|]; exact Hi.
  - exact Hi.
Qed.

Lemma private_metadata_refused fixed c evs :
  let s := run_events fixed c (pinit 3) evs in
  p_info s = 3 /\
  forall p, p_run s = true -> peer_open s p = true ->
    snd (pstep fixed c s (PMeta p)) = [0] /\ p_run (fst (pstep fixed c s (PMeta p))) = false /\ known (fst (pstep fixed c s (PMeta p))) = 0.
Proof.
  cbv zeta. assert (Hi : forall evs s, p_info s = 3 -> p_info (run_events fixed c s evs) = 3).
  { clear evs. induction evs as [|e r IH]; intros s H; [exact H|]. cbn. apply IH. apply magnet_info_step. exact H. }
  split; [apply Hi; reflexivity|]. intros p Hr Ho. cbn [pstep]. rewrite Hr, Ho, (Hi evs (pinit 3) eq_refl). cbn. auto.
Qed.

(* the code as pinned: a private torrent takes the addresses of a PEX message and of a DHT result *)
Lemma pinned_private_takes_pex_and_dht :
  let c := {| c_dht := true; c_pex := true; c_dial := true |} in
  let s := run_events false c (pinit 2) [PStart 0; PConnect; PPex 0 2; PAddrs 6 3] in
  p_p s = 2 /\ p_d s = 3 /\ snd (pstep false c s (PProbe 5 0)) = [1].
Proof. vm_compute. auto. Qed.

(* the same history with the guard in place; and a public torrent does use both (the model is not trivially zero) *)
Example fixed_same_history :
  let c := {| c_dht := true; c_pex := true; c_dial := true |} in
  let s := run_events true c (pinit 2) [PStart 2; PConnect; PPex 0 2; PAddrs 6 3; PAddrs 8 1] in
  (p_t s, p_d s, p_p s, p_m s) = (2, 0, 0, 1).
Proof. vm_compute. reflexivity. Qed.

Example public_uses_both :
  let c := {| c_dht := true; c_pex := true; c_dial := true |} in
  let s := run_events true c (pinit 1) [PStart 2; PConnect; PShake 0 true; PPex 0 2; PAddrs 6 3] in
  (p_t s, p_d s, p_p s, p_ann s, map q_pex (p_peers s)) = (2, 3, 2, true, [true]).
Proof. vm_compute. reflexivity. Qed.

(* C05 on the lifecycle model: at every instant of every history in which nobody but the client
   touches the files, a piece in the bitfield -- and a piece in the bitfield persisted in the resume
   database -- has its content on disk; whatever subset of files is lost at the crash, the restarted
   client holds only pieces whose content is on disk. *)
From RainV Require Import Lib Life.
From Coq Require Import ZifyBool.

Definition sub (a b : list bool) : Prop := forall n, nth n a false = true -> nth n b false = true.
Definition osub (a : option (list bool)) (b : list bool) : Prop := match a with Some x => sub x b | None => True end.

Lemma sub_refl a : sub a a. Proof. intros n H; exact H. Qed.
Lemma sub_trans a b c : sub a b -> sub b c -> sub a c. Proof. intros H1 H2 n H. auto. Qed.
Lemma nth_setb_true : forall l i n, nth n (setb l i true) false = true -> nth n l false = true \/ n = i.
Proof.
  induction l as [|x r IH]; intros i n H; cbn in *; [destruct n; discriminate|].
  destruct i as [|k], n as [|m]; cbn in *; auto. destruct (IH k m H); auto.
Qed.
Lemma setb_mono : forall l i n, nth n l false = true -> nth n (setb l i true) false = true.
Proof. induction l as [|x r IH]; intros i n H; cbn in *; [destruct n; discriminate|]. destruct i, n; cbn in *; auto. Qed.
Lemma setb_hit : forall l i, (i < length l)%nat -> nth i (setb l i true) false = true.
Proof. induction l as [|x r IH]; intros i H; cbn in *; [lia|]. destruct i; cbn; [reflexivity|apply IH; lia]. Qed.
Lemma sub_setb_r a b i : sub a b -> sub a (setb b i true).
Proof. intros H n Hn. apply setb_mono. auto. Qed.

(* the environment: only the client writes to the files; allocation does not change which pieces are
   on disk; padding-only pieces (zeros) are "on disk" from the start *)
Definition env_ok (s : life) (e : levent) : Prop :=
  match e with
  | EMutate _ _ => False
  | EAlloc _ _ po pk _ => pk = pok s /\ sub po (pok s)
  | EPiece i => (Z.to_nat i < length (pok s))%nat
  | _ => True
  end.

Definition life_init_c (fx pk : list bool) (nf : Z) : life :=
  {| started := false; stopping := false; alloc := false; verif := false; completed := false;
     complC_closed := false; has_pieces := false; bf := None; do_verify := false; held := 0; pending := 0; leaked := 0;
     persisted := None; fexists := fx; pok := pk; nfiles := nf; restart := false; crashed := false |}.
Fixpoint run_evs_c (s : life) (es : list levent) : life :=
  match es with [] => s | e :: r => run_evs_c (apply_ev true s e) r end.

Record BInv (s : life) : Prop := {
  bi_bf : osub (bf s) (pok s);
  bi_pers : osub (persisted s) (pok s)
}.

(* how (bitfield, persisted bitfield, pieces on disk) may move *)
Definition triple := (option (list bool) * option (list bool) * list bool)%type.
Inductive step3 (po : list bool) : triple -> triple -> Prop :=
| s_refl t : step3 po t t
| s_bfnone b p k : step3 po (b, p, k) (None, p, k)
| s_persist b p k : step3 po (Some b, p, k) (Some b, Some b, k)
| s_verify b p k : step3 po (b, p, k) (Some k, Some k, k)
| s_pad b p k : step3 po (b, p, k) (Some po, p, k)
| s_padp b p k : step3 po (b, p, k) (Some po, Some po, k)
| s_drop b p k : step3 po (b, p, k) (None, None, k)
| s_trans a b c : step3 po a b -> step3 po b c -> step3 po a c.

Definition proj (s : life) : triple := (bf s, persisted s, pok s).
Definition tinv (t : triple) : Prop := osub (fst (fst t)) (snd t) /\ osub (snd (fst t)) (snd t).

Lemma step3_inv po a b : sub po (snd a) -> step3 po a b -> tinv a -> tinv b /\ snd b = snd a.
Proof.
  intros Hp H. induction H as [t|b0 p k|b0 p k|b0 p k|b0 p k|b0 p k|b0 p k|a b c H1 IH1 H2 IH2]; intros [A B]; cbn in *.
  - split; [split; assumption|reflexivity].
  - split; [split; [exact I|assumption]|reflexivity].
  - split; [split; assumption|reflexivity].
  - split; [split; apply sub_refl|reflexivity].
  - split; [split; assumption|reflexivity].
  - split; [split; assumption|reflexivity].
  - split; [split; exact I|reflexivity].
  - destruct (IH1 Hp (conj A B)) as [I1 E1]. rewrite <- E1 in Hp. destruct (IH2 Hp I1) as [I2 E2]. split; [exact I2|congruence].
Qed.

Lemma proj_set s st sp al ve co cc hp b dv h pd lk pe cr : proj (set s st sp al ve co cc hp b dv h pd lk pe cr) = (b, pe, pok s).
Proof. reflexivity. Qed.

Section Steps.
Variable po : list bool.
Notation st3 := (step3 po).

Lemma st_check s : st3 (proj s) (proj (check_completion s)).
Proof.
  unfold check_completion. destruct (completed s); [apply s_refl|]. destruct (bf s) as [b|] eqn:E; [|apply s_refl].
  destruct (all_true b); [|apply s_refl]. rewrite proj_set. unfold proj. rewrite E. apply s_refl.
Qed.
Lemma st_reset f s : st3 (proj s) (proj (reset_completion f s)). Proof. destruct f; apply s_refl. Qed.
Lemma st_start f s : st3 (proj s) (proj (do_start f s)).
Proof.
  unfold do_start. destruct (started s); [destruct (f && stopping s); apply s_refl|]. cbn [has_pieces set].
  destruct (has_pieces s); [cbn [bf set]; destruct (bf s) eqn:E; unfold proj; cbn; rewrite ?E; apply s_refl|apply s_refl].
Qed.
Lemma st_stop f s : st3 (proj s) (proj (do_stop f s)).
Proof.
  unfold do_stop. destruct (negb (started s) || stopping s); [destruct f; apply s_refl|]. rewrite proj_set. unfold proj.
  destruct (bf s); [apply s_persist|apply s_refl].
Qed.
Lemma st_startv s : st3 (proj s) (proj (start_verifier s)). Proof. apply s_refl. Qed.

Lemma st_verify_cmd s : st3 (proj s) (proj (do_verify_cmd true s)).
Proof.
  unfold do_verify_cmd. cbn [started set]. destruct (negb (started s)).
  - eapply s_trans; [|apply st_start]. rewrite proj_set. apply s_bfnone.
  - eapply s_trans; [|apply st_stop]. rewrite proj_set. apply s_refl.
Qed.
Lemma st_stopped_done s : st3 (proj s) (proj (stopped_done true s)).
Proof.
  unfold stopped_done. destruct (negb (stopping s)); [apply s_refl|]. cbn [do_verify set with_restart].
  destruct (do_verify s).
  - eapply s_trans; [|apply st_start]. rewrite proj_set. apply s_bfnone.
  - destruct (true && restart s); [eapply s_trans; [|apply st_start]|]; rewrite proj_set; apply s_refl.
Qed.
Lemma st_verify_done s : st3 (proj s) (proj (verify_done true s)).
Proof.
  unfold verify_done. destruct (negb (verif s)); [apply s_refl|]. cbv iota.
  match goal with |- context [if all_true ?b then ?x else _] => set (s1 := x) in * end.
  assert (H1 : st3 (proj s) (proj s1)) by (subst s1; rewrite proj_set; apply s_verify).
  destruct (all_true (pok s)).
  - destruct (do_verify s1).
    + eapply s_trans; [exact H1|]. eapply s_trans; [|apply st_stop]. rewrite proj_set. apply s_refl.
    + eapply s_trans; [exact H1|apply st_check].
  - assert (H2 : st3 (proj s) (proj (reset_completion true s1))) by (eapply s_trans; [exact H1|apply (st_reset true)]).
    destruct (do_verify (reset_completion true s1)).
    + eapply s_trans; [exact H2|]. eapply s_trans; [|apply st_stop]. rewrite proj_set. apply s_refl.
    + eapply s_trans; [exact H2|apply st_check].
Qed.
End Steps.

Lemma st_alloc_done s he hm po : step3 po (proj s) (proj (alloc_done true s he hm po)).
Proof.
  unfold alloc_done. destruct (negb (alloc s)); [apply s_refl|]. cbv iota. cbn [andb].
  match goal with |- context [bf ?x] => set (s1 := x) in * end.
  assert (H1 : step3 po (proj s) (proj s1)) by (subst s1; rewrite proj_set; apply s_refl).
  assert (Hfresh : forall s2, step3 po (proj s) (proj s2) ->
     step3 po (proj s) (proj
      (let s3 := set s2 (started s2) (stopping s2) false (verif s2) (completed s2) (complC_closed s2) true (Some po) (do_verify s2) (held s2) (pending s2) (leaked s2) (Some po) (crashed s2) in
       let s4 := if all_true po then s3 else reset_completion true s3 in
       if do_verify s4 then do_stop true (set s4 (started s4) (stopping s4) false (verif s4) (completed s4) (complC_closed s4) true (bf s4) false (held s4) (pending s4) (leaked s4) (persisted s4) (crashed s4))
       else check_completion s4))).
  { intros s2 H2. cbv zeta.
    match goal with |- context [if all_true po then ?x else _] => set (s3 := x) in * end.
    assert (H3 : step3 po (proj s) (proj s3)) by (eapply s_trans; [exact H2|]; subst s3; rewrite proj_set; apply s_padp).
    assert (H4 : forall s4, step3 po (proj s) (proj s4) ->
       step3 po (proj s) (proj (if do_verify s4 then do_stop true (set s4 (started s4) (stopping s4) false (verif s4) (completed s4) (complC_closed s4) true (bf s4) false (held s4) (pending s4) (leaked s4) (persisted s4) (crashed s4)) else check_completion s4))).
    { intros s4 H4. destruct (do_verify s4).
      - eapply s_trans; [exact H4|]. eapply s_trans; [|apply st_stop]. rewrite proj_set. apply s_refl.
      - eapply s_trans; [exact H4|apply st_check]. }
    destruct (all_true po); apply H4; [exact H3|eapply s_trans; [exact H3|apply (st_reset po true)]]. }
  assert (Hrest : forall s2, step3 po (proj s) (proj s2) ->
     step3 po (proj s) (proj (if negb he then
       (let s3 := set s2 (started s2) (stopping s2) false (verif s2) (completed s2) (complC_closed s2) true (Some po) (do_verify s2) (held s2) (pending s2) (leaked s2) (Some po) (crashed s2) in
        let s4 := if all_true po then s3 else reset_completion true s3 in
        if do_verify s4 then do_stop true (set s4 (started s4) (stopping s4) false (verif s4) (completed s4) (complC_closed s4) true (bf s4) false (held s4) (pending s4) (leaked s4) (persisted s4) (crashed s4))
        else check_completion s4) else start_verifier s2))).
  { intros s2 H2. destruct (negb he); [apply Hfresh; exact H2|eapply s_trans; [exact H2|apply st_startv]]. }
  assert (Hdrop : step3 po (proj s) (proj (set s1 (started s1) (stopping s1) false (verif s1) (completed s1) (complC_closed s1) true None (do_verify s1) (held s1) (pending s1) (leaked s1) None (crashed s1)))).
  { eapply s_trans; [exact H1|]. rewrite proj_set. apply s_drop. }
  destruct (bf s1) eqn:Eb.
  - destruct (negb hm) eqn:Ehm; [eapply s_trans; [exact H1|apply st_check]|].
    apply Bool.negb_false_iff in Ehm. rewrite Ehm. apply Hrest. exact Hdrop.
  - destruct hm; [apply Hrest; exact Hdrop|apply Hrest; exact H1].
Qed.

Lemma binv_tinv s : BInv s <-> tinv (proj s).
Proof. split; [intros [A B]; split; assumption|intros [A B]; constructor; assumption]. Qed.

Lemma binv_step po s s' : sub po (pok s) -> step3 po (proj s) (proj s') -> BInv s -> BInv s' /\ pok s' = pok s.
Proof.
  intros Hp Hs H. destruct (step3_inv po (proj s) (proj s') Hp Hs (proj1 (binv_tinv s) H)) as [I E]. split; [apply binv_tinv; exact I|exact E].
Qed.

Lemma sub_nil k : sub [] k. Proof. intros n Hn; destruct n; discriminate. Qed.

Lemma binv_apply s e : BInv s -> env_ok s e -> BInv (apply_ev true s e).
Proof.
  intros H He. destruct e; cbn [apply_ev].
  - apply (binv_step [] s); [apply sub_nil|apply st_start|exact H].
  - apply (binv_step [] s); [apply sub_nil|apply st_stop|exact H].
  - apply (binv_step [] s); [apply sub_nil|apply st_verify_cmd|exact H].
  - cbn in He. destruct He as [E1 E2]. subst pok_after.
    assert (Hm : BInv (mutate s fex_after (pok s))) by (destruct H as [A B]; constructor; assumption).
    apply (binv_step padonly (mutate s fex_after (pok s))); [exact E2|apply st_alloc_done|exact Hm].
  - apply (binv_step [] s); [apply sub_nil|apply st_verify_done|exact H].
  - apply (binv_step [] s); [apply sub_nil|apply st_stopped_done|exact H].
  - destruct H as [A B]. cbn in He. unfold piece_written. destruct (bf s) as [b|] eqn:Eb; [|constructor; rewrite ?Eb; assumption].
    destruct (negb (status s =? 1) || nth (Z.to_nat i) b true); [constructor; cbn; rewrite ?Eb; assumption|].
    assert (S1 : sub (setb b (Z.to_nat i) true) (setb (pok s) (Z.to_nat i) true)).
    { intros n Hn. destruct (nth_setb_true _ _ _ Hn) as [E|E]; [apply setb_mono; apply A; exact E|]. subst n. apply setb_hit. exact He. }
    assert (S2 : osub (persisted s) (setb (pok s) (Z.to_nat i) true)).
    { destruct (persisted s); cbn in *; [|exact I]. apply sub_setb_r. exact B. }
    match goal with |- context [check_completion ?x] => set (s1 := x) in * end.
    assert (B1 : BInv s1) by (subst s1; constructor; cbn; assumption).
    assert (B2 : BInv (check_completion s1) /\ pok (check_completion s1) = pok s1).
    { apply (binv_step [] s1); [apply sub_nil|apply st_check|exact B1]. }
    destruct B2 as [[C1 C2] C3].
    destruct (completed (check_completion s1) && negb (completed s1) && negb (crashed (check_completion s1))); [|constructor; assumption].
    constructor; cbn; assumption.
  - destruct He.
  - destruct H as [A B]. destruct (bf s) eqn:Eb; constructor; cbn; rewrite ?Eb in *; assumption.
Qed.

Fixpoint all_env (s : life) (es : list levent) : Prop :=
  match es with [] => True | e :: r => env_ok s e /\ all_env (apply_ev true s e) r end.

Theorem persisted_behind_disk fx pk nf es : all_env (life_init_c fx pk nf) es ->
  BInv (run_evs_c (life_init_c fx pk nf) es).
Proof.
  assert (H0 : BInv (life_init_c fx pk nf)) by (constructor; exact I).
  revert H0. generalize (life_init_c fx pk nf). induction es as [|e r IH]; intros s H He; cbn in *; [exact H|].
  destruct He as [E1 E2]. apply IH; [apply binv_apply; assumption|exact E2].
Qed.

(* the restart: whatever files were lost, the restarted client holds only pieces whose content is on disk *)
Theorem restart_sound pers padonly pk fex : osub pers pk -> sub padonly pk ->
  sub (fst (restart_bits true pers padonly pk fex)) pk.
Proof.
  intros H1 H2. unfold restart_bits. destruct pers as [b|]; cbn in *.
  - destruct (negb (existsb negb fex)); [exact H1|]. destruct (negb (existsb (fun b => b) fex)); [exact H2|apply sub_refl].
  - destruct (negb (existsb (fun b => b) fex)); [exact H2|apply sub_refl].
Qed.

(* files deleted behind the client's back break the invariant only until the next allocation
   result is handled: whatever the state was, once missing files have been noticed the bitfield and
   the bitfield in the resume database describe the disk again *)
Definition after_missing (he : bool) (po : list bool) (s2 : life) : life :=
  if negb he then
    (let s3 := set s2 (started s2) (stopping s2) false (verif s2) (completed s2) (complC_closed s2) true (Some po) (do_verify s2) (held s2) (pending s2) (leaked s2) (Some po) (crashed s2) in
     let s4 := if all_true po then s3 else reset_completion true s3 in
     if do_verify s4 then do_stop true (set s4 (started s4) (stopping s4) false (verif s4) (completed s4) (complC_closed s4) true (bf s4) false (held s4) (pending s4) (leaked s4) (persisted s4) (crashed s4))
     else check_completion s4)
  else start_verifier s2.

Lemma st_after_missing he po s2 : step3 po (proj s2) (proj (after_missing he po s2)).
Proof.
  unfold after_missing. destruct (negb he); [|apply st_startv]. cbv zeta.
  match goal with |- context [if all_true po then ?x else _] => set (s3 := x) in * end.
  assert (H3 : step3 po (proj s2) (proj s3)) by (subst s3; rewrite proj_set; apply s_padp).
  assert (H4 : forall s4, step3 po (proj s2) (proj s4) ->
     step3 po (proj s2) (proj (if do_verify s4 then do_stop true (set s4 (started s4) (stopping s4) false (verif s4) (completed s4) (complC_closed s4) true (bf s4) false (held s4) (pending s4) (leaked s4) (persisted s4) (crashed s4)) else check_completion s4))).
  { intros s4 H4. destruct (do_verify s4).
    - eapply s_trans; [exact H4|]. eapply s_trans; [|apply st_stop]. rewrite proj_set. apply s_refl.
    - eapply s_trans; [exact H4|apply st_check]. }
  destruct (all_true po); apply H4; [exact H3|eapply s_trans; [exact H3|apply (st_reset po true)]].
Qed.

Theorem missing_files_restore_the_invariant s he po : alloc s = true -> sub po (pok s) ->
  BInv (alloc_done true s he true po).
Proof.
  intros Ea Hp. unfold alloc_done. rewrite Ea. cbn [negb]. cbv iota. cbn [andb negb].
  match goal with |- context [bf ?x] => set (s1 := x) in * end.
  assert (Et : match bf s1 with Some _ => false | None => false end = false) by (destruct (bf s1); reflexivity).
  rewrite Et.
  set (s2 := set s1 (started s1) (stopping s1) false (verif s1) (completed s1) (complC_closed s1) true None (do_verify s1) (held s1) (pending s1) (leaked s1) None (crashed s1)).
  change (BInv (after_missing he po s2)).
  assert (B2 : BInv s2) by (constructor; exact I).
  apply (binv_step po s2); [exact Hp|apply st_after_missing|exact B2].
Qed.

(* Connects NewPieces' output to the hypotheses of the write/read round trip. *)
From RainV Require Import Lib Geometry SectionIO PiecesProofs SectionIOProofs.
From Coq Require Import ZifyBool.

Fixpoint sorted_from (k : nat) (l : list section) : Prop :=
  match l with
  | [] => True
  | x :: r => (k <= sfile x)%nat /\ sorted_from (S (sfile x)) r
  end.

Lemma inner_sorted files L : forall fuel s left secs plen secs' plen' s',
  inner files L fuel s left secs plen = Ok (secs', plen', s') ->
  exists secs2, secs' = secs ++ secs2 /\ sorted_from (fidx s) secs2.
Proof.
  induction fuel as [|f IH]; intros s left secs plen secs' plen' s' H; [discriminate|].
  cbn [inner] in H. destruct (left >? 0) eqn:El.
  2:{ inversion H; subst. exists []. rewrite app_nil_r. split; [reflexivity|exact I]. }
  set (m := Z.min left (flength s - foff s)) in *.
  set (sec := {| sfile := fidx s; soff := foff s; slen := m; spad := fpadc s |}) in *.
  cbn [total flength foff] in H.
  destruct (total s + m =? L) eqn:EL.
  - inversion H as [[H1 H2 H3]]. exists [sec]. split; [reflexivity|]. cbn. split; [lia|exact I].
  - destruct (flength s - (foff s + m) =? 0) eqn:EF.
    + unfold next_file in H. cbn [fidx] in H.
      destruct (nth_error files (S (fidx s))) as [g|]; [|discriminate].
      apply IH in H. destruct H as (secs2 & E & Hs). cbn [fidx] in Hs.
      exists (sec :: secs2). rewrite E, <- app_assoc. split; [reflexivity|].
      cbn [sorted_from sfile sec]. split; [lia|exact Hs].
    + assert (Hm : m = left) by (unfold m in *; lia).
      destruct f as [|f']; [discriminate|]. cbn [inner] in H.
      replace (left - m) with 0 in H by lia. change (0 >? 0) with false in H. cbv iota in H.
      inversion H as [[H1 H2 H3]]. exists [sec]. split; [reflexivity|]. cbn. split; [lia|exact I].
Qed.

Lemma sorted_from_lb : forall l k x, sorted_from k l -> In x l -> (k <= sfile x)%nat.
Proof.
  induction l as [|y r IH]; intros k x Hs Hin; [destruct Hin|].
  destruct Hs as [Hk Hr]. destruct Hin as [<-|Hin]; [assumption|].
  specialize (IH _ _ Hr Hin). lia.
Qed.

Lemma sorted_from_nodup : forall l k, sorted_from k l -> NoDup (map sfile l).
Proof.
  induction l as [|y r IH]; intros k Hs; [constructor|].
  destruct Hs as [Hk Hr]. cbn [map]. constructor; [|eapply IH; eauto].
  intros Hin. apply in_map_iff in Hin as (x & Hx & Hin).
  pose proof (sorted_from_lb _ _ _ Hr Hin). lia.
Qed.

Lemma nodup_map_filter {A B} (f : A -> B) (g : A -> bool) : forall l,
  NoDup (map f l) -> NoDup (map f (filter g l)).
Proof.
  induction l as [|x r IH]; intros H; [constructor|]. cbn [map] in H. inversion H as [|? ? Hn Hr]; subst.
  cbn [filter]. destruct (g x); [|auto]. cbn [map]. constructor; [|auto].
  intros Hin. apply Hn. apply in_map_iff in Hin as (y & Hy & Hin). apply filter_In in Hin as [Hin _].
  apply in_map_iff. exists y. auto.
Qed.

Lemma outer_nodup files PL L : forall k s ps, outer files PL L k s = Ok ps ->
  Forall (fun p => NoDup (nonpad_files (psecs p))) ps.
Proof.
  induction k as [|k IH]; intros s ps H; cbn [outer] in H.
  - inversion H; subst. constructor.
  - destruct (inner files L (inner_fuel files) s PL [] 0) as [[[secs plen] s']| |] eqn:E; try discriminate.
    destruct (outer files PL L k s') as [ps'| |] eqn:Eo; try discriminate.
    inversion H; subst. constructor; [|eapply IH; eauto]. cbn [psecs].
    apply inner_sorted in E as (secs2 & -> & Hs). cbn [app].
    unfold nonpad_files. apply nodup_map_filter. eapply sorted_from_nodup; eauto.
Qed.

Theorem pieces_nodup files PL L n ps : new_pieces files PL L n = Ok ps ->
  Forall (fun p => NoDup (nonpad_files (psecs p))) ps.
Proof.
  unfold new_pieces. destruct (first_file files) as [s| |]; try discriminate. apply outer_nodup.
Qed.

(* storage whose files have the lengths the metainfo says (what the allocator provides) *)
Definition storage_matches (st : storage) (fs : list file) : Prop :=
  length st = length fs /\ forall i f, nth_error fs i = Some f -> zlen (file_of st i) = flen f.

Lemma chain_ok_wf st fs : storage_matches st fs -> forall ss a b, chain_ok fs a ss = Some b -> secs_wf st ss.
Proof.
  intros [Hl Hm]. induction ss as [|s r IH]; intros a b H; [constructor|].
  cbn [chain_ok] in H. destruct (sec_ok fs a s) eqn:E; [|discriminate].
  constructor; [|eapply IH; eauto]. unfold sec_ok in E.
  destruct (nth_error fs (sfile s)) as [f|] eqn:En; [|discriminate].
  split; [lia|]. split; [lia|]. intros _. rewrite (Hm _ _ En). split; [lia|].
  rewrite Hl. apply nth_error_Some. congruence.
Qed.

Lemma chain_ok_pieces fs : forall ps a b, chain_ok fs a (flat_map psecs ps) = Some b ->
  Forall (fun p => exists a' b', chain_ok fs a' (psecs p) = Some b') ps.
Proof.
  induction ps as [|p r IH]; intros a b H; [constructor|]. cbn [flat_map] in H.
  rewrite chain_ok_app in H. destruct (chain_ok fs a (psecs p)) as [m|] eqn:E; [|discriminate].
  constructor; [eauto|eapply IH; eauto].
Qed.

Lemma piece_lens_sum PL L : forall ps i n, piece_lens_ok PL L i n ps = true ->
  Forall (fun p => plength p = sum_slen (psecs p)) ps.
Proof.
  induction ps as [|p r IH]; intros i n H; [constructor|]. cbn [piece_lens_ok] in H.
  constructor; [lia|]. eapply IH. apply andb_prop in H as [_ H]. exact H.
Qed.

(* For every accepted info, every piece NewPieces builds, every storage of the right file
   sizes, every full-length buffer and every in-range (off, n): Write then ReadAt returns
   exactly buf[off, off+n) with padding bytes read as zeros, and no file outside the piece's
   non-padding files is modified (in particular padding files are never written). *)
Theorem pieces_roundtrip files PL n L st : wf_info files PL n L -> storage_matches st files ->
  exists ps, new_pieces files PL L n = Ok ps /\
    forall p buf off k, In p ps -> zlen buf = plength p -> 0 < plength p ->
      0 <= off -> 0 <= k -> off + k <= plength p ->
      exists st', write_secs st (psecs p) buf = Ok st' /\
        read_at st' (psecs p) off k = Ok (slice (mask (psecs p) buf) off k, 0) /\
        (forall i, ~ In i (nonpad_files (psecs p)) -> file_of st' i = file_of st i).
Proof.
  intros WF Hst. destruct (new_pieces_ok files PL n L WF) as (ps & E & Hlen & Hch & Hpl).
  exists ps. split; [exact E|]. intros p buf off k Hin Hb Hpos Ho Hk Hr.
  pose proof (pieces_nodup _ _ _ _ _ E) as Hnd. rewrite Forall_forall in Hnd.
  pose proof (chain_ok_pieces _ _ _ _ Hch) as Hcp. rewrite Forall_forall in Hcp.
  destruct (Hcp p Hin) as (a' & b' & Hc').
  pose proof (piece_lens_sum _ _ _ _ _ Hpl) as Hs. rewrite Forall_forall in Hs. specialize (Hs p Hin).
  apply write_read_roundtrip; try lia.
  - eapply chain_ok_wf; eauto.
  - intros Hnil. rewrite Hnil in Hs. cbn in Hs. lia.
  - apply Hnd. exact Hin.
Qed.

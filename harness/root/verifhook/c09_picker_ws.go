//go:build verif

package verifhook

import (
	"math/rand"

	"github.com/cenkalti/rain/v2/internal/peer"
	"github.com/cenkalti/rain/v2/internal/piecepicker"
	"github.com/cenkalti/rain/v2/internal/urldownloader"
	"github.com/cenkalti/rain/v2/internal/webseedsource"
)

// kind 903: the piece picker with web seeds under the torrent's glue (startPieceDownloaders,
// startWebseedDownloader, handleWebseedPieceResult, handlePieceWriteDone, disableSource), the
// downloaders replaced by stubs whose current index the harness advances.

type pkwsHarness struct {
	*pkHarness
	srcs []*webseedsource.WebseedSource
}

func (h *pkwsHarness) observeWs() {
	h.observe()
	for i := range h.pieces {
		src := h.pk.RequestedWebseedSource(uint32(i))
		v := int64(0)
		for k, s := range h.srcs {
			if s == src {
				v = int64(k) + 1
			}
		}
		h.obs = append(h.obs, v)
	}
	for _, s := range h.srcs {
		if s.Downloader == nil {
			h.obs = append(h.obs, -1, -1, -1)
		} else {
			h.obs = append(h.obs, int64(s.Downloader.Begin), int64(s.Downloader.End), int64(s.Downloader.ReadCurrent()))
		}
	}
}

// applyWs runs one op; ops 1..10 are those of kind 901
func (h *pkwsHarness) applyWs(op []int64) (closed bool) {
	switch op[0] {
	case 11: // startPieceDownloaderForWebseed: PickWebseed + startWebseedDownloader
		src := h.srcs[op[1]]
		sp := h.pk.PickWebseed(src)
		if sp == nil {
			h.in = append(h.in, 11, op[1], -1, -1)
		} else {
			if src.Downloader == nil {
				src.Downloader = urldownloader.NewStubForVerif(src.URL, sp.Begin, sp.End)
			}
			h.in = append(h.in, 11, op[1], int64(sp.Begin), int64(sp.End))
			closed = true // "started"
		}
	case 12:
		h.srcs[op[1]].Downloader.AdvanceForVerif()
		h.in = append(h.in, op...)
	case 13:
		h.pk.CloseWebseedDownloader(h.srcs[op[1]])
		h.in = append(h.in, op...)
	case 14:
		src := h.pk.RequestedWebseedSource(uint32(op[1]))
		if src != nil {
			closed = h.pk.WebseedStopAt(src, uint32(op[1]))
		}
		h.in = append(h.in, op...)
	default:
		// peer half; apply() appends the op and observes, so drop its observation and redo it below
		n := len(h.obs)
		h.apply(op)
		h.obs = h.obs[:n]
	}
	h.observeWs()
	return
}

func genPickerWs(r *rand.Rand, tier string) (c Case) {
	pl := int64(16384)
	var np int
	if r.Intn(2) == 0 {
		np = 20 + r.Intn(100)
	} else {
		np = 1 + r.Intn(14)
	}
	total := pl*int64(np-1) + 1 + int64(r.Intn(int(pl)))
	nf := 1 + r.Intn(3)
	var lens []int64
	rem := total
	for i := 0; i < nf-1; i++ {
		x := int64(r.Int63n(rem + 1))
		lens = append(lens, x)
		rem -= x
	}
	lens = append(lens, rem)
	pads := make([]bool, nf)
	seq := r.Intn(3) == 0
	maxdup := int(pick(r, 0, 1, 2, 2, 20))
	_, ps, err := NewPiecesFor(pl, lens, pads)
	if err != nil || len(ps) != np {
		return Case{In: []int64{0, 0, 0, 0, 0}, Obs: nil}
	}
	nsrc := 1 + r.Intn(3)
	urls := []string{"http://a/", "http://b/", "http://c/"}[:nsrc]
	base := &pkHarness{pieces: ps, peers: map[int64]*peer.Peer{}, ids: map[*peer.Peer]int64{}, pd: map[int64][2]int64{}}
	h := &pkwsHarness{pkHarness: base, srcs: webseedsource.NewList(urls)}
	h.pk = piecepicker.New(h.pieces, maxdup, h.srcs, seq)
	head, tail := h.pk.EdgeFlags()
	h.in = []int64{int64(np), b2i(seq), int64(maxdup), int64(nsrc), int64(h.pk.MaxWebseedPieces())}
	for i := 0; i < np; i++ {
		h.in = append(h.in, b2i(head[i]), b2i(tail[i]))
	}
	defer func() {
		if e := recover(); e != nil {
			// a panic of the picker (ownership assertion, index out of range) ends the case
			c = Case{In: h.in, Obs: append(h.obs, -777), Note: "panic"}
		}
	}()
	npeers := 1 + r.Intn(4)
	nextID := int64(npeers)
	live := []int64{}
	for i := 0; i < npeers; i++ {
		live = append(live, int64(i))
	}
	maxDl := 1 + r.Intn(nsrc) // WebseedMaxDownloads
	active := 0
	disabled := make([]bool, nsrc)
	writing := int64(-1)
	writingSrc := -1 // -1: a peer supplied the piece being written
	steps := 15 + r.Intn(80)
	if tier == "thorough" {
		steps = 15 + r.Intn(250)
	}
	startWs := func(k int) bool {
		if active >= maxDl {
			return false
		}
		if h.applyWs([]int64{11, int64(k)}) {
			active++
			return true
		}
		return false
	}
	pickIdle := func() {
		for _, q := range live {
			if _, ok := h.pd[q]; !ok {
				h.applyWs([]int64{6, q})
			}
		}
	}
	startAll := func() { // startPieceDownloaders
		for k, s := range h.srcs {
			if !s.Downloading() && !disabled[k] {
				if !startWs(k) {
					break
				}
			}
		}
		pickIdle()
	}
	closeWs := func(k int) {
		if h.srcs[k].Downloader != nil {
			active--
		}
		h.applyWs([]int64{13, int64(k)})
	}
	// resumed download: most pieces are there already, so that ranges, steals and stop-at meet
	if r.Intn(2) == 0 {
		keep := map[int]bool{}
		w := 1 + r.Intn(8)
		if r.Intn(2) == 0 { // one window
			st := r.Intn(np)
			for i := st; i < st+w && i < np; i++ {
				keep[i] = true
			}
		} else {
			for i := 0; i < w; i++ {
				keep[r.Intn(np)] = true
			}
		}
		for i := 0; i < np; i++ {
			if !keep[i] {
				h.pieces[i].Done = true
				h.in = append(h.in, 10, int64(i), 1)
				h.observeWs()
			}
		}
	}
	if r.Intn(2) == 0 && len(live) > 1 {
		// a peer with a single open piece starts on it before any web seed runs: the range that is
		// assigned next may cover a piece that is already being downloaded
		var open []int
		for i := 0; i < np; i++ {
			if !h.pieces[i].Done {
				open = append(open, i)
			}
		}
		q := live[len(live)-1]
		h.applyWs([]int64{1, q, int64(open[r.Intn(len(open))])})
		h.applyWs([]int64{3, q})
		h.applyWs([]int64{6, q})
		if r.Intn(2) == 0 {
			startAll()
		}
	}
	if r.Intn(2) == 0 && len(live) > 0 { // a seed that unchokes us
		for i := 0; i < np; i++ {
			h.applyWs([]int64{1, live[0], int64(i)})
		}
		h.applyWs([]int64{3, live[0]})
	}
	for s := 0; s < steps; s++ {
		var pe int64 = -1
		if len(live) > 0 {
			pe = live[r.Intn(len(live))]
		}
		x := r.Intn(100)
		switch {
		case x < 14 && pe >= 0:
			if r.Intn(3) == 0 {
				for i := 0; i < np; i++ {
					h.applyWs([]int64{1, pe, int64(i)})
				}
			} else {
				h.applyWs([]int64{1, pe, int64(r.Intn(np))})
			}
			if _, ok := h.pd[pe]; !ok && r.Intn(2) == 0 {
				h.applyWs([]int64{6, pe})
			}
		case x < 17 && pe >= 0:
			h.applyWs([]int64{2, pe, int64(r.Intn(np))})
		case x < 27 && pe >= 0:
			h.applyWs([]int64{3, pe})
			if _, ok := h.pd[pe]; !ok {
				h.applyWs([]int64{6, pe})
			}
		case x < 31 && pe >= 0:
			h.applyWs([]int64{4, pe})
			pickIdle()
		case x < 34 && pe >= 0:
			h.applyWs([]int64{5, pe})
			pickIdle()
		case x < 44 && pe >= 0:
			h.applyWs([]int64{6, pe})
		case x < 46 && pe >= 0:
			h.applyWs([]int64{7, pe})
		case x < 50 && pe >= 0:
			_, was := h.pd[pe]
			h.applyWs([]int64{8, pe})
			for i, q := range live {
				if q == pe {
					live = append(live[:i], live[i+1:]...)
					break
				}
			}
			if r.Intn(2) == 0 {
				live = append(live, nextID)
				nextID++
			}
			if was {
				startAll()
			}
		case x < 58:
			startAll()
		case x < 62: // retry of a disabled source
			k := r.Intn(nsrc)
			if disabled[k] {
				disabled[k] = false
				startWs(k)
			}
		case x < 70 && pe >= 0:
			// a peer's downloader completes its piece
			if d, ok := h.pd[pe]; ok && writing < 0 && !h.pieces[d[0]].Writing && !h.pieces[d[0]].Done {
				h.applyWs([]int64{7, pe})
				h.applyWs([]int64{9, d[0]})
				writing, writingSrc = d[0], -1
				h.applyWs([]int64{6, pe})
			}
		case x < 86:
			// a web seed delivers the piece it is working on (results are suspended during a write)
			k := r.Intn(nsrc)
			dl := h.srcs[k].Downloader
			if dl == nil || writing >= 0 {
				break
			}
			cur := dl.ReadCurrent()
			if int(cur) >= np {
				break
			}
			if r.Intn(12) == 0 { // download error
				disabled[k] = true
				closeWs(k)
				startAll()
				break
			}
			done := cur >= dl.End-1
			if h.pieces[cur].Done {
				// stale result for a piece a peer completed meanwhile: discarded
				if done {
					closeWs(k)
					startWs(k)
				} else {
					h.applyWs([]int64{12, int64(k)})
				}
				break
			}
			if h.pieces[cur].Writing {
				break
			}
			h.applyWs([]int64{9, int64(cur)})
			writing, writingSrc = int64(cur), k
			if done {
				closeWs(k)
				startWs(k)
			} else {
				h.applyWs([]int64{12, int64(k)})
			}
		case x < 90:
			// the goroutine of a web seed moves on although its range was cut meanwhile
			k := r.Intn(nsrc)
			if dl := h.srcs[k].Downloader; dl != nil && dl.ReadCurrent() < dl.End && int(dl.End) < np {
				h.applyWs([]int64{12, int64(k)})
			}
		default:
			if writing < 0 {
				break
			}
			ok := r.Intn(5) != 0
			h.applyWs([]int64{10, writing, b2i(ok)})
			w, wsrc := writing, writingSrc
			writing, writingSrc = -1, -1
			if !ok {
				if wsrc >= 0 { // corrupt piece from a web seed: disableSource
					disabled[wsrc] = true
					closeWs(wsrc)
				}
				startAll()
				break
			}
			if wsrc < 0 {
				// a peer completed a piece that may lie inside a web-seed range
				var owner = -1
				if src := h.pk.RequestedWebseedSource(uint32(w)); src != nil {
					for k, s := range h.srcs {
						if s == src {
							owner = k
						}
					}
				}
				if h.applyWs([]int64{14, w}) {
					active--
					startWs(owner)
				}
			}
			for _, q := range append([]int64{}, live...) {
				if d, has := h.pd[q]; has && d[0] == w {
					h.applyWs([]int64{7, q})
					h.applyWs([]int64{6, q})
				}
			}
		}
	}
	return Case{In: h.in, Obs: h.obs}
}

func init() {
	Register(903, "piecepicker with web seeds under the torrent glue: PickWebseed / stop-at / close / steal, PickFor in web-seed mode", genPickerWs)
}

From RainV Require Import Lib Bencode BencodeProofs Resume.

Theorem int_field_roundtrip z : parse_int (fmt_int z) = Some z.
Proof. unfold parse_int, fmt_int. rewrite dec_int_roundtrip. reflexivity. Qed.

Theorem bool_field_roundtrip b : parse_bool (fmt_bool b) = Some b.
Proof. destruct b; vm_compute; reflexivity. Qed.

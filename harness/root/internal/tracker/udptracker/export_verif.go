//go:build verif

package udptracker

import (
	"bytes"
	"context"
	"net"

	"github.com/cenkalti/rain/v2/internal/logger"
	"github.com/cenkalti/rain/v2/internal/tracker"
)

// AnnouncePacket returns the datagram the client would send for req.
func AnnouncePacket(req tracker.AnnounceRequest, connID int64, txID int32, urlData string) []byte {
	r := newTransportRequest(context.Background(), req, "dest", urlData)
	r.ConnectionID = connID
	r.SetTransactionID(txID)
	var b bytes.Buffer
	_, _ = r.WriteTo(&b)
	return b.Bytes()
}

// ParseAnnounceResponse exposes parseAnnounceResponse.
func ParseAnnounceResponse(data []byte) (interval, leechers, seeders int32, peers []*net.TCPAddr, err error) {
	t := &UDPTracker{log: logger.New("verif")}
	resp, peers, err := t.parseAnnounceResponse(data)
	if err != nil {
		return 0, 0, 0, nil, err
	}
	return resp.Interval, resp.Leechers, resp.Seeders, peers, nil
}

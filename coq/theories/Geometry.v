(* Model of internal/piece/piece.go: NewPieces and calculateBlocks; filesection.Piece
   ReadAt/Write arithmetic.  Definitions only. *)
From RainV Require Import Lib.

Inductive res (A : Type) := Ok (a : A) | Crash | OutOfFuel.
Arguments Ok {A} a. Arguments Crash {A}. Arguments OutOfFuel {A}.

Record file := { flen : Z; fpad : bool }.
Record section := { sfile : nat; soff : Z; slen : Z; spad : bool }.
Record piece := { plength : Z; psecs : list section }.

(* cursor over info.Files: fileIndex, fileLength, fileOffset, padding flag of the file, total *)
Record fcur := { fidx : nat; flength : Z; foff : Z; fpadc : bool; total : Z }.

Section NewPieces.
Variable files : list file.
Variable PL : Z.        (* info.PieceLength *)
Variable L : Z.         (* info.Length *)

(* nextFile(): indexes info.Files[fileIndex] -- out of range is a Go panic *)
Definition next_file (s : fcur) : res fcur :=
  match nth_error files (S (fidx s)) with
  | Some f => Ok {| fidx := S (fidx s); flength := flen f; foff := 0; fpadc := fpad f; total := total s |}
  | None => Crash
  end.

Definition first_file : res fcur :=
  match nth_error files 0 with
  | Some f => Ok {| fidx := 0; flength := flen f; foff := 0; fpadc := fpad f; total := 0 |}
  | None => Crash
  end.

(* for left := pieceLeft(); left > 0; { ... } -- one iteration per unit of fuel *)
Fixpoint inner (fuel : nat) (s : fcur) (left : Z) (secs : list section) (plen : Z)
  : res (list section * Z * fcur) :=
  match fuel with
  | O => OutOfFuel
  | S f =>
    if left >? 0 then
      let n := Z.min left (flength s - foff s) in
      let sec := {| sfile := fidx s; soff := foff s; slen := n; spad := fpadc s |} in
      let s1 := {| fidx := fidx s; flength := flength s; foff := foff s + n; fpadc := fpadc s;
                   total := total s + n |} in
      if total s1 =? L then Ok (secs ++ [sec], plen + n, s1)
      else if flength s1 - foff s1 =? 0 then
        match next_file s1 with
        | Ok s2 => inner f s2 (left - n) (secs ++ [sec]) (plen + n)
        | Crash => Crash
        | OutOfFuel => OutOfFuel
        end
      else inner f s1 (left - n) (secs ++ [sec]) (plen + n)
    else Ok (secs, plen, s)
  end.

Definition inner_fuel : nat := S (S (length files)).

(* for i := 0; i < NumPieces; i++ *)
Fixpoint outer (k : nat) (s : fcur) : res (list piece) :=
  match k with
  | O => Ok []
  | S k' =>
    match inner inner_fuel s PL [] 0 with
    | Ok (secs, plen, s') =>
        match outer k' s' with
        | Ok ps => Ok ({| plength := plen; psecs := secs |} :: ps)
        | Crash => Crash
        | OutOfFuel => OutOfFuel
        end
    | Crash => Crash
    | OutOfFuel => OutOfFuel
    end
  end.

Definition new_pieces (npieces : nat) : res (list piece) :=
  match first_file with
  | Ok s => outer npieces s
  | Crash => Crash
  | OutOfFuel => OutOfFuel
  end.
End NewPieces.

(* ---------- calculateBlocks(blockSize) ---------- *)
Record blk := { bbeg : Z; blen : Z }.
Record bst := { out : list blk; cur : blk; poff : Z }.

(* [fixed = false]: nextBlock as pinned (returns early without touching blk.Begin);
   [fixed = true]: after the "fix:" commit (Begin follows pieceOffset). *)
Definition next_block (fixed : bool) (s : bst) : bst :=
  if blen (cur s) =? 0 then
    (if fixed then {| out := out s; cur := {| bbeg := poff s; blen := 0 |}; poff := poff s |} else s)
  else {| out := out s ++ [cur s]; cur := {| bbeg := poff s; blen := 0 |}; poff := poff s |}.

Fixpoint consume (fixed : bool) (bs : Z) (fuel : nat) (s : bst) (left : Z) : option bst :=
  match fuel with
  | O => None
  | S f =>
      let n := Z.min left (bs - blen (cur s)) in
      let s1 := {| out := out s; cur := {| bbeg := bbeg (cur s); blen := blen (cur s) + n |};
                   poff := poff s + n |} in
      let s2 := if bs - blen (cur s1) =? 0 then next_block fixed s1 else s1 in
      if left - n =? 0 then Some s2 else consume fixed bs f s2 (left - n)
  end.

Definition fuel_for (bs len : Z) : nat := Z.to_nat (len / bs) + 2.

Fixpoint secs_loop (fixed : bool) (bs : Z) (l : list section) (s : bst) : option bst :=
  match l with
  | [] => Some s
  | x :: r =>
      if spad x then
        secs_loop fixed bs r
          (next_block fixed {| out := out s; cur := cur s; poff := poff s + slen x |})
      else
        match consume fixed bs (fuel_for bs (slen x)) s (slen x) with
        | None => None
        | Some s' => secs_loop fixed bs r s'
        end
  end.

(* p.Data[0] on an empty section list is a Go panic *)
Definition calc_blocks (fixed : bool) (bs : Z) (l : list section) : res (list blk) :=
  match l with
  | [] => Crash
  | _ =>
    match secs_loop fixed bs l {| out := []; cur := {| bbeg := 0; blen := 0 |}; poff := 0 |} with
    | None => OutOfFuel
    | Some s => Ok (out (next_block fixed s))
    end
  end.

(* ---------- case codec ----------
   kind 201 (NewPieces): in = [PL; npieces; nfiles; (len pad)*]  (L is the sum)
        out = per piece: [plength; nsecs; (sfile soff slen spad)*], or [-777] crash, [-778] fuel
   kind 202 (calculateBlocks): in = [bs; nsecs; (len pad)*]  out = [(begin len)*] *)
Fixpoint rd_files (n : nat) (l : list Z) : list file :=
  match n, l with
  | S n', len :: pad :: r => {| flen := len; fpad := z2b pad |} :: rd_files n' r
  | _, _ => []
  end.

Definition enc_section (s : section) : list Z := [Z.of_nat (sfile s); soff s; slen s; b2z (spad s)].
Definition enc_piece (p : piece) : list Z :=
  plength p :: zlen (psecs p) :: flat_map enc_section (psecs p).

Definition sum_flen (fs : list file) : Z := fold_right (fun f a => flen f + a) 0 fs.

Definition run_new_pieces (inp : list Z) : list Z :=
  match inp with
  | pl :: np :: nf :: r =>
      let fs := rd_files (Z.to_nat nf) r in
      match new_pieces fs pl (sum_flen fs) (Z.to_nat np) with
      | Ok ps => flat_map enc_piece ps
      | Crash => [-777]
      | OutOfFuel => [-778]
      end
  | _ => [-779]
  end.

Fixpoint rd_secs (n : nat) (l : list Z) : list section :=
  match n, l with
  | S n', len :: pad :: r => {| sfile := 0; soff := 0; slen := len; spad := z2b pad |} :: rd_secs n' r
  | _, _ => []
  end.

Definition run_calc_blocks (inp : list Z) : list Z :=
  match inp with
  | bs :: ns :: r =>
      match calc_blocks true bs (rd_secs (Z.to_nat ns) r) with
      | Ok bl => flat_map (fun b => [bbeg b; blen b]) bl
      | Crash => [-777]
      | OutOfFuel => [-778]
      end
  | _ => [-779]
  end.

(* ---------- monitors over observables only ---------- *)
(* blocks (as observed) tile the non-padding bytes of the section list: walk both lists *)
Fixpoint rd_blks (l : list Z) : list blk :=
  match l with
  | b :: n :: r => {| bbeg := b; blen := n |} :: rd_blks r
  | _ => []
  end.

(* non-padding byte ranges of a section list, merged when adjacent *)
Fixpoint nonpad_ranges (l : list section) (off : Z) (acc : option (Z * Z)) : list (Z * Z) :=
  match l with
  | [] => match acc with Some r => [r] | None => [] end
  | s :: r =>
      if spad s then
        (if slen s =? 0 then nonpad_ranges r off acc
         else match acc with Some a => a :: nonpad_ranges r (off + slen s) None
                           | None => nonpad_ranges r (off + slen s) None end)
      else if slen s =? 0 then nonpad_ranges r off acc
      else match acc with
           | Some (a, b) => nonpad_ranges r (off + slen s) (Some (a, b + slen s))
           | None => nonpad_ranges r (off + slen s) (Some (off, off + slen s))
           end
  end.

(* expected blocks of one maximal non-padding range [a,b): consecutive bs-sized pieces; the
   observed list must be exactly this chopping -- but the property allows any chopping into
   blocks of size in (0, bs] that is gap-free; so only check tiling, order and sizes. *)
Fixpoint tile_range (fuel : nat) (bs a b : Z) (bl : list blk) : option (list blk) :=
  if a =? b then Some bl else
  match fuel with
  | O => None
  | S f =>
    match bl with
    | x :: r => if (bbeg x =? a) && (0 <? blen x) && (blen x <=? bs) && (a + blen x <=? b)
                then tile_range f bs (a + blen x) b r else None
    | [] => None
    end
  end.

Fixpoint tile_ranges (bs : Z) (rs : list (Z * Z)) (bl : list blk) : bool :=
  match rs with
  | [] => match bl with [] => true | _ => false end
  | (a, b) :: r =>
      match tile_range (S (length bl)) bs a b bl with
      | Some bl' => tile_ranges bs r bl'
      | None => false
      end
  end.

Definition mon_calc_blocks (inp obs : list Z) : bool :=
  match inp with
  | bs :: ns :: r =>
      let secs := rd_secs (Z.to_nat ns) r in
      tile_ranges bs (nonpad_ranges secs 0 None) (rd_blks obs)
  | _ => false
  end.

(* NewPieces monitor: sections, as observed, chain through the files gap-free *)
Fixpoint rd_obs_secs (n : nat) (l : list Z) : list section * list Z :=
  match n, l with
  | S n', f :: o :: len :: p :: r =>
      let '(ss, rest) := rd_obs_secs n' r in
      ({| sfile := Z.to_nat f; soff := o; slen := len; spad := z2b p |} :: ss, rest)
  | _, _ => ([], l)
  end.

Fixpoint rd_obs_pieces (fuel : nat) (l : list Z) : list piece :=
  match fuel with
  | O => []
  | S f =>
    match l with
    | pl :: ns :: r => let '(ss, rest) := rd_obs_secs (Z.to_nat ns) r in
                       {| plength := pl; psecs := ss |} :: rd_obs_pieces f rest
    | _ => []
    end
  end.

Fixpoint prefix_sum (fs : list file) (k : nat) : Z :=
  match k, fs with
  | S k', f :: r => flen f + prefix_sum r k'
  | _, _ => 0
  end.

Definition sec_ok (fs : list file) (start : Z) (s : section) : bool :=
  match nth_error fs (sfile s) with
  | Some f => (prefix_sum fs (sfile s) + soff s =? start) && (0 <=? soff s) && (0 <=? slen s) &&
              (soff s + slen s <=? flen f) && Bool.eqb (spad s) (fpad f)
  | None => false
  end.

Fixpoint chain_ok (fs : list file) (start : Z) (ss : list section) : option Z :=
  match ss with
  | [] => Some start
  | s :: r => if sec_ok fs start s then chain_ok fs (start + slen s) r else None
  end.

Definition sum_slen (ss : list section) : Z := fold_right (fun s a => slen s + a) 0 ss.

Fixpoint piece_lens_ok (PL L : Z) (i : Z) (n : Z) (ps : list piece) : bool :=
  match ps with
  | [] => true
  | p :: r => (plength p =? sum_slen (psecs p)) &&
              (plength p =? (if i =? n - 1 then L - PL * (n - 1) else PL)) &&
              piece_lens_ok PL L (i + 1) n r
  end.

Definition mon_new_pieces (inp obs : list Z) : bool :=
  match inp with
  | pl :: np :: nf :: r =>
      let fs := rd_files (Z.to_nat nf) r in
      let ps := rd_obs_pieces (length obs) obs in
      let L := sum_flen fs in
      (zlen ps =? np) && piece_lens_ok pl L 0 np ps &&
      match chain_ok fs 0 (flat_map psecs ps) with Some e => e =? L | None => false end
  | _ => false
  end.

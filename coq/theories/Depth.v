(* Model of internal/bencodedepth Check: the scan that bounds the nesting of bencoded input before
   the recursive decoder sees it.  Indexes are Go ints (the string length is accumulated with
   wrap-around), bytes are Z; index out of range is Crash, running out of fuel is Fuel. *)
From RainV Require Import Lib.
From Coq Require Import Lia ZArith List Bool.
Import ListNotations.
Open Scope Z_scope.

Inductive dres := DOk | DTooDeep | DCrash | DFuel.
Definition wrap64 (x : Z) : Z := (x + 9223372036854775808) mod 18446744073709551616 - 9223372036854775808.
Definition byte_at (b : list Z) (i : Z) : Z := nth (Z.to_nat i) b 0.
Definition is_digit (c : Z) : bool := (48 <=? c) && (c <=? 57).
Definition max_depth : Z := 64.

(* for i < len(b) && b[i] != 'e' { i++ } *)
Fixpoint skip_int (fuel : nat) (b : list Z) (i : Z) : Z :=
  match fuel with
  | O => i
  | S f => if (i <? zlen b) && negb (byte_at b i =? 101) then skip_int f b (i + 1) else i
  end.

(* the digit loop: None = "return nil" from inside the loop (length already larger than the input) *)
Fixpoint digits (fuel : nat) (b : list Z) (i n : Z) : option (Z * Z) :=
  match fuel with
  | O => Some (i, n)
  | S f => if (i <? zlen b) && is_digit (byte_at b i) then
             if n >? zlen b then None
             else digits f b (i + 1) (wrap64 (n * 10 + (byte_at b i - 48)))
           else Some (i, n)
  end.

Fixpoint check_go (fuel : nat) (b : list Z) (i depth : Z) : dres :=
  match fuel with
  | O => DFuel
  | S f =>
      if i <? 0 then DCrash else
      if negb (i <? zlen b) then DOk else
      let c := byte_at b i in
      let cont (i' depth' : Z) := if depth' <=? 0 then DOk else check_go f b i' depth' in
      if (c =? 108) || (c =? 100) then (if depth + 1 >? max_depth then DTooDeep else cont (i + 1) (depth + 1))
      else if c =? 101 then cont (i + 1) (depth - 1)
      else if c =? 105 then cont (skip_int (length b) b i + 1) depth
      else if is_digit c then
        match digits (S (length b)) b i 0 with
        | None => DOk
        | Some (i', n) =>
            if (i' >=? zlen b) || negb (byte_at b i' =? 58) || (n >? zlen b - i' - 1) then DOk
            else cont (i' + 1 + n) depth
        end
      else DOk
  end.
Definition depth_check (b : list Z) : dres := check_go (S (length b)) b 0 0.

(* ---------- facts ---------- *)
Lemma wrap64_small x : -9223372036854775808 <= x < 9223372036854775808 -> wrap64 x = x.
Proof. intros H. unfold wrap64. rewrite Z.mod_small by lia. lia. Qed.

Lemma skip_int_ge : forall fuel b i, i <= skip_int fuel b i.
Proof. induction fuel as [|f IH]; intros b i; cbn [skip_int]; [lia|]. destruct ((i <? zlen b) && negb (byte_at b i =? 101)); [|lia]. pose proof (IH b (i + 1)). lia. Qed.

(* the guard keeps the accumulated length non-negative and the index moving forward *)
Lemma digits_spec : forall fuel b i n i' n', zlen b < 100000000000000000 -> 0 <= n -> 
  Forall (fun c => 0 <= c < 256) b ->
  digits fuel b i n = Some (i', n') -> i <= i' /\ 0 <= n'.
Proof.
  induction fuel as [|f IH]; intros b i n i' n' Hl Hn Hb H; cbn [digits] in H; [inversion H; subst; lia|].
  destruct ((i <? zlen b) && is_digit (byte_at b i)) eqn:E; [|inversion H; subst; lia].
  destruct (n >? zlen b) eqn:Eg; [discriminate|].
  apply andb_prop in E as [E1 E2]. unfold is_digit in E2.
  assert (Hd : 0 <= byte_at b i - 48 <= 9) by lia.
  rewrite wrap64_small in H by lia. apply IH in H; try assumption; lia.
Qed.

Lemma digits_progress fuel b i n i' n' : is_digit (byte_at b i) = true -> i <? zlen b = true -> n <= zlen b ->
  zlen b < 100000000000000000 -> 0 <= n -> Forall (fun c => 0 <= c < 256) b ->
  digits (S fuel) b i n = Some (i', n') -> i + 1 <= i' /\ 0 <= n'.
Proof.
  intros Hd Hi Hn Hl H0 Hb H. cbn [digits] in H. rewrite Hi, Hd in H. cbn [andb] in H.
  destruct (n >? zlen b) eqn:Eg; [discriminate|]. unfold is_digit in Hd.
  rewrite wrap64_small in H by lia. apply digits_spec in H; try assumption; lia.
Qed.

(* Check terminates within len+1 iterations, never indexes outside the input, and so returns either
   "fine" or "too deep" for every byte string (below 10^17 bytes) *)
Theorem check_total : forall b, zlen b < 100000000000000000 -> Forall (fun c => 0 <= c < 256) b ->
  depth_check b = DOk \/ depth_check b = DTooDeep.
Proof.
  intros b Hl Hb. unfold depth_check.
  assert (G : forall fuel i depth, 0 <= i -> (Z.of_nat fuel >= Z.max 1 (zlen b - i + 1)) ->
              check_go fuel b i depth = DOk \/ check_go fuel b i depth = DTooDeep).
  { induction fuel as [|f IH]; intros i depth Hi Hf.
    - lia.
    - cbn [check_go]. destruct (i <? 0) eqn:E0; [lia|]. destruct (i <? zlen b) eqn:E1; cbn [negb]; [|left; reflexivity].
      assert (Cont : forall i' d', i + 1 <= i' -> (if d' <=? 0 then DOk else check_go f b i' d') = DOk \/ (if d' <=? 0 then DOk else check_go f b i' d') = DTooDeep).
      { intros i' d' Hi'. destruct (d' <=? 0); [left; reflexivity|]. apply IH; lia. }
      destruct ((byte_at b i =? 108) || (byte_at b i =? 100)).
      + destruct (depth + 1 >? max_depth); [right; reflexivity|]. apply Cont. lia.
      + destruct (byte_at b i =? 101); [apply Cont; lia|].
        destruct (byte_at b i =? 105); [apply Cont; pose proof (skip_int_ge (length b) b i); lia|].
        destruct (is_digit (byte_at b i)) eqn:Ed; [|left; reflexivity].
        destruct (digits (S (length b)) b i 0) as [[i' n]|] eqn:Eg; [|left; reflexivity].
        pose proof (digits_progress (length b) b i 0 i' n Ed E1 ltac:(pose proof (zlen_nonneg b); lia) Hl ltac:(lia) Hb Eg) as [P1 P2].
        destruct ((i' >=? zlen b) || negb (byte_at b i' =? 58) || (n >? zlen b - i' - 1)); [left; reflexivity|].
        apply Cont. lia. }
  apply G; [lia|]. unfold zlen. lia.
Qed.

(* kind 603: in = the bytes; out = [0 fine | 1 too deep | -777 crash | -555 out of fuel] *)
Definition run_depth (inp : list Z) : list Z :=
  match depth_check inp with DOk => [0] | DTooDeep => [1] | DCrash => [-777] | DFuel => [-555] end.

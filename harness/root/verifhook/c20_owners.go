//go:build verif

package verifhook

import (
	"fmt"
	"go/ast"
	"go/parser"
	"go/token"
	"hash/fnv"
	"math/rand"
	"os"
	"path/filepath"
	"sort"
	"strings"
	"sync"
	"sync/atomic"
)

// kind 2001: the ownership table of package torrent, regenerated from the source on every run.
//
// The translator reads /repo/torrent/*.go (no tests, no verif files) and derives, syntactically:
//   - the fields of `torrent` and `Session`, and which of them are mutexes;
//   - for every function: the fields it reads / writes, the locks it holds at that point, the functions it
//     calls, the goroutines it starts, the method values it hands out;
//   - the context(s) every function can run in: LOOP (reachable from (*torrent).run), API (reachable from an
//     exported method of Torrent or Session), BG (reachable from a `go` statement other than `go t.run()` or
//     handed out as a method value to another package), INIT (the constructors, before the fork);
//   - sends on the loop's command channels and whether they give up when the torrent is closed;
//   - lock nesting edges.
//
// One case per (field, accessing function outside LOOP/INIT):
//   in = [1 fieldHash funcHash isWrite ctxmask lockmask fieldWrittenAfterInit fieldLock]   fieldLock = the lock most writers of the field hold
// one case per channel send outside the loop:   in = [2 chanHash funcHash closeAware]
// one case per reply channel of a request:     in = [6 funcHash buffered]
// one case for the lock order:                  in = [3 nedges (a b)*]
// one case with the size of the table:          in = [4 entries budget]
// obs is empty: the monitor (Owner.v) decides.

const dbLock = "Session.db(tx)"

const (
	ctxLoop = 1
	ctxAPI  = 2
	ctxBG   = 4
	ctxInit = 8 // reachable from a constructor only: the object is not shared yet
)

// methods of *bitfield.Bitfield that change its bytes
var pointeeMutators = map[string]bool{"Set": true, "Clear": true}

type ownAccess struct {
	field string
	owner string // "torrent" or "Session"
	write bool
	pos   token.Pos
}

type ownLockOp struct {
	lock     string
	pos      token.Pos
	unlock   bool
	deferred bool
}

type ownFunc struct {
	name     string
	decl     ast.Node
	accesses []ownAccess
	locks    []ownLockOp
	calls    []ownCall
	sends    []ownSend
	replies  []ownSend // reply channels created for a request to the loop: aware = buffered
	ctx      int
	init     bool
	entry    map[string]bool // locks held at every call site
	entrySet bool
}

type ownCall struct {
	callee string
	pos    token.Pos
}

type ownSend struct {
	ch    string
	pos   token.Pos
	aware bool
}

type ownTable struct {
	funcs    map[string]*ownFunc
	tfields  map[string]bool
	sfields  map[string]bool
	tmutex   map[string]bool
	smutex   map[string]bool
	tchans   map[string]bool
	goRoots  map[string]bool
	cbRoots  map[string]bool
	fset     *token.FileSet
	problems []string
}

func h31(s string) int64 {
	h := fnv.New32a()
	h.Write([]byte(s))
	return int64(h.Sum32() & 0x7fffffff)
}

func structFields(files []*ast.File, name string) (fields, mutexes, chans map[string]bool) {
	fields, mutexes, chans = map[string]bool{}, map[string]bool{}, map[string]bool{}
	for _, f := range files {
		for _, d := range f.Decls {
			gd, ok := d.(*ast.GenDecl)
			if !ok {
				continue
			}
			for _, sp := range gd.Specs {
				ts, ok := sp.(*ast.TypeSpec)
				if !ok || ts.Name.Name != name {
					continue
				}
				st, ok := ts.Type.(*ast.StructType)
				if !ok {
					continue
				}
				for _, fl := range st.Fields.List {
					typ := exprString(fl.Type)
					for _, n := range fl.Names {
						fields[n.Name] = true
						if typ == "sync.Mutex" || typ == "sync.RWMutex" {
							mutexes[n.Name] = true
						}
						if strings.HasPrefix(typ, "chan ") {
							chans[n.Name] = true
						}
					}
				}
			}
		}
	}
	return
}

func exprString(e ast.Expr) string {
	switch x := e.(type) {
	case *ast.Ident:
		return x.Name
	case *ast.SelectorExpr:
		return exprString(x.X) + "." + x.Sel.Name
	case *ast.StarExpr:
		return "*" + exprString(x.X)
	case *ast.ChanType:
		return "chan " + exprString(x.Value)
	case *ast.ArrayType:
		return "[]" + exprString(x.Elt)
	case *ast.MapType:
		return "map[" + exprString(x.Key) + "]" + exprString(x.Value)
	case *ast.IndexExpr:
		return exprString(x.X) + "[" + exprString(x.Index) + "]"
	}
	return "?"
}

type ownWalker struct {
	tab   *ownTable
	fn    *ownFunc
	tvars map[string]bool // identifiers of type *torrent
	svars map[string]bool // identifiers of type *Session
	wvars map[string]bool // identifiers of type *Torrent
	recv  string
}

// kindOf classifies an expression: "torrent", "Session", "Torrent" or "".
func (w *ownWalker) kindOf(e ast.Expr) string {
	switch x := e.(type) {
	case *ast.Ident:
		switch {
		case w.tvars[x.Name]:
			return "torrent"
		case w.svars[x.Name]:
			return "Session"
		case w.wvars[x.Name]:
			return "Torrent"
		}
	case *ast.SelectorExpr:
		if x.Sel.Name == "torrent" { // the wrapper's field: anything.torrent is a *torrent
			return "torrent"
		}
		if x.Sel.Name == "session" && w.kindOf(x.X) == "torrent" {
			return "Session"
		}
	case *ast.ParenExpr:
		return w.kindOf(x.X)
	case *ast.UnaryExpr: // &Session{...}
		if x.Op == token.AND {
			if cl, ok := x.X.(*ast.CompositeLit); ok {
				return typeKind(&ast.StarExpr{X: cl.Type})
			}
		}
	}
	return ""
}

func typeKind(e ast.Expr) string {
	switch exprString(e) {
	case "*torrent":
		return "torrent"
	case "*Session":
		return "Session"
	case "*Torrent":
		return "Torrent"
	}
	return ""
}

func (w *ownWalker) bindParams(ft *ast.FuncType) {
	if ft == nil || ft.Params == nil {
		return
	}
	for _, p := range ft.Params.List {
		k := typeKind(p.Type)
		for _, n := range p.Names {
			w.bind(n.Name, k)
		}
	}
}

func (w *ownWalker) bind(name, kind string) {
	delete(w.tvars, name)
	delete(w.svars, name)
	delete(w.wvars, name)
	switch kind {
	case "torrent":
		w.tvars[name] = true
	case "Session":
		w.svars[name] = true
	case "Torrent":
		w.wvars[name] = true
	}
}

func (w *ownWalker) fieldOf(sel *ast.SelectorExpr) (owner, field string, ok bool) {
	switch w.kindOf(sel.X) {
	case "torrent":
		if w.tab.tfields[sel.Sel.Name] {
			return "torrent", sel.Sel.Name, true
		}
	case "Session":
		if w.tab.sfields[sel.Sel.Name] {
			return "Session", sel.Sel.Name, true
		}
	}
	return "", "", false
}

// baseField finds the field selector an lvalue writes through: t.f, t.f[k], t.f.x, *t.f
func (w *ownWalker) baseField(e ast.Expr) *ast.SelectorExpr {
	for {
		switch x := e.(type) {
		case *ast.SelectorExpr:
			if _, _, ok := w.fieldOf(x); ok {
				return x
			}
			e = x.X
		case *ast.IndexExpr:
			e = x.X
		case *ast.StarExpr:
			e = x.X
		case *ast.ParenExpr:
			e = x.X
		default:
			return nil
		}
	}
}

func (w *ownWalker) markWrite(e ast.Expr, written map[*ast.SelectorExpr]bool) {
	if s := w.baseField(e); s != nil {
		// a write through a further selector (t.f.x = ..) changes the pointee, not the field: only direct
		// stores, index stores and appends count as writes of the field
		switch x := e.(type) {
		case *ast.SelectorExpr:
			if x == s {
				written[s] = true
			}
		case *ast.IndexExpr:
			if x.X == ast.Expr(s) {
				written[s] = true
			}
		}
	}
}

func (w *ownWalker) walkBody(body ast.Node) {
	if body == nil {
		return
	}
	written := map[*ast.SelectorExpr]bool{}
	callFun := map[ast.Expr]bool{}
	branchLocal := map[*ast.CallExpr]bool{} // an Unlock right before a return: the rest of the function still holds the lock
	var selectStack []*ast.SelectStmt
	var visit func(n ast.Node) bool
	inspect := func(n ast.Node) { ast.Inspect(n, visit) }
	visit = func(n ast.Node) bool {
		switch x := n.(type) {
		case *ast.FuncLit:
			// a closure that is not the operand of `go` runs in the same goroutine (defer, callbacks of
			// synchronous helpers such as bbolt transactions)
			sub := &ownWalker{tab: w.tab, fn: w.fn, tvars: copySet(w.tvars), svars: copySet(w.svars), wvars: copySet(w.wvars)}
			sub.bindParams(x.Type)
			sub.walkBody(x.Body)
			return false
		case *ast.GoStmt:
			if fl, ok := x.Call.Fun.(*ast.FuncLit); ok {
				name := fmt.Sprintf("%s$go%d", w.fn.name, w.tab.fset.Position(x.Pos()).Line)
				gf := &ownFunc{name: name, decl: fl}
				w.tab.funcs[name] = gf
				w.tab.goRoots[name] = true
				sub := &ownWalker{tab: w.tab, fn: gf, tvars: copySet(w.tvars), svars: copySet(w.svars), wvars: copySet(w.wvars)}
				sub.bindParams(fl.Type)
				sub.walkBody(fl.Body)
				for _, a := range x.Call.Args { // arguments are evaluated by the starting goroutine
					inspect(a)
				}
				return false
			}
			if sel, ok := x.Call.Fun.(*ast.SelectorExpr); ok {
				if k := w.kindOf(sel.X); k != "" {
					if _, _, isField := w.fieldOf(sel); !isField {
						callee := k + "." + sel.Sel.Name
						if callee != "torrent.run" {
							w.tab.goRoots[callee] = true
						}
						for _, a := range x.Call.Args {
							inspect(a)
						}
						return false
					}
				}
			}
			// a goroutine of another package: the callee expression and the arguments are evaluated here
			callFun[x.Call.Fun] = true
			return true
		case *ast.AssignStmt:
			for _, l := range x.Lhs {
				w.markWrite(l, written)
			}
			if x.Tok == token.DEFINE || x.Tok == token.ASSIGN {
				for i, l := range x.Lhs {
					if id, ok := l.(*ast.Ident); ok && i < len(x.Rhs) && len(x.Lhs) == len(x.Rhs) {
						w.bind(id.Name, w.kindOf(x.Rhs[i]))
					}
				}
			}
		case *ast.IncDecStmt:
			w.markWrite(x.X, written)
		case *ast.RangeStmt:
			if id, ok := x.Value.(*ast.Ident); ok {
				// ranging over the session's torrents yields *Torrent values
				if s := w.baseField(x.X); s != nil && (s.Sel.Name == "torrents" || s.Sel.Name == "torrentsByInfoHash") {
					w.bind(id.Name, "Torrent")
				} else {
					w.bind(id.Name, "")
				}
			}
		case *ast.BlockStmt:
			for i, st := range x.List {
				es, ok := st.(*ast.ExprStmt)
				if !ok || i+1 >= len(x.List) {
					continue
				}
				if _, isRet := x.List[i+1].(*ast.ReturnStmt); !isRet {
					continue
				}
				if ce, ok := es.X.(*ast.CallExpr); ok {
					if sel, ok := ce.Fun.(*ast.SelectorExpr); ok {
						if _, isUnlock, _ := w.lockOp(sel); isUnlock {
							branchLocal[ce] = true
						}
					}
				}
			}
		case *ast.SelectStmt:
			selectStack = append(selectStack, x)
			for _, c := range x.Body.List {
				inspect(c)
			}
			selectStack = selectStack[:len(selectStack)-1]
			return false
		case *ast.SendStmt:
			if s, ok := x.Chan.(*ast.SelectorExpr); ok {
				if owner, f, isField := w.fieldOf(s); isField && owner == "torrent" && w.tab.tchans[f] {
					aware := false
					for _, st := range selectStack {
						for _, c := range st.Body.List {
							cc := c.(*ast.CommClause)
							if cc.Comm == nil {
								continue
							}
							src := exprOfComm(cc.Comm)
							if strings.HasSuffix(src, ".closeC") || strings.HasSuffix(src, ".doneC") || src == "closeC" || src == "doneC" {
								aware = true
							}
						}
					}
					w.fn.sends = append(w.fn.sends, ownSend{ch: f, pos: x.Pos(), aware: aware})
				}
			}
		case *ast.KeyValueExpr:
			// a request to the loop carries the channel for the answer; the caller may have given up by the
			// time the loop answers, so the channel must take the answer without a receiver
			if k, ok := x.Key.(*ast.Ident); ok && k.Name == "Response" {
				if ce, ok := x.Value.(*ast.CallExpr); ok {
					if id, ok := ce.Fun.(*ast.Ident); ok && id.Name == "make" && len(ce.Args) >= 1 {
						if _, isChan := ce.Args[0].(*ast.ChanType); isChan {
							buffered := false
							if len(ce.Args) >= 2 {
								if bl, ok := ce.Args[1].(*ast.BasicLit); ok && bl.Value != "0" {
									buffered = true
								}
							}
							w.fn.replies = append(w.fn.replies, ownSend{ch: "Response", pos: x.Pos(), aware: buffered})
						}
					}
				}
			}
		case *ast.DeferStmt:
			if sel, ok := x.Call.Fun.(*ast.SelectorExpr); ok {
				if lk, isUnlock, isLock := w.lockOp(sel); isLock || isUnlock {
					w.fn.locks = append(w.fn.locks, ownLockOp{lock: lk, pos: x.Pos(), unlock: isUnlock, deferred: true})
					return false
				}
			}
		case *ast.CallExpr:
			callFun[x.Fun] = true
			if id, ok := x.Fun.(*ast.Ident); ok {
				if id.Name == "delete" && len(x.Args) > 0 {
					if s := w.baseField(x.Args[0]); s != nil && ast.Expr(s) == x.Args[0] {
						written[s] = true
					}
				}
				w.fn.calls = append(w.fn.calls, ownCall{callee: "func." + id.Name, pos: x.Pos()})
			}
			if sel, ok := x.Fun.(*ast.SelectorExpr); ok {
				// a mutating method of a pointee that shares the field's lock: t.bitfield.Set(i) changes the
				// bytes every reader of t.bitfield looks at, so it counts as a write of the field
				if inner, ok2 := sel.X.(*ast.SelectorExpr); ok2 && pointeeMutators[sel.Sel.Name] {
					if _, f, isField := w.fieldOf(inner); isField && f == "bitfield" {
						written[inner] = true
					}
				}
				// a database transaction (bbolt serialises writers with a lock of its own) and every call of the
				// resumer, which opens one, count as holding the pseudo-lock "Session.db(tx)" for their duration
				if inner, ok := sel.X.(*ast.SelectorExpr); ok && w.kindOf(inner.X) == "Session" {
					m := sel.Sel.Name
					if (inner.Sel.Name == "db" && (m == "Update" || m == "View" || m == "Batch")) || inner.Sel.Name == "resumer" {
						w.fn.locks = append(w.fn.locks, ownLockOp{lock: dbLock, pos: x.Pos()}, ownLockOp{lock: dbLock, pos: x.End(), unlock: true})
					}
				}
				if lk, isUnlock, isLock := w.lockOp(sel); isLock || isUnlock {
					if !branchLocal[x] {
						w.fn.locks = append(w.fn.locks, ownLockOp{lock: lk, pos: x.Pos(), unlock: isUnlock})
					}
					return false
				}
				if k := w.kindOf(sel.X); k != "" {
					if _, _, isField := w.fieldOf(sel); !isField {
						w.fn.calls = append(w.fn.calls, ownCall{callee: k + "." + sel.Sel.Name, pos: x.Pos()})
						for _, a := range x.Args {
							inspect(a)
						}
						inspect(sel.X)
						return false
					}
				}
			}
		case *ast.SelectorExpr:
			if owner, f, ok := w.fieldOf(x); ok {
				if (owner == "torrent" && w.tab.tmutex[f]) || (owner == "Session" && w.tab.smutex[f]) {
					return true
				}
				w.fn.accesses = append(w.fn.accesses, ownAccess{field: f, owner: owner, write: written[x], pos: x.Pos()})
				return true
			}
			if k := w.kindOf(x.X); k != "" && !callFun[x] {
				// a method value handed to somebody else: it may be called from any goroutine
				name := k + "." + x.Sel.Name
				if x.Sel.Name != "torrent" && x.Sel.Name != "session" {
					w.tab.cbRoots[name] = true
				}
			}
		}
		return true
	}
	ast.Inspect(body, visit)
}

func exprOfComm(s ast.Stmt) string {
	switch x := s.(type) {
	case *ast.ExprStmt:
		if u, ok := x.X.(*ast.UnaryExpr); ok && u.Op == token.ARROW {
			return exprString(u.X)
		}
	case *ast.AssignStmt:
		if len(x.Rhs) == 1 {
			if u, ok := x.Rhs[0].(*ast.UnaryExpr); ok && u.Op == token.ARROW {
				return exprString(u.X)
			}
		}
	}
	return ""
}

func (w *ownWalker) lockOp(sel *ast.SelectorExpr) (lock string, isUnlock, isLock bool) {
	m := sel.Sel.Name
	if m != "Lock" && m != "RLock" && m != "Unlock" && m != "RUnlock" {
		return "", false, false
	}
	inner, ok := sel.X.(*ast.SelectorExpr)
	if !ok {
		return "", false, false
	}
	owner, f, ok := w.fieldOf(inner)
	if !ok {
		return "", false, false
	}
	if (owner == "torrent" && w.tab.tmutex[f]) || (owner == "Session" && w.tab.smutex[f]) {
		return owner + "." + f, m == "Unlock" || m == "RUnlock", m == "Lock" || m == "RLock"
	}
	return "", false, false
}

func copySet(m map[string]bool) map[string]bool {
	out := map[string]bool{}
	for k, v := range m {
		out[k] = v
	}
	return out
}

// heldAt: the locks held by the function itself at a position.
func (f *ownFunc) heldAt(pos token.Pos) map[string]bool {
	held := map[string]bool{}
	ops := append([]ownLockOp{}, f.locks...)
	sort.Slice(ops, func(a, b int) bool { return ops[a].pos < ops[b].pos })
	for _, op := range ops {
		if op.pos >= pos {
			break
		}
		if op.unlock && !op.deferred {
			delete(held, op.lock)
		} else if !op.unlock {
			held[op.lock] = true
		}
	}
	return held
}

func buildOwnTable() *ownTable {
	tab := &ownTable{funcs: map[string]*ownFunc{}, goRoots: map[string]bool{}, cbRoots: map[string]bool{}, fset: token.NewFileSet()}
	names, _ := filepath.Glob("/repo/torrent/*.go")
	sort.Strings(names)
	var files []*ast.File
	for _, n := range names {
		if strings.HasSuffix(n, "_test.go") || strings.HasSuffix(n, "_verif.go") {
			continue
		}
		src, err := os.ReadFile(n)
		if err != nil {
			tab.problems = append(tab.problems, err.Error())
			continue
		}
		if strings.Contains(string(src[:min(len(src), 200)]), "//go:build verif") {
			continue
		}
		f, err := parser.ParseFile(tab.fset, n, src, 0)
		if err != nil {
			tab.problems = append(tab.problems, err.Error())
			continue
		}
		files = append(files, f)
	}
	tab.tfields, tab.tmutex, tab.tchans = structFields(files, "torrent")
	tab.sfields, tab.smutex, _ = structFields(files, "Session")
	for _, f := range files {
		for _, d := range f.Decls {
			fd, ok := d.(*ast.FuncDecl)
			if !ok || fd.Body == nil {
				continue
			}
			name := "func." + fd.Name.Name
			w := &ownWalker{tab: tab, tvars: map[string]bool{}, svars: map[string]bool{}, wvars: map[string]bool{}}
			if fd.Recv != nil && len(fd.Recv.List) == 1 {
				rt := strings.TrimPrefix(exprString(fd.Recv.List[0].Type), "*")
				name = rt + "." + fd.Name.Name
				if len(fd.Recv.List[0].Names) == 1 {
					w.bind(fd.Recv.List[0].Names[0].Name, typeKind(fd.Recv.List[0].Type))
				}
			}
			fn := &ownFunc{name: name, decl: fd}
			tab.funcs[name] = fn
			w.fn = fn
			w.bindParams(fd.Type)
			// constructors: the object is not shared yet
			if name == "func.newTorrent" || name == "func.NewSession" {
				fn.init = true
			}
			w.walkBody(fd.Body)
		}
	}
	// contexts by reachability over static calls
	mark := func(root string, bit int) {
		var stack []string
		if _, ok := tab.funcs[root]; ok {
			stack = append(stack, root)
		}
		for len(stack) > 0 {
			n := stack[len(stack)-1]
			stack = stack[:len(stack)-1]
			f := tab.funcs[n]
			if f.ctx&bit != 0 {
				continue
			}
			f.ctx |= bit
			if f.init && bit != ctxInit {
				continue // what a constructor calls works on an object nobody else has yet
			}
			for _, c := range f.calls {
				if _, ok := tab.funcs[c.callee]; ok {
					stack = append(stack, c.callee)
				}
			}
		}
	}
	mark("torrent.run", ctxLoop)
	for n, f := range tab.funcs {
		if f.init {
			mark(n, ctxInit)
		}
	}
	for n := range tab.funcs {
		parts := strings.SplitN(n, ".", 2)
		if len(parts) == 2 && (parts[0] == "Torrent" || parts[0] == "Session" || parts[0] == "rpcHandler") && ast.IsExported(parts[1]) {
			mark(n, ctxAPI)
		}
	}
	for n := range tab.goRoots {
		mark(n, ctxBG)
	}
	for n := range tab.cbRoots {
		mark(n, ctxBG)
	}
	// a method nobody is seen to call (reflection, an interface, a caller this analysis cannot type) may be
	// called from anywhere
	for n, f := range tab.funcs {
		if f.ctx == 0 && !f.init && !strings.HasPrefix(n, "func.") {
			mark(n, ctxBG)
		}
	}
	for _, f := range tab.funcs {
		if f.ctx == ctxInit {
			f.init = true // only ever called while the object is under construction
		}
		f.ctx &^= ctxInit
	}
	// locks held at every call site (greatest fixpoint of the intersection over callers)
	callers := map[string][]struct {
		f   *ownFunc
		pos token.Pos
	}{}
	for _, f := range tab.funcs {
		for _, c := range f.calls {
			callers[c.callee] = append(callers[c.callee], struct {
				f   *ownFunc
				pos token.Pos
			}{f, c.pos})
		}
	}
	for iter := 0; iter < 20; iter++ {
		changed := false
		for n, f := range tab.funcs {
			cs := callers[n]
			isRoot := n == "torrent.run" || tab.goRoots[n] || tab.cbRoots[n]
			parts := strings.SplitN(n, ".", 2)
			if len(parts) == 2 && ast.IsExported(parts[1]) {
				isRoot = true
			}
			var entry map[string]bool
			if !isRoot && len(cs) > 0 {
				for _, c := range cs {
					if c.f.ctx&(ctxAPI|ctxBG) == 0 && f.ctx != ctxLoop {
						continue // only callers outside the loop matter: the loop owns its fields
					}
					// (a function that only the loop reaches takes the locks every loop caller holds: a helper
					// called inside a locked section writes a lock-protected field under that lock)
					h := c.f.heldAt(c.pos)
					if c.f.entrySet {
						for l := range c.f.entry {
							h[l] = true
						}
					}
					if entry == nil {
						entry = h
					} else {
						for l := range entry {
							if !h[l] {
								delete(entry, l)
							}
						}
					}
				}
			}
			if entry == nil {
				entry = map[string]bool{}
			}
			if !f.entrySet || len(entry) != len(f.entry) {
				changed = true
			}
			f.entry, f.entrySet = entry, true
		}
		if !changed {
			break
		}
	}
	return tab
}

type ownEntry struct {
	in   []int64
	note string
}

var (
	ownOnce    sync.Once
	ownEntries []ownEntry
	ownNext    int64
)

// CaseCount is set by the driver: how many cases of the kind will be asked for.
var CaseCount int

func lockIDs(tab *ownTable) map[string]int {
	var names []string
	for l := range tab.tmutex {
		names = append(names, "torrent."+l)
	}
	for l := range tab.smutex {
		names = append(names, "Session."+l)
	}
	names = append(names, dbLock)
	sort.Strings(names)
	ids := map[string]int{}
	for i, n := range names {
		ids[n] = i
	}
	return ids
}

func buildOwnEntries() []ownEntry {
	tab := buildOwnTable()
	lid := lockIDs(tab)
	type acc struct {
		fn    *ownFunc
		write bool
		locks int64
		line  int
	}
	byField := map[string][]acc{}
	var fnames []string
	for n := range tab.funcs {
		fnames = append(fnames, n)
	}
	sort.Strings(fnames)
	var out []ownEntry
	var edges [][2]int
	for _, n := range fnames {
		f := tab.funcs[n]
		for _, a := range f.accesses {
			if f.init {
				continue
			}
			held := f.heldAt(a.pos)
			for l := range f.entry {
				held[l] = true
			}
			var mask int64
			for l := range held {
				mask |= 1 << uint(lid[l])
			}
			key := a.owner + "." + a.field
			byField[key] = append(byField[key], acc{f, a.write, mask, tab.fset.Position(a.pos).Line})
		}
		for _, op := range f.locks {
			if op.unlock {
				continue
			}
			held := f.heldAt(op.pos)
			for l := range f.entry {
				held[l] = true
			}
			for l := range held {
				if l != op.lock {
					edges = append(edges, [2]int{lid[l], lid[op.lock]})
				}
			}
		}
		for _, s := range f.replies {
			out = append(out, ownEntry{in: []int64{6, h31(f.name), b2i(s.aware)},
				note: fmt.Sprintf("reply channel of a request created in %s (line %d) buffered=%v", f.name, tab.fset.Position(s.pos).Line, s.aware)})
		}
		for _, s := range f.sends {
			if f.ctx&^ctxLoop == 0 && f.ctx != 0 {
				continue // the loop itself
			}
			if f.ctx == 0 {
				continue // not reachable from any root this analysis knows
			}
			out = append(out, ownEntry{in: []int64{2, h31(s.ch), h31(f.name), b2i(s.aware)},
				note: fmt.Sprintf("send on %s in %s (line %d) close-aware=%v", s.ch, f.name, tab.fset.Position(s.pos).Line, s.aware)})
		}
	}
	var keys []string
	for k := range byField {
		keys = append(keys, k)
	}
	sort.Strings(keys)
	for _, k := range keys {
		as := byField[k]
		written, shared := false, false
		count := map[int]int{}
		for _, a := range as {
			if a.fn.ctx == 0 {
				continue
			}
			if a.fn.ctx != ctxLoop {
				shared = true
			}
			if a.write {
				written = true
				for b := 0; b < 16; b++ {
					if a.locks&(1<<uint(b)) != 0 {
						count[b]++
					}
				}
			}
		}
		// the field's lock: the one most of its writers hold (0: its writers hold none)
		flock, best := int64(0), 0
		for b := 0; b < 16; b++ {
			if count[b] > best {
				best, flock = count[b], 1<<uint(b)
			}
		}
		seen := map[string]bool{}
		for _, a := range as {
			if a.fn.ctx == 0 {
				continue
			}
			// accesses from the loop matter only when somebody else shares the field and the loop writes it
			if a.fn.ctx == ctxLoop && !(shared && a.write && flock != 0) {
				continue // a field without a lock belongs to the loop: its own accesses are not the problem
			}
			id := fmt.Sprintf("%s|%v|%d", a.fn.name, a.write, a.locks)
			if seen[id] {
				continue
			}
			seen[id] = true
			out = append(out, ownEntry{in: []int64{1, h31(k), h31(a.fn.name), b2i(a.write), int64(a.fn.ctx), a.locks, b2i(written), flock},
				note: fmt.Sprintf("field %s accessed in %s (line %d) write=%v ctx=%d locks=%d; written after init=%v, the field's lock=%d", k, a.fn.name, a.line, a.write, a.fn.ctx, a.locks, written, flock)})
		}
	}
	sort.Slice(edges, func(a, b int) bool { return edges[a][0]*100+edges[a][1] < edges[b][0]*100+edges[b][1] })
	e := []int64{3, 0}
	last := [2]int{-1, -1}
	for _, x := range edges {
		if x == last {
			continue
		}
		last = x
		e = append(e, int64(x[0]), int64(x[1]))
		e[1]++
	}
	out = append(out, ownEntry{in: e, note: fmt.Sprintf("lock nesting edges over %v", lid)})
	for _, p := range tab.problems {
		out = append(out, ownEntry{in: []int64{5}, note: "translator problem: " + p})
	}
	if len(tab.tfields) < 20 || len(tab.funcs) < 100 || tab.funcs["torrent.run"] == nil || tab.funcs["torrent.run"].ctx&ctxLoop == 0 {
		out = append(out, ownEntry{in: []int64{5}, note: "translator problem: package torrent no longer has the expected shape"})
	}
	return out
}

func genOwners(r *rand.Rand, tier string) Case {
	ownOnce.Do(func() { ownEntries = buildOwnEntries() })
	i := int(atomic.AddInt64(&ownNext, 1) - 1)
	if i == 0 {
		// the size of the table against the number of cases the driver asks for
		return Case{In: []int64{4, int64(len(ownEntries)), int64(CaseCount)}, Note: fmt.Sprintf("table entries=%d", len(ownEntries))}
	}
	if i-1 < len(ownEntries) {
		e := ownEntries[i-1]
		return Case{In: e.in, Note: e.note}
	}
	return Case{In: []int64{0}}
}

func init() {
	Register(2001, "ownership table of package torrent regenerated from the source: field accesses outside the loop with their locks, sends on command channels, lock nesting", genOwners)
}

//go:build verif

package verifhook

import (
	"fmt"
	"math/rand"
	"time"

	"github.com/cenkalti/rain/v2/internal/peersource"
	"github.com/cenkalti/rain/v2/torrent"
)

// kind 401: lifecycle of one torrent in the stepped event loop: start / stop / verify commands
// interleaved with the results of the allocation, verification, piece-write and stop-announce
// workers (held back and released in any order) and with changes to the files while stopped.
//
// in  = [np nf (fexists)*nf (pok)*np] then events
//       1 start | 2 stop | 3 verify | 4 allocation result: had_existing had_missing (padonly)*np (pok)*np (fexists)*nf
//       5 verification result | 6 stop announcer done | 7 i: piece i downloaded from an honest seed
//       8 the disk changed while stopped: (fexists)*nf (pok)*np | 9 the periodic resume write
// obs = after every event [status hasbf (bits)*np completed handles doVerify haspersisted (bits)*np crashed]

type lifeH struct {
	r       *rand.Rand
	l       vLayout
	content []byte
	v       *torrent.VLoop
	np      int
	files   []int // indexes of non-padding files
	in      []int64
	obs     []int64
	seed    *torrent.VPeer
	note    map[string]int
	// what the allocator found when it was started
	lastExisting, lastMissing int64
}

func lifeStatus(s string) int64 {
	switch s {
	case "Stopped":
		return 0
	case "Downloading":
		return 1
	case "Seeding":
		return 2
	case "Allocating":
		return 4
	case "Verifying":
		return 5
	case "Stopping":
		return 6
	}
	return 9
}

func (h *lifeH) disk() (fex []int64, pok []int64) {
	img := make([]byte, h.l.Total)
	var off int64
	for i, n := range h.l.Lens {
		if !h.l.Pads[i] {
			f, ok := h.v.Sto.Files[h.l.FileName(i)]
			if ok {
				copy(img[off:off+n], f.B)
			}
		}
		off += n
	}
	for _, i := range h.files {
		_, ok := h.v.Sto.Files[h.l.FileName(i)]
		fex = append(fex, b2i(ok))
	}
	// a piece is "ok" when every byte of it on disk is the content and every file it touches exists
	off = 0
	exists := make([]bool, h.l.Total+1)
	for i, n := range h.l.Lens {
		ok := h.l.Pads[i]
		if !ok {
			_, ok = h.v.Sto.Files[h.l.FileName(i)]
		}
		for k := off; k < off+n; k++ {
			exists[k] = ok
		}
		off += n
	}
	for p := 0; p < h.np; p++ {
		lo := int64(p) * h.l.PL
		hi := lo + h.l.PieceLen(p)
		good := string(img[lo:hi]) == string(h.content[lo:hi])
		pok = append(pok, b2i(good))
	}
	return
}

func (h *lifeH) observe() {
	s := h.v.Snapshot()
	h.obs = append(h.obs, lifeStatus(s.Status), b2i(s.Have != nil))
	for i := 0; i < h.np; i++ {
		h.obs = append(h.obs, b2i(i < len(s.Have) && s.Have[i]))
	}
	handles := int64(h.v.Sto.Handles())
	if s.Status == "Allocating" {
		handles = -1 // the allocator is opening files right now
	}
	h.obs = append(h.obs, b2i(s.Completed), handles, b2i(s.DoVerify))
	pb := h.v.PersistedBitfield(h.np)
	h.obs = append(h.obs, b2i(pb != nil))
	for i := 0; i < h.np; i++ {
		h.obs = append(h.obs, b2i(pb != nil && pb[i]))
	}
	h.obs = append(h.obs, b2i(h.v.Crash != ""))
}

func (h *lifeH) padOnly() []int64 {
	var out []int64
	for p := 0; p < h.np; p++ {
		lo := int64(p) * h.l.PL
		hi := lo + h.l.PieceLen(p)
		only := true
		var off int64
		for i, n := range h.l.Lens {
			if !h.l.Pads[i] && n > 0 && off < hi && off+n > lo {
				only = false
			}
			off += n
		}
		out = append(out, b2i(only))
	}
	return out
}

// download lets an honest seed deliver one piece; returns the piece index or -1.
func (h *lifeH) download() int {
	v := h.v
	if h.seed == nil || h.seed.Pe.Closed {
		vp, err := v.AddPeer(false, false, peersource.Incoming)
		if err != nil {
			return -1
		}
		h.seed = vp
		bits := make([]byte, (h.np+7)/8)
		for i := 0; i < h.np; i++ {
			bits[i/8] |= 0x80 >> uint(i%8)
		}
		_ = vp.Send(5, bits)
		v.PumpEx(10*time.Second, torrent.ClsMsg)
		_ = vp.Send(1, nil)
		v.PumpEx(10*time.Second, torrent.ClsMsg)
	}
	before := v.Snapshot()
	for step := 0; step < 12; step++ {
		v.Barrier()
		fs, _ := h.seed.Take()
		sent := false
		for _, f := range fs {
			if f.ID != 6 || len(f.Payload) < 12 {
				continue
			}
			idx := int64(be32(f.Payload[0:]))
			begin := int64(be32(f.Payload[4:]))
			n := int64(be32(f.Payload[8:]))
			lo := idx*h.l.PL + begin
			pl := append(u32s(idx, begin), h.content[lo:lo+n]...)
			if h.seed.Send(7, pl) != nil {
				return -1
			}
			sent = true
			e := v.PumpEx(10*time.Second, torrent.ClsPiece)
			if e.Code == torrent.EvNone {
				return -1
			}
			if v.WriteInFlight() {
				e := v.PumpEx(10*time.Second, torrent.ClsWrite)
				if e.Code == torrent.EvNone {
					return -1
				}
				after := v.Snapshot()
				for i := 0; i < h.np; i++ {
					if i < len(after.Have) && after.Have[i] && !(i < len(before.Have) && before.Have[i]) {
						return i
					}
				}
				return int(e.Index)
			}
		}
		if !sent {
			break
		}
	}
	return -1
}

func be32(b []byte) uint32 {
	return uint32(b[0])<<24 | uint32(b[1])<<16 | uint32(b[2])<<8 | uint32(b[3])
}

func genLife(r *rand.Rand, tier string) Case {
	l := genVLayout(r, 3)
	content := l.Content(r.Int63())
	np := l.NumPieces()
	h := &lifeH{r: r, l: l, content: content, np: np, note: map[string]int{}}
	for i := range l.Lens {
		if !l.Pads[i] {
			h.files = append(h.files, i)
		}
	}
	// initial disk: nothing, everything, or everything with damage / a missing file
	image := map[string][]byte{}
	switch r.Intn(4) {
	case 1:
		image = l.Preload(content)
	case 2:
		image = l.Preload(content)
		bad := r.Intn(np)
		pos := int64(bad)*l.PL + r.Int63n(l.PieceLen(bad))
		var off int64
		for i, n := range l.Lens {
			if pos >= off && pos < off+n && !l.Pads[i] {
				image[l.FileName(i)][pos-off] ^= 0xFF
			}
			off += n
		}
	case 3:
		image = l.Preload(content)
		if len(h.files) > 1 {
			delete(image, l.FileName(h.files[r.Intn(len(h.files))]))
		}
	}
	info := l.InfoBytes(content, -1)
	v, err := torrent.NewVLoop(torrent.VLoopOpts{TorrentFile: torrent.BuildTorrentFile(info, nil), Preload: image, Tune: func(c *torrent.Config) {
		c.RequestTimeout = time.Hour
		c.PieceReadTimeout = time.Hour
		c.UnchokedPeers = 0
		c.OptimisticUnchokedPeers = 0
	}})
	if err != nil {
		return Case{In: []int64{0}, Obs: []int64{-710}}
	}
	defer v.Close()
	v.Truth, v.PL = content, l.PL
	h.v = v
	fex, pok := h.disk()
	h.in = []int64{int64(np), int64(len(h.files))}
	h.in = append(h.in, fex...)
	h.in = append(h.in, pok...)
	h.observe()
	steps := 4 + r.Intn(14)
	// scripted skeletons reach the deep states (complete, delete, restart, verify, ...); random steps are mixed in
	var script []int
	switch r.Intn(6) {
	case 0: // download everything, stop, lose the files, start again
		script = []int{10, 50, 70, 70, 70, 70, 30, 50, 90, 10, 50, 50, 70}
	case 1: // complete, verify finds damage, download again
		script = []int{10, 50, 70, 70, 70, 70, 30, 50, 92, 40, 50, 50, 50, 10, 50, 50, 70, 70}
	case 2: // verify a torrent that has no data
		script = []int{40, 50, 50, 50, 10, 50}
	case 3: // stop while allocating / verifying
		script = []int{10, 30, 50, 10, 50, 50, 30, 50}
	}
	for i := 0; (i < steps || i < len(script)) && i < 24 && v.Crash == ""; i++ {
		s := v.Snapshot()
		st := lifeStatus(s.Status)
		fexBefore, _ := h.disk()
		x := r.Intn(100)
		if i < len(script) && r.Intn(8) > 0 {
			x = script[i]
		}
		switch {
		case x < 4:
			v.PersistNow()
			h.in = append(h.in, 9)
		case x < 22:
			v.Start()
			h.in = append(h.in, 1)
		case x < 36:
			v.Stop()
			h.seed = nil
			h.in = append(h.in, 2)
		case x < 46:
			v.Verify()
			h.seed = nil
			h.in = append(h.in, 3)
		case x < 62: // release a worker result, whichever is due
			cls := 0
			switch st {
			case 4:
				cls = torrent.ClsAlloc
			case 5:
				cls = torrent.ClsVerify
			case 6:
				cls = torrent.ClsStopped
			default:
				continue
			}
			e := v.PumpEx(10*time.Second, cls)
			switch e.Code {
			case torrent.EvAllocDone:
				fex, pok := h.disk()
				h.in = append(h.in, 4, h.lastExisting, h.lastMissing)
				h.in = append(h.in, h.padOnly()...)
				h.in = append(h.in, pok...)
				h.in = append(h.in, fex...)
			case torrent.EvVerifyDone:
				h.in = append(h.in, 5)
			case torrent.EvAnnouncersStopped:
				h.in = append(h.in, 6)
			default:
				h.note["workertimeout"]++
				continue
			}
		case x < 80:
			if st != 1 || v.WriteInFlight() {
				continue
			}
			i := h.download()
			if i < 0 {
				h.note["nodownload"]++
				continue
			}
			h.in = append(h.in, 7, int64(i))
		default: // the files change while the torrent is stopped
			if st != 0 {
				continue
			}
			m := r.Intn(4)
			if x == 90 {
				m = 0
			}
			if x == 92 {
				m = 2
			}
			switch m {
			case 0:
				for _, i := range h.files {
					v.Sto.Delete(l.FileName(i))
				}
			case 1:
				v.Sto.Delete(l.FileName(h.files[r.Intn(len(h.files))]))
			case 2:
				p := r.Intn(np)
				pos := int64(p)*l.PL + r.Int63n(l.PieceLen(p))
				var off int64
				for i, n := range l.Lens {
					if pos >= off && pos < off+n && !l.Pads[i] {
						if f, ok := v.Sto.Files[l.FileName(i)]; ok && pos-off < int64(len(f.B)) {
							f.B[pos-off] ^= 0xFF
						}
					}
					off += n
				}
			case 3:
				for n, b := range l.Preload(content) {
					v.Sto.Preload(n, b)
				}
			}
			fex, pok := h.disk()
			h.in = append(h.in, 8)
			h.in = append(h.in, fex...)
			h.in = append(h.in, pok...)
		}
		// what the allocator found: the files as they were just before it was started
		if lifeStatus(v.Snapshot().Status) == 4 && st != 4 {
			h.lastExisting, h.lastMissing = 0, 0
			for _, e := range fexBefore {
				if e != 0 {
					h.lastExisting = 1
				} else {
					h.lastMissing = 1
				}
			}
		}
		h.observe()
	}
	note := ""
	for k, n := range h.note {
		note += fmt.Sprintf("%s=%d ", k, n)
	}
	if v.BarrierTimeouts > 0 {
		note += fmt.Sprintf(" barriertimeout=%d", v.BarrierTimeouts)
	}
	return Case{In: h.in, Obs: h.obs, Note: note}
}

func init() {
	Register(401, "lifecycle of a torrent in the stepped event loop: commands, worker results in any order, file changes while stopped", genLife)
}

//go:build verif

package verifhook

import (
	"math/rand"
	"sort"

	"github.com/cenkalti/rain/v2/internal/bufferpool"
	"github.com/cenkalti/rain/v2/internal/filesection"
	"github.com/cenkalti/rain/v2/internal/piece"
	"github.com/cenkalti/rain/v2/internal/piecedownloader"
)

type pdPeer struct {
	fast bool
	reqs [][2]int64
}

func (p *pdPeer) RequestPiece(index, begin, length uint32) {
	p.reqs = append(p.reqs, [2]int64{int64(begin), int64(length)})
}
func (p *pdPeer) CancelPiece(index, begin, length uint32) {}
func (p *pdPeer) EnabledFast() bool                       { return p.fast }

func runPieceDl(in []int64) []int64 {
	ns := int(in[1])
	var pi piece.Piece
	for i := 0; i < ns; i++ {
		l := in[2+2*i]
		pi.Data = append(pi.Data, filesection.FileSection{Length: l, Padding: in[3+2*i] != 0})
		pi.Length += uint32(l)
	}
	rest := in[2+2*ns:]
	af, fast := rest[0] != 0, rest[1] != 0
	ops := rest[2:]
	pe := &pdPeer{fast: fast}
	pool := bufferpool.New(int(pi.Length))
	d := piecedownloader.New(&pi, pe, af, pool.Get(int(pi.Length)))
	blocks := pi.CalculateBlocks()
	var obs []int64
	tail := func() {
		obs = append(obs, b2i(d.Done()))
		obs = append(obs, int64(d.PendingLen()))
		for _, b := range blocks {
			obs = append(obs, int64(d.Buffer.Data[b.Begin]), int64(d.Buffer.Data[b.Begin+b.Length-1]))
		}
	}
	for len(ops) > 0 {
		switch ops[0] {
		case 1:
			pe.reqs = nil
			d.RequestBlocks(int(ops[1]))
			sort.Slice(pe.reqs, func(a, b int) bool { return pe.reqs[a][0] < pe.reqs[b][0] })
			obs = append(obs, int64(len(pe.reqs)))
			for _, r := range pe.reqs {
				obs = append(obs, r[0], r[1])
			}
			ops = ops[2:]
		case 2:
			data := make([]byte, ops[2])
			for i := range data {
				data[i] = byte(ops[3])
			}
			err := d.GotBlock(uint32(ops[1]), data)
			code := int64(0)
			switch err {
			case piecedownloader.ErrBlockInvalid:
				code = 1
			case piecedownloader.ErrBlockDuplicate:
				code = 2
			case piecedownloader.ErrBlockNotRequested:
				code = 3
			}
			obs = append(obs, code)
			ops = ops[4:]
		case 3:
			d.Choked()
			ops = ops[1:]
		case 4:
			obs = append(obs, b2i(d.Rejected(uint32(ops[1]), uint32(ops[2]))))
			ops = ops[3:]
		default:
			return obs
		}
		tail()
	}
	return obs
}

func genPieceDl(r *rand.Rand, tier string) Case {
	ns := 1 + r.Intn(4)
	in := []int64{16384, int64(ns)}
	var total int64
	for i := 0; i < ns; i++ {
		l := pick(r, 1, 1000, 16384, 16385, 20000, 32768, 5000)
		pad := r.Intn(4) == 0
		in = append(in, l, b2i(pad))
		total += l
	}
	// blocks as the model computes them are not known here; use the real ones for steering
	var pi piece.Piece
	for i := 0; i < ns; i++ {
		pi.Data = append(pi.Data, filesection.FileSection{Length: in[2+2*i], Padding: in[3+2*i] != 0})
		pi.Length += uint32(in[2+2*i])
	}
	blocks := pi.CalculateBlocks()
	if len(blocks) == 0 {
		in[3] = 0 // make the first section data so that there is at least one block
		pi.Data[0].Padding = false
		blocks = pi.CalculateBlocks()
	}
	in = append(in, b2i(r.Intn(4) == 0), b2i(r.Intn(2) == 0))
	nops := 4 + r.Intn(14)
	afterChoke := false
	for i := 0; i < nops; i++ {
		switch x := r.Intn(10); {
		case x < 3:
			q := pick(r, 0, 1, 2, 5, 100)
			if afterChoke {
				q = 1000
				afterChoke = false
			}
			in = append(in, 1, q)
		case x < 8:
			b := blocks[r.Intn(len(blocks))]
			begin, n := int64(b.Begin), int64(b.Length)
			switch r.Intn(8) {
			case 0:
				n = pick(r, 0, n-1, n+1, 16384)
			case 1:
				begin = pick(r, begin+1, total, 1<<32-1, 0)
			}
			if n < 0 {
				n = 0
			}
			in = append(in, 2, begin, n, int64(1+r.Intn(250)))
		case x < 9:
			in = append(in, 3)
			afterChoke = true
		default:
			b := blocks[r.Intn(len(blocks))]
			in = append(in, 4, int64(b.Begin), pick(r, int64(b.Length), int64(b.Length), 1))
		}
	}
	return Case{In: in, Obs: Guard(func() []int64 { return runPieceDl(in) })}
}

func init() {
	Register(102, "piecedownloader RequestBlocks/GotBlock/Choked/Rejected sequences with a recording peer", genPieceDl)
	RegisterReplay(102, runPieceDl)
}

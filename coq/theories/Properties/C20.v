(* C20 — no data races or lock-ups under concurrent API use: the ownership discipline.  PARTIAL: see DESIGN.md. *)
From RainV Require Import Lib Owner OwnerProofs.

(* In every execution in which locks are used correctly (an acquire finds the lock free, a release is made
   by the holder), two accesses of a field by different threads that both hold the same lock are ordered:
   the first thread releases the lock and the second acquires it in between.  Together with program order
   and the unlock-before-lock rule of the Go memory model this is a happens-before chain, so the two
   accesses are not a data race.  The rule checked on the regenerated table (mon_owner) demands exactly
   that premise of every access made outside the event loop to a field that is written after construction. *)
Theorem C20_guarded_accesses_are_ordered : forall l f t1 t2 w1 w2 pre mid post s0,
  t1 <> t2 ->
  wf s0 (pre ++ Acc t1 f w1 :: mid ++ Acc t2 f w2 :: post) ->
  run s0 pre l = Some t1 ->
  run s0 (pre ++ Acc t1 f w1 :: mid) l = Some t2 ->
  exists a b c, mid = a ++ Rel t1 l :: b ++ Acq t2 l :: c.
Proof. exact guarded_accesses_are_ordered. Qed.
Print Assumptions C20_guarded_accesses_are_ordered.

Theorem C20_rule_demands_the_lock : forall field func locks flock,
  access_ok field func locks flock true = true -> is_justified field func = false -> Z.land locks flock <> 0.
Proof. exact access_ok_holds_lock. Qed.
Print Assumptions C20_rule_demands_the_lock.

Theorem C20_lock_order_has_no_self_loop : forall es a, acyclic es = true -> In (a, a) es -> False.
Proof. exact acyclic_no_self_loop. Qed.
Print Assumptions C20_lock_order_has_no_self_loop.

//go:build verif

package verifhook

import (
	"math/rand"
	"strconv"

	"github.com/cenkalti/rain/v2/internal/allocator"
	"github.com/cenkalti/rain/v2/internal/filesection"
	"github.com/cenkalti/rain/v2/internal/metainfo"
	"github.com/cenkalti/rain/v2/internal/piece"
	"github.com/zeebo/bencode"
)

type benFile struct {
	Length int64    `bencode:"length"`
	Path   []string `bencode:"path"`
	Attr   string   `bencode:"attr,omitempty"`
}

// InfoBytes builds a bencoded info dictionary for the given layout.
func InfoBytes(name string, pieceLen int64, nPieces int, lens []int64, pads []bool, single bool) []byte {
	d := map[string]any{
		"name":         name,
		"piece length": pieceLen,
		"pieces":       string(make([]byte, 20*nPieces)),
	}
	if single {
		d["length"] = lens[0]
	} else {
		fs := make([]benFile, len(lens))
		for i := range lens {
			fs[i] = benFile{Length: lens[i], Path: []string{"f" + strconv.Itoa(i)}}
			if pads[i] {
				fs[i].Attr = "p"
			}
		}
		d["files"] = fs
	}
	b, err := bencode.EncodeBytes(d)
	if err != nil {
		panic(err)
	}
	return b
}

// layout generator with a bias to coincidences of file, piece and block boundaries
func genLayout(r *rand.Rand, unit int64, maxFiles int) (pl int64, lens []int64, pads []bool) {
	pl = unit * int64(1+r.Intn(4))
	if r.Intn(3) == 0 {
		pl = unit*int64(1+r.Intn(3)) + int64(r.Intn(int(unit))) // not a multiple of the block size
	}
	nf := 1 + r.Intn(maxFiles)
	special := []int64{0, 1, unit - 1, unit, unit + 1, pl - 1, pl, pl + 1, 2 * pl, 3*pl - 1}
	for i := 0; i < nf; i++ {
		var l int64
		switch r.Intn(4) {
		case 0:
			l = special[r.Intn(len(special))]
		case 1:
			l = int64(r.Intn(int(2*pl) + 1))
		case 2:
			l = int64(r.Intn(int(unit) + 1))
		default:
			// pad/fill up to the next piece boundary
			var tot int64
			for _, x := range lens {
				tot += x
			}
			l = (pl - tot%pl) % pl
		}
		if l < 0 {
			l = 0
		}
		lens = append(lens, l)
		pads = append(pads, r.Intn(3) == 0)
	}
	var tot int64
	for _, x := range lens {
		tot += x
	}
	if tot == 0 {
		lens[len(lens)-1] = 1 + int64(r.Intn(int(pl)))
	}
	return
}

func sumLens(lens []int64) (t int64) {
	for _, x := range lens {
		t += x
	}
	return
}

// NewPiecesFor runs metainfo.NewInfo + piece.NewPieces on a layout.
func NewPiecesFor(pl int64, lens []int64, pads []bool) (*metainfo.Info, []piece.Piece, error) {
	tot := sumLens(lens)
	np := int((tot + pl - 1) / pl)
	b := InfoBytes("t", pl, np, lens, pads, false)
	info, err := metainfo.NewInfo(b, true, true)
	if err != nil {
		return nil, nil, err
	}
	files := make([]allocator.File, len(info.Files))
	for i, f := range info.Files {
		files[i] = allocator.File{Name: f.Path, Padding: f.Padding}
	}
	return info, piece.NewPieces(info, files), nil
}

func runNewPieces(in []int64) []int64 {
	pl := in[0]
	nf := int(in[2])
	lens := make([]int64, nf)
	pads := make([]bool, nf)
	for i := 0; i < nf; i++ {
		lens[i] = in[3+2*i]
		pads[i] = in[4+2*i] != 0
	}
	info, ps, err := NewPiecesFor(pl, lens, pads)
	if err != nil {
		return []int64{-700}
	}
	idx := map[string]int64{}
	for i, f := range info.Files {
		if _, ok := idx[f.Path]; !ok {
			idx[f.Path] = int64(i)
		}
	}
	var obs []int64
	for _, p := range ps {
		obs = append(obs, int64(p.Length), int64(len(p.Data)))
		for _, s := range p.Data {
			obs = append(obs, idx[s.Name], s.Offset, s.Length, b2i(s.Padding))
		}
	}
	return obs
}

func genNewPieces(r *rand.Rand, tier string) Case {
	unit := []int64{4, 8, 16, 16384}[r.Intn(4)]
	pl, lens, pads := genLayout(r, unit, 9)
	tot := sumLens(lens)
	np := (tot + pl - 1) / pl
	in := []int64{pl, np, int64(len(lens))}
	for i := range lens {
		in = append(in, lens[i], b2i(pads[i]))
	}
	return Case{In: in, Obs: Guard(func() []int64 { return runNewPieces(in) })}
}

func runCalcBlocks(in []int64) []int64 {
	bs := uint32(in[0])
	ns := int(in[1])
	var p piece.Piece
	for i := 0; i < ns; i++ {
		l := in[2+2*i]
		p.Data = append(p.Data, filesection.FileSection{Length: l, Padding: in[3+2*i] != 0})
		p.Length += uint32(l)
	}
	var obs []int64
	for _, b := range p.CalculateBlocksN(bs) {
		obs = append(obs, int64(b.Begin), int64(b.Length))
	}
	return obs
}

func genCalcBlocks(r *rand.Rand, tier string) Case {
	bs := []int64{4, 8, 16, 16384}[r.Intn(4)]
	ns := 1 + r.Intn(7)
	in := []int64{bs, int64(ns)}
	special := []int64{0, 1, bs - 1, bs, bs + 1, 2 * bs, 2*bs + 3}
	for i := 0; i < ns; i++ {
		var l int64
		if r.Intn(2) == 0 {
			l = special[r.Intn(len(special))]
		} else {
			l = int64(r.Intn(int(3*bs) + 1))
		}
		in = append(in, l, b2i(r.Intn(3) == 0))
	}
	return Case{In: in, Obs: Guard(func() []int64 { return runCalcBlocks(in) })}
}

func init() {
	Register(201, "metainfo.NewInfo + piece.NewPieces on generated layouts", genNewPieces)
	RegisterReplay(201, runNewPieces)
	Register(202, "piece.calculateBlocks(bs) on generated section lists", genCalcBlocks)
	RegisterReplay(202, runCalcBlocks)
}

//go:build verif

package announcer

import (
	"time"

	"github.com/cenkalti/backoff/v7"
)

// SetBackoffForVerif replaces the exponential back-off (5 s initial) by a constant one so that
// error paths can be observed in milliseconds.
func (a *PeriodicalAnnouncer) SetBackoffForVerif(d time.Duration) { a.backoff = backoff.NewConstantBackOff(d) }
